(* Proofs/DumpGrammarProofs.v — the reference automaton [ref_step] consumes
   exactly the prefixes of the declarative language of Spec/DumpGrammar.v, ends
   a dump / fails exactly where the language says, and so does [scan]. *)
From PP Require Import Base.Bytes Base.BytesX Base.Num Base.GoResult Model.Types Model.Lines Model.FuncInit Model.ParseArgs Model.Scan.
From PP Require Import Proofs.ScanInv Spec.RefGrammar Proofs.GrammarProofs Spec.SeqSpec Spec.DumpGrammar.

(* ------------------------------------------------------------------ *)
(* 1. one step of the automaton, per state, in terms of line classes   *)
(* ------------------------------------------------------------------ *)

Ltac classes :=
  unfold indented, is_header, is_unavail, is_first_func, is_file, is_created, is_elided,
    is_next_func, is_blank_after_stack, is_blank, is_created_after_unavail,
    is_race_open, is_warning, is_op, is_prev, is_racegor_first, is_racegor_next,
    is_rfunc_first, is_rfunc_op, is_rfunc_gor, is_race_close, malformed_stack_line in *.

Ltac tbl k :=
  destruct k as [ind hdr fn fnl fl cr bl el un sep wr op pv rg];
  classes; unfold ref_step, on_func, on_file, on_racegor; kred; cbv beta iota delta [negb].

Ltac tbl_solve :=
  destruct_matches; split; intros H;
  try discriminate H; try (injection H as <-);
  intuition (try congruence; try discriminate).

Lemma step_looking : forall k st',
  ref_step looking k = (st', Consume) <->
  indented k /\ ((is_header k /\ st' = gotRoutineHeader) \/ (is_race_open k /\ st' = gotRaceHeader1)).
Proof. intros k st'. tbl k. tbl_solve. Qed.

Lemma step_between : forall k st',
  ref_step betweenRoutine k = (st', Consume) <-> indented k /\ is_header k /\ st' = gotRoutineHeader.
Proof. intros k st'. tbl k. tbl_solve. Qed.

Lemma step_header : forall k st',
  ref_step gotRoutineHeader k = (st', Consume) <->
  indented k /\ ((is_unavail k /\ st' = gotUnavail) \/ (is_first_func k /\ st' = gotFunc)).
Proof. intros k st'. tbl k. tbl_solve. Qed.

Lemma step_func : forall k st',
  ref_step gotFunc k = (st', Consume) <-> indented k /\ is_file k /\ st' = gotFileFunc.
Proof. intros k st'. tbl k. tbl_solve. Qed.

Lemma step_filefunc : forall k st',
  ref_step gotFileFunc k = (st', Consume) <->
  indented k /\
  ((is_created k /\ st' = gotCreated) \/ (is_elided k /\ st' = gotFileFunc) \/
   (is_next_func k /\ st' = gotFunc) \/ (is_blank_after_stack k /\ st' = betweenRoutine)).
Proof. intros k st'. tbl k. tbl_solve. Qed.

Lemma step_created : forall k st',
  ref_step gotCreated k = (st', Consume) <-> indented k /\ is_file k /\ st' = gotFileCreated.
Proof. intros k st'. tbl k. tbl_solve. Qed.

Lemma step_filecreated : forall k st',
  ref_step gotFileCreated k = (st', Consume) <-> indented k /\ is_blank k /\ st' = betweenRoutine.
Proof. intros k st'. tbl k. tbl_solve. Qed.

Lemma step_unavail : forall k st',
  ref_step gotUnavail k = (st', Consume) <->
  indented k /\ ((is_blank k /\ st' = betweenRoutine) \/ (is_created_after_unavail k /\ st' = gotCreated)).
Proof. intros k st'. tbl k. tbl_solve. Qed.

Lemma step_rh1 : forall k st',
  ref_step gotRaceHeader1 k = (st', Consume) <-> indented k /\ is_warning k /\ st' = gotRaceHeader2.
Proof. intros k st'. tbl k. tbl_solve. Qed.

Lemma step_rh2 : forall k st',
  ref_step gotRaceHeader2 k = (st', Consume) <-> indented k /\ is_op k /\ st' = gotRaceOperationHeader.
Proof. intros k st'. tbl k. tbl_solve. Qed.

Lemma step_roh : forall k st',
  ref_step gotRaceOperationHeader k = (st', Consume) <->
  indented k /\ is_rfunc_first k /\ st' = gotRaceOperationFunc.
Proof. intros k st'. tbl k. tbl_solve. Qed.

Lemma step_rofn : forall k st',
  ref_step gotRaceOperationFunc k = (st', Consume) <->
  indented k /\ is_file k /\ st' = gotRaceOperationFile.
Proof. intros k st'. tbl k. tbl_solve. Qed.

Lemma step_rofile : forall k st',
  ref_step gotRaceOperationFile k = (st', Consume) <->
  indented k /\ ((is_blank k /\ st' = betweenRaceOperations) \/ (is_rfunc_op k /\ st' = gotRaceOperationFunc)).
Proof. intros k st'. tbl k. tbl_solve. Qed.

Lemma step_bro : forall k st',
  ref_step betweenRaceOperations k = (st', Consume) <->
  indented k /\ ((is_prev k /\ st' = gotRaceOperationHeader) \/ (is_racegor_first k /\ st' = gotRaceGoroutineHeader)).
Proof. intros k st'. tbl k. tbl_solve. Qed.

Lemma step_brg : forall k st',
  ref_step betweenRaceGoroutines k = (st', Consume) <->
  indented k /\ is_racegor_next k /\ st' = gotRaceGoroutineHeader.
Proof. intros k st'. tbl k. tbl_solve. Qed.

Lemma step_rgh : forall k st',
  ref_step gotRaceGoroutineHeader k = (st', Consume) <->
  indented k /\ is_rfunc_first k /\ st' = gotRaceGoroutineFunc.
Proof. intros k st'. tbl k. tbl_solve. Qed.

Lemma step_rgfn : forall k st',
  ref_step gotRaceGoroutineFunc k = (st', Consume) <->
  indented k /\ is_file k /\ st' = gotRaceGoroutineFile.
Proof. intros k st'. tbl k. tbl_solve. Qed.

Lemma step_rgfile : forall k st',
  ref_step gotRaceGoroutineFile k = (st', Consume) <->
  indented k /\
  ((is_blank k /\ st' = betweenRaceGoroutines) \/ (is_race_close k /\ st' = done) \/
   (is_rfunc_gor k /\ st' = gotRaceGoroutineFunc)).
Proof. intros k st'. tbl k. tbl_solve. Qed.

Lemma step_done : forall k st', ref_step done k = (st', Consume) -> False.
Proof. intros k st'. tbl k. destruct ind; intros H; discriminate H. Qed.

(* ------------------------------------------------------------------ *)
(* 2. runs                                                             *)
(* ------------------------------------------------------------------ *)

Lemma consume_cons : forall st k ks st2,
  ref_consume st (k :: ks) = Some st2 <->
  exists st1, ref_step st k = (st1, Consume) /\ ref_consume st1 ks = Some st2.
Proof.
  intros st k ks st2. cbn [ref_consume].
  destruct (ref_step st k) as [st1 v]. split.
  - intros H. destruct v; try discriminate H. exists st1. split; [reflexivity|exact H].
  - intros (st1' & H1 & H2). injection H1 as <- ->. exact H2.
Qed.

Lemma consume_app : forall a b st,
  ref_consume st (a ++ b) =
  match ref_consume st a with Some st' => ref_consume st' b | None => None end.
Proof.
  induction a as [|k a IH]; intros b st; [reflexivity|].
  cbn [app ref_consume]. destruct (ref_step st k) as [st1 v].
  destruct v; try reflexivity. apply IH.
Qed.

Lemma consume_indented : forall ks st st', ref_consume st ks = Some st' -> Forall indented ks.
Proof.
  induction ks as [|k ks IH]; intros st st' H; [constructor|].
  apply consume_cons in H. destruct H as (st1 & H1 & H2).
  constructor; [|apply (IH _ _ H2)].
  unfold indented. destruct (k_indent_ok k) eqn:E; [reflexivity|].
  unfold ref_step in H1. rewrite E in H1. discriminate H1.
Qed.

Lemma consume_step : forall st k st1 ks,
  ref_step st k = (st1, Consume) -> ref_consume st (k :: ks) = ref_consume st1 ks.
Proof. intros st k st1 ks H. cbn [ref_consume]. rewrite H. reflexivity. Qed.

(* ------------------------------------------------------------------ *)
(* 3. goroutine dumps: the grammar is accepted (soundness)             *)
(* ------------------------------------------------------------------ *)

(* where the automaton stands at a goroutine boundary *)
Definition dstate (x : dend) : state :=
  match x with
  | AfterBlank => betweenRoutine
  | AfterGoroutine EndStack => gotFileFunc
  | AfterGoroutine EndCreated => gotFileCreated
  | AfterGoroutine EndUnavail => gotUnavail
  end.

Lemma Forall_app_l : forall (P : kinds -> Prop) a b, Forall P (a ++ b) -> Forall P a.
Proof. intros P a b H. apply Forall_app in H. apply H. Qed.
Lemma Forall_app_r : forall (P : kinds -> Prop) a b, Forall P (a ++ b) -> Forall P b.
Proof. intros P a b H. apply Forall_app in H. apply H. Qed.

Lemma stack_rest_run : forall rest, stack_rest rest -> Forall indented rest ->
  ref_consume gotFileFunc rest = Some gotFileFunc.
Proof.
  intros rest H. induction H as [|e rest He Hr IH|f l rest Hf Hl Hr IH]; intros Hi.
  - reflexivity.
  - inversion Hi as [|? ? Hi1 Hi2]; subst.
    rewrite (consume_step gotFileFunc e gotFileFunc); [apply IH; exact Hi2|].
    apply step_filefunc. split; [exact Hi1|]. right. left. split; [exact He|reflexivity].
  - inversion Hi as [|? ? Hi1 Hi2]; subst. inversion Hi2 as [|? ? Hi3 Hi4]; subst.
    rewrite (consume_step gotFileFunc f gotFunc).
    2:{ apply step_filefunc. split; [exact Hi1|]. right. right. left. split; [exact Hf|reflexivity]. }
    rewrite (consume_step gotFunc l gotFileFunc).
    2:{ apply step_func. split; [exact Hi3|]. split; [exact Hl|reflexivity]. }
    apply IH. exact Hi4.
Qed.

Definition start_state (st : state) : Prop := st = looking \/ st = betweenRoutine.

Lemma header_run : forall st h, start_state st -> indented h -> is_header h ->
  ref_step st h = (gotRoutineHeader, Consume).
Proof.
  intros st h [->| ->] Hi Hh.
  - apply step_looking. split; [exact Hi|]. left. split; [exact Hh|reflexivity].
  - apply step_between. split; [exact Hi|]. split; [exact Hh|reflexivity].
Qed.

Lemma goroutine_run : forall e g, goroutine e g -> Forall indented g ->
  forall st, start_state st -> ref_consume st g = Some (dstate (AfterGoroutine e)).
Proof.
  intros e g H Hi st Hst.
  destruct H as [h f l rest Hh Hf Hl Hr|h f l rest c cl Hh Hf Hl Hr Hc Hcl|h u Hh Hu|h u c cl Hh Hu Hc Hcl].
  - inversion Hi as [|? ? I1 I2]; subst. inversion I2 as [|? ? I3 I4]; subst. inversion I4 as [|? ? I5 I6]; subst.
    rewrite (consume_step st h gotRoutineHeader) by (apply header_run; assumption).
    rewrite (consume_step gotRoutineHeader f gotFunc).
    2:{ apply step_header. split; [exact I3|]. right. split; [exact Hf|reflexivity]. }
    rewrite (consume_step gotFunc l gotFileFunc).
    2:{ apply step_func. split; [exact I5|]. split; [exact Hl|reflexivity]. }
    apply stack_rest_run; assumption.
  - inversion Hi as [|? ? I1 I2]; subst. inversion I2 as [|? ? I3 I4]; subst. inversion I4 as [|? ? I5 I6]; subst.
    rewrite (consume_step st h gotRoutineHeader) by (apply header_run; assumption).
    rewrite (consume_step gotRoutineHeader f gotFunc).
    2:{ apply step_header. split; [exact I3|]. right. split; [exact Hf|reflexivity]. }
    rewrite (consume_step gotFunc l gotFileFunc).
    2:{ apply step_func. split; [exact I5|]. split; [exact Hl|reflexivity]. }
    rewrite consume_app. rewrite (stack_rest_run rest Hr (Forall_app_l _ _ _ I6)).
    apply Forall_app_r in I6. inversion I6 as [|? ? I7 I8]; subst. inversion I8 as [|? ? I9 I10]; subst.
    rewrite (consume_step gotFileFunc c gotCreated).
    2:{ apply step_filefunc. split; [exact I7|]. left. split; [exact Hc|reflexivity]. }
    rewrite (consume_step gotCreated cl gotFileCreated).
    2:{ apply step_created. split; [exact I9|]. split; [exact Hcl|reflexivity]. }
    reflexivity.
  - inversion Hi as [|? ? I1 I2]; subst. inversion I2 as [|? ? I3 I4]; subst.
    rewrite (consume_step st h gotRoutineHeader) by (apply header_run; assumption).
    rewrite (consume_step gotRoutineHeader u gotUnavail).
    2:{ apply step_header. split; [exact I3|]. left. split; [exact Hu|reflexivity]. }
    reflexivity.
  - inversion Hi as [|? ? I1 I2]; subst. inversion I2 as [|? ? I3 I4]; subst.
    inversion I4 as [|? ? I5 I6]; subst. inversion I6 as [|? ? I7 I8]; subst.
    rewrite (consume_step st h gotRoutineHeader) by (apply header_run; assumption).
    rewrite (consume_step gotRoutineHeader u gotUnavail).
    2:{ apply step_header. split; [exact I3|]. left. split; [exact Hu|reflexivity]. }
    rewrite (consume_step gotUnavail c gotCreated).
    2:{ apply step_unavail. split; [exact I5|]. right. split; [exact Hc|reflexivity]. }
    rewrite (consume_step gotCreated cl gotFileCreated).
    2:{ apply step_created. split; [exact I7|]. split; [exact Hcl|reflexivity]. }
    reflexivity.
Qed.

Lemma separator_run : forall e b, is_separator_after e b -> indented b ->
  ref_step (dstate (AfterGoroutine e)) b = (betweenRoutine, Consume).
Proof.
  intros e b Hb Hi. destruct e; cbn [dstate is_separator_after] in *.
  - apply step_filefunc. split; [exact Hi|]. right. right. right. split; [exact Hb|reflexivity].
  - apply step_filecreated. split; [exact Hi|]. split; [exact Hb|reflexivity].
  - apply step_unavail. split; [exact Hi|]. left. split; [exact Hb|reflexivity].
Qed.

Lemma dump_run : forall x d, dump x d -> Forall indented d ->
  forall st, start_state st -> ref_consume st d = Some (dstate x).
Proof.
  intros x d H. induction H as [e g Hg|e g b Hg Hb|e g b x d Hg Hb Hd IH]; intros Hi st Hst.
  - apply goroutine_run; assumption.
  - rewrite consume_app. rewrite (goroutine_run e g Hg (Forall_app_l _ _ _ Hi) st Hst).
    apply Forall_app_r in Hi. inversion Hi as [|? ? I1 I2]; subst.
    rewrite (consume_step _ b betweenRoutine) by (apply separator_run; assumption). reflexivity.
  - rewrite consume_app. rewrite (goroutine_run e g Hg (Forall_app_l _ _ _ Hi) st Hst).
    apply Forall_app_r in Hi. inversion Hi as [|? ? I1 I2]; subst.
    rewrite (consume_step _ b betweenRoutine) by (apply separator_run; assumption).
    apply IH; [exact I2|right; reflexivity].
Qed.

(* ------------------------------------------------------------------ *)
(* 4. goroutine dumps: what is accepted is in the grammar              *)
(* ------------------------------------------------------------------ *)

Lemma stack_rest_app : forall a b, stack_rest a -> stack_rest b -> stack_rest (a ++ b).
Proof.
  intros a b Ha Hb. induction Ha as [|e rest He Hr IH|f l rest Hf Hl Hr IH]; cbn [app].
  - exact Hb.
  - apply sr_elided; assumption.
  - apply sr_frame; assumption.
Qed.

Lemma goroutine_snoc_elided : forall pre e, goroutine EndStack pre -> is_elided e ->
  goroutine EndStack (pre ++ [e]).
Proof.
  intros pre e H He. inversion H as [h f l rest Hh Hf Hl Hr| | |]; subst. cbn [app].
  apply g_stack; try assumption. apply stack_rest_app; [exact Hr|]. apply sr_elided; [exact He|apply sr_nil].
Qed.

(* a goroutine whose next function line has been read, not yet its file line *)
Definition pending_func (pre : list kinds) (f : kinds) : Prop :=
  (exists h, pre = [h] /\ is_header h /\ is_first_func f) \/
  (goroutine EndStack pre /\ is_next_func f).

Definition pending_created (pre : list kinds) (c : kinds) : Prop :=
  (goroutine EndStack pre /\ is_created c) \/
  (goroutine EndUnavail pre /\ is_created_after_unavail c).

Lemma pending_func_file : forall pre f l, pending_func pre f -> is_file l ->
  goroutine EndStack (pre ++ [f; l]).
Proof.
  intros pre f l [(h & -> & Hh & Hf)|(Hg & Hf)] Hl.
  - cbn [app]. apply g_stack; try assumption. apply sr_nil.
  - inversion Hg as [h f0 l0 rest Hh Hf0 Hl0 Hr| | |]; subst. cbn [app].
    apply g_stack; try assumption. apply stack_rest_app; [exact Hr|].
    apply sr_frame; [exact Hf|exact Hl|apply sr_nil].
Qed.

Lemma pending_created_file : forall pre c l, pending_created pre c -> is_file l ->
  goroutine EndCreated (pre ++ [c; l]).
Proof.
  intros pre c l [(Hg & Hc)|(Hg & Hc)] Hl.
  - inversion Hg as [h f0 l0 rest Hh Hf0 Hl0 Hr| | |]; subst. cbn [app].
    apply g_stack_created; assumption.
  - inversion Hg as [| |h u Hh Hu|]; subst. cbn [app]. apply g_unavail_created; assumption.
Qed.

Lemma after_separator : forall e pre b ks x, goroutine e pre -> is_separator_after e b ->
  (ks = [] /\ x = AfterBlank) \/ dump x ks -> dump x (pre ++ b :: ks).
Proof.
  intros e pre b ks x Hg Hb [(-> & ->)|Hd].
  - apply (d_last_blank e); assumption.
  - apply (d_more e); assumption.
Qed.

Lemma app_snoc : forall (pre : list kinds) a ks, pre ++ a :: ks = (pre ++ [a]) ++ ks.
Proof. intros pre a ks. rewrite <- app_assoc. reflexivity. Qed.
Lemma app_snoc2 : forall (pre : list kinds) a b ks, pre ++ a :: b :: ks = (pre ++ [a; b]) ++ ks.
Proof. intros pre a b ks. rewrite <- app_assoc. reflexivity. Qed.

Lemma dump_parse : forall ks x,
  (ref_consume betweenRoutine ks = Some (dstate x) -> (ks = [] /\ x = AfterBlank) \/ dump x ks) /\
  (forall pre, goroutine EndStack pre -> ref_consume gotFileFunc ks = Some (dstate x) -> dump x (pre ++ ks)) /\
  (forall pre, goroutine EndCreated pre -> ref_consume gotFileCreated ks = Some (dstate x) -> dump x (pre ++ ks)) /\
  (forall pre, goroutine EndUnavail pre -> ref_consume gotUnavail ks = Some (dstate x) -> dump x (pre ++ ks)) /\
  (forall h, is_header h -> ref_consume gotRoutineHeader ks = Some (dstate x) -> dump x (h :: ks)) /\
  (forall pre f, pending_func pre f -> ref_consume gotFunc ks = Some (dstate x) -> dump x (pre ++ f :: ks)) /\
  (forall pre c, pending_created pre c -> ref_consume gotCreated ks = Some (dstate x) -> dump x (pre ++ c :: ks)).
Proof.
  induction ks as [|k ks IH]; intros x.
  - cbn [ref_consume]. repeat split.
    + intros H. left. split; [reflexivity|]. destruct x as [[]|]; try discriminate H. reflexivity.
    + intros pre Hg H. rewrite app_nil_r. destruct x as [[]|]; try discriminate H. apply d_last. exact Hg.
    + intros pre Hg H. rewrite app_nil_r. destruct x as [[]|]; try discriminate H. apply d_last. exact Hg.
    + intros pre Hg H. rewrite app_nil_r. destruct x as [[]|]; try discriminate H. apply d_last. exact Hg.
    + intros h Hh H. destruct x as [[]|]; discriminate H.
    + intros pre f Hp H. destruct x as [[]|]; discriminate H.
    + intros pre c Hp H. destruct x as [[]|]; discriminate H.
  - destruct (IH x) as (IB & IF & IC & IU & IH' & IFn & ICr). repeat split.
    + intros H. right. apply consume_cons in H. destruct H as (st1 & H1 & H2).
      apply step_between in H1. destruct H1 as (_ & Hh & ->). apply IH'; assumption.
    + intros pre Hg H. apply consume_cons in H. destruct H as (st1 & H1 & H2).
      apply step_filefunc in H1. destruct H1 as (_ & [(Hc & ->)|[(He & ->)|[(Hf & ->)|(Hb & ->)]]]).
      * apply ICr; [left; split; assumption|exact H2].
      * rewrite app_snoc. apply IF; [apply goroutine_snoc_elided; assumption|exact H2].
      * apply IFn; [right; split; assumption|exact H2].
      * apply (after_separator EndStack); [exact Hg|exact Hb|apply IB; exact H2].
    + intros pre Hg H. apply consume_cons in H. destruct H as (st1 & H1 & H2).
      apply step_filecreated in H1. destruct H1 as (_ & Hb & ->).
      apply (after_separator EndCreated); [exact Hg|exact Hb|apply IB; exact H2].
    + intros pre Hg H. apply consume_cons in H. destruct H as (st1 & H1 & H2).
      apply step_unavail in H1. destruct H1 as (_ & [(Hb & ->)|(Hc & ->)]).
      * apply (after_separator EndUnavail); [exact Hg|exact Hb|apply IB; exact H2].
      * apply ICr; [right; split; assumption|exact H2].
    + intros h Hh H. apply consume_cons in H. destruct H as (st1 & H1 & H2).
      apply step_header in H1. destruct H1 as (_ & [(Hu & ->)|(Hf & ->)]).
      * apply (IU [h; k]); [apply g_unavail; assumption|exact H2].
      * apply (IFn [h] k); [left; exists h; split; [reflexivity|split; assumption]|exact H2].
    + intros pre f Hp H. apply consume_cons in H. destruct H as (st1 & H1 & H2).
      apply step_func in H1. destruct H1 as (_ & Hl & ->).
      rewrite app_snoc2. apply IF; [apply pending_func_file; assumption|exact H2].
    + intros pre c Hp H. apply consume_cons in H. destruct H as (st1 & H1 & H2).
      apply step_created in H1. destruct H1 as (_ & Hl & ->).
      rewrite app_snoc2. apply IC; [apply pending_created_file; assumption|exact H2].
Qed.

(* ------------------------------------------------------------------ *)
(* 5. the two families of states are closed under consumption          *)
(* ------------------------------------------------------------------ *)

Definition dump_state (st : state) : Prop :=
  match st with
  | betweenRoutine | gotRoutineHeader | gotFunc | gotCreated | gotFileFunc | gotFileCreated | gotUnavail => True
  | _ => False
  end.

(* the race states after the opening separator *)
Definition race_state (st : state) : Prop :=
  match st with
  | gotRaceHeader2 | gotRaceOperationHeader | gotRaceOperationFunc | gotRaceOperationFile
  | betweenRaceOperations | gotRaceGoroutineHeader | gotRaceGoroutineFunc | gotRaceGoroutineFile
  | betweenRaceGoroutines | done => True
  | _ => False
  end.

Lemma dump_closed : forall st k st', dump_state st -> ref_step st k = (st', Consume) -> dump_state st'.
Proof.
  intros st k st' Hs. tbl k.
  destruct st; try contradiction; destruct_matches; intros H; try discriminate H; injection H as <-; exact I.
Qed.

Lemma race_closed : forall st k st', race_state st -> ref_step st k = (st', Consume) -> race_state st'.
Proof.
  intros st k st' Hs. tbl k.
  destruct st; try contradiction; destruct_matches; intros H; try discriminate H; injection H as <-; exact I.
Qed.

Lemma dump_closed_run : forall ks st st', dump_state st -> ref_consume st ks = Some st' -> dump_state st'.
Proof.
  induction ks as [|k ks IH]; intros st st' Hs H.
  - injection H as <-. exact Hs.
  - apply consume_cons in H. destruct H as (st1 & H1 & H2).
    apply (IH st1); [apply (dump_closed _ _ _ Hs H1)|exact H2].
Qed.

Lemma race_closed_run : forall ks st st', race_state st -> ref_consume st ks = Some st' -> race_state st'.
Proof.
  induction ks as [|k ks IH]; intros st st' Hs H.
  - injection H as <-. exact Hs.
  - apply consume_cons in H. destruct H as (st1 & H1 & H2).
    apply (IH st1); [apply (race_closed _ _ _ Hs H1)|exact H2].
Qed.

Lemma consume_done : forall ks st', ref_consume done ks = Some st' -> ks = [] /\ st' = done.
Proof.
  intros [|k ks] st' H.
  - injection H as <-. split; reflexivity.
  - apply consume_cons in H. destruct H as (st1 & H1 & _). destruct (step_done _ _ H1).
Qed.

(* ------------------------------------------------------------------ *)
(* 6. race reports: soundness                                          *)
(* ------------------------------------------------------------------ *)

Lemma rframes_op_run : forall rest, rframes is_rfunc_op rest -> Forall indented rest ->
  ref_consume gotRaceOperationFile rest = Some gotRaceOperationFile.
Proof.
  intros rest H. induction H as [|f l rest Hf Hl Hr IH]; intros Hi; [reflexivity|].
  inversion Hi as [|? ? I1 I2]; subst. inversion I2 as [|? ? I3 I4]; subst.
  rewrite (consume_step gotRaceOperationFile f gotRaceOperationFunc).
  2:{ apply step_rofile. split; [exact I1|]. right. split; [exact Hf|reflexivity]. }
  rewrite (consume_step gotRaceOperationFunc l gotRaceOperationFile).
  2:{ apply step_rofn. split; [exact I3|]. split; [exact Hl|reflexivity]. }
  apply IH. exact I4.
Qed.

Lemma rframes_gor_run : forall rest, rframes is_rfunc_gor rest -> Forall indented rest ->
  ref_consume gotRaceGoroutineFile rest = Some gotRaceGoroutineFile.
Proof.
  intros rest H. induction H as [|f l rest Hf Hl Hr IH]; intros Hi; [reflexivity|].
  inversion Hi as [|? ? I1 I2]; subst. inversion I2 as [|? ? I3 I4]; subst.
  rewrite (consume_step gotRaceGoroutineFile f gotRaceGoroutineFunc).
  2:{ apply step_rgfile. split; [exact I1|]. right. right. split; [exact Hf|reflexivity]. }
  rewrite (consume_step gotRaceGoroutineFunc l gotRaceGoroutineFile).
  2:{ apply step_rgfn. split; [exact I3|]. split; [exact Hl|reflexivity]. }
  apply IH. exact I4.
Qed.

Lemma op_section_run : forall (hd : kinds -> Prop) st0 s,
  (forall h, hd h -> indented h -> ref_step st0 h = (gotRaceOperationHeader, Consume)) ->
  section hd is_rfunc_op s -> Forall indented s ->
  ref_consume st0 s = Some gotRaceOperationFile.
Proof.
  intros hd st0 s H0 Hs Hi. destruct Hs as [h f l rest Hh Hf Hl Hr].
  inversion Hi as [|? ? I1 I2]; subst. inversion I2 as [|? ? I3 I4]; subst. inversion I4 as [|? ? I5 I6]; subst.
  rewrite (consume_step st0 h gotRaceOperationHeader) by (apply H0; assumption).
  rewrite (consume_step gotRaceOperationHeader f gotRaceOperationFunc).
  2:{ apply step_roh. split; [exact I3|]. split; [exact Hf|reflexivity]. }
  rewrite (consume_step gotRaceOperationFunc l gotRaceOperationFile).
  2:{ apply step_rofn. split; [exact I5|]. split; [exact Hl|reflexivity]. }
  apply rframes_op_run; assumption.
Qed.

Lemma gor_section_run : forall (hd : kinds -> Prop) st0 s,
  (forall h, hd h -> indented h -> ref_step st0 h = (gotRaceGoroutineHeader, Consume)) ->
  section hd is_rfunc_gor s -> Forall indented s ->
  ref_consume st0 s = Some gotRaceGoroutineFile.
Proof.
  intros hd st0 s H0 Hs Hi. destruct Hs as [h f l rest Hh Hf Hl Hr].
  inversion Hi as [|? ? I1 I2]; subst. inversion I2 as [|? ? I3 I4]; subst. inversion I4 as [|? ? I5 I6]; subst.
  rewrite (consume_step st0 h gotRaceGoroutineHeader) by (apply H0; assumption).
  rewrite (consume_step gotRaceGoroutineHeader f gotRaceGoroutineFunc).
  2:{ apply step_rgh. split; [exact I3|]. split; [exact Hf|reflexivity]. }
  rewrite (consume_step gotRaceGoroutineFunc l gotRaceGoroutineFile).
  2:{ apply step_rgfn. split; [exact I5|]. split; [exact Hl|reflexivity]. }
  apply rframes_gor_run; assumption.
Qed.

Lemma gor_tail_run : forall t, gor_tail t -> Forall indented t ->
  ref_consume gotRaceGoroutineFile t = Some done.
Proof.
  intros t H. induction H as [c Hc|b s t Hb Hs Ht IH]; intros Hi.
  - inversion Hi as [|? ? I1 I2]; subst.
    rewrite (consume_step gotRaceGoroutineFile c done); [reflexivity|].
    apply step_rgfile. split; [exact I1|]. right. left. split; [exact Hc|reflexivity].
  - inversion Hi as [|? ? I1 I2]; subst.
    rewrite (consume_step gotRaceGoroutineFile b betweenRaceGoroutines).
    2:{ apply step_rgfile. split; [exact I1|]. left. split; [exact Hb|reflexivity]. }
    rewrite consume_app.
    rewrite (gor_section_run is_racegor_next betweenRaceGoroutines s).
    + apply IH. apply (Forall_app_r _ _ _ I2).
    + intros h Hh Hih. apply step_brg. split; [exact Hih|]. split; [exact Hh|reflexivity].
    + exact Hs.
    + apply (Forall_app_l _ _ _ I2).
Qed.

Lemma ops_tail_run : forall t, ops_tail t -> Forall indented t ->
  ref_consume gotRaceOperationFile t = Some done.
Proof.
  intros t H. induction H as [b s t Hb Hs Ht IH|b s t Hb Hs Ht]; intros Hi.
  - inversion Hi as [|? ? I1 I2]; subst.
    rewrite (consume_step gotRaceOperationFile b betweenRaceOperations).
    2:{ apply step_rofile. split; [exact I1|]. left. split; [exact Hb|reflexivity]. }
    rewrite consume_app.
    rewrite (op_section_run is_prev betweenRaceOperations s).
    + apply IH. apply (Forall_app_r _ _ _ I2).
    + intros h Hh Hih. apply step_bro. split; [exact Hih|]. left. split; [exact Hh|reflexivity].
    + exact Hs.
    + apply (Forall_app_l _ _ _ I2).
  - inversion Hi as [|? ? I1 I2]; subst.
    rewrite (consume_step gotRaceOperationFile b betweenRaceOperations).
    2:{ apply step_rofile. split; [exact I1|]. left. split; [exact Hb|reflexivity]. }
    rewrite consume_app.
    rewrite (gor_section_run is_racegor_first betweenRaceOperations s).
    + apply gor_tail_run; [exact Ht|]. apply (Forall_app_r _ _ _ I2).
    + intros h Hh Hih. apply step_bro. split; [exact Hih|]. right. split; [exact Hh|reflexivity].
    + exact Hs.
    + apply (Forall_app_l _ _ _ I2).
Qed.

Lemma race_run : forall ks, race_report ks -> Forall indented ks -> ref_consume looking ks = Some done.
Proof.
  intros ks H Hi. destruct H as [o w s t Ho Hw Hs Ht].
  inversion Hi as [|? ? I1 I2]; subst. inversion I2 as [|? ? I3 I4]; subst.
  rewrite (consume_step looking o gotRaceHeader1).
  2:{ apply step_looking. split; [exact I1|]. right. split; [exact Ho|reflexivity]. }
  rewrite (consume_step gotRaceHeader1 w gotRaceHeader2).
  2:{ apply step_rh1. split; [exact I3|]. split; [exact Hw|reflexivity]. }
  rewrite consume_app.
  rewrite (op_section_run is_op gotRaceHeader2 s).
  - apply ops_tail_run; [exact Ht|]. apply (Forall_app_r _ _ _ I4).
  - intros h Hh Hih. apply step_rh2. split; [exact Hih|]. split; [exact Hh|reflexivity].
  - exact Hs.
  - apply (Forall_app_l _ _ _ I4).
Qed.

(* ------------------------------------------------------------------ *)
(* 7. race reports: what is accepted is in the grammar                 *)
(* ------------------------------------------------------------------ *)

Lemma rframes_app : forall nf a b, rframes nf a -> rframes nf b -> rframes nf (a ++ b).
Proof.
  intros nf a b Ha Hb. induction Ha as [|f l rest Hf Hl Hr IH]; cbn [app]; [exact Hb|].
  apply rf_cons; assumption.
Qed.

(* a section whose next function line has been read, not yet its file line *)
Definition pending_sec (hd nf : kinds -> Prop) (pre : list kinds) (f : kinds) : Prop :=
  (exists h, pre = [h] /\ hd h /\ is_rfunc_first f) \/ (section hd nf pre /\ nf f).

Lemma pending_sec_file : forall hd nf pre f l, pending_sec hd nf pre f -> is_file l ->
  section hd nf (pre ++ [f; l]).
Proof.
  intros hd nf pre f l [(h & -> & Hh & Hf)|(Hs & Hf)] Hl.
  - cbn [app]. apply sec; try assumption. apply rf_nil.
  - destruct Hs as [h f0 l0 rest Hh Hf0 Hl0 Hr]. cbn [app].
    apply sec; try assumption. apply rframes_app; [exact Hr|].
    apply rf_cons; [exact Hf|exact Hl|apply rf_nil].
Qed.

Definition op_split (hd : kinds -> Prop) (l : list kinds) : Prop :=
  exists s t, l = s ++ t /\ section hd is_rfunc_op s /\ ops_tail t.
Definition gor_split (hd : kinds -> Prop) (l : list kinds) : Prop :=
  exists s t, l = s ++ t /\ section hd is_rfunc_gor s /\ gor_tail t.

Lemma race_parse : forall ks,
  (forall (hd : kinds -> Prop) h, hd h ->
     ref_consume gotRaceOperationHeader ks = Some done -> op_split hd (h :: ks)) /\
  (forall hd pre f, pending_sec hd is_rfunc_op pre f ->
     ref_consume gotRaceOperationFunc ks = Some done -> op_split hd (pre ++ f :: ks)) /\
  (forall hd pre, section hd is_rfunc_op pre ->
     ref_consume gotRaceOperationFile ks = Some done -> op_split hd (pre ++ ks)) /\
  (forall b, is_blank b ->
     ref_consume betweenRaceOperations ks = Some done -> ops_tail (b :: ks)) /\
  (forall (hd : kinds -> Prop) h, hd h ->
     ref_consume gotRaceGoroutineHeader ks = Some done -> gor_split hd (h :: ks)) /\
  (forall hd pre f, pending_sec hd is_rfunc_gor pre f ->
     ref_consume gotRaceGoroutineFunc ks = Some done -> gor_split hd (pre ++ f :: ks)) /\
  (forall hd pre, section hd is_rfunc_gor pre ->
     ref_consume gotRaceGoroutineFile ks = Some done -> gor_split hd (pre ++ ks)) /\
  (forall b, is_blank b ->
     ref_consume betweenRaceGoroutines ks = Some done -> gor_tail (b :: ks)).
Proof.
  induction ks as [|k ks IH].
  - cbn [ref_consume]. repeat split; intros; discriminate.
  - destruct IH as (IOH & IOF & IOFile & IBO & IGH & IGF & IGFile & IBG). repeat split.
    + intros hd h Hh H. apply consume_cons in H. destruct H as (st1 & H1 & H2).
      apply step_roh in H1. destruct H1 as (_ & Hf & ->).
      apply (IOF hd [h] k); [left; exists h; split; [reflexivity|split; assumption]|exact H2].
    + intros hd pre f Hp H. apply consume_cons in H. destruct H as (st1 & H1 & H2).
      apply step_rofn in H1. destruct H1 as (_ & Hl & ->).
      rewrite app_snoc2. apply IOFile; [apply pending_sec_file; assumption|exact H2].
    + intros hd pre Hs H. apply consume_cons in H. destruct H as (st1 & H1 & H2).
      apply step_rofile in H1. destruct H1 as (_ & [(Hb & ->)|(Hf & ->)]).
      * exists pre, (k :: ks). split; [reflexivity|]. split; [exact Hs|]. apply IBO; assumption.
      * apply IOF; [right; split; assumption|exact H2].
    + intros b Hb H. apply consume_cons in H. destruct H as (st1 & H1 & H2).
      apply step_bro in H1. destruct H1 as (_ & [(Hp & ->)|(Hg & ->)]).
      * destruct (IOH is_prev k Hp H2) as (s & t & E & Hs & Ht). rewrite E. apply ot_prev; assumption.
      * destruct (IGH is_racegor_first k Hg H2) as (s & t & E & Hs & Ht). rewrite E. apply ot_gor; assumption.
    + intros hd h Hh H. apply consume_cons in H. destruct H as (st1 & H1 & H2).
      apply step_rgh in H1. destruct H1 as (_ & Hf & ->).
      apply (IGF hd [h] k); [left; exists h; split; [reflexivity|split; assumption]|exact H2].
    + intros hd pre f Hp H. apply consume_cons in H. destruct H as (st1 & H1 & H2).
      apply step_rgfn in H1. destruct H1 as (_ & Hl & ->).
      rewrite app_snoc2. apply IGFile; [apply pending_sec_file; assumption|exact H2].
    + intros hd pre Hs H. apply consume_cons in H. destruct H as (st1 & H1 & H2).
      apply step_rgfile in H1. destruct H1 as (_ & [(Hb & ->)|[(Hc & ->)|(Hf & ->)]]).
      * exists pre, (k :: ks). split; [reflexivity|]. split; [exact Hs|]. apply IBG; assumption.
      * apply consume_done in H2. destruct H2 as (-> & _).
        exists pre, [k]. split; [reflexivity|]. split; [exact Hs|]. apply gt_close. exact Hc.
      * apply IGF; [right; split; assumption|exact H2].
    + intros b Hb H. apply consume_cons in H. destruct H as (st1 & H1 & H2).
      apply step_brg in H1. destruct H1 as (_ & Hg & ->).
      destruct (IGH is_racegor_next k Hg H2) as (s & t & E & Hs & Ht). rewrite E. apply gt_more; assumption.
Qed.

(* ------------------------------------------------------------------ *)
(* 8. complete words: goroutine boundaries and whole reports           *)
(* ------------------------------------------------------------------ *)

Lemma dstate_dump_state : forall x, dump_state (dstate x).
Proof. intros [[]|]; exact I. Qed.

Lemma dstate_inj : forall x y, dstate x = dstate y -> x = y.
Proof. intros [[]|] [[]|] H; try discriminate H; reflexivity. Qed.

Lemma dump_state_not_race : forall st, dump_state st -> race_state st -> False.
Proof. intros st H1 H2. destruct st; contradiction. Qed.

(* the automaton stands at a goroutine boundary exactly after a [dump] *)
Theorem boundary_iff : forall ks x,
  ref_consume looking ks = Some (dstate x) <-> Forall indented ks /\ dump x ks.
Proof.
  intros ks x. split.
  - intros H. split; [apply (consume_indented _ _ _ H)|].
    destruct ks as [|k ks].
    + injection H as H. destruct x as [[]|]; discriminate H.
    + apply consume_cons in H. destruct H as (st1 & H1 & H2).
      apply step_looking in H1. destruct H1 as (_ & [(Hh & ->)|(Ho & ->)]).
      * apply (dump_parse ks x); assumption.
      * exfalso. destruct ks as [|w ks].
        -- injection H2 as H2. destruct x as [[]|]; discriminate H2.
        -- apply consume_cons in H2. destruct H2 as (st2 & H3 & H4).
           apply step_rh1 in H3. destruct H3 as (_ & _ & ->).
           apply (dump_state_not_race (dstate x)); [apply dstate_dump_state|].
           apply (race_closed_run ks gotRaceHeader2); [exact I|exact H4].
  - intros (Hi & Hd). apply dump_run; [exact Hd|exact Hi|left; reflexivity].
Qed.

(* ... and in [done], having consumed everything, exactly after a race report *)
Theorem report_iff : forall ks,
  ref_consume looking ks = Some done <-> is_race_report ks.
Proof.
  intros ks. split.
  - intros H. split; [apply (consume_indented _ _ _ H)|].
    destruct ks as [|k ks]; [discriminate H|].
    apply consume_cons in H. destruct H as (st1 & H1 & H2).
    apply step_looking in H1. destruct H1 as (_ & [(Hh & ->)|(Ho & ->)]).
    + exfalso. apply (dump_closed_run ks gotRoutineHeader done); [exact I|exact H2].
    + destruct ks as [|w ks]; [discriminate H2|].
      apply consume_cons in H2. destruct H2 as (st2 & H3 & H4).
      apply step_rh1 in H3. destruct H3 as (_ & Hw & ->).
      destruct ks as [|p ks]; [discriminate H4|].
      apply consume_cons in H4. destruct H4 as (st3 & H5 & H6).
      apply step_rh2 in H5. destruct H5 as (_ & Hp & ->).
      destruct (race_parse ks) as (IOH & _).
      destruct (IOH is_op p Hp H6) as (s & t & E & Hs & Ht). rewrite E. apply rr; assumption.
  - intros (Hi & Hr). apply race_run; assumption.
Qed.

(* ------------------------------------------------------------------ *)
(* 9. every run can be completed                                       *)
(* ------------------------------------------------------------------ *)

Definition k0 : kinds :=
  mkKinds true false FNo FNo FileNo CNo false false false false false OpNo OpNo RgNo.
Definition kx_header : kinds :=
  mkKinds true true FNo FNo FileNo CNo false false false false false OpNo OpNo RgNo.
Definition kx_unavail : kinds :=
  mkKinds true false FNo FNo FileNo CNo false false true false false OpNo OpNo RgNo.
Definition kx_file : kinds :=
  mkKinds true false FNo FNo FileOk CNo false false false false false OpNo OpNo RgNo.
Definition kx_blank : kinds :=
  mkKinds true false FNo FNo FileNo CNo true false false false false OpNo OpNo RgNo.
Definition kx_func : kinds :=
  mkKinds true false FOk FOk FileNo CNo false false false false false OpNo OpNo RgNo.
Definition kx_sep : kinds :=
  mkKinds true false FNo FNo FileNo CNo false false false true false OpNo OpNo RgNo.
Definition kx_warning : kinds :=
  mkKinds true false FNo FNo FileNo CNo false false false false true OpNo OpNo RgNo.
Definition kx_op : kinds :=
  mkKinds true false FNo FNo FileNo CNo false false false false false OpOk OpNo RgNo.
Definition kx_racegor : kinds :=
  mkKinds true false FNo FNo FileNo CNo false false false false false OpNo OpNo RgKnown.

Ltac all_indented := repeat (constructor; try reflexivity).

Lemma dump_completion : forall st, dump_state st ->
  exists rest x, Forall indented rest /\ ref_consume st rest = Some (dstate x).
Proof.
  intros st Hs. destruct st; try contradiction.
  - exists [], AfterBlank. split; [all_indented|reflexivity].
  - exists [kx_unavail], (AfterGoroutine EndUnavail). split; [all_indented|reflexivity].
  - exists [kx_file], (AfterGoroutine EndStack). split; [all_indented|reflexivity].
  - exists [kx_file], (AfterGoroutine EndCreated). split; [all_indented|reflexivity].
  - exists [], (AfterGoroutine EndStack). split; [all_indented|reflexivity].
  - exists [], (AfterGoroutine EndCreated). split; [all_indented|reflexivity].
  - exists [], (AfterGoroutine EndUnavail). split; [all_indented|reflexivity].
Qed.

Definition gor_end : list kinds := [kx_racegor; kx_func; kx_file; kx_sep].

Lemma race_completion : forall st, st = gotRaceHeader1 \/ race_state st ->
  exists rest, Forall indented rest /\ ref_consume st rest = Some done.
Proof.
  intros st [->|Hs].
  - exists (kx_warning :: kx_op :: kx_func :: kx_file :: kx_blank :: gor_end). split; [all_indented|reflexivity].
  - destruct st; try contradiction.
    + exists []. split; [all_indented|reflexivity].
    + exists (kx_op :: kx_func :: kx_file :: kx_blank :: gor_end). split; [all_indented|reflexivity].
    + exists (kx_func :: kx_file :: kx_blank :: gor_end). split; [all_indented|reflexivity].
    + exists (kx_file :: kx_blank :: gor_end). split; [all_indented|reflexivity].
    + exists (kx_blank :: gor_end). split; [all_indented|reflexivity].
    + exists gor_end. split; [all_indented|reflexivity].
    + exists [kx_func; kx_file; kx_sep]. split; [all_indented|reflexivity].
    + exists [kx_file; kx_sep]. split; [all_indented|reflexivity].
    + exists [kx_sep]. split; [all_indented|reflexivity].
    + exists gor_end. split; [all_indented|reflexivity].
Qed.

(* ------------------------------------------------------------------ *)
(* 10. prefixes                                                        *)
(* ------------------------------------------------------------------ *)

Lemma consume_app_some : forall a b st st', ref_consume st (a ++ b) = Some st' ->
  exists st1, ref_consume st a = Some st1 /\ ref_consume st1 b = Some st'.
Proof.
  intros a b st st' H. rewrite consume_app in H.
  destruct (ref_consume st a) as [st1|]; [|discriminate H]. exists st1. split; [reflexivity|exact H].
Qed.

Lemma consume_app_intro : forall a b st st1 st', ref_consume st a = Some st1 ->
  ref_consume st1 b = Some st' -> ref_consume st (a ++ b) = Some st'.
Proof. intros a b st st1 st' H1 H2. rewrite consume_app, H1. exact H2. Qed.

Theorem dump_prefix_iff : forall ks,
  is_dump_prefix ks <->
  ks = [] \/ exists h ks' st, ks = h :: ks' /\ indented h /\ is_header h /\
                              ref_consume gotRoutineHeader ks' = Some st.
Proof.
  intros ks. split.
  - intros (rest & Hi & x & Hd). destruct ks as [|h ks']; [left; reflexivity|right].
    pose proof (dump_run x _ Hd Hi betweenRoutine (or_intror eq_refl)) as H.
    cbn [app] in H. apply consume_cons in H. destruct H as (st1 & H1 & H2).
    apply step_between in H1. destruct H1 as (Hih & Hh & ->).
    apply consume_app_some in H2. destruct H2 as (st & H2 & _).
    exists h, ks', st. repeat split; assumption.
  - intros [->|(h & ks' & st & -> & Hih & Hh & H)].
    + exists [kx_header; kx_unavail]. split; [all_indented|].
      exists (AfterGoroutine EndUnavail). apply d_last. apply g_unavail; reflexivity.
    + destruct (dump_completion st (dump_closed_run ks' gotRoutineHeader st I H)) as (rest & x & Hir & Hr).
      exists rest. split.
      * cbn [app]. constructor; [exact Hih|]. apply Forall_app. split; [apply (consume_indented _ _ _ H)|exact Hir].
      * exists x. cbn [app]. apply (dump_parse (ks' ++ rest) x); [exact Hh|].
        apply (consume_app_intro _ _ _ _ _ H Hr).
Qed.

Theorem race_prefix_iff : forall ks,
  is_race_prefix ks <->
  ks = [] \/ exists o ks' st, ks = o :: ks' /\ indented o /\ is_race_open o /\
                              ref_consume gotRaceHeader1 ks' = Some st.
Proof.
  intros ks. split.
  - intros (rest & Hr). destruct ks as [|o ks']; [left; reflexivity|right].
    apply report_iff in Hr. cbn [app] in Hr.
    apply consume_cons in Hr. destruct Hr as (st1 & H1 & H2).
    apply step_looking in H1. destruct H1 as (Hio & [(Hh & ->)|(Ho & ->)]).
    + exfalso. apply (dump_closed_run _ gotRoutineHeader done I H2).
    + apply consume_app_some in H2. destruct H2 as (st & H2 & _).
      exists o, ks', st. repeat split; try assumption; apply Ho.
  - intros [->|(o & ks' & st & -> & Hio & Ho & H)].
    + destruct (race_completion gotRaceHeader1 (or_introl eq_refl)) as (rest & Hir & Hr).
      exists (kx_sep :: rest). apply report_iff. cbn [app].
      rewrite (consume_step looking kx_sep gotRaceHeader1); [exact Hr|reflexivity].
    + assert (Hst : st = gotRaceHeader1 \/ race_state st).
      { destruct ks' as [|w ks'].
        - injection H as <-. left. reflexivity.
        - right. apply consume_cons in H. destruct H as (st1 & H1 & H2).
          apply step_rh1 in H1. destruct H1 as (_ & _ & ->).
          apply (race_closed_run _ gotRaceHeader2 _ I H2). }
      destruct (race_completion st Hst) as (rest & Hir & Hr).
      exists rest. apply report_iff. cbn [app].
      rewrite (consume_step looking o gotRaceHeader1).
      2:{ apply step_looking. split; [exact Hio|]. right. split; [exact Ho|reflexivity]. }
      apply (consume_app_intro _ _ _ _ _ H Hr).
Qed.

(* the automaton consumes exactly the prefixes of the language *)
Theorem accepts_iff : forall ks,
  (exists st, ref_consume looking ks = Some st) <-> in_language ks.
Proof.
  intros ks. split.
  - intros (st & H). destruct ks as [|k ks].
    + left. apply dump_prefix_iff. left. reflexivity.
    + apply consume_cons in H. destruct H as (st1 & H1 & H2).
      apply step_looking in H1. destruct H1 as (Hi & [(Hh & ->)|(Ho & ->)]).
      * left. apply dump_prefix_iff. right. exists k, ks, st. repeat split; assumption.
      * right. apply race_prefix_iff. right. exists k, ks, st. repeat split; try assumption; apply Ho.
  - intros [H|H].
    + apply dump_prefix_iff in H. destruct H as [->|(h & ks' & st & -> & Hi & Hh & H)].
      * exists looking. reflexivity.
      * exists st. rewrite (consume_step looking h gotRoutineHeader); [exact H|].
        apply header_run; [left; reflexivity|exact Hi|exact Hh].
    + apply race_prefix_iff in H. destruct H as [->|(o & ks' & st & -> & Hi & Ho & H)].
      * exists looking. reflexivity.
      * exists st. rewrite (consume_step looking o gotRaceHeader1); [exact H|].
        apply step_looking. split; [exact Hi|]. right. split; [exact Ho|reflexivity].
Qed.

(* ------------------------------------------------------------------ *)
(* 11. the line after a consumed prefix: continue, end, fail           *)
(* ------------------------------------------------------------------ *)

Definition quiet (st : state) (k : kinds) : Prop :=
  st = betweenRoutine \/ st = gotFileCreated \/ (st = gotFileFunc /\ ~ malformed_stack_line k).

Lemma dump_next_state : forall st k, dump_state st -> indented k ->
  (snd (ref_step st k) = EndHere <-> snd (ref_step st k) <> Consume /\ quiet st k) /\
  (snd (ref_step st k) = Fail <-> snd (ref_step st k) <> Consume /\ ~ quiet st k) /\
  snd (ref_step st k) <> Forward.
Proof.
  intros st k Hs Hi. unfold quiet. revert Hi. tbl k. intros ->.
  destruct st; try contradiction; destruct_matches; cbn [snd];
    (split; [|split]); try split; try intros H; try discriminate;
    try (intuition (try congruence; try discriminate); fail).
Qed.

Lemma race_next_state : forall st k, st = gotRaceHeader1 \/ race_state st -> indented k ->
  (snd (ref_step st k) = Forward <-> snd (ref_step st k) <> Consume /\ st = gotRaceHeader1) /\
  (snd (ref_step st k) = EndHere <-> st = done) /\
  (snd (ref_step st k) = Fail <->
   snd (ref_step st k) <> Consume /\ st <> gotRaceHeader1 /\ st <> done).
Proof.
  intros st k Hs Hi. revert Hi. tbl k. intros ->.
  destruct Hs as [->|Hs]; [|destruct st; try contradiction]; destruct_matches; cbn [snd];
    (split; [|split]); split; intros H; try discriminate;
    try (intuition (try congruence; try discriminate); fail).
Qed.

Lemma unindented_fails : forall st k, ~ indented k -> ref_step st k = (done, Fail).
Proof.
  intros st k Hi. unfold indented in Hi. unfold ref_step.
  destruct (k_indent_ok k); [destruct Hi; reflexivity|reflexivity].
Qed.

Lemma snd_consume : forall st k, snd (ref_step st k) = Consume <-> exists st', ref_step st k = (st', Consume).
Proof.
  intros st k. destruct (ref_step st k) as [st1 v]. cbn [snd]. split.
  - intros ->. exists st1. reflexivity.
  - intros (st' & H). injection H as _ ->. reflexivity.
Qed.

(* a non-empty dump prefix: its first line and the state after it *)
Lemma dump_prefix_state : forall ks st, ks <> [] -> is_dump_prefix ks ->
  ref_consume looking ks = Some st ->
  dump_state st /\ exists h ks', ks = h :: ks' /\ indented h /\ is_header h /\
                                ref_consume gotRoutineHeader ks' = Some st.
Proof.
  intros ks st Hne Hp H. apply dump_prefix_iff in Hp.
  destruct Hp as [->|(h & ks' & st0 & -> & Hi & Hh & H0)]; [destruct Hne; reflexivity|].
  rewrite (consume_step looking h gotRoutineHeader) in H
    by (apply header_run; [left; reflexivity|exact Hi|exact Hh]).
  rewrite H0 in H. injection H as <-.
  split; [apply (dump_closed_run ks' gotRoutineHeader st0 I H0)|].
  exists h, ks'. repeat split; assumption.
Qed.

Lemma at_state_iff : forall ks st x, ref_consume looking ks = Some st ->
  (st = dstate x <-> dump x ks).
Proof.
  intros ks st x H. split.
  - intros ->. apply boundary_iff in H. apply H.
  - intros Hd. assert (H' : ref_consume looking ks = Some (dstate x)).
    { apply boundary_iff. split; [apply (consume_indented _ _ _ H)|exact Hd]. }
    rewrite H in H'. injection H' as ->. reflexivity.
Qed.

Lemma quiet_iff : forall ks st k, ref_consume looking ks = Some st ->
  (quiet st k <-> may_end_before ks k).
Proof.
  intros ks st k H. unfold quiet, may_end_before.
  rewrite <- (at_state_iff ks st AfterBlank H).
  rewrite <- (at_state_iff ks st (AfterGoroutine EndCreated) H).
  rewrite <- (at_state_iff ks st (AfterGoroutine EndStack) H).
  cbn [dstate]. reflexivity.
Qed.

Lemma dump_continue_iff : forall ks st k, ks <> [] -> is_dump_prefix ks ->
  ref_consume looking ks = Some st ->
  (snd (ref_step st k) = Consume <-> is_dump_prefix (ks ++ [k])).
Proof.
  intros ks st k Hne Hp H.
  destruct (dump_prefix_state ks st Hne Hp H) as (Hs & h & ks' & -> & Hi & Hh & H0).
  rewrite snd_consume. split.
  - intros (st' & H1). apply dump_prefix_iff. right. exists h, (ks' ++ [k]), st'.
    split; [reflexivity|]. split; [exact Hi|]. split; [exact Hh|].
    apply (consume_app_intro _ _ _ _ _ H0). rewrite (consume_step _ _ _ _ H1). reflexivity.
  - intros Hp'. apply dump_prefix_iff in Hp'.
    destruct Hp' as [E|(h1 & ks1 & st1 & E & _ & _ & H1)]; [discriminate E|].
    cbn [app] in E. injection E as <- <-.
    apply consume_app_some in H1. destruct H1 as (st2 & H1 & H2). rewrite H0 in H1. injection H1 as <-.
    apply consume_cons in H2. destruct H2 as (st3 & H2 & _). exists st3. exact H2.
Qed.

(* goroutine dumps: what the next line does, in terms of the language only *)
Theorem dump_next : forall ks st k, ks <> [] -> is_dump_prefix ks ->
  ref_consume looking ks = Some st -> indented k ->
  (snd (ref_step st k) = Consume <-> is_dump_prefix (ks ++ [k])) /\
  (snd (ref_step st k) = EndHere <-> ~ is_dump_prefix (ks ++ [k]) /\ may_end_before ks k) /\
  (snd (ref_step st k) = Fail <-> ~ is_dump_prefix (ks ++ [k]) /\ ~ may_end_before ks k) /\
  snd (ref_step st k) <> Forward.
Proof.
  intros ks st k Hne Hp H Hi.
  pose proof (dump_continue_iff ks st k Hne Hp H) as Hc.
  destruct (dump_prefix_state ks st Hne Hp H) as (Hs & _).
  destruct (dump_next_state st k Hs Hi) as (He & Hf & Hw).
  pose proof (quiet_iff ks st k H) as Hq.
  split; [exact Hc|]. split; [|split; [|exact Hw]].
  - rewrite He, Hc, Hq. reflexivity.
  - rewrite Hf, Hc, Hq. reflexivity.
Qed.

(* the same, against the enumerations of Spec/RefGrammar + GrammarProofs *)
Theorem dump_ends_iff : forall ks st k, ks <> [] -> is_dump_prefix ks ->
  ref_consume looking ks = Some st -> indented k ->
  (ends_dump st k <-> ~ is_dump_prefix (ks ++ [k]) /\ may_end_before ks k) /\
  (invalidates st k <-> ~ is_dump_prefix (ks ++ [k]) /\ ~ may_end_before ks k).
Proof.
  intros ks st k Hne Hp H Hi.
  destruct (dump_next ks st k Hne Hp H Hi) as (_ & He & Hf & _). split.
  - rewrite <- He. split.
    + intros Hd. assert (Hr : ref_step st k = (done, EndHere)).
      { apply C07_end_lines. split; [reflexivity|]. split; [exact Hi|exact Hd]. }
      rewrite Hr. reflexivity.
    + intros Hv. destruct (ref_step st k) as [st1 v] eqn:E. cbn [snd] in Hv. subst v.
      apply C07_end_lines in E. apply E.
  - rewrite <- Hf. symmetry. apply C07_invalidating_lines.
Qed.

(* race reports *)
Lemma race_prefix_state : forall ks st, ks <> [] -> is_race_prefix ks ->
  ref_consume looking ks = Some st ->
  exists o ks', ks = o :: ks' /\ indented o /\ is_race_open o /\
                ref_consume gotRaceHeader1 ks' = Some st /\
                ((ks' = [] /\ st = gotRaceHeader1) \/ (ks' <> [] /\ race_state st)).
Proof.
  intros ks st Hne Hp H. apply race_prefix_iff in Hp.
  destruct Hp as [->|(o & ks' & st0 & -> & Hi & Ho & H0)]; [destruct Hne; reflexivity|].
  rewrite (consume_step looking o gotRaceHeader1) in H.
  2:{ apply step_looking. split; [exact Hi|]. right. split; [exact Ho|reflexivity]. }
  rewrite H0 in H. injection H as <-.
  exists o, ks'. repeat split; try assumption; try apply Ho.
  destruct ks' as [|w ks'].
  - left. injection H0 as <-. split; reflexivity.
  - right. split; [discriminate|].
    apply consume_cons in H0. destruct H0 as (st1 & H1 & H2).
    apply step_rh1 in H1. destruct H1 as (_ & _ & ->).
    apply (race_closed_run _ gotRaceHeader2 _ I H2).
Qed.

Lemma race_continue_iff : forall ks st k, ks <> [] -> is_race_prefix ks ->
  ref_consume looking ks = Some st ->
  (snd (ref_step st k) = Consume <-> is_race_prefix (ks ++ [k])).
Proof.
  intros ks st k Hne Hp H.
  destruct (race_prefix_state ks st Hne Hp H) as (o & ks' & -> & Hi & Ho & H0 & _).
  rewrite snd_consume. split.
  - intros (st' & H1). apply race_prefix_iff. right. exists o, (ks' ++ [k]), st'.
    split; [reflexivity|]. split; [exact Hi|]. split; [exact Ho|].
    apply (consume_app_intro _ _ _ _ _ H0). rewrite (consume_step _ _ _ _ H1). reflexivity.
  - intros Hp'. apply race_prefix_iff in Hp'.
    destruct Hp' as [E|(h1 & ks1 & st1 & E & _ & _ & H1)]; [discriminate E|].
    cbn [app] in E. injection E as <- <-.
    apply consume_app_some in H1. destruct H1 as (st2 & H1 & H2). rewrite H0 in H1. injection H1 as <-.
    apply consume_cons in H2. destruct H2 as (st3 & H2 & _). exists st3. exact H2.
Qed.

Theorem race_next : forall ks st k, ks <> [] -> is_race_prefix ks ->
  ref_consume looking ks = Some st -> indented k ->
  (snd (ref_step st k) = Consume <-> is_race_prefix (ks ++ [k])) /\
  (snd (ref_step st k) = Forward <-> ~ is_race_prefix (ks ++ [k]) /\ List.length ks = 1) /\
  (snd (ref_step st k) = EndHere <-> is_race_report ks) /\
  (snd (ref_step st k) = Fail <->
   ~ is_race_prefix (ks ++ [k]) /\ List.length ks <> 1 /\ ~ is_race_report ks).
Proof.
  intros ks st k Hne Hp H Hi.
  pose proof (race_continue_iff ks st k Hne Hp H) as Hc.
  destruct (race_prefix_state ks st Hne Hp H) as (o & ks' & E & _ & _ & _ & Hcase).
  assert (Hs : st = gotRaceHeader1 \/ race_state st).
  { destruct Hcase as [(_ & ->)|(_ & Hr)]; [left; reflexivity|right; exact Hr]. }
  destruct (race_next_state st k Hs Hi) as (Hw & He & Hf).
  assert (H1 : st = gotRaceHeader1 <-> List.length ks = 1).
  { subst ks. destruct Hcase as [(-> & ->)|(Hn & Hr)].
    - split; reflexivity.
    - split.
      + intros ->. destruct Hr.
      + intros Hl. destruct ks'; [destruct Hn; reflexivity|discriminate Hl]. }
  assert (Hd : st = done <-> is_race_report ks).
  { rewrite <- report_iff. split.
    - intros <-. exact H.
    - intros H'. rewrite H in H'. injection H' as ->. reflexivity. }
  split; [exact Hc|]. split; [|split].
  - rewrite Hw, Hc, H1. reflexivity.
  - rewrite He. exact Hd.
  - rewrite Hf, Hc, H1, Hd. reflexivity.
Qed.

(* ------------------------------------------------------------------ *)
(* 12. scan itself                                                     *)
(* ------------------------------------------------------------------ *)

Lemma kinds_along_cons : forall s ln rest s1 l e, scan s ln = Ok (s1, l, e) ->
  kinds_along s (ln :: rest) = kinds_at s ln :: kinds_along s1 rest.
Proof. intros s ln rest s1 l e H. cbn [kinds_along]. rewrite H. reflexivity. Qed.

(* accept_all (Spec/SeqSpec.v: every line accepted with flag true, never in
   [done] before a line) is a run of the automaton that consumes every line *)
Lemma accept_all_consume : forall lines s s', Inv s -> accept_all s lines = Some s' ->
  exists ks, kinds_along s lines = map Some ks /\ ref_consume (st s) ks = Some (st s') /\ Inv s'.
Proof.
  induction lines as [|ln rest IH]; intros s s' HI H.
  - injection H as <-. exists []. repeat split. exact HI.
  - cbn [accept_all] in H.
    destruct (state_eqb (st s) done); [discriminate H|].
    destruct (scan_total s ln HI) as (s1 & l & e & Hsc & HI1). rewrite Hsc in H.
    destruct l; [|discriminate H].
    destruct (kinds_at s ln) as [k|] eqn:Hk.
    + destruct (C07_verdict_flags _ _ _ _ _ _ HI Hsc Hk) as (Hst & Hl & _).
      destruct (IH s1 s' HI1 H) as (ks & Hka & Hrc & HI').
      exists (k :: ks). split; [|split; [|exact HI']].
      * rewrite (kinds_along_cons _ _ _ _ _ _ Hsc), Hk, Hka. reflexivity.
      * apply consume_cons. exists (st s1). split; [|exact Hrc].
        destruct (ref_step (st s) k) as [x v]. cbn [fst snd] in *.
        rewrite Hst. f_equal. apply Hl. reflexivity.
    + destruct (C07_unexamined _ _ Hk) as (H0 & _). rewrite H0 in Hsc. discriminate Hsc.
Qed.

Lemma consume_accept_all : forall lines s ks st', Inv s ->
  kinds_along s lines = map Some ks -> ref_consume (st s) ks = Some st' ->
  exists s', accept_all s lines = Some s' /\ st s' = st' /\ Inv s'.
Proof.
  induction lines as [|ln rest IH]; intros s ks st' HI Hka Hrc.
  - destruct ks; [|discriminate Hka]. injection Hrc as <-. exists s. repeat split. exact HI.
  - destruct (scan_total s ln HI) as (s1 & l & e & Hsc & HI1).
    rewrite (kinds_along_cons _ _ _ _ _ _ Hsc) in Hka.
    destruct ks as [|k ks]; [discriminate Hka|]. cbn [map] in Hka. injection Hka as Hk Hka.
    apply consume_cons in Hrc. destruct Hrc as (st1 & H1 & H2).
    destruct (C07_verdict_flags _ _ _ _ _ _ HI Hsc Hk) as (Hst & Hl & _).
    rewrite H1 in Hst, Hl. cbn [fst snd] in Hst, Hl.
    assert (El : l = true) by (apply Hl; reflexivity). subst l.
    rewrite <- Hst in H2.
    destruct (IH s1 ks st' HI1 Hka H2) as (s' & Ha & Hs' & HI').
    exists s'. split; [|split; assumption].
    cbn [accept_all]. destruct (st s) eqn:Es; try (cbn; rewrite Hsc; exact Ha).
    destruct (step_done _ _ H1).
Qed.

(* scan accepts all the lines iff their kinds are a word of the language *)
Theorem scan_language : forall lines,
  (exists s, accept_all ss0 lines = Some s) <->
  (exists ks, kinds_along ss0 lines = map Some ks /\ in_language ks).
Proof.
  intros lines. split.
  - intros (s & H). destruct (accept_all_consume lines ss0 s Inv_ss0 H) as (ks & Hka & Hrc & _).
    exists ks. split; [exact Hka|]. apply accepts_iff. exists (st s). exact Hrc.
  - intros (ks & Hka & Hl). apply accepts_iff in Hl. destruct Hl as (st' & Hrc).
    destruct (consume_accept_all lines ss0 ks st' Inv_ss0 Hka Hrc) as (s & Ha & _).
    exists s. exact Ha.
Qed.

(* ... and stops at a goroutine boundary iff they are a [dump] *)
Theorem scan_dump : forall lines x,
  (exists s, accept_all ss0 lines = Some s /\ st s = dstate x) <->
  (exists ks, kinds_along ss0 lines = map Some ks /\ Forall indented ks /\ dump x ks).
Proof.
  intros lines x. split.
  - intros (s & H & Hx). destruct (accept_all_consume lines ss0 s Inv_ss0 H) as (ks & Hka & Hrc & _).
    exists ks. split; [exact Hka|]. apply boundary_iff. rewrite <- Hx. exact Hrc.
  - intros (ks & Hka & Hd). apply boundary_iff in Hd.
    destruct (consume_accept_all lines ss0 ks _ Inv_ss0 Hka Hd) as (s & Ha & Hs & _).
    exists s. split; assumption.
Qed.

(* ... and ends in [done] iff they are a whole race report *)
Theorem scan_report : forall lines,
  (exists s, accept_all ss0 lines = Some s /\ st s = done) <->
  (exists ks, kinds_along ss0 lines = map Some ks /\ is_race_report ks).
Proof.
  intros lines. split.
  - intros (s & H & Hx). destruct (accept_all_consume lines ss0 s Inv_ss0 H) as (ks & Hka & Hrc & _).
    exists ks. split; [exact Hka|]. apply report_iff. rewrite <- Hx. exact Hrc.
  - intros (ks & Hka & Hd). apply report_iff in Hd.
    destruct (consume_accept_all lines ss0 ks _ Inv_ss0 Hka Hd) as (s & Ha & Hs & _).
    exists s. split; assumption.
Qed.

Lemma map_Some_inj : forall (a b : list kinds), map Some a = map Some b -> a = b.
Proof.
  induction a as [|x a IH]; intros [|y b] H; try discriminate H; [reflexivity|].
  cbn [map] in H. injection H as -> H. f_equal. apply IH. exact H.
Qed.

Theorem scan_dump_next : forall lines s ks d k s' l e,
  accept_all ss0 lines = Some s -> kinds_along ss0 lines = map Some ks ->
  ks <> [] -> is_dump_prefix ks ->
  kinds_at s d = Some k -> indented k -> scan s d = Ok (s', l, e) ->
  (l = true <-> is_dump_prefix (ks ++ [k])) /\
  (e <> None <-> ~ is_dump_prefix (ks ++ [k]) /\ ~ may_end_before ks k) /\
  (l = false /\ e = None <-> ~ is_dump_prefix (ks ++ [k]) /\ may_end_before ks k).
Proof.
  intros lines s ks d k s' l e Ha Hka Hne Hp Hk Hi Hsc.
  destruct (accept_all_consume lines ss0 s Inv_ss0 Ha) as (ks0 & Hka0 & Hrc & HI).
  rewrite Hka in Hka0. apply map_Some_inj in Hka0. subst ks0. cbn [st ss0] in Hrc.
  destruct (dump_next ks (st s) k Hne Hp Hrc Hi) as (Hc & He & Hf & Hw).
  destruct (C07_verdict_flags _ _ _ _ _ _ HI Hsc Hk) as (_ & Hl & Herr).
  split; [rewrite Hl; exact Hc|]. split; [rewrite Herr; exact Hf|].
  rewrite <- He. split.
  - intros (-> & ->).
    destruct (snd (ref_step (st s) k)) eqn:Ev; try reflexivity.
    + destruct Hl as (_ & Hl). discriminate (Hl eq_refl).
    + destruct Hw. reflexivity.
    + destruct Herr as (_ & Herr). destruct (Herr eq_refl). reflexivity.
  - intros Ev. split.
    + destruct l; [|reflexivity]. destruct Hl as (Hl & _). rewrite (Hl eq_refl) in Ev. discriminate Ev.
    + destruct e as [e0|]; [|reflexivity].
      destruct Herr as (Herr & _). rewrite Herr in Ev; [discriminate Ev|discriminate].
Qed.

(* ------------------------------------------------------------------ *)
(* 13. complete dumps; the language without the indentation flag       *)
(* ------------------------------------------------------------------ *)

(* [dump_complete] / a whole report = some line finds the dump ended *)
Theorem complete_iff : forall ks, Forall indented ks ->
  (dump_complete ks \/ race_report ks <->
   exists k, indented k /\ verdict_after ks k = Some EndHere).
Proof.
  intros ks Hi. unfold verdict_after. split.
  - intros [(x & Hx & Hd)|Hr].
    + exists k0. split; [reflexivity|].
      assert (H : ref_consume looking ks = Some (dstate x)) by (apply boundary_iff; split; assumption).
      rewrite H. destruct x as [[]|]; try reflexivity. destruct Hx. reflexivity.
    + exists k0. split; [reflexivity|].
      assert (H : ref_consume looking ks = Some done) by (apply report_iff; split; assumption).
      rewrite H. reflexivity.
  - intros (k & Hk & H). destruct (ref_consume looking ks) as [st|] eqn:E; [|discriminate H].
    injection H as H. destruct (ref_step st k) as [st1 v] eqn:Es. cbn [snd] in H. subst v.
    apply C07_end_lines in Es. destruct Es as (_ & _ & He).
    destruct st; try contradiction.
    + right. apply report_iff in E. apply E.
    + left. exists AfterBlank. split; [discriminate|]. apply (boundary_iff ks AfterBlank). exact E.
    + left. exists (AfterGoroutine EndStack). split; [discriminate|].
      apply (boundary_iff ks (AfterGoroutine EndStack)). exact E.
    + left. exists (AfterGoroutine EndCreated). split; [discriminate|].
      apply (boundary_iff ks (AfterGoroutine EndCreated)). exact E.
Qed.

(* the productions never look at [k_indent_ok] *)
Definition reindent (k : kinds) : kinds :=
  mkKinds true (k_header k) (k_func k) (k_func_lt k) (k_file k) (k_created k) (k_blank k)
          (k_elided k) (k_unavail k) (k_separator k) (k_warning k) (k_op k) (k_prev k) (k_racegor k).

Lemma reindent_id : forall ks, Forall indented ks -> map reindent ks = ks.
Proof.
  intros ks H. induction H as [|k ks Hk _ IH]; [reflexivity|].
  cbn [map]. rewrite IH. f_equal. destruct k. unfold indented in Hk. cbn in Hk. subst. reflexivity.
Qed.

Lemma reindent_indented : forall ks, Forall indented (map reindent ks).
Proof. induction ks as [|k ks IH]; constructor; [reflexivity|exact IH]. Qed.

Lemma stack_rest_reindent : forall l, stack_rest l -> stack_rest (map reindent l).
Proof.
  intros l H. induction H as [|e rest He Hr IH|f l rest Hf Hl Hr IH]; cbn [map].
  - apply sr_nil.
  - apply sr_elided; [destruct e; exact He|exact IH].
  - apply sr_frame; [destruct f; exact Hf|destruct l; exact Hl|exact IH].
Qed.

Lemma goroutine_reindent : forall e g, goroutine e g -> goroutine e (map reindent g).
Proof.
  intros e g H.
  destruct H as [h f l rest Hh Hf Hl Hr|h f l rest c cl Hh Hf Hl Hr Hc Hcl|h u Hh Hu|h u c cl Hh Hu Hc Hcl];
    cbn [map]; try rewrite map_app; cbn [map].
  - apply g_stack; [destruct h; exact Hh|destruct f; exact Hf|destruct l; exact Hl|apply stack_rest_reindent; exact Hr].
  - apply g_stack_created;
      [destruct h; exact Hh|destruct f; exact Hf|destruct l; exact Hl|apply stack_rest_reindent; exact Hr
      |destruct c; exact Hc|destruct cl; exact Hcl].
  - apply g_unavail; [destruct h; exact Hh|destruct u; exact Hu].
  - apply g_unavail_created; [destruct h; exact Hh|destruct u; exact Hu|destruct c; exact Hc|destruct cl; exact Hcl].
Qed.

Lemma separator_reindent : forall e b, is_separator_after e b -> is_separator_after e (reindent b).
Proof. intros e b H. destruct e, b; exact H. Qed.

Lemma dump_reindent : forall x d, dump x d -> dump x (map reindent d).
Proof.
  intros x d H. induction H as [e g Hg|e g b Hg Hb|e g b x d Hg Hb Hd IH].
  - apply d_last. apply goroutine_reindent. exact Hg.
  - rewrite map_app. cbn [map]. apply (d_last_blank e); [apply goroutine_reindent; exact Hg|apply separator_reindent; exact Hb].
  - rewrite map_app. cbn [map]. apply (d_more e); [apply goroutine_reindent; exact Hg|apply separator_reindent; exact Hb|exact IH].
Qed.

Lemma rframes_reindent : forall (nf : kinds -> Prop), (forall k, nf k -> nf (reindent k)) ->
  forall l, rframes nf l -> rframes nf (map reindent l).
Proof.
  intros nf Hnf l H. induction H as [|f l rest Hf Hl Hr IH]; cbn [map]; [apply rf_nil|].
  apply rf_cons; [apply Hnf; exact Hf|destruct l; exact Hl|exact IH].
Qed.

Lemma section_reindent : forall (hd nf : kinds -> Prop),
  (forall k, hd k -> hd (reindent k)) -> (forall k, nf k -> nf (reindent k)) ->
  forall l, section hd nf l -> section hd nf (map reindent l).
Proof.
  intros hd nf Hhd Hnf l H. destruct H as [h f l rest Hh Hf Hl Hr]. cbn [map].
  apply sec; [apply Hhd; exact Hh|destruct f; exact Hf|destruct l; exact Hl|apply rframes_reindent; assumption].
Qed.

Lemma gor_tail_reindent : forall t, gor_tail t -> gor_tail (map reindent t).
Proof.
  intros t H. induction H as [c Hc|b s t Hb Hs Ht IH]; cbn [map].
  - apply gt_close. destruct c; exact Hc.
  - rewrite map_app. apply gt_more; [destruct b; exact Hb| |exact IH].
    apply section_reindent; [intros k Hk; destruct k; exact Hk|intros k Hk; destruct k; exact Hk|exact Hs].
Qed.

Lemma ops_tail_reindent : forall t, ops_tail t -> ops_tail (map reindent t).
Proof.
  intros t H. induction H as [b s t Hb Hs Ht IH|b s t Hb Hs Ht]; cbn [map]; rewrite map_app.
  - apply ot_prev; [destruct b; exact Hb| |exact IH].
    apply section_reindent; [intros k Hk; destruct k; exact Hk|intros k Hk; destruct k; exact Hk|exact Hs].
  - apply ot_gor; [destruct b; exact Hb| |apply gor_tail_reindent; exact Ht].
    apply section_reindent; [intros k Hk; destruct k; exact Hk|intros k Hk; destruct k; exact Hk|exact Hs].
Qed.

Lemma race_report_reindent : forall l, race_report l -> race_report (map reindent l).
Proof.
  intros l H. destruct H as [o w s t Ho Hw Hs Ht]. cbn [map]. rewrite map_app.
  apply rr; [destruct o; exact Ho|destruct w; exact Hw| |apply ops_tail_reindent; exact Ht].
  apply section_reindent; [intros k Hk; destruct k; exact Hk|intros k Hk; destruct k; exact Hk|exact Hs].
Qed.

(* for properly indented ks, "prefix of the language" may be read on the bare
   productions: the continuation need not be constrained *)
Theorem dump_prefix_shape : forall ks, Forall indented ks ->
  (is_dump_prefix ks <-> exists rest x, dump x (ks ++ rest)).
Proof.
  intros ks Hi. split.
  - intros (rest & _ & x & Hd). exists rest, x. exact Hd.
  - intros (rest & x & Hd). exists (map reindent rest).
    apply dump_reindent in Hd. rewrite map_app, (reindent_id ks Hi) in Hd.
    split; [|exists x; exact Hd].
    apply Forall_app. split; [exact Hi|apply reindent_indented].
Qed.

Theorem race_prefix_shape : forall ks, Forall indented ks ->
  (is_race_prefix ks <-> exists rest, race_report (ks ++ rest)).
Proof.
  intros ks Hi. split.
  - intros (rest & _ & Hr). exists rest. exact Hr.
  - intros (rest & Hr). exists (map reindent rest).
    apply race_report_reindent in Hr. rewrite map_app, (reindent_id ks Hi) in Hr.
    split; [|exact Hr].
    apply Forall_app. split; [exact Hi|apply reindent_indented].
Qed.

(* the statement with the side condition: no indentation mismatch in ks *)
Theorem accepts_iff_shape : forall ks, Forall indented ks ->
  ((exists st, ref_consume looking ks = Some st) <->
   (exists rest x, dump x (ks ++ rest)) \/ (exists rest, race_report (ks ++ rest))).
Proof.
  intros ks Hi. rewrite accepts_iff. unfold in_language.
  rewrite (dump_prefix_shape ks Hi), (race_prefix_shape ks Hi). reflexivity.
Qed.
