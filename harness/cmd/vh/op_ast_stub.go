//go:build !verif

// Without the verif tag stack.VerifFuncTypes is not compiled: op ast is
// unavailable (see op_step_stub.go).
package main

import "math/rand"

func opAst(r *rand.Rand, n int, tier string) { hooksUnavailable() }
