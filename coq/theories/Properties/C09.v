(* Properties/C09.v — Reader delivery independence.  Statements only.

   The outcome of scanning depends only on the byte content of the stream, not
   on how the io.Reader delivers it (one byte at a time, arbitrary chunk sizes,
   zero-length reads, EOF together with or after the last data, lines shorter
   than / equal to / longer than the 16 KiB buffer).

   Vocabulary (Spec/ReaderSpec.v):
     stream r src    = pending r ++ rest src   (bytes not yet returned to the caller)
     first_line b    = b up to and including its first LF, all of b if it has none
     line_err s f    = None if s has an LF, else Some f
     drop_lines n b  = b without its first n lines
     rinv r src      = |pending r| <= buf_cap /\ the sticky error is io.ErrNoProgress
                       or the terminal error of an exhausted source
     rinv_s r src    = |pending r| <= buf_cap /\ the sticky error is the terminal
                       error of an exhausted source
     stall_free sc   = the schedule has no 100 consecutive zero-length reads
                       (the GENERAL version is proved; [positive] implies it)
     scan_proj       = Panic -> None | Ok res -> Some (snap, fwd, rerr_out,
                       suffix ++ rest unread, final_state, lines_read). *)
From PP Require Import Base.Bytes Base.GoResult Model.Types Model.Reader Model.Scan Model.ScanSnapshot.
From PP Require Import Spec.ReaderSpec Proofs.ReaderBase Proofs.ScanErrShape Proofs.ReaderProofs.

(* 1. EVERY schedule (zero-length reads and stalls included): read_line never
   panics (fill is never called on a full buffer, neither fuel is exhausted),
   keeps the invariant and conserves the bytes. *)
Theorem C09_read_line_total : forall r src, rinv r src ->
  exists line e r' src' evs,
    read_line r src = Ok (line, e, r', src', evs) /\
    rinv r' src' /\ line ++ stream r' src' = stream r src /\ final src' = final src.
Proof. exact ReaderProofs.read_line_total. Qed.
Print Assumptions C09_read_line_total.

(* 2. On a stall-free schedule the line and the error are functions of the
   stream alone; an unterminated tail comes with the terminal error and
   empties the stream. *)
Theorem C09_read_line_spec : forall r src, rinv_s r src -> stall_free (sched src) ->
  let s := stream r src in
  exists r' src' evs,
    read_line r src = Ok (first_line s, line_err s (final src), r', src', evs) /\
    rinv_s r' src' /\ stall_free (sched src') /\ final src' = final src /\
    first_line s ++ stream r' src' = s /\
    (has_lf s = false -> stream r' src' = []).
Proof. exact ReaderProofs.read_line_spec. Qed.
Print Assumptions C09_read_line_spec.

(* the same, from rinv and "no pending io.ErrNoProgress" *)
Theorem C09_read_line_spec' : forall r src,
  rinv r src -> rerr r <> Some NoProgress -> stall_free (sched src) ->
  let s := stream r src in
  exists line e r' src' evs,
    read_line r src = Ok (line, e, r', src', evs) /\
    line = first_line s /\
    (e = None <-> In LF s) /\
    (~ In LF s -> e = Some (final src) /\ line = s /\ stream r' src' = []) /\
    (s = [] -> line = [] /\ e = Some (final src)) /\
    line ++ stream r' src' = s /\
    rinv_s r' src' /\ stall_free (sched src') /\ final src' = final src.
Proof. exact ReaderProofs.read_line_spec'. Qed.
Print Assumptions C09_read_line_spec'.

Theorem C09_positive_stall_free : forall sc, positive sc -> stall_free sc.
Proof. exact ReaderBase.positive_stall_free. Qed.
Print Assumptions C09_positive_stall_free.

(* 3. The (n+1)-th call of read_line on a fresh reader returns the (n+1)-th
   line of B (the last one possibly unterminated, then [] forever) and the
   error that belongs to it, whatever the stall-free schedule. *)
Theorem C09_lines : forall n B sc f, stall_free sc ->
  exists r' src' evs,
    nth_read_line n reader0 (mkSource B sc f) =
      Ok (first_line (drop_lines n B), line_err (drop_lines n B) f, r', src', evs) /\
    stream r' src' = drop_lines (S n) B.
Proof. exact ReaderProofs.lines. Qed.
Print Assumptions C09_lines.

(* ... and these lines are a partition of B *)
Theorem C09_lines_cover : forall n B,
  List.concat (map (fun k => first_line (drop_lines k B)) (seq 0 n)) ++ drop_lines n B = B.
Proof. exact ReaderProofs.lines_cover. Qed.
Print Assumptions C09_lines_cover.

(* 4. 100 zero-length reads while content remains: the buffered bytes come
   back with io.ErrNoProgress, nothing is lost, the error is not sticky.
   (Also when the buffer is full: the buffer-full piece is followed by the
   failing fill.) *)
Theorem C09_noprogress : forall r src zs sc,
  List.length (pending r) <= buf_cap -> rerr r = None -> ~ In LF (pending r) ->
  rest src <> [] ->
  sched src = zs ++ sc -> List.length zs = 100 -> Forall (fun s => fst s = 0) zs ->
  exists evs,
    read_line r src =
      Ok (pending r, Some NoProgress, mkReader [] None, mkSource (rest src) sc (final src), evs).
Proof. exact ReaderProofs.noprogress. Qed.
Print Assumptions C09_noprogress.

(* 5. ScanSnapshot: snapshot, forwarded bytes, error, (suffix ++ unread),
   final state and line count do not depend on the schedule.  Only the sum
   suffix ++ unread is independent, not the split (see the Example). *)
Theorem C09_scan_independent : forall na B f sc1 sc2,
  stall_free sc1 -> stall_free sc2 ->
  scan_proj (scan_snapshot na (mkSource B sc1 f)) = scan_proj (scan_snapshot na (mkSource B sc2 f)).
Proof. exact ReaderProofs.scan_independent. Qed.
Print Assumptions C09_scan_independent.

(* the one fact about [scan] that (5) rests on: a scan error always hands the
   line back (l = false, state other than looking), so the loop returns
   line ++ buffer as the suffix instead of dropping the buffer *)
Theorem C09_scan_error_suffix : forall s line ss' l x,
  scan s line = Ok (ss', l, Some x) -> l = false /\ state_eqb (st ss') looking = false.
Proof. exact ScanErrShape.scan_error_suffix. Qed.
Print Assumptions C09_scan_error_suffix.

(* 6. Any number of calls, EVERY schedule: no panic, and the buffer never
   holds more than buf_cap bytes. *)
Theorem C09_buffer_bounded : forall n r src, rinv r src ->
  exists line e r' src' evs,
    nth_read_line n r src = Ok (line, e, r', src', evs) /\
    rinv r' src' /\ List.length (pending r') <= buf_cap /\ final src' = final src.
Proof. exact ReaderProofs.buffer_bounded. Qed.
Print Assumptions C09_buffer_bounded.

(* The hypotheses are satisfiable on a non-trivial instance: a goroutine dump
   followed by trailing text, delivered (1) with zero-length reads and then
   one byte at a time, (2) all at once.  Both runs give the same projection
   (a snapshot with one goroutine, 7 lines read), yet they split the remainder
   differently between the returned suffix and the unread input. *)
Example C09_example :
  let B := s2b "panic: boom" ++ [LF; LF] ++ s2b "goroutine 1 [running]:" ++ [LF] ++
           s2b "main.main()" ++ [LF; 9%N] ++ s2b "/tmp/x.go:3 +0x1" ++ [LF; LF] ++
           s2b "exit status 2" ++ [LF] ++ s2b "trailing line" ++ [LF] ++ s2b "end" in
  let sc1 := [(0, false); (0, false); (3, false); (0, false)] ++ repeat (1, false) 98 in
  let sc2 := @nil (nat * bool) in
  let r1 := scan_snapshot true (mkSource B sc1 EOF) in
  let r2 := scan_snapshot true (mkSource B sc2 EOF) in
  stall_free sc1 /\ stall_free sc2 /\ rinv reader0 (mkSource B sc1 EOF) /\
  scan_proj r1 = scan_proj r2 /\
  option_map (fun p => match p with (sn, _, e, rem, _, n) => (option_map (@List.length _) sn, e, rem, n) end)
             (scan_proj r1) =
    Some (Some 1, ENil, s2b "exit status 2" ++ [LF] ++ s2b "trailing line" ++ [LF] ++ s2b "end", 7) /\
  match r1, r2 with
  | Ok a, Ok b =>
      suffix a = s2b "exit status 2" ++ [LF] /\ rest (unread a) = s2b "trailing line" ++ [LF] ++ s2b "end" /\
      suffix b = s2b "exit status 2" ++ [LF] ++ s2b "trailing line" ++ [LF] ++ s2b "end" /\ rest (unread b) = []
  | _, _ => False
  end.
Proof.
  cbv zeta. split; [|split; [|split; [|split; [|split]]]].
  - cbn [app repeat stall_free leading_zeros]. repeat split; lia.
  - exact I.
  - apply rinv_reader0.
  - apply C09_scan_independent.
    + cbn [app repeat stall_free leading_zeros]. repeat split; lia.
    + exact I.
  - vm_compute. reflexivity.
  - vm_compute. repeat split; reflexivity.
Qed.
