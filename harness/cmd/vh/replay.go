package main

import (
	"bufio"
	"os"
	"strconv"
	"strings"

	"github.com/maruel/panicparse/v2/stack"
)

// opReplay re-runs the implementation on the inputs of the case lines read
// from stdin and emits fresh lines in the same format.
func opReplay() {
	sc := bufio.NewScanner(os.Stdin)
	sc.Buffer(make([]byte, 1<<20), 1<<30)
	for sc.Scan() {
		f := strings.Split(sc.Text(), "\t")
		if len(f) < 3 {
			continue
		}
		op, id, in := f[0], f[1], f[2:]
		switch op {
		case "aggregate":
			lvl, _ := strconv.Atoi(in[0])
			emitAggregate(id, readGoroutines(in[1]), stack.Similarity(lvl))
		case "less3":
			emitLess3(id, in[0])
		default:
			if h, ok := replayers[op]; ok {
				h(id, in)
			} else {
				emit(op, id, "REPLAY-UNSUPPORTED")
			}
		}
	}
}

var replayers = map[string]func(id string, in []string){}
