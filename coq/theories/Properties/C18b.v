(* Properties/C18b.v — Path rebasing, COMPLETENESS: a frame whose file exists
   under the local GOROOT, under a local GOPATH (src/ or pkg/mod/), under a
   directory holding a go.mod with a module directive, or as a lone local
   file ("go run"), IS mapped by the top-level [guess_paths] to that local
   file, with the right class, relative path and import path; a frame under
   none of the possible roots is returned as it was.  Statements only; proofs
   in Proofs/PathsComplete.v.  Model: Model/Paths.v.  C18.v has the shape of
   updateLocations GIVEN the tables and the soundness of findRoots; this file
   adds that the tables contain what they should.

   All theorems are for an arbitrary disk [fs] (association list of regular
   files), arbitrary local roots and arbitrary goroutines; [files] below is
   always [get_files gs], the sorted duplicate-free list findRoots walks.

   Vocabulary (Proofs/PathsComplete.v, no axioms):
     hit fs root g X tail     = X <> [] /\ g = X ++ "/" ++ tail /\ root ++ "/" ++ tail is a file of fs
                                (a cut of the dump path g whose tail exists under root: what
                                isRootedIn looks for)                                  (C18_hit_spec)
     goroot_cand G            = some dump file is G/src/tail with lgoroot/src/tail on the disk
     gopath_cand P l          = some dump file is P/src/tail (or P/pkg/mod/tail) with l/src/tail
                                (l/pkg/mod/tail) on the disk, l a local GOPATH entry
                                (C18_roots_detected_from_disk: every detected root is a candidate)
     module_dir K m           = K/go.mod is on the disk and find_module of its content is m
     is_module K              = exists m, module_dir K m
     under K f                = K ++ "/" is a byte prefix of f
     found_in root sfx g      = g has a hit under root++sfx and ALL its hits there have an X ending
                                with sfx (isRootedIn returns the FIRST hit and does not retry)
     goroot_found g           = found_in lgoroot "/src" g
     gopath_found g           = found_in l "/src" g \/ found_in l "/pkg/mod" g for some local GOPATH l
   The unambiguity hypotheses, one per way the walk can go wrong:
     goroot_unambiguous R     = every hit of every dump file under lgoroot/src has X = R/src
                                (one remote GOROOT; no longer tail of a path also exists there)
     not_goroot_captured f    = no goroot_cand G has G/src/ as a prefix of f
     not_gopath_captured f    = no gopath_cand P has P/src/ or P/pkg/mod/ as a prefix of f
     gopath_unique f P l      = the only gopath_cand (P', l') with P'/src/ or P'/pkg/mod/ a prefix
                                of f is (P, l)   (no overlapping remote GOPATHs above f; the
                                relative path of no dump file under P exists in two local GOPATHs)
     not_module_captured std f= for every dump file g that the GOPATH probes do not locate
                                (~ gopath_found g) [and, when std, the GOROOT probe neither]:
                                no module directory above g, and not path.Dir g when g exists
                                locally, is above f.  (Such a g would record a module root that
                                makes findRoots skip f before GOROOT/GOPATH were bound.)
     not_module_rooted f      = no directory above f is a module directory or the directory of a
                                dump file that exists locally
   Each has a boolean checker (…b) with a soundness lemma, and each theorem a
   form taking ONE boolean [unambiguous_… = true] (C18_complete_…_b), used by
   the examples.
   Conclusions:
     rebased c c' local rel imp loc
                              = LocalSrcPath c' = local, RelSrcPath c' = rel, CImportPath c' = imp,
                                CLocation c' = classify c loc, same_core c c'
     calls_related P gs gs'   = Forall2 over the goroutines of Forall2 P over Stack.Calls and over
                                CreatedBy.Calls (position by position)
     all_calls g              = Stack.Calls ++ CreatedBy.Calls
   C18_complete_out / _plain turn a calls_related conclusion into the sentence
   "every call of snd (guess_paths …) whose RemoteSrcPath is f has …".

   Found while proving (all confirmed on the model by vm_compute, see the
   …_refuted examples; each is the behaviour of the Go code as modelled):
   - isRootedIn returns the FIRST cut that hits (longest tail) and the caller
     only tests its suffix: if lgoroot/src/src/fmt/p.go exists next to
     lgoroot/src/fmt/p.go, "/R/src/fmt/p.go" is NOT recognised;
   - a GOROOT file is classified GOPATH when an earlier file bound its root as
     a remote GOPATH, and GoMod when an earlier unlocated file under the same
     go.mod (GOROOT/src/go.mod exists in real trees) recorded the module first;
   - a second remote GOROOT is never detected;
   - the same relative path under two local GOPATHs: the first in GOPATH order wins;
   - a GOPATH file whose tail exists under the local GOROOT becomes Stdlib;
   - with relative dump paths, a lone file "b.go" that exists locally overwrites
     the module found at "." with "main" (hence K <> "." in C18_complete_gomod).
   Layouts NOT covered by the theorems: two remote GOROOTs; remote GOPATHs one
   above the other or one local file reachable from two (remote, local) pairs
   (gopath_unique; C18_longest_gopath_wins covers the table side only); cuts
   that hit but are not aligned on /src or /pkg/mod; dump paths that are not
   clean (C18_example_unclean); a GOROOT or GOPATH file lying inside a module
   directory that an unlocated sibling registers first. *)
From PP Require Import Base.Bytes Base.BytesX Base.GoResult Model.Types Model.Paths.
From PP Require Import Proofs.PathsBase Proofs.PathsProofs Proofs.PathsComplete.
From Coq Require Import String.

(* ------------------------------------------------------------------ *)
(* 0. the vocabulary, spelled out                                       *)
(* ------------------------------------------------------------------ *)

Theorem C18_hit_spec : forall fs root g X tail,
  hit fs root g X tail <->
  X <> [] /\ g = X ++ b_slash :: tail /\ is_file fs (root ++ b_slash :: tail) = true.
Proof. intros; reflexivity. Qed.
Print Assumptions C18_hit_spec.

(* isRootedIn on a clean path: as soon as some cut hits it answers the root of a hit,
   otherwise "" *)
Theorem C18_rooted_first : forall fs root f X tail,
  clean_path f = true -> hit fs root f X tail ->
  exists X' tail', hit fs root f X' tail' /\ is_rooted_in fs root (split_path f) = X'.
Proof. exact PathsComplete.rooted_first. Qed.
Print Assumptions C18_rooted_first.

Theorem C18_rooted_none : forall fs root f,
  clean_path f = true -> (forall X tail, ~ hit fs root f X tail) ->
  is_rooted_in fs root (split_path f) = [].
Proof. exact PathsComplete.rooted_none. Qed.
Print Assumptions C18_rooted_none.

(* splitPath of a clean path cut at a '/' *)
Theorem C18_split_path_app : forall A B,
  A <> [] -> clean_path (A ++ b_slash :: B) = true ->
  split_path (A ++ b_slash :: B) = split_path A ++ split_path B /\
  clean_path A = true /\ clean_path B = true /\ B <> [].
Proof. exact PathsComplete.split_path_app. Qed.
Print Assumptions C18_split_path_app.

(* the upward search for a go.mod over the directories E k, ..., E 1 of a path: it visits
   E k .. E t, stops at the first module directory or at the first directory already cached *)
Theorem C18_walk_spec : forall fs parts k cache cache' res,
  k < List.length parts ->
  is_go_module_go fs cache (map (fun i => firstn i parts) (desc k)) = (cache', res) ->
  exists t, 1 <= t <= k + 1 /\
    (forall D, In D cache' <-> In D cache \/ exists i, t <= i <= k /\ D = dir_at parts i) /\
    match res with
    | Some (root, m) => t <= k /\ root = dir_at parts t /\ module_dir fs (dir_at parts t) m /\
                        (forall i, t < i <= k -> ~ is_module fs (dir_at parts i))
    | None => (forall i, t <= i <= k -> ~ is_module fs (dir_at parts i)) /\
              (t = 1 \/ In (dir_at parts (t - 1)) cache)
    end.
Proof. exact PathsComplete.walk_spec. Qed.
Print Assumptions C18_walk_spec.

(* reading a calls_related conclusion from the output side *)
Theorem C18_complete_out : forall fs lgoroot lgopaths gs f local rel (imp : Call -> bytes) loc,
  calls_related (fun c c' => RemoteSrcPath c = f -> rebased c c' local rel (imp c) loc)
                gs (snd (guess_paths fs lgoroot lgopaths gs)) ->
  forall g' c', In g' (snd (guess_paths fs lgoroot lgopaths gs)) -> In c' (all_calls g') ->
    RemoteSrcPath c' = f ->
    LocalSrcPath c' = local /\ RelSrcPath c' = rel /\
    exists g c, In g gs /\ In c (all_calls g) /\ RemoteSrcPath c = f /\
      CImportPath c' = imp c /\ CLocation c' = classify c loc.
Proof. exact PathsComplete.complete_out. Qed.
Print Assumptions C18_complete_out.

(* ------------------------------------------------------------------ *)
(* 1. GOROOT                                                            *)
(* ------------------------------------------------------------------ *)

Theorem C18_complete_goroot : forall fs lgoroot lgopaths gs R f rel,
  (forall g, In g (get_files gs) -> clean_path g = true) ->
  R <> [] -> In f (get_files gs) -> f = R ++ s2b "/src/" ++ rel ->
  is_file fs (lgoroot ++ s2b "/src/" ++ rel) = true ->
  goroot_unambiguous fs lgoroot (get_files gs) R ->
  not_gopath_captured fs lgopaths (get_files gs) f ->
  not_module_captured fs lgoroot lgopaths (get_files gs) true f ->
  remote_goroot (fst (guess_paths fs lgoroot lgopaths gs)) = R /\
  calls_related (fun c c' => RemoteSrcPath c = f ->
                   rebased c c' (lgoroot ++ s2b "/src/" ++ rel) rel (dir_import c rel) Stdlib)
                gs (snd (guess_paths fs lgoroot lgopaths gs)).
Proof. exact PathsComplete.complete_goroot. Qed.
Print Assumptions C18_complete_goroot.

(* the sentence of the property: every call of the output whose remote path is f *)
Theorem C18_complete_goroot_plain : forall fs lgoroot lgopaths gs R f dir base,
  (forall g, In g (get_files gs) -> clean_path g = true) ->
  R <> [] -> In f (get_files gs) -> f = R ++ s2b "/src/" ++ dir ++ [b_slash] ++ base -> ~ In b_slash base ->
  is_file fs (lgoroot ++ s2b "/src/" ++ dir ++ [b_slash] ++ base) = true ->
  goroot_unambiguous fs lgoroot (get_files gs) R ->
  not_gopath_captured fs lgopaths (get_files gs) f ->
  not_module_captured fs lgoroot lgopaths (get_files gs) true f ->
  (forall g c, In g gs -> In c (all_calls g) -> RemoteSrcPath c = f -> CLocation c = LocationUnknown) ->
  forall g' c', In g' (snd (guess_paths fs lgoroot lgopaths gs)) -> In c' (all_calls g') ->
    RemoteSrcPath c' = f ->
    LocalSrcPath c' = lgoroot ++ s2b "/src/" ++ dir ++ [b_slash] ++ base /\
    RelSrcPath c' = dir ++ [b_slash] ++ base /\ CImportPath c' = dir /\ CLocation c' = Stdlib.
Proof. exact PathsComplete.complete_goroot_plain. Qed.
Print Assumptions C18_complete_goroot_plain.

Theorem C18_complete_goroot_b : forall fs lgoroot lgopaths gs R f rel,
  unambiguous_goroot fs lgoroot lgopaths (get_files gs) R f = true ->
  R <> [] -> In f (get_files gs) -> f = R ++ s2b "/src/" ++ rel ->
  is_file fs (lgoroot ++ s2b "/src/" ++ rel) = true ->
  remote_goroot (fst (guess_paths fs lgoroot lgopaths gs)) = R /\
  calls_related (fun c c' => RemoteSrcPath c = f ->
                   rebased c c' (lgoroot ++ s2b "/src/" ++ rel) rel (dir_import c rel) Stdlib)
                gs (snd (guess_paths fs lgoroot lgopaths gs)).
Proof. exact PathsComplete.complete_goroot_b. Qed.
Print Assumptions C18_complete_goroot_b.

(* ------------------------------------------------------------------ *)
(* 2. GOPATH: src/ -> class GOPATH, pkg/mod/ -> class GoPkg             *)
(* ------------------------------------------------------------------ *)

Theorem C18_complete_gopath : forall fs lgoroot lgopaths gs P l f rel,
  (forall g, In g (get_files gs) -> clean_path g = true) ->
  In f (get_files gs) -> f = P ++ s2b "/src/" ++ rel -> In l lgopaths ->
  is_file fs (l ++ s2b "/src/" ++ rel) = true ->
  not_goroot_captured fs lgoroot (get_files gs) f ->
  gopath_unique fs lgopaths (get_files gs) f P l ->
  (forall X tail, hit fs (l ++ s2b "/src") f X tail -> X = P ++ s2b "/src") ->
  not_module_captured fs lgoroot lgopaths (get_files gs) false f ->
  In (P, l) (remote_gopaths (fst (guess_paths fs lgoroot lgopaths gs))) /\
  calls_related (fun c c' => RemoteSrcPath c = f ->
                   rebased c c' (l ++ s2b "/src/" ++ rel) rel (dir_import c rel) GOPATH)
                gs (snd (guess_paths fs lgoroot lgopaths gs)).
Proof. exact PathsComplete.complete_gopath. Qed.
Print Assumptions C18_complete_gopath.

Theorem C18_complete_gopkg : forall fs lgoroot lgopaths gs P l f rel,
  (forall g, In g (get_files gs) -> clean_path g = true) ->
  In f (get_files gs) -> f = P ++ s2b "/pkg/mod/" ++ rel -> In l lgopaths ->
  is_file fs (l ++ s2b "/pkg/mod/" ++ rel) = true ->
  not_goroot_captured fs lgoroot (get_files gs) f ->
  gopath_unique fs lgopaths (get_files gs) f P l ->
  (forall X tail, hit fs (l ++ s2b "/pkg/mod") f X tail -> X = P ++ s2b "/pkg/mod") ->
  not_module_captured fs lgoroot lgopaths (get_files gs) false f ->
  In (P, l) (remote_gopaths (fst (guess_paths fs lgoroot lgopaths gs))) /\
  calls_related (fun c c' => RemoteSrcPath c = f ->
                   rebased c c' (l ++ s2b "/pkg/mod/" ++ rel) rel (dir_import c rel) GoPkg)
                gs (snd (guess_paths fs lgoroot lgopaths gs)).
Proof. exact PathsComplete.complete_gopkg. Qed.
Print Assumptions C18_complete_gopkg.

(* both at once: pk = false is src/ (GOPATH), pk = true is pkg/mod/ (GoPkg);
   mid_of pk = "/src/" | "/pkg/mod/", sfx_of pk = "/src" | "/pkg/mod", loc_of pk = GOPATH | GoPkg *)
Theorem C18_complete_gopath_plain : forall pk fs lgoroot lgopaths gs P l f dir base,
  (forall g, In g (get_files gs) -> clean_path g = true) ->
  In f (get_files gs) -> f = P ++ mid_of pk ++ dir ++ [b_slash] ++ base -> ~ In b_slash base ->
  In l lgopaths -> is_file fs (l ++ mid_of pk ++ dir ++ [b_slash] ++ base) = true ->
  not_goroot_captured fs lgoroot (get_files gs) f ->
  gopath_unique fs lgopaths (get_files gs) f P l ->
  (forall X tail, hit fs (l ++ sfx_of pk) f X tail -> X = P ++ sfx_of pk) ->
  not_module_captured fs lgoroot lgopaths (get_files gs) false f ->
  (forall g c, In g gs -> In c (all_calls g) -> RemoteSrcPath c = f -> CLocation c = LocationUnknown) ->
  forall g' c', In g' (snd (guess_paths fs lgoroot lgopaths gs)) -> In c' (all_calls g') ->
    RemoteSrcPath c' = f ->
    LocalSrcPath c' = l ++ mid_of pk ++ dir ++ [b_slash] ++ base /\
    RelSrcPath c' = dir ++ [b_slash] ++ base /\ CImportPath c' = dir /\ CLocation c' = loc_of pk.
Proof. exact PathsComplete.complete_gopath_plain. Qed.
Print Assumptions C18_complete_gopath_plain.

Theorem C18_complete_gopath_b : forall pk fs lgoroot lgopaths gs P l f rel,
  unambiguous_gopath pk fs lgoroot lgopaths (get_files gs) P l f = true ->
  In f (get_files gs) -> f = P ++ mid_of pk ++ rel -> In l lgopaths ->
  is_file fs (l ++ mid_of pk ++ rel) = true ->
  In (P, l) (remote_gopaths (fst (guess_paths fs lgoroot lgopaths gs))) /\
  calls_related (fun c c' => RemoteSrcPath c = f ->
                   rebased c c' (l ++ mid_of pk ++ rel) rel (dir_import c rel) (loc_of pk))
                gs (snd (guess_paths fs lgoroot lgopaths gs)).
Proof. exact PathsComplete.complete_gopath_b. Qed.
Print Assumptions C18_complete_gopath_b.

(* ------------------------------------------------------------------ *)
(* 3. go.mod modules: the INNERMOST module directory above f wins,      *)
(*    whatever the order of the files (repaired behaviour, F11)         *)
(* ------------------------------------------------------------------ *)

Theorem C18_complete_gomod : forall fs lgoroot lgopaths gs K m f rel,
  (forall g, In g (get_files gs) -> clean_path g = true) ->
  K <> [] -> K <> s2b "." -> In f (get_files gs) -> f = K ++ s2b "/" ++ rel ->
  module_dir fs K m ->
  (forall K', K' <> [] -> under K' f -> is_module fs K' -> List.length K' <= List.length K) ->
  not_goroot_captured fs lgoroot (get_files gs) f ->
  not_gopath_captured fs lgopaths (get_files gs) f ->
  In (K, m) (local_gomods (fst (guess_paths fs lgoroot lgopaths gs))) /\
  calls_related (fun c c' => RemoteSrcPath c = f -> rebased c c' f rel (mod_import m rel) GoMod)
                gs (snd (guess_paths fs lgoroot lgopaths gs)).
Proof. exact PathsComplete.complete_gomod. Qed.
Print Assumptions C18_complete_gomod.

Theorem C18_complete_gomod_plain : forall fs lgoroot lgopaths gs K m f dir base,
  (forall g, In g (get_files gs) -> clean_path g = true) ->
  K <> [] -> K <> s2b "." -> In f (get_files gs) -> f = K ++ s2b "/" ++ dir ++ [b_slash] ++ base ->
  ~ In b_slash base -> module_dir fs K m ->
  (forall K', K' <> [] -> under K' f -> is_module fs K' -> List.length K' <= List.length K) ->
  not_goroot_captured fs lgoroot (get_files gs) f ->
  not_gopath_captured fs lgopaths (get_files gs) f ->
  (forall g c, In g gs -> In c (all_calls g) -> RemoteSrcPath c = f -> CLocation c = LocationUnknown) ->
  forall g' c', In g' (snd (guess_paths fs lgoroot lgopaths gs)) -> In c' (all_calls g') ->
    RemoteSrcPath c' = f ->
    LocalSrcPath c' = f /\ RelSrcPath c' = dir ++ [b_slash] ++ base /\
    CImportPath c' = m ++ [b_slash] ++ dir /\ CLocation c' = GoMod.
Proof. exact PathsComplete.complete_gomod_plain. Qed.
Print Assumptions C18_complete_gomod_plain.

Theorem C18_complete_gomod_b : forall fs lgoroot lgopaths gs K m f rel,
  unambiguous_gomod fs lgoroot lgopaths (get_files gs) K f = true ->
  In f (get_files gs) -> f = K ++ s2b "/" ++ rel -> module_dir fs K m ->
  In (K, m) (local_gomods (fst (guess_paths fs lgoroot lgopaths gs))) /\
  calls_related (fun c c' => RemoteSrcPath c = f -> rebased c c' f rel (mod_import m rel) GoMod)
                gs (snd (guess_paths fs lgoroot lgopaths gs)).
Proof. exact PathsComplete.complete_gomod_b. Qed.
Print Assumptions C18_complete_gomod_b.

(* the invariant behind it: after any prefix of the walk, for every directory D in the go.mod
   cache, the innermost module directory at or above D is a key of LocalGomods *)
Theorem C18_gomod_cache_invariant : forall fs lgoroot lgopaths files l st,
  (forall g, In g files -> clean_path g = true) ->
  modinv fs files st -> (forall g, In g l -> In g files) ->
  modinv fs files (fold_left (find_roots_step fs lgoroot lgopaths) l st).
Proof. intros fs lgoroot lgopaths files l st H. exact (PathsComplete.fold_modinv fs lgoroot lgopaths files H l st). Qed.
Print Assumptions C18_gomod_cache_invariant.

(* "go run": a dump file that exists locally, outside every module and every GOROOT/GOPATH
   candidate, whose directory D is the only such directory above it: package main *)
Theorem C18_complete_main : forall fs lgoroot lgopaths gs D f base,
  (forall g, In g (get_files gs) -> clean_path g = true) ->
  D <> [] -> In f (get_files gs) -> f = D ++ s2b "/" ++ base -> ~ In b_slash base ->
  is_file fs f = true ->
  not_goroot_captured fs lgoroot (get_files gs) f ->
  not_gopath_captured fs lgopaths (get_files gs) f ->
  (forall K, under K f ->
     (forall m, ~ module_dir fs K m) /\
     (forall g, In g (get_files gs) -> is_file fs g = true -> K = path_dir g -> K = D)) ->
  In (D, s2b "main") (local_gomods (fst (guess_paths fs lgoroot lgopaths gs))) /\
  calls_related (fun c c' => RemoteSrcPath c = f -> rebased c c' f base (s2b "main") GoMod)
                gs (snd (guess_paths fs lgoroot lgopaths gs)).
Proof. exact PathsComplete.complete_main. Qed.
Print Assumptions C18_complete_main.

Theorem C18_complete_main_b : forall fs lgoroot lgopaths gs D f base,
  unambiguous_main fs lgoroot lgopaths (get_files gs) D f = true ->
  D <> [] -> In f (get_files gs) -> f = D ++ s2b "/" ++ base -> ~ In b_slash base ->
  is_file fs f = true ->
  In (D, s2b "main") (local_gomods (fst (guess_paths fs lgoroot lgopaths gs))) /\
  calls_related (fun c c' => RemoteSrcPath c = f -> rebased c c' f base (s2b "main") GoMod)
                gs (snd (guess_paths fs lgoroot lgopaths gs)).
Proof. exact PathsComplete.complete_main_b. Qed.
Print Assumptions C18_complete_main_b.

(* ------------------------------------------------------------------ *)
(* 4. frames under none of the roots                                    *)
(* ------------------------------------------------------------------ *)

(* under none of the roots the disk makes POSSIBLE: the call is returned as it is *)
Theorem C18_unresolved_unchanged : forall fs lgoroot lgopaths gs f,
  (forall g, In g (get_files gs) -> clean_path g = true) ->
  not_goroot_captured fs lgoroot (get_files gs) f ->
  not_gopath_captured fs lgopaths (get_files gs) f ->
  not_module_rooted fs (get_files gs) f ->
  calls_related (fun c c' => RemoteSrcPath c = f -> c' = c) gs (snd (guess_paths fs lgoroot lgopaths gs)).
Proof. exact PathsComplete.unresolved_unchanged. Qed.
Print Assumptions C18_unresolved_unchanged.

Theorem C18_unresolved_unknown : forall fs lgoroot lgopaths gs f,
  (forall g, In g (get_files gs) -> clean_path g = true) ->
  not_goroot_captured fs lgoroot (get_files gs) f ->
  not_gopath_captured fs lgopaths (get_files gs) f ->
  not_module_rooted fs (get_files gs) f ->
  calls_related (fun c c' => RemoteSrcPath c = f ->
                   LocalSrcPath c = [] -> RelSrcPath c = [] -> CLocation c = LocationUnknown ->
                   LocalSrcPath c' = [] /\ RelSrcPath c' = [] /\ CLocation c' = LocationUnknown /\
                   CImportPath c' = CImportPath c)
                gs (snd (guess_paths fs lgoroot lgopaths gs)).
Proof. exact PathsComplete.unresolved_unknown. Qed.
Print Assumptions C18_unresolved_unknown.

(* under none of the roots that WERE detected, for any disk and any dump (no hypothesis) *)
Theorem C18_unresolved_detected : forall fs lgoroot lgopaths gs f,
  let r := fst (guess_paths fs lgoroot lgopaths gs) in
  goroot_miss (remote_goroot r) f -> gopaths_miss (remote_gopaths r) f -> gomods_miss (local_gomods r) f ->
  calls_related (fun c c' => RemoteSrcPath c = f -> c' = c) gs (snd (guess_paths fs lgoroot lgopaths gs)).
Proof. exact PathsComplete.unresolved_detected. Qed.
Print Assumptions C18_unresolved_detected.

Theorem C18_unresolved_unchanged_b : forall fs lgoroot lgopaths gs f,
  outside_all_roots fs lgoroot lgopaths (get_files gs) f = true ->
  calls_related (fun c c' => RemoteSrcPath c = f -> c' = c) gs (snd (guess_paths fs lgoroot lgopaths gs)).
Proof. exact PathsComplete.unresolved_unchanged_b. Qed.
Print Assumptions C18_unresolved_unchanged_b.

(* ------------------------------------------------------------------ *)
(* 5. the boolean checkers decide the hypotheses (soundness)            *)
(* ------------------------------------------------------------------ *)

Theorem C18_checkers_sound : forall fs lgoroot lgopaths files,
  (cleanb files = true -> forall g, In g files -> clean_path g = true) /\
  (forall R, goroot_unambiguousb fs lgoroot files R = true -> goroot_unambiguous fs lgoroot files R) /\
  (forall f, not_goroot_capturedb fs lgoroot files f = true -> not_goroot_captured fs lgoroot files f) /\
  (forall f, not_gopath_capturedb fs lgopaths files f = true -> not_gopath_captured fs lgopaths files f) /\
  (forall f P l, gopath_uniqueb fs lgopaths files f P l = true -> gopath_unique fs lgopaths files f P l) /\
  (forall pk l P f, alignedb fs pk l P f = true ->
     forall X tail, hit fs (l ++ sfx_of pk) f X tail -> X = P ++ sfx_of pk) /\
  (forall std f, not_module_capturedb fs lgoroot lgopaths files std f = true ->
     not_module_captured fs lgoroot lgopaths files std f) /\
  (forall K f, innermostb fs K f = true ->
     forall K', K' <> [] -> under K' f -> is_module fs K' -> List.length K' <= List.length K) /\
  (forall f, not_module_rootedb fs files f = true -> not_module_rooted fs files f).
Proof. exact PathsComplete.checkers_sound. Qed.
Print Assumptions C18_checkers_sound.

(* ------------------------------------------------------------------ *)
(* Examples.  One dump over a GOROOT, two GOPATHs (src/ and pkg/mod/),  *)
(* a module with a nested module, a "go run" file, a file nowhere and   *)
(* the go-test main; all remote roots differ from the local ones        *)
(* except for the modules.                                              *)
(* ------------------------------------------------------------------ *)
Open Scope string_scope.

Definition exb_frame (path : string) : Call :=
  mkCall emptyFunc emptyArgs (s2b path) 10 [] [] [] [] [] LocationUnknown.
Definition exb_testmain : Call :=
  mkCall emptyFunc emptyArgs (s2b "_test/_testmain.go") 10 (s2b "_testmain.go") (s2b "_test/_testmain.go")
         [] [] [] Stdlib.
Definition exb_goroutine (id : Z) (cs cb : list Call) : Goroutine :=
  mkGoroutine (mkSig (s2b "running") (mkStack cb false) 0 0 (mkStack cs false) false) id false false 0.
Definition exb_file (p : string) : bytes * bytes := (s2b p, s2b "package x").
Definition exb_gomod (p m : string) : bytes * bytes := (s2b p, (s2b "module " ++ s2b m ++ [10%N])%list).
Definition exb_files (l : list string) : fsys := map exb_file l.

Definition exb_fs : fsys :=
  [ exb_file "/usr/lib/go/src/runtime/proc.go"; exb_file "/usr/lib/go/src/fmt/print.go";
    exb_gomod "/usr/lib/go/src/go.mod" "std";
    exb_file "/home/me/go/src/example.com/foo/foo.go";
    exb_file "/home/me/go/pkg/mod/github.com/x/y@v1.2.3/y.go";
    exb_file "/opt/gp2/src/corp/lib/lib.go";
    exb_gomod "/work/app/go.mod" "example.com/app"; exb_file "/work/app/main.go";
    exb_file "/work/app/cmd/run/run.go";
    exb_gomod "/work/app/tools/go.mod" "example.com/app/tools"; exb_file "/work/app/tools/gen/gen.go";
    exb_file "/tmp/scratch/hello.go" ].
Definition exb_lgoroot : bytes := s2b "/usr/lib/go".
Definition exb_lgopaths : list bytes := [s2b "/home/me/go"; s2b "/opt/gp2"].

Definition exb_gs : list Goroutine :=
  [ exb_goroutine 1
      [ exb_frame "/remote/goroot/src/runtime/proc.go"; exb_frame "/remote/goroot/src/fmt/print.go";
        exb_frame "/build/gopath/src/example.com/foo/foo.go";
        exb_frame "/build/gopath/pkg/mod/github.com/x/y@v1.2.3/y.go";
        exb_frame "/ci/second/src/corp/lib/lib.go" ]
      [ exb_frame "/work/app/main.go" ];
    exb_goroutine 2
      [ exb_frame "/work/app/tools/gen/gen.go"; exb_frame "/work/app/cmd/run/run.go";
        exb_frame "/work/app/main.go"; exb_frame "/tmp/scratch/hello.go";
        exb_frame "/nowhere/none.go"; exb_testmain ] [] ].

Definition exb_res := guess_paths exb_fs exb_lgoroot exb_lgopaths exb_gs.
Definition exb_show (c : Call) := (LocalSrcPath c, RelSrcPath c, CImportPath c, CLocation c).
Definition exb_fl := get_files exb_gs.

Example C18b_example_roots :
  (remote_goroot (fst exb_res), remote_gopaths (fst exb_res), local_gomods (fst exb_res), missing (fst exb_res)) =
  (s2b "/remote/goroot",
   [(s2b "/build/gopath", s2b "/home/me/go"); (s2b "/ci/second", s2b "/opt/gp2")],
   [(s2b "/tmp/scratch", s2b "main"); (s2b "/work/app", s2b "example.com/app");
    (s2b "/work/app/tools", s2b "example.com/app/tools")],
   2).
Proof. vm_compute. reflexivity. Qed.

Example C18b_example_calls :
  map (fun g => (map exb_show (Calls (SStack (GSig g))), map exb_show (Calls (CreatedBy (GSig g))))) (snd exb_res) =
  [ ([ (s2b "/usr/lib/go/src/runtime/proc.go", s2b "runtime/proc.go", s2b "runtime", Stdlib);
       (s2b "/usr/lib/go/src/fmt/print.go", s2b "fmt/print.go", s2b "fmt", Stdlib);
       (s2b "/home/me/go/src/example.com/foo/foo.go", s2b "example.com/foo/foo.go", s2b "example.com/foo", GOPATH);
       (s2b "/home/me/go/pkg/mod/github.com/x/y@v1.2.3/y.go", s2b "github.com/x/y@v1.2.3/y.go",
        s2b "github.com/x/y@v1.2.3", GoPkg);
       (s2b "/opt/gp2/src/corp/lib/lib.go", s2b "corp/lib/lib.go", s2b "corp/lib", GOPATH) ],
     [ (s2b "/work/app/main.go", s2b "main.go", s2b "example.com/app", GoMod) ]);
    ([ (s2b "/work/app/tools/gen/gen.go", s2b "gen/gen.go", s2b "example.com/app/tools/gen", GoMod);
       (s2b "/work/app/cmd/run/run.go", s2b "cmd/run/run.go", s2b "example.com/app/cmd/run", GoMod);
       (s2b "/work/app/main.go", s2b "main.go", s2b "example.com/app", GoMod);
       (s2b "/tmp/scratch/hello.go", s2b "hello.go", s2b "main", GoMod);
       ([], [], [], LocationUnknown);
       ([], [], [], Stdlib) ],
     []) ].
Proof. vm_compute. reflexivity. Qed.

(* the hypotheses of every theorem hold on this layout, for every file of the dump *)
Example C18b_example_unambiguous :
  unambiguous_goroot exb_fs exb_lgoroot exb_lgopaths exb_fl (s2b "/remote/goroot") (s2b "/remote/goroot/src/runtime/proc.go") = true /\
  unambiguous_goroot exb_fs exb_lgoroot exb_lgopaths exb_fl (s2b "/remote/goroot") (s2b "/remote/goroot/src/fmt/print.go") = true /\
  unambiguous_gopath false exb_fs exb_lgoroot exb_lgopaths exb_fl (s2b "/build/gopath") (s2b "/home/me/go")
    (s2b "/build/gopath/src/example.com/foo/foo.go") = true /\
  unambiguous_gopath true exb_fs exb_lgoroot exb_lgopaths exb_fl (s2b "/build/gopath") (s2b "/home/me/go")
    (s2b "/build/gopath/pkg/mod/github.com/x/y@v1.2.3/y.go") = true /\
  unambiguous_gopath false exb_fs exb_lgoroot exb_lgopaths exb_fl (s2b "/ci/second") (s2b "/opt/gp2")
    (s2b "/ci/second/src/corp/lib/lib.go") = true /\
  unambiguous_gomod exb_fs exb_lgoroot exb_lgopaths exb_fl (s2b "/work/app") (s2b "/work/app/main.go") = true /\
  unambiguous_gomod exb_fs exb_lgoroot exb_lgopaths exb_fl (s2b "/work/app") (s2b "/work/app/cmd/run/run.go") = true /\
  unambiguous_gomod exb_fs exb_lgoroot exb_lgopaths exb_fl (s2b "/work/app/tools") (s2b "/work/app/tools/gen/gen.go") = true /\
  (* /work/app is a module above gen.go, but not the innermost one *)
  unambiguous_gomod exb_fs exb_lgoroot exb_lgopaths exb_fl (s2b "/work/app") (s2b "/work/app/tools/gen/gen.go") = false /\
  unambiguous_main exb_fs exb_lgoroot exb_lgopaths exb_fl (s2b "/tmp/scratch") (s2b "/tmp/scratch/hello.go") = true /\
  outside_all_roots exb_fs exb_lgoroot exb_lgopaths exb_fl (s2b "/nowhere/none.go") = true /\
  outside_all_roots exb_fs exb_lgoroot exb_lgopaths exb_fl (s2b "_test/_testmain.go") = true.
Proof. vm_compute. repeat split. Qed.

(* the theorems applied to it (not evaluated: derived from the hypotheses) *)
Example C18b_example_goroot_applies :
  remote_goroot (fst exb_res) = s2b "/remote/goroot" /\
  calls_related (fun c c' => RemoteSrcPath c = s2b "/remote/goroot/src/fmt/print.go" ->
                   rebased c c' (s2b "/usr/lib/go/src/fmt/print.go") (s2b "fmt/print.go")
                           (dir_import c (s2b "fmt/print.go")) Stdlib)
                exb_gs (snd exb_res).
Proof.
  apply (C18_complete_goroot_b exb_fs exb_lgoroot exb_lgopaths exb_gs (s2b "/remote/goroot")
           (s2b "/remote/goroot/src/fmt/print.go") (s2b "fmt/print.go"));
    [vm_compute; reflexivity|discriminate|apply existsb_beq_in; vm_compute; reflexivity|reflexivity|vm_compute; reflexivity].
Qed.

Example C18b_example_gopkg_applies :
  In (s2b "/build/gopath", s2b "/home/me/go") (remote_gopaths (fst exb_res)) /\
  calls_related (fun c c' => RemoteSrcPath c = s2b "/build/gopath/pkg/mod/github.com/x/y@v1.2.3/y.go" ->
                   rebased c c' (s2b "/home/me/go/pkg/mod/github.com/x/y@v1.2.3/y.go")
                           (s2b "github.com/x/y@v1.2.3/y.go")
                           (dir_import c (s2b "github.com/x/y@v1.2.3/y.go")) GoPkg)
                exb_gs (snd exb_res).
Proof.
  apply (C18_complete_gopath_b true exb_fs exb_lgoroot exb_lgopaths exb_gs (s2b "/build/gopath") (s2b "/home/me/go")
           (s2b "/build/gopath/pkg/mod/github.com/x/y@v1.2.3/y.go") (s2b "github.com/x/y@v1.2.3/y.go"));
    [vm_compute; reflexivity|apply existsb_beq_in; vm_compute; reflexivity|reflexivity
    |left; reflexivity|vm_compute; reflexivity].
Qed.

Example C18b_example_nested_module_applies :
  In (s2b "/work/app/tools", s2b "example.com/app/tools") (local_gomods (fst exb_res)) /\
  calls_related (fun c c' => RemoteSrcPath c = s2b "/work/app/tools/gen/gen.go" ->
                   rebased c c' (s2b "/work/app/tools/gen/gen.go") (s2b "gen/gen.go")
                           (mod_import (s2b "example.com/app/tools") (s2b "gen/gen.go")) GoMod)
                exb_gs (snd exb_res).
Proof.
  apply (C18_complete_gomod_b exb_fs exb_lgoroot exb_lgopaths exb_gs (s2b "/work/app/tools")
           (s2b "example.com/app/tools") (s2b "/work/app/tools/gen/gen.go") (s2b "gen/gen.go"));
    [vm_compute; reflexivity|apply existsb_beq_in; vm_compute; reflexivity|reflexivity|].
  eexists. split; vm_compute; reflexivity.
Qed.

(* nested modules, the file of the OUTER module sorting first (F11): the inner file still gets
   the inner module *)
Example C18b_example_f11 :
  let fs := [exb_gomod "/w/go.mod" "o"; exb_gomod "/w/in/go.mod" "i"] in
  let gs := [exb_goroutine 1 [exb_frame "/w/a.go"; exb_frame "/w/in/b.go"] []] in
  unambiguous_gomod fs [] [] (get_files gs) (s2b "/w/in") (s2b "/w/in/b.go") = true /\
  map (fun g => map exb_show (Calls (SStack (GSig g)))) (snd (guess_paths fs [] [] gs)) =
  [[(s2b "/w/a.go", s2b "a.go", s2b "o", GoMod); (s2b "/w/in/b.go", s2b "b.go", s2b "i", GoMod)]].
Proof. vm_compute. split; reflexivity. Qed.

(* ------------------------------------------------------------------ *)
(* Each hypothesis is needed: the same statements without it are false *)
(* (every other hypothesis holds in each instance)                      *)
(* ------------------------------------------------------------------ *)
Definition exb_run (fs : fsys) (lg : string) (lgp : list string) (fl : list string) :=
  let r := guess_paths fs (s2b lg) (map s2b lgp) [exb_goroutine 1 (map exb_frame fl) []] in
  (remote_goroot (fst r), remote_gopaths (fst r), local_gomods (fst r),
   flat_map (fun g => map exb_show (Calls (SStack (GSig g)))) (snd r)).

(* goroot_unambiguous (a longer tail of the path also exists under the local GOROOT):
   isRootedIn answers "/R", which does not end with "/src"; nothing is detected *)
Example C18_goroot_longer_tail_refuted :
  let fs := exb_files ["/L/src/fmt/p.go"; "/L/src/src/fmt/p.go"] in
  let fl := [s2b "/R/src/fmt/p.go"] in
  cleanb fl = true /\ not_gopath_capturedb fs [] fl (s2b "/R/src/fmt/p.go") = true /\
  not_module_capturedb fs (s2b "/L") [] fl true (s2b "/R/src/fmt/p.go") = true /\
  is_file fs (s2b "/L/src/fmt/p.go") = true /\
  goroot_unambiguousb fs (s2b "/L") fl (s2b "/R") = false /\
  exb_run fs "/L" [] ["/R/src/fmt/p.go"] = ([], [], [], [([], [], [], LocationUnknown)]).
Proof. vm_compute. repeat split. Qed.

(* goroot_unambiguous (two remote GOROOTs): the second one is never detected *)
Example C18_two_goroots_refuted :
  let fs := exb_files ["/L/src/fmt/p.go"; "/L/src/os/f.go"] in
  let fl := [s2b "/R1/src/fmt/p.go"; s2b "/R2/src/os/f.go"] in
  cleanb fl = true /\ not_gopath_capturedb fs [] fl (s2b "/R2/src/os/f.go") = true /\
  not_module_capturedb fs (s2b "/L") [] fl true (s2b "/R2/src/os/f.go") = true /\
  goroot_unambiguousb fs (s2b "/L") fl (s2b "/R2") = false /\
  exb_run fs "/L" [] ["/R1/src/fmt/p.go"; "/R2/src/os/f.go"] =
    (s2b "/R1", [], [], [(s2b "/L/src/fmt/p.go", s2b "fmt/p.go", s2b "fmt", Stdlib); ([], [], [], LocationUnknown)]).
Proof. vm_compute. repeat split. Qed.

(* not_gopath_captured: an earlier file binds /R as a remote GOPATH; the GOROOT file is then
   skipped and comes out as GOPATH *)
Example C18_goroot_gopath_captured_refuted :
  let fs := exb_files ["/L/src/fmt/p.go"; "/G/src/a.go"] in
  let fl := [s2b "/R/src/a.go"; s2b "/R/src/fmt/p.go"] in
  cleanb fl = true /\ goroot_unambiguousb fs (s2b "/L") fl (s2b "/R") = true /\
  not_module_capturedb fs (s2b "/L") [s2b "/G"] fl true (s2b "/R/src/fmt/p.go") = true /\
  not_gopath_capturedb fs [s2b "/G"] fl (s2b "/R/src/fmt/p.go") = false /\
  exb_run fs "/L" ["/G"] ["/R/src/a.go"; "/R/src/fmt/p.go"] =
    ([], [(s2b "/R", s2b "/G")], [],
     [(s2b "/G/src/a.go", s2b "a.go", [], GOPATH); (s2b "/G/src/fmt/p.go", s2b "fmt/p.go", s2b "fmt", GOPATH)]).
Proof. vm_compute. repeat split. Qed.

(* not_module_captured: GOROOT/src/go.mod exists and a file of the dump that sorts first is
   missing locally: it registers the module "std", the directory is cached, print.go is skipped *)
Example C18_goroot_module_captured_refuted :
  let fs := exb_gomod "/R/src/go.mod" "std" :: exb_files ["/L/src/fmt/p.go"] in
  let fl := [s2b "/R/src/fmt/a.go"; s2b "/R/src/fmt/p.go"] in
  cleanb fl = true /\ goroot_unambiguousb fs (s2b "/L") fl (s2b "/R") = true /\
  not_gopath_capturedb fs [] fl (s2b "/R/src/fmt/p.go") = true /\
  not_module_capturedb fs (s2b "/L") [] fl true (s2b "/R/src/fmt/p.go") = false /\
  exb_run fs "/L" [] ["/R/src/fmt/a.go"; "/R/src/fmt/p.go"] =
    ([], [], [(s2b "/R/src", s2b "std")],
     [(s2b "/R/src/fmt/a.go", s2b "fmt/a.go", s2b "std/fmt", GoMod);
      (s2b "/R/src/fmt/p.go", s2b "fmt/p.go", s2b "std/fmt", GoMod)]).
Proof. vm_compute. repeat split. Qed.

(* not_goroot_captured: the tail of a GOPATH file also exists under the local GOROOT: Stdlib *)
Example C18_gopath_goroot_captured_refuted :
  let fs := exb_files ["/L/src/a/b.go"; "/G/src/a/b.go"] in
  let fl := [s2b "/P/src/a/b.go"] in
  cleanb fl = true /\ gopath_uniqueb fs [s2b "/G"] fl (s2b "/P/src/a/b.go") (s2b "/P") (s2b "/G") = true /\
  alignedb fs false (s2b "/G") (s2b "/P") (s2b "/P/src/a/b.go") = true /\
  not_module_capturedb fs (s2b "/L") [s2b "/G"] fl false (s2b "/P/src/a/b.go") = true /\
  not_goroot_capturedb fs (s2b "/L") fl (s2b "/P/src/a/b.go") = false /\
  exb_run fs "/L" ["/G"] ["/P/src/a/b.go"] =
    (s2b "/P", [], [], [(s2b "/L/src/a/b.go", s2b "a/b.go", s2b "a", Stdlib)]).
Proof. vm_compute. repeat split. Qed.

(* gopath_unique: the same relative path under two local GOPATHs: the first one is taken, so
   the statement is false for l = /G2 *)
Example C18_gopath_two_locals_refuted :
  let fs := exb_files ["/G1/src/a/b.go"; "/G2/src/a/b.go"] in
  let fl := [s2b "/P/src/a/b.go"] in
  cleanb fl = true /\ not_goroot_capturedb fs (s2b "/L") fl (s2b "/P/src/a/b.go") = true /\
  alignedb fs false (s2b "/G2") (s2b "/P") (s2b "/P/src/a/b.go") = true /\
  not_module_capturedb fs (s2b "/L") [s2b "/G1"; s2b "/G2"] fl false (s2b "/P/src/a/b.go") = true /\
  is_file fs (s2b "/G2/src/a/b.go") = true /\
  gopath_uniqueb fs [s2b "/G1"; s2b "/G2"] fl (s2b "/P/src/a/b.go") (s2b "/P") (s2b "/G2") = false /\
  exb_run fs "/L" ["/G1"; "/G2"] ["/P/src/a/b.go"] =
    ([], [(s2b "/P", s2b "/G1")], [], [(s2b "/G1/src/a/b.go", s2b "a/b.go", s2b "a", GOPATH)]).
Proof. vm_compute. repeat split. Qed.

(* the alignment hypothesis: /G/src/src/a/b.go also exists; the first cut that hits is after
   "/P", which does not end with "/src"; the GOPATH is not detected *)
Example C18_gopath_unaligned_refuted :
  let fs := exb_files ["/G/src/a/b.go"; "/G/src/src/a/b.go"] in
  let fl := [s2b "/P/src/a/b.go"] in
  cleanb fl = true /\ not_goroot_capturedb fs (s2b "/L") fl (s2b "/P/src/a/b.go") = true /\
  gopath_uniqueb fs [s2b "/G"] fl (s2b "/P/src/a/b.go") (s2b "/P") (s2b "/G") = true /\
  not_module_capturedb fs (s2b "/L") [s2b "/G"] fl false (s2b "/P/src/a/b.go") = true /\
  alignedb fs false (s2b "/G") (s2b "/P") (s2b "/P/src/a/b.go") = false /\
  exb_run fs "/L" ["/G"] ["/P/src/a/b.go"] = ([], [], [], [([], [], [], LocationUnknown)]).
Proof. vm_compute. repeat split. Qed.

(* K <> ".": relative dump paths; "b.go" exists locally and has a single component, so the
   "package main" rule overwrites the module found at "." *)
Example C18_gomod_dot_refuted :
  let fs := exb_gomod "./go.mod" "m" :: exb_files ["b.go"] in
  let fl := [s2b "./a.go"; s2b "b.go"] in
  cleanb fl = true /\ innermostb fs (s2b ".") (s2b "./a.go") = true /\
  not_goroot_capturedb fs (s2b "/L") fl (s2b "./a.go") = true /\
  not_gopath_capturedb fs [] fl (s2b "./a.go") = true /\
  exb_run fs "/L" [] ["./a.go"; "b.go"] =
    ([], [], [(s2b ".", s2b "main")],
     [(s2b "./a.go", s2b "a.go", s2b "main", GoMod); ([], [], [], LocationUnknown)]).
Proof. vm_compute. repeat split. Qed.

(* not_gopath_captured in C18_complete_gomod: a module directory inside a GOPATH: GOPATH wins *)
Example C18_gomod_in_gopath_refuted :
  let fs := exb_gomod "/G/src/x/go.mod" "x" :: exb_files ["/G/src/x/a.go"] in
  let fl := [s2b "/G/src/x/a.go"] in
  cleanb fl = true /\ innermostb fs (s2b "/G/src/x") (s2b "/G/src/x/a.go") = true /\
  not_goroot_capturedb fs (s2b "/L") fl (s2b "/G/src/x/a.go") = true /\
  not_gopath_capturedb fs [s2b "/G"] fl (s2b "/G/src/x/a.go") = false /\
  exb_run fs "/L" ["/G"] ["/G/src/x/a.go"] =
    ([], [(s2b "/G", s2b "/G")], [], [(s2b "/G/src/x/a.go", s2b "x/a.go", s2b "x", GOPATH)]).
Proof. vm_compute. repeat split. Qed.
