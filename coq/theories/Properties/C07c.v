(* Properties/C07c.v — "Which line kinds start, continue, end or invalidate a
   dump follows the documented line grammar."  Statements only.

   Spec/RefGrammar.v is the documented grammar as a reference automaton:
     kinds              the answers of the state-independent line tests, each
                        reduced to what matters for control (k_header, k_func,
                        k_func_lt, k_file, k_created, k_blank, k_elided,
                        k_unavail, k_separator, k_warning, k_op, k_prev,
                        k_racegor, k_indent_ok)
     kinds_of d p ids ln   EOL trimming, indentation prefix p, then every test;
                        None = the unterminated last line outside a dump
                        (d = false) is not examined; ids = goroutine ids seen
     ref_step st k      the table: next state and verdict
     verdict            Consume (line belongs to the dump) | Forward (passed
                        through, no dump open) | EndHere (the dump ends before
                        this line, no error) | Fail (rejected, scan error)
     ref_line st ok     ref_step, and "nothing moves" for an unexamined line
   Proofs/GrammarProofs.v:
     control (s', l, e) the control content of a scan result: (st s', Fail if
                        e is an error, else Consume if l, else Forward if the
                        new state is looking, else EndHere)
     kinds_at s ln      kinds_of (in_dump (st s)) (sprefix s) (ids of goroutines s) ln
     ends_dump st k, invalidates st k   the enumerations read off the table
     scan_trace, ref_trace_along, ref_trace   runs over lists of lines

   The refinement theorems need no invariant: whenever scan answers at all, the
   answer is the automaton's; with [Inv] (true of ss0, preserved) scan always
   answers. *)
From PP Require Import Base.Bytes Base.BytesX Base.Num Base.GoResult Model.Types Model.Lines Model.FuncInit Model.ParseArgs Model.Scan.
From PP Require Import Proofs.ScanInv Spec.RefGrammar Proofs.GrammarProofs.
From Coq Require Import String.

(* A. scan is the reference automaton: every state, every line. *)
Theorem C07_refines : forall s line s' l e k,
  scan s line = Ok (s', l, e) ->
  kinds_at s line = Some k ->
  control (s', l, e) = ref_step (st s) k.
Proof. exact GrammarProofs.C07_refines. Qed.
Print Assumptions C07_refines.

Theorem C07_unexamined : forall s line,
  kinds_at s line = None ->
  scan s line = Ok (s, false, None) /\ in_dump (st s) = false /\
  strip_suffix [LF] line = None.
Proof. exact GrammarProofs.C07_unexamined. Qed.
Print Assumptions C07_unexamined.

Theorem C07_refines_line : forall s line s' l e,
  scan s line = Ok (s', l, e) ->
  control (s', l, e) = ref_line (st s) (kinds_at s line).
Proof. exact GrammarProofs.C07_refines_line. Qed.
Print Assumptions C07_refines_line.

Theorem C07_refines_total : forall s line, Inv s ->
  exists s' l e,
    scan s line = Ok (s', l, e) /\ Inv s' /\
    match kinds_at s line with
    | Some k => control (s', l, e) = ref_step (st s) k
    | None => (s', l, e) = (s, false, None)
    end.
Proof. exact GrammarProofs.C07_refines_total. Qed.
Print Assumptions C07_refines_total.

(* next state, flag and error are read off the table *)
Theorem C07_verdict_flags : forall s line s' l e k, Inv s ->
  scan s line = Ok (s', l, e) ->
  kinds_at s line = Some k ->
  st s' = fst (ref_step (st s) k) /\
  (l = true <-> snd (ref_step (st s) k) = Consume) /\
  (e <> None <-> snd (ref_step (st s) k) = Fail).
Proof. exact GrammarProofs.C07_verdict_flags. Qed.
Print Assumptions C07_verdict_flags.

(* whole runs: the automaton, fed only the prefix and the ids by the scanner,
   keeps its own control state and never needs resynchronising *)
Theorem C07_refines_trace : forall lines s, Inv s ->
  scan_trace s lines = ref_trace_along s (st s) lines /\
  List.length (scan_trace s lines) = List.length lines.
Proof. exact GrammarProofs.C07_refines_trace. Qed.
Print Assumptions C07_refines_trace.

(* B. The enumerations, on the table ... *)
Theorem C07_start_lines : forall k st', k_indent_ok k = true ->
  (ref_step looking k = (st', Consume) <->
   (k_header k = true /\ st' = gotRoutineHeader) \/
   (k_header k = false /\ k_separator k = true /\ st' = gotRaceHeader1)).
Proof. exact GrammarProofs.C07_start_lines. Qed.
Print Assumptions C07_start_lines.

Theorem C07_forward_lines : forall st k st',
  ref_step st k = (st', Forward) <->
  st' = looking /\ k_indent_ok k = true /\
  ((st = looking /\ k_header k = false /\ k_separator k = false) \/
   (st = gotRaceHeader1 /\ k_warning k = false)).
Proof. exact GrammarProofs.C07_forward_lines. Qed.
Print Assumptions C07_forward_lines.

(* ends_dump st k :=
     done           : True
     betweenRoutine : not a header
     gotFileFunc    : none of created / elided / func / blank
     gotFileCreated : not blank
     otherwise      : False *)
Theorem C07_end_lines : forall st k st',
  ref_step st k = (st', EndHere) <->
  st' = done /\ k_indent_ok k = true /\ ends_dump st k.
Proof. exact GrammarProofs.C07_end_lines. Qed.
Print Assumptions C07_end_lines.

(* invalidates st k := indentation mismatch, or
     gotRoutineHeader                 : not unavail and func is not FOk
     gotFunc, gotCreated, gotRaceOperationFunc, gotRaceGoroutineFunc : file is not FileOk
     gotFileFunc                      : created with a bad symbol, or (not created, not elided) func FErr
     gotUnavail                       : not blank and created is not COk
     gotRaceHeader2                   : op is not OpOk
     gotRaceOperationHeader, gotRaceGoroutineHeader : left-trimmed func is not FOk
     gotRaceOperationFile             : not blank and left-trimmed func is not FOk
     betweenRaceOperations            : prev with a bad address or id, or no prev and not a known "Goroutine N"
     betweenRaceGoroutines            : not a known "Goroutine N"
     gotRaceGoroutineFile             : not blank, not the separator, left-trimmed func is not FOk
     looking, betweenRoutine, gotFileCreated, gotRaceHeader1, done : never *)
Theorem C07_invalidating_lines : forall st k,
  snd (ref_step st k) = Fail <-> invalidates st k.
Proof. exact GrammarProofs.C07_invalidating_lines. Qed.
Print Assumptions C07_invalidating_lines.

Theorem C07_fail_state : forall st k st',
  ref_step st k = (st', Fail) ->
  (k_indent_ok k = false /\ st' = done) \/
  (k_indent_ok k = true /\ st' = st) \/
  (k_indent_ok k = true /\ k_func k = FErr /\ st' = gotFunc /\
     (st = gotRoutineHeader \/ st = gotFileFunc)) \/
  (k_indent_ok k = true /\ k_func_lt k = FErr /\
     ((st' = gotRaceOperationFunc /\ (st = gotRaceOperationHeader \/ st = gotRaceOperationFile)) \/
      (st' = gotRaceGoroutineFunc /\ (st = gotRaceGoroutineHeader \/ st = gotRaceGoroutineFile)))).
Proof. exact GrammarProofs.C07_fail_state. Qed.
Print Assumptions C07_fail_state.

(* ... and on scan itself *)
Theorem C07_start_lines_scan : forall s line s' l e k, Inv s -> st s = looking ->
  scan s line = Ok (s', l, e) ->
  kinds_at s line = Some k ->
  e = None /\
  ((l = true /\ k_header k = true /\ st s' = gotRoutineHeader) \/
   (l = true /\ k_header k = false /\ k_separator k = true /\ st s' = gotRaceHeader1) \/
   (l = false /\ k_header k = false /\ k_separator k = false /\ st s' = looking)).
Proof. exact GrammarProofs.C07_start_lines_scan. Qed.
Print Assumptions C07_start_lines_scan.

Theorem C07_end_lines_scan : forall s line k, Inv s ->
  kinds_at s line = Some k ->
  ((exists s', scan s line = Ok (s', false, None) /\ st s' = done) <->
   k_indent_ok k = true /\ ends_dump (st s) k).
Proof. exact GrammarProofs.C07_end_lines_scan. Qed.
Print Assumptions C07_end_lines_scan.

Theorem C07_invalidating_lines_scan : forall s line s' l e k, Inv s ->
  scan s line = Ok (s', l, e) ->
  kinds_at s line = Some k ->
  (e <> None <-> invalidates (st s) k).
Proof. exact GrammarProofs.C07_invalidating_lines_scan. Qed.
Print Assumptions C07_invalidating_lines_scan.

Theorem C07_error_never_consumes : forall s line s' l e k, Inv s ->
  scan s line = Ok (s', l, e) ->
  kinds_at s line = Some k ->
  snd (ref_step (st s) k) = Fail -> l = false /\ e <> None.
Proof. exact GrammarProofs.C07_error_never_consumes. Qed.
Print Assumptions C07_error_never_consumes.

(* ------------------------------------------------------------------ *)
(* Examples: scan and the automaton side by side                        *)
(* ------------------------------------------------------------------ *)

Definition L (s : string) : bytes := s2b s ++ [LF].
Arguments L s%string_scope.
Definition T (s : string) : bytes := 9%N :: s2b s ++ [LF].   (* TAB first *)
Arguments T s%string_scope.

Definition ex_dump : list bytes :=
  [ L "panic: boom"; L "";
    L "goroutine 1 [running]:"; L "main.main()"; T "/a/b.go:12 +0x1f";
    L "main.f(0x1, {0x2, 0x3}, ...)"; T "/a/b.go:30 +0x2";
    L "...additional frames elided..."; L "created by main.g in goroutine 1"; T "/a/b.go:12 +0x1f"; L "";
    L "goroutine 2 [chan receive, 5 minutes, locked to thread]:";
    T "goroutine running on other thread; stack unavailable"; L "";
    L "goroutine 3 [select]:"; L "main.h()"; T "/a/c.go:7";
    L "exit status 2"; L "more" ].

Definition ex_dump_trace : list (state * verdict) :=
  [ (looking, Forward); (looking, Forward);
    (gotRoutineHeader, Consume); (gotFunc, Consume); (gotFileFunc, Consume);
    (gotFunc, Consume); (gotFileFunc, Consume);
    (gotFileFunc, Consume); (gotCreated, Consume); (gotFileCreated, Consume); (betweenRoutine, Consume);
    (gotRoutineHeader, Consume); (gotUnavail, Consume); (betweenRoutine, Consume);
    (gotRoutineHeader, Consume); (gotFunc, Consume); (gotFileFunc, Consume);
    (done, EndHere); (done, EndHere) ].

Example ex_dump_scan : scan_trace ss0 ex_dump = ex_dump_trace.
Proof. vm_compute. reflexivity. Qed.
(* the automaton alone: no indentation, no ids needed *)
Example ex_dump_ref : ref_trace [] [] looking ex_dump = ex_dump_trace.
Proof. vm_compute. reflexivity. Qed.

Definition ex_race : list bytes :=
  [ L "=================="; L "WARNING: DATA RACE";
    L "Read at 0x00c000010000 by goroutine 7:"; L "  main.racy()"; L "      /a/r.go:33 +0x44"; L "";
    L "Previous write at 0x00c000010000 by goroutine 6:"; L "  main.racy()"; L "      /a/r.go:33 +0x44"; L "";
    L "Goroutine 7 (running) created at:"; L "  main.racy()"; L "      /a/r.go:33 +0x44"; L "";
    L "Goroutine 6 (finished) created at:"; L "  main.racy()"; L "      /a/r.go:33 +0x44";
    L "=================="; L "after" ].

Definition ex_race_trace : list (state * verdict) :=
  [ (gotRaceHeader1, Consume); (gotRaceHeader2, Consume);
    (gotRaceOperationHeader, Consume); (gotRaceOperationFunc, Consume); (gotRaceOperationFile, Consume);
    (betweenRaceOperations, Consume);
    (gotRaceOperationHeader, Consume); (gotRaceOperationFunc, Consume); (gotRaceOperationFile, Consume);
    (betweenRaceOperations, Consume);
    (gotRaceGoroutineHeader, Consume); (gotRaceGoroutineFunc, Consume); (gotRaceGoroutineFile, Consume);
    (betweenRaceGoroutines, Consume);
    (gotRaceGoroutineHeader, Consume); (gotRaceGoroutineFunc, Consume); (gotRaceGoroutineFile, Consume);
    (done, Consume); (done, EndHere) ].

Example ex_race_scan : scan_trace ss0 ex_race = ex_race_trace.
Proof. vm_compute. reflexivity. Qed.
(* the automaton alone, told which ids are known *)
Example ex_race_ref : ref_trace [] [7%Z; 6%Z] looking ex_race = ex_race_trace.
Proof. vm_compute. reflexivity. Qed.
(* an unknown goroutine id invalidates the report *)
Example ex_race_unknown_id :
  ref_step betweenRaceGoroutines (line_kinds [7%Z; 6%Z] (s2b "Goroutine 9 (running) created at:"))
  = (betweenRaceGoroutines, Fail).
Proof. vm_compute. reflexivity. Qed.

(* -- the grammar as it is: lines in places one might not expect -- *)

(* a goroutine header right after a lone "==================" is not seen: the
   separator is consumed, the header forwarded *)
Example ex_header_after_separator :
  scan_trace ss0 [L "=================="; L "goroutine 1 [running]:"; L "main.main()"]
  = [(gotRaceHeader1, Consume); (looking, Forward); (looking, Forward)].
Proof. vm_compute. reflexivity. Qed.

(* without the blank line a second header ends the dump (quietly) *)
Example ex_header_without_blank :
  scan_trace ss0 [L "goroutine 1 [running]:"; L "main.main()"; T "/a/b.go:1"; L "goroutine 2 [running]:"]
  = [(gotRoutineHeader, Consume); (gotFunc, Consume); (gotFileFunc, Consume); (done, EndHere)].
Proof. vm_compute. reflexivity. Qed.

(* a function line with a bad symbol is rejected, yet the automaton moves on *)
Example ex_bad_symbol_moves_on :
  scan_trace ss0 [L "goroutine 1 [running]:"; L "a.%zz()"; T "/a/b.go:1"; L ""]
  = [(gotRoutineHeader, Consume); (gotFunc, Fail); (gotFileFunc, Consume); (betweenRoutine, Consume)].
Proof. vm_compute. reflexivity. Qed.

(* kinds overlap - "created by main.f()" is also a function line - and the
   order of tests in the table decides: created first *)
Example ex_overlap :
  let k := line_kinds [] (s2b "created by main.f()") in
  (k_created k, k_func k, ref_step gotFileFunc k) = (COk, FOk, (gotCreated, Consume)).
Proof. vm_compute. reflexivity. Qed.

(* a header whose id has 19 digits or more is not a header *)
Example ex_long_id :
  k_header (line_kinds [] (s2b "goroutine 1234567890123456789 [running]:")) = false.
Proof. vm_compute. reflexivity. Qed.

(* a race report cannot end after a blank line: the closing separator is only
   recognised directly after a file line *)
Example ex_race_separator_after_blank :
  ref_step betweenRaceGoroutines (line_kinds [7%Z] (s2b "==================")) = (betweenRaceGoroutines, Fail)
  /\ ref_step gotRaceGoroutineFile (line_kinds [7%Z] (s2b "==================")) = (done, Consume).
Proof. split; vm_compute; reflexivity. Qed.

(* an indentation mismatch ends the dump with an error, in every state *)
Example ex_indent :
  scan_trace ss0 [L "  goroutine 1 [running]:"; L "  main.main()"; L "main.main()"; L "x"]
  = [(gotRoutineHeader, Consume); (gotFunc, Consume); (done, Fail); (done, EndHere)].
Proof. vm_compute. reflexivity. Qed.
