(* Model/Stack.v — equal / similar / merge / less of stack/stack.go, one
   definition per Go method, same order of tests.  No proofs here. *)
From PP Require Import Base.Bytes Model.Types.

Definition lexc (c1 c2 : comparison) : comparison := match c1 with Eq => c2 | x => x end.

(* ---------------- Arg / Args: similar, equal ---------------- *)

(* Arg.similar, stack.go:184; the nested fix is Args.similar's loop,
   including its len(a.Values) != len(r.Values) test. *)
Fixpoint arg_similar (lvl : Similarity) (a r : Arg) {struct a} : bool :=
  match a, r with
  | MkArg ag an av ap at_ _ afv _ afe, MkArg rg rn rv rp rt _ rfv _ rfe =>
    if negb (Bool.eqb ag rg) then false else
    if ag then
      Bool.eqb afe rfe &&
      (fix go (l1 l2 : list Arg) {struct l1} : bool :=
         match l1, l2 with
         | [], [] => true
         | x :: l1', y :: l2' => arg_similar lvl x y && go l1' l2'
         | _, _ => false
         end) afv rfv
    else
      match lvl with
      | ExactFlags | ExactLines =>
          beq an rn && Bool.eqb at_ rt && Bool.eqb ap rp && N.eqb av rv
      | AnyValue => true
      | AnyPointer =>
          Bool.eqb at_ rt && Bool.eqb ap rp && (ap || N.eqb av rv)
      end
  end.

Fixpoint args_list_similar (lvl : Similarity) (l1 l2 : list Arg) : bool :=
  match l1, l2 with
  | [], [] => true
  | x :: l1', y :: l2' => arg_similar lvl x y && args_list_similar lvl l1' l2'
  | _, _ => false
  end.

(* Args.similar, stack.go:264 *)
Definition args_similar (lvl : Similarity) (a r : Args) : bool :=
  Bool.eqb (Elided a) (Elided r) && args_list_similar lvl (Values a) (Values r).

(* Arg.equal, Args.equal *)
Definition arg_equal (a r : Arg) : bool := arg_similar ExactFlags a r.
Definition args_equal (a r : Args) : bool := args_similar ExactFlags a r.

(* ---------------- merge ---------------- *)

(* Args.merge, stack.go:277.  r.Values[i] is indexed for every i of
   a.Values: [args_merge_safe] is exactly "no index out of range". *)
Fixpoint arg_merge (l r : Arg) {struct l} : Arg :=
  match l, r with
  | MkArg lg ln lv lp lt li lfv lfp lfe, MkArg _ _ _ _ _ _ rfv _ _ =>
    if lg then
      MkArg true [] 0 false false false
        ((fix go (l1 l2 : list Arg) {struct l1} : list Arg :=
            match l1, l2 with
            | x :: l1', y :: l2' => arg_merge x y :: go l1' l2'
            | _, _ => []
            end) lfv rfv)
        [] lfe
    else if negb (arg_equal l r) then
      MkArg false (s2b "*") lv lp false false [] [] false
    else l
  end.

Fixpoint args_list_merge (l1 l2 : list Arg) : list Arg :=
  match l1, l2 with
  | x :: l1', y :: l2' => arg_merge x y :: args_list_merge l1' l2'
  | _, _ => []
  end.

Definition args_merge (a r : Args) : Args := mkArgs (args_list_merge (Values a) (Values r)) [] (Elided a).

Fixpoint arg_merge_safe (l r : Arg) {struct l} : bool :=
  match l, r with
  | MkArg lg _ _ _ _ _ lfv _ _, MkArg _ _ _ _ _ _ rfv _ _ =>
    if lg then
      (fix go (l1 l2 : list Arg) {struct l1} : bool :=
         match l1, l2 with
         | [], _ => true
         | x :: l1', y :: l2' => arg_merge_safe x y && go l1' l2'
         | _ :: _, [] => false
         end) lfv rfv
    else true
  end.

Fixpoint args_list_merge_safe (l1 l2 : list Arg) : bool :=
  match l1, l2 with
  | [], _ => true
  | x :: l1', y :: l2' => arg_merge_safe x y && args_list_merge_safe l1' l2'
  | _ :: _, [] => false
  end.

(* ---------------- Call ---------------- *)

(* Call.equal / similar, stack.go:479,485 *)
Definition call_similar (lvl : Similarity) (c r : Call) : bool :=
  Z.eqb (Line c) (Line r) && beq (Complete (CFunc c)) (Complete (CFunc r)) &&
  beq (RemoteSrcPath c) (RemoteSrcPath r) && args_similar lvl (CArgs c) (CArgs r).
Definition call_equal (c r : Call) : bool :=
  Z.eqb (Line c) (Line r) && beq (Complete (CFunc c)) (Complete (CFunc r)) &&
  beq (RemoteSrcPath c) (RemoteSrcPath r) && args_equal (CArgs c) (CArgs r).

(* Call.merge, stack.go:490 *)
Definition call_merge (c r : Call) : Call :=
  mkCall (CFunc c) (args_merge (CArgs c) (CArgs r)) (RemoteSrcPath c) (Line c) (SrcName c) (DirSrc c)
         (LocalSrcPath c) (RelSrcPath c) (CImportPath c) (CLocation c).
Definition call_merge_safe (c r : Call) : bool := args_list_merge_safe (Values (CArgs c)) (Values (CArgs r)).

(* ---------------- Stack ---------------- *)

Fixpoint calls_similar (lvl : Similarity) (l1 l2 : list Call) : bool :=
  match l1, l2 with
  | [], [] => true
  | x :: l1', y :: l2' => call_similar lvl x y && calls_similar lvl l1' l2'
  | _, _ => false
  end.
Fixpoint calls_equal (l1 l2 : list Call) : bool :=
  match l1, l2 with
  | [], [] => true
  | x :: l1', y :: l2' => call_equal x y && calls_equal l1' l2'
  | _, _ => false
  end.

(* Stack.equal / similar, stack.go:519,533 *)
Definition stack_similar (lvl : Similarity) (s r : Stack) : bool :=
  Bool.eqb (SElided s) (SElided r) && calls_similar lvl (Calls s) (Calls r).
Definition stack_equal (s r : Stack) : bool :=
  Bool.eqb (SElided s) (SElided r) && calls_equal (Calls s) (Calls r).

(* Stack.merge, stack.go:546: r.Calls[i] for every i of s.Calls *)
Fixpoint calls_merge (l1 l2 : list Call) : list Call :=
  match l1, l2 with
  | x :: l1', y :: l2' => call_merge x y :: calls_merge l1' l2'
  | _, _ => []
  end.
Fixpoint calls_merge_safe (l1 l2 : list Call) : bool :=
  match l1, l2 with
  | [], _ => true
  | x :: l1', y :: l2' => call_merge_safe x y && calls_merge_safe l1' l2'
  | _ :: _, [] => false
  end.
Definition stack_merge (s r : Stack) : Stack := mkStack (calls_merge (Calls s) (Calls r)) (SElided s).

(* Stack.less, stack.go:564 *)
Definition count_loc (loc : Location) (l : list Call) : nat :=
  List.length (filter (fun c => loc_eqb (CLocation c) loc) l).
Definition count_main (l : list Call) : nat :=
  List.length (filter (fun c => IsPkgMain (CFunc c)) l).

(* "if l > r return true; if l < r return false": more is less *)
Definition cmp_desc (l r : nat) : comparison := Nat.compare r l.

Fixpoint frames_cmp (l r : list Call) : comparison :=
  match l, r with
  | [], _ => Eq
  | _ :: _, [] => Eq (* r.Calls[x] out of range: excluded by stack_less_safe *)
  | x :: l', y :: r' =>
      lexc (bcmp (Complete (CFunc x)) (Complete (CFunc y)))
     (lexc (bcmp (DirSrc x) (DirSrc y))
     (lexc (Z.compare (Line x) (Line y))
           (frames_cmp l' r')))
  end.

Definition counts_cmp (l r : list Call) : comparison :=
  lexc (cmp_desc (count_main l) (count_main r))
 (lexc (cmp_desc (count_loc GoMod l) (count_loc GoMod r))
 (lexc (cmp_desc (count_loc GOPATH l) (count_loc GOPATH r))
 (lexc (cmp_desc (count_loc GoPkg l) (count_loc GoPkg r))
 (lexc (cmp_desc (count_loc Stdlib l) (count_loc Stdlib r))
       (cmp_desc (count_loc LocationUnknown l) (count_loc LocationUnknown r)))))).

Definition stack_cmp (s r : Stack) : comparison :=
  lexc (counts_cmp (Calls s) (Calls r)) (frames_cmp (Calls s) (Calls r)).

Definition is_lt (c : comparison) : bool := match c with Lt => true | _ => false end.
Definition stack_less (s r : Stack) : bool := is_lt (stack_cmp s r).

(* the per-frame loop indexes r.Calls[x] for x < len(s.Calls); it is reached
   only when all counts are equal *)
Definition stack_less_safe (s r : Stack) : bool :=
  match counts_cmp (Calls s) (Calls r) with
  | Eq => Nat.leb (List.length (Calls s)) (List.length (Calls r))
  | _ => true
  end.

(* ---------------- Signature ---------------- *)

(* Signature.equal, stack.go:693 *)
Definition sig_equal (s r : Signature) : bool :=
  if negb (beq (State s) (State r)) || negb (stack_equal (CreatedBy s) (CreatedBy r)) ||
     negb (Bool.eqb (Locked s) (Locked r)) || negb (Z.eqb (SleepMin s) (SleepMin r)) ||
     negb (Z.eqb (SleepMax s) (SleepMax r))
  then false else stack_equal (SStack s) (SStack r).

(* Signature.similar, stack.go:702 *)
Definition sig_similar (lvl : Similarity) (s r : Signature) : bool :=
  if negb (beq (State s) (State r)) || negb (stack_similar lvl (CreatedBy s) (CreatedBy r)) then false else
  if (match lvl with ExactFlags => true | _ => false end) && negb (Bool.eqb (Locked s) (Locked r)) then false else
  stack_similar lvl (SStack s) (SStack r).

(* Signature.merge, stack.go:713 *)
Definition sig_merge (s r : Signature) : Signature :=
  mkSig (State s) (CreatedBy s)
        (if Z.ltb (SleepMin r) (SleepMin s) then SleepMin r else SleepMin s)
        (if Z.gtb (SleepMax r) (SleepMax s) then SleepMax r else SleepMax s)
        (stack_merge (SStack s) (SStack r))
        (Locked s || Locked r).
Definition sig_merge_safe (s r : Signature) : bool := calls_merge_safe (Calls (SStack s)) (Calls (SStack r)).

(* Signature.less, stack.go:736 *)
Definition sig_less (s r : Signature) : bool :=
  if stack_less (SStack s) (SStack r) then true else
  if stack_less (SStack r) (SStack s) then false else
  if Locked s && negb (Locked r) then true else
  if Locked r && negb (Locked s) then false else
  bltb (State s) (State r).
Definition sig_less_safe (s r : Signature) : bool :=
  stack_less_safe (SStack s) (SStack r) && stack_less_safe (SStack r) (SStack s).
