(* Model/Source.v — the part of stack/source.go that Model/Augment.v takes as
   given: lineToByteOffsets, parsedFile.getFuncAST, matchFuncDecl (commit
   12f3b86: the declaration found by the walk is kept only if it declares the
   function the frame names), name, fieldToType, extractArgumentsType (commit
   4cb43b4: no panic on a receiver list that does not have one field).

   go/parser itself is not modelled.  What is modelled is everything the code
   DOES with the parser's output: ast.Inspect is a pre-order walk whose closure
   only looks at n.Pos() and at whether n is a *ast.FuncDecl, so the syntax
   tree is abstracted to a rose tree of (Pos, FuncDecl-or-not); of a FuncDecl
   the code reads Recv.List, Type.Params.List, len(Field.Names) and the dynamic
   type of Field.Type down to the depth name() inspects (texpr).  The harness
   (op ast) builds this abstraction from the real go/parser output with
   ast.Inspect itself and the driver runs the definitions below on it.

   Positions are token.Pos values as integers: the file set of loadFile holds
   one file, base 1, so Pos = byte offset + 1, and the code compares that
   number with a 0-based byte offset without adjusting
   (`int(n.Pos()) >= p.lineToByteOffset[l]`); mirrored as is.

   Definitions only. *)
From PP Require Import Base.Bytes Base.GoResult.
From Coq Require Import String.

(* ---- the type expressions fieldToType / name distinguish ---- *)
Inductive texpr : Type :=
| TIdent (nm : bytes)                          (* *ast.Ident *)
| TSelector (sel : bytes)                      (* *ast.SelectorExpr: only Sel.Name is read *)
| TStar (x : texpr)                            (* *ast.StarExpr *)
| TArray (len : option texpr) (elt : texpr)    (* *ast.ArrayType; Len == nil: slice *)
| TEllipsis (elt : option texpr)               (* *ast.Ellipsis; Elt is nil only as the Len of [...]T *)
| TFunc                                        (* *ast.FuncType *)
| TInterface                                   (* *ast.InterfaceType *)
| TMap (k v : texpr)                           (* *ast.MapType *)
| TChan (v : texpr)                            (* *ast.ChanType (direction ignored) *)
| TBasicLit (value : bytes)                    (* *ast.BasicLit *)
| TIndex (x : texpr)                           (* *ast.IndexExpr / *ast.IndexListExpr (generic instantiation
                                                  T[K], T[K, V]): only X is read, by matchFuncDecl *)
| TOther.                                      (* anything else: struct types, parenthesised types, binary
                                                  expressions, nil *)

(* *ast.Field: only len(Names) and Type are read *)
Record field := mkField { f_names : nat; f_type : texpr }.

(* *ast.FuncDecl: Name.Name, Recv (nil or its List), Type.Params.List *)
Record funcdecl := mkFuncDecl { fd_name : bytes; fd_recv : option (list field); fd_params : list field }.

Inductive nkind := KFuncDecl (d : funcdecl) | KOther.

(* what ast.Inspect shows to the closure: every non-nil node in depth-first
   pre-order, children in the order of ast.Walk *)
Inductive node := Node (pos : N) (kind : nkind) (children : list node).

Definition node_pos (n : node) : N := match n with Node p _ _ => p end.
Definition node_kind (n : node) : nkind := match n with Node _ k _ => k end.
Definition node_children (n : node) : list node := match n with Node _ _ c => c end.

(* ---- lineToByteOffsets: {0, 0} then the offset following every LF ---- *)
Fixpoint line_offsets_from (src : bytes) (at_ : N) : list N :=
  match src with
  | [] => []
  | c :: s => if N.eqb c LF then (at_ + 1)%N :: line_offsets_from s (at_ + 1)%N
              else line_offsets_from s (at_ + 1)%N
  end.
Definition line_offsets (src : bytes) : list N := 0%N :: 0%N :: line_offsets_from src 0%N.

(* ---- getFuncAST ---- *)
(* the closure's captured variables: d (the named result) and lastFunc; a
   *ast.FuncDecl is represented by its Pos and its content *)
Record wstate := mkW { w_d : option (N * funcdecl); w_last : option (N * funcdecl) }.
Definition w0 : wstate := mkW None None.

(* one call of the closure on a non-nil node, and, when it returned true, the
   walk of the children.  (The closure is also called with nil after the
   children: `if d != nil {return false}; if n == nil {return true}` has no
   effect on the state.)
     d != nil                     -> return false: nothing below is visited, and
                                     every later call returns false as well
     Pos >= offset                -> d = lastFunc; return false (children skipped;
                                     when lastFunc is nil d stays nil and the walk
                                     GOES ON with the following siblings)
     FuncDecl                     -> lastFunc = n; return true
     otherwise                    -> return true *)
Fixpoint visit (off : N) (n : node) (st : wstate) : wstate :=
  match w_d st with
  | Some _ => st
  | None =>
      match n with
      | Node pos kind ch =>
          if N.leb off pos then mkW (w_last st) (w_last st)
          else
            let st' := match kind with
                       | KFuncDecl fd => mkW None (Some (pos, fd))
                       | KOther => st
                       end in
            (fix visit_children (l : list node) (s : wstate) : wstate :=
               match l with
               | [] => s
               | c :: l' => visit_children l' (visit off c s)
               end) ch st'
      end
  end.

Fixpoint visit_list (off : N) (l : list node) (s : wstate) : wstate :=
  match l with
  | [] => s
  | c :: l' => visit_list off l' (visit off c s)
  end.

Inductive ast_result :=
| AstErr                                   (* "line %d is over line count of %d" *)
| AstNone                                  (* d == nil, err == nil *)
| AstFound (pos : N) (d : funcdecl).

(* the walk for a given byte offset: the RAW selection, before the name filter *)
Definition get_func_ast_at (off : N) (root : node) : ast_result :=
  match w_d (visit off root w0) with
  | None => AstNone
  | Some (p, d) => AstFound p d
  end.

(* ---- matchFuncDecl ---- *)
(* strings.ReplaceAll(f, "[...]", ""): non-overlapping occurrences, left to
   right; skip = bytes of the current occurrence still to drop *)
Fixpoint strip_aux (s : bytes) (skip : nat) : bytes :=
  match s with
  | [] => []
  | c :: s' =>
      match skip with
      | S k => strip_aux s' k
      | O => if has_prefix s (s2b "[...]") then strip_aux s' 4 else c :: strip_aux s' 0
      end
  end.
Definition strip_tparams (f : bytes) : bytes := strip_aux f 0.

Definition DOT : N := 46.
(* if i := strings.LastIndexByte(f, '.'); i != -1 { recv, f = f[:i], f[i+1:] } *)
Definition split_last_dot (f : bytes) : bytes * bytes :=
  match last_index_byte f DOT with
  | Some i => (firstn i f, skipn (S i) f)
  | None => ([], f)
  end.
Definition recv_part (f : bytes) : bytes := fst (split_last_dot (strip_tparams f)).
Definition last_component (f : bytes) : bytes := snd (split_last_dot (strip_tparams f)).

Definition OPEN_STAR : bytes := [40; 42]%N.   (* an opening parenthesis followed by a star *)
Definition CLOSE : bytes := [41]%N.           (* a closing parenthesis *)

(* recv[2 : len(recv)-1]; evaluated only when recv starts with OPEN_STAR and ends
   with ")", so 2 <= len(recv)-1 (SourceProofs.peel_in_range): no slice panic *)
Definition peel_ptr (recv : bytes) : bytes := firstn (List.length recv - 3) (skipn 2 recv).

Definition unindex (t : texpr) : texpr := match t with TIndex x => x | _ => t end.

Definition match_func_decl (d : funcdecl) (f : bytes) : bool :=
  let '(recv, f1) := split_last_dot (strip_tparams f) in
  if negb (beq f1 (fd_name d)) then false
  else
    match fd_recv d with
    | None => beq recv []
    | Some [r] =>
        match (match f_type r with
               | TStar x =>
                   if has_prefix recv OPEN_STAR && has_suffix recv CLOSE
                   then Some (peel_ptr recv, x) else None
               | t => Some (recv, t)
               end) with
        | None => false
        | Some (recv', t) =>
            match unindex t with
            | TIdent nm => beq nm recv'
            | _ => false
            end
        end
    | Some _ => false
    end.

(* l is the line of the traceback, a non-negative number (it is read with
   atou); `len(p.lineToByteOffset) <= l` is exactly nth_error = None.
   f is the frame's function name without the package (Call.Func.Name). *)
Definition get_func_ast (offsets : list N) (root : node) (l : nat) (f : bytes) : ast_result :=
  match nth_error offsets l with
  | None => AstErr
  | Some off =>
      match get_func_ast_at off root with
      | AstFound p d => if match_func_decl d f then AstFound p d else AstNone
      | r => r
      end
  end.

(* ---- name ---- *)
Fixpoint type_name (t : texpr) : bytes :=
  match t with
  | TInterface => s2b "interface{}"
  | TIdent nm => nm
  | TSelector sel => sel
  | TStar x => s2b "*" ++ type_name x
  | TBasicLit v => v
  | TEllipsis _ => s2b "..."
  | _ => s2b "<unknown>"
  end.

(* name(arg.Elt) where Elt may be a nil interface: the default branch *)
Definition type_name_opt (t : option texpr) : bytes :=
  match t with Some x => type_name x | None => s2b "<unknown>" end.

(* ---- fieldToType ---- *)
Definition field_to_type (t : texpr) : bytes * bool :=
  match t with
  | TArray (Some len) elt => (s2b "[" ++ type_name len ++ s2b "]" ++ type_name elt, false)
  | TArray None elt => (s2b "[]" ++ type_name elt, false)
  | TEllipsis elt => (type_name_opt elt, true)
  | TFunc => (s2b "func", false)
  | TIdent nm => (nm, false)
  | TInterface => (s2b "interface{}", false)
  | TSelector sel => (sel, false)
  | TStar x => (s2b "*" ++ type_name x, false)
  | TMap k v => (s2b "map[" ++ type_name k ++ s2b "]" ++ type_name v, false)
  | TChan v => (s2b "chan " ++ type_name v, false)
  | TBasicLit _ | TIndex _ | TOther => (s2b "<unknown>", false)
  end.

(* ---- extractArgumentsType ---- *)
Definition is_star (t : texpr) : bool := match t with TStar _ => true | _ => false end.
Definition is_ellipsis (t : texpr) : bool := match t with TEllipsis _ => true | _ => false end.

(* mult := len(arg.Names); if mult == 0 { mult = 1 } *)
Definition mult (f : field) : nat := match f_names f with O => 1 | n => n end.

(* the receiver part: `fields`; None = the early `return nil, false` for a
   receiver list that does not have exactly one field *)
Definition recv_fields (d : funcdecl) : option (list field) :=
  match fd_recv d with
  | None => Some []
  | Some [r] => Some (if is_star (f_type r) then [r] else [])
  | Some _ => None
  end.

(* the loop: ellipsis is overwritten by every field, types grows by mult copies *)
Fixpoint args_loop (fs : list field) (types : list bytes) (ell : bool) : list bytes * bool :=
  match fs with
  | [] => (types, ell)
  | f :: fs' =>
      let '(t, e) := field_to_type (f_type f) in
      args_loop fs' (types ++ repeat t (mult f)) e
  end.

Definition extract_arguments_type (d : funcdecl) : list bytes * bool :=
  match recv_fields d with
  | None => ([], false)
  | Some fields => args_loop (fields ++ fd_params d) [] false
  end.

(* ---- getFuncAST then extractArgumentsType (augmentGoroutine / augmentCall) ---- *)
Inductive src_result :=
| SrcErr
| SrcNone
| SrcTypes (pos : N) (nm : bytes) (types : list bytes) (ell : bool).

(* GoResult is kept for the interface of the driver and of the theorems: there
   is no partial operation left (SourceProofs.source_total) *)
Definition source_types (offsets : list N) (root : node) (l : nat) (f : bytes) : GoResult src_result :=
  match get_func_ast offsets root l f with
  | AstErr => Ok SrcErr
  | AstNone => Ok SrcNone
  | AstFound p d =>
      let '(types, ell) := extract_arguments_type d in
      Ok (SrcTypes p (fd_name d) types ell)
  end.

(* ---- well-positioned files (validated on every tree by op ast, tag wf) ----
   What go/parser (mode 0: no comment nodes) produces for a file: the root is
   the *ast.File (Pos = the package keyword), its children are the package
   name and the top-level declarations in source order; every node of a
   declaration lies before the next declaration starts; FuncDecl nodes occur
   only as children of the root (function literals are FuncLit). *)
Fixpoint all_lt (b : N) (n : node) : bool :=
  match n with
  | Node p _ ch =>
      N.ltb p b && (fix go (l : list node) : bool := match l with [] => true | c :: l' => all_lt b c && go l' end) ch
  end.
Fixpoint all_lt_list (b : N) (l : list node) : bool :=
  match l with [] => true | c :: l' => all_lt b c && all_lt_list b l' end.

Definition is_funcdecl (k : nkind) : bool := match k with KFuncDecl _ => true | KOther => false end.

(* no FuncDecl node in the tree *)
Fixpoint no_funcdecl (n : node) : bool :=
  match n with
  | Node _ k ch =>
      negb (is_funcdecl k) &&
      (fix go (l : list node) : bool := match l with [] => true | c :: l' => no_funcdecl c && go l' end) ch
  end.
Fixpoint no_funcdecl_list (l : list node) : bool :=
  match l with [] => true | c :: l' => no_funcdecl c && no_funcdecl_list l' end.

(* the children of the root: positions from lo upwards, each subtree entirely
   before the next child's position, FuncDecl only at this level *)
Fixpoint decls_ok (lo : N) (cs : list node) : bool :=
  match cs with
  | [] => true
  | c :: cs' =>
      N.leb lo (node_pos c) && no_funcdecl_list (node_children c) &&
      match cs' with [] => true | c' :: _ => all_lt (node_pos c') c end &&
      decls_ok (node_pos c) cs'
  end.

Definition wf_file (root : node) : bool :=
  match root with
  | Node p0 k cs => negb (is_funcdecl k) && decls_ok p0 cs
  end.

(* is there a node at or after the offset *)
Fixpoint exists_ge (off : N) (n : node) : bool :=
  match n with
  | Node p _ ch =>
      N.leb off p || (fix go (l : list node) : bool := match l with [] => false | c :: l' => exists_ge off c || go l' end) ch
  end.
Fixpoint exists_ge_list (off : N) (l : list node) : bool :=
  match l with [] => false | c :: l' => exists_ge off c || exists_ge_list off l' end.

(* the last FuncDecl among the given nodes that starts before the offset *)
Fixpoint last_func_before (off : N) (cs : list node) (acc : option (N * funcdecl)) : option (N * funcdecl) :=
  match cs with
  | [] => acc
  | Node p (KFuncDecl d) _ :: cs' => last_func_before off cs' (if N.ltb p off then Some (p, d) else acc)
  | _ :: cs' => last_func_before off cs' acc
  end.

(* what getFuncAST computes on a well-positioned file (SourceProofs.get_func_ast_spec) *)
Definition select_spec (off : N) (root : node) : ast_result :=
  if exists_ge off root then
    match last_func_before off (node_children root) None with
    | Some (p, d) => AstFound p d
    | None => AstNone
    end
  else AstNone.
