(* Properties/C11.v — Streaming progress of ScanSnapshot.  Statements only.

   The loop never sits on data: when it calls Read again, every complete line
   delivered so far has already been handed to the scanner (and, if it is
   pass-through text, written to the prefix writer); and it returns as soon as
   the line that ends the scan has been seen, without reading further.

   The trace (Model/Reader.v, Model/ScanSnapshot.v) lists, in order,
     EvRead lp n : a Read call with len(p) = lp that returned n bytes
     EvLine d    : line d is handed to scan (ghost event, marks the position)
     EvWrite d   : d is written to the prefix writer.
   Vocabulary (Spec/LoopSpec.v): delivered t = sum of the n of the EvRead of t;
   handed t = number of EvLine of t; count_lf b = number of LF in b;
   noreads t = t without its EvRead; hl_events (d, k) = [EvLine d; EvWrite d]
   if k = KForwarded else [EvLine d].

   All statements hold for EVERY delivery schedule. *)
From PP Require Import Base.Bytes Base.BytesX Base.GoResult Model.Types Model.Reader Model.Scan Model.ScanSnapshot.
From PP Require Import Spec.ReaderSpec Spec.LoopSpec Proofs.LoopBase Proofs.LoopProofs.
From Coq Require Import String.

(* C1. At every Read call, the number of lines already handed to the scanner
   is the number of LF among the bytes delivered so far: no complete line is
   waiting in the buffer.  (Exact equality, no corner case: the buffer is
   searched before every fill, and the pieces of a line longer than the buffer
   contain no LF.) *)
Theorem C11_lines_before_read : forall na B sc f res,
  scan_snapshot na (mkSource B sc f) = Ok res ->
  forall t1 lp n t2, trace res = t1 ++ EvRead lp n :: t2 ->
    handed t1 = count_lf (firstn (delivered t1) B).
Proof. exact LoopProofs.lines_before_read. Qed.
Print Assumptions C11_lines_before_read.

(* C2. Every Write is the line that was just handed to the scanner ... *)
Theorem C11_write_follows_line : forall na src res,
  scan_snapshot na src = Ok res ->
  forall t1 d t2, trace res = t1 ++ EvWrite d :: t2 -> exists t0, t1 = t0 ++ [EvLine d].
Proof. exact LoopProofs.write_follows_line. Qed.
Print Assumptions C11_write_follows_line.

(* ... and a line that is not followed by its Write is a consumed line or the
   final rejected line: without the Reads, the trace is the list of handled
   lines, each followed by its Write iff it is forwarded; only the last one
   can be rejected.  (Same [body], [last] as in C02_partition.) *)
Theorem C11_unwritten_lines : forall na B sc f res,
  scan_snapshot na (mkSource B sc f) = Ok res ->
  exists body last : list (bytes * kind),
    noreads (trace res) = flat_map hl_events (body ++ last) /\
    Forall (fun x => snd x <> KRejected) body /\ List.length last <= 1.
Proof. exact LoopProofs.unwritten_lines. Qed.
Print Assumptions C11_unwritten_lines.

(* C3. Prompt return: unless the scan ends on a reader error, the last event
   of the trace is the line that ended it (no Read, no Write after it): either
   it was rejected and heads the suffix, or it is the footer of a race report
   (state done) and the suffix is what the reader had buffered. *)
Theorem C11_prompt_return : forall na src res,
  scan_snapshot na src = Ok res -> (forall x, rerr_out res <> EIo x) ->
  exists t d buffered, trace res = t ++ [EvLine d] /\
    (suffix res = d ++ buffered \/ (final_state res = done /\ suffix res = buffered)).
Proof. exact LoopProofs.prompt_return. Qed.
Print Assumptions C11_prompt_return.

(* Non-vacuity: "x", a goroutine dump and trailing text, delivered as 3 bytes,
   a zero-length read, 40 bytes, then the rest.  "x" is written before the
   second Read; the two complete lines of the 40-byte chunk are handed over
   before the next Read; nothing is read after "exit status 2". *)
Definition ln (s : string) : bytes := s2b s ++ [LF].
Definition TAB : string := String (Ascii.ascii_of_nat 9) EmptyString.

Example C11_example :
  let B := ln "x" ++ ln "goroutine 1 [running]:" ++ ln "main.main()" ++
           ln (TAB ++ "/tmp/x.go:10 +0x20") ++ ln "" ++ ln "exit status 2" ++ s2b "end" in
  match scan_snapshot true (mkSource B [(3, false); (0, false); (40, false)] EOF) with
  | Ok res =>
      rerr_out res = ENil /\
      trace res =
        [EvRead buf_cap 3; EvLine (ln "x"); EvWrite (ln "x");
         EvRead (buf_cap - 1) 0; EvRead (buf_cap - 1) 40;
         EvLine (ln "goroutine 1 [running]:"); EvLine (ln "main.main()");
         EvRead (buf_cap - 6) 32;
         EvLine (ln (TAB ++ "/tmp/x.go:10 +0x20")); EvLine (ln ""); EvLine (ln "exit status 2")]
  | Panic _ => False
  end.
Proof. vm_compute. split; reflexivity. Qed.
