(* Properties/C16.v — Console rendering is complete, aligned and
   colour-independent.  Statements only; proofs in Proofs/UIProofs.v
   (generic lemmas in Proofs/UIBase.v).

   Vocabulary (all defined in UIProofs / UIBase, no axioms):
     bucket_block pf srcLen pkgLen multi b = bucket_header pf multi b ++ stack_lines pf srcLen pkgLen (BSig b)
     goroutine_block                        likewise with goroutine_header / GSig
     multi_of l                             = 1 <? length l
     admitted_b p f m pf bs b               = admitted p f m (bucket_header pf (multi_of bs) b)
     stack_empty s                          = no frame and no elision marker
     no_lf_sig s / no_esc_sig s             = clean_sig LF s / clean_sig ESC s: the byte does not occur in
        State, nor (for every call of the stack and of the creator stack) in DirName, FName, the four
        path fields, nor in the rendered argument list args_string (CArgs c); C16_dump_clean derives it
        from the strings of the dump alone (argument names and pre-rendered fields, recursively)
     strip_csi                              = structural eraser of COMPLETE sequences ESC '[' (0x20..0x3f)* (0x40..0x7e)
     csi_string s                           = s is a concatenation of such sequences
     nroutine ts                            = number of tokens Col PRoutineFirst / Col PRoutine in ts

   Found while proving (both are faithful to the Go code):
   - a bucket whose stack has no frame and no elision marker still prints one
     EMPTY line after its header (strings.Join of zero lines plus "\n"), so
     "exactly one line per frame" needs the [stack_empty] case: C16_example_empty_stack;
   - the two column widths are BYTE maxima whereas fmt pads to RUNE counts:
     columns are aligned (C16_aligned) but wider than necessary as soon as the
     widest package or file name is not ASCII (C16_example_columns: width 5
     for the 3-rune name, the 4-rune name gets one more space than needed). *)
From PP Require Import Base.Bytes Base.BytesX Base.Num Base.GoResult Model.Types Model.UI.
From PP Require Import Proofs.UIBase Proofs.UIProofs.

(* ------------------------------------------------------------------ *)
(* 1. one block per admitted bucket / goroutine, in order              *)
(* ------------------------------------------------------------------ *)
Theorem C16_blocks : forall p pf needs_env bs,
  write_buckets p None None pf needs_env bs =
  (if needs_env then [Txt banner] else []) ++
  flat_map (bucket_block pf (fst (calc_lengths pf (map BSig bs))) (snd (calc_lengths pf (map BSig bs))) (multi_of bs)) bs.
Proof. exact UIProofs.blocks. Qed.
Print Assumptions C16_blocks.

Theorem C16_blocks_filtered : forall p f m pf needs_env bs,
  write_buckets p f m pf needs_env bs =
  (if needs_env then [Txt banner] else []) ++
  flat_map (bucket_block pf (fst (calc_lengths pf (map BSig bs))) (snd (calc_lengths pf (map BSig bs))) (multi_of bs))
           (filter (admitted_b p f m pf bs) bs).
Proof. exact UIProofs.blocks_filtered. Qed.
Print Assumptions C16_blocks_filtered.

Theorem C16_goroutine_blocks : forall p pf needs_env gs,
  write_goroutines p None None pf needs_env gs =
  (if needs_env then [Txt banner] else []) ++
  flat_map (goroutine_block pf (fst (calc_lengths pf (map GSig gs))) (snd (calc_lengths pf (map GSig gs))) (multi_of gs)) gs.
Proof. exact UIProofs.goroutine_blocks. Qed.
Print Assumptions C16_goroutine_blocks.

Theorem C16_goroutine_blocks_filtered : forall p f m pf needs_env gs,
  write_goroutines p f m pf needs_env gs =
  (if needs_env then [Txt banner] else []) ++
  flat_map (goroutine_block pf (fst (calc_lengths pf (map GSig gs))) (snd (calc_lengths pf (map GSig gs))) (multi_of gs))
           (filter (admitted_g p f m pf gs) gs).
Proof. exact UIProofs.goroutine_blocks_filtered. Qed.
Print Assumptions C16_goroutine_blocks_filtered.

(* the stack part: one line per frame, then the elision marker; nothing but
   an empty line for an empty stack *)
Theorem C16_stack_lines : forall pf sl pl s,
  stack_lines pf sl pl s =
  if stack_empty s then [Txt [LF]]
  else flat_map (fun c => call_line pf sl pl c ++ [Txt [LF]]) (Calls (SStack s)) ++
       (if SElided (SStack s) then [Txt (s2b "    (...)")] ++ [Txt [LF]] else []).
Proof. exact UIProofs.stack_lines_struct. Qed.
Print Assumptions C16_stack_lines.

(* shape of a block; line counts of the uncoloured text when the dump strings
   contain no LF: the header is one line, no call line contains an LF, and
   the block has 1 + frames + (1 if elided) lines (1 + 1 for an empty stack) *)
Theorem C16_block_shape : forall pf sl pl multi b, no_lf_sig (BSig b) = true ->
  bucket_block pf sl pl multi b =
    bucket_header pf multi b ++
    (if stack_empty (BSig b) then [Txt [LF]]
     else flat_map (fun c => call_line pf sl pl c ++ [Txt [LF]]) (Calls (SStack (BSig b))) ++
          (if SElided (SStack (BSig b)) then [Txt (s2b "    (...)")] ++ [Txt [LF]] else [])) /\
  count_byte (flatten empty_palette (bucket_header pf multi b)) LF = 1 /\
  (forall c, In c (Calls (SStack (BSig b))) -> count_byte (flatten empty_palette (call_line pf sl pl c)) LF = 0) /\
  count_byte (flatten empty_palette (bucket_block pf sl pl multi b)) LF =
    1 + (if stack_empty (BSig b) then 1
         else List.length (Calls (SStack (BSig b))) + (if SElided (SStack (BSig b)) then 1 else 0)).
Proof. exact UIProofs.block_shape. Qed.
Print Assumptions C16_block_shape.

Theorem C16_goroutine_block_shape : forall pf sl pl multi g, no_lf_sig (GSig g) = true ->
  goroutine_block pf sl pl multi g =
    goroutine_header pf multi g ++
    (if stack_empty (GSig g) then [Txt [LF]]
     else flat_map (fun c => call_line pf sl pl c ++ [Txt [LF]]) (Calls (SStack (GSig g))) ++
          (if SElided (SStack (GSig g)) then [Txt (s2b "    (...)")] ++ [Txt [LF]] else [])) /\
  count_byte (flatten empty_palette (goroutine_header pf multi g)) LF = 1 /\
  (forall c, In c (Calls (SStack (GSig g))) -> count_byte (flatten empty_palette (call_line pf sl pl c)) LF = 0) /\
  count_byte (flatten empty_palette (goroutine_block pf sl pl multi g)) LF =
    1 + (if stack_empty (GSig g) then 1
         else List.length (Calls (SStack (GSig g))) + (if SElided (SStack (GSig g)) then 1 else 0)).
Proof. exact UIProofs.goroutine_block_shape. Qed.
Print Assumptions C16_goroutine_block_shape.

(* the cleanliness hypotheses follow from the strings of the dump alone *)
Theorem C16_dump_clean : forall s,
  (dump_clean_sig LF s = true -> no_lf_sig s = true) /\ (dump_clean_sig ESC s = true -> no_esc_sig s = true).
Proof. intros s. split; [exact (UIProofs.dump_no_lf s)|exact (UIProofs.dump_no_esc s)]. Qed.
Print Assumptions C16_dump_clean.

(* ------------------------------------------------------------------ *)
(* 2. the fields of the header                                         *)
(* ------------------------------------------------------------------ *)
Theorem C16_header_fields : forall pf multi b,
  flatten empty_palette (bucket_header pf multi b) =
  N_to_dec (N.of_nat (List.length (IDs b))) ++ s2b ": " ++ State (BSig b) ++
  sleep_part (BSig b) ++ locked_part (BSig b) ++ created_part pf (BSig b) ++ [LF].
Proof. exact UIProofs.bucket_header_text. Qed.
Print Assumptions C16_header_fields.

Theorem C16_goroutine_header_fields : forall pf multi g,
  flatten empty_palette (goroutine_header pf multi g) =
  Z_to_dec (ID g) ++ s2b ": " ++ State (GSig g) ++
  sleep_part (GSig g) ++ locked_part (GSig g) ++ created_part pf (GSig g) ++ race_part g ++ [LF].
Proof. exact UIProofs.goroutine_header_text. Qed.
Print Assumptions C16_goroutine_header_fields.

(* what the optional parts are, and when they are present *)
Theorem C16_header_parts : forall pf s,
  sleep_part s = (if Z.eqb (SleepMax s) 0 then [] else s2b " [" ++ sleep_text s ++ s2b "]") /\
  locked_part s = (if Locked s then s2b " [locked]" else []) /\
  created_part pf s =
    (match Calls (CreatedBy s) with
     | [] => []
     | c :: _ => s2b " [Created by " ++ DirName (CFunc c) ++ s2b "." ++ FName (CFunc c) ++ s2b " @ " ++
                 format_call pf c ++ s2b "]"
     end) /\
  (sleep_part s <> [] <-> SleepMax s <> 0%Z) /\
  (locked_part s <> [] <-> Locked s = true) /\
  (created_part pf s <> [] <-> Calls (CreatedBy s) <> []) /\
  (SleepMin s = SleepMax s -> sleep_text s = Z_to_dec (SleepMax s) ++ s2b " minutes") /\
  (SleepMin s <> SleepMax s ->
   sleep_text s = Z_to_dec (SleepMin s) ++ s2b "~" ++ Z_to_dec (SleepMax s) ++ s2b " minutes").
Proof.
  intros pf s. split; [reflexivity|]. split; [reflexivity|]. split; [reflexivity|].
  exact (UIProofs.header_parts_iff pf s).
Qed.
Print Assumptions C16_header_parts.

Theorem C16_race_part : forall g,
  (race_part g <> [] <-> RaceAddr g <> 0%N) /\
  (RaceAddr g <> 0%N ->
   race_part g = s2b " Race " ++ (if RaceWrite g then s2b "write" else s2b "read") ++ s2b " @ 0x" ++
                 N_to_hex08 false (RaceAddr g)).
Proof. exact UIProofs.race_part_iff. Qed.
Print Assumptions C16_race_part.

(* ------------------------------------------------------------------ *)
(* 3. alignment                                                        *)
(* ------------------------------------------------------------------ *)
(* utf8.RuneCountInString facts used below *)
Theorem C16_rune_count : forall s,
  rune_count s <= List.length s /\
  (forall a y, (a < 128)%N -> rune_count (s ++ a :: y) = rune_count s + S (rune_count y)) /\
  (forall k, rune_count (s ++ repeat 32%N k) = rune_count s + k) /\
  (forall w, rune_count (pad_right w s) = Nat.max w (rune_count s)).
Proof.
  intros s. split; [exact (UIBase.rune_count_le s)|]. split; [exact (UIBase.rune_count_ascii_sep s)|].
  split; [|intros w; exact (UIBase.rune_count_pad_right w s)].
  intros k. rewrite (UIBase.rune_count_app_ascii s (repeat 32%N k) (UIBase.ascii_repeat_space k)).
  now rewrite repeat_length.
Qed.
Print Assumptions C16_rune_count.

(* the widths are the maximal byte lengths over ALL calls of ALL signatures *)
Theorem C16_widths : forall pf sigs,
  calc_lengths pf sigs =
  (list_max (map (fun c => List.length (format_call pf c)) (flat_map (fun s => Calls (SStack s)) sigs)),
   list_max (map (fun c => List.length (DirName (CFunc c))) (flat_map (fun s => Calls (SStack s)) sigs))).
Proof. exact UIProofs.calc_lengths_max. Qed.
Print Assumptions C16_widths.

Theorem C16_aligned : forall pf sigs s c, In s sigs -> In c (Calls (SStack s)) ->
  let sl := fst (calc_lengths pf sigs) in
  let pl := snd (calc_lengths pf sigs) in
  rune_count (DirName (CFunc c)) <= pl /\
  rune_count (format_call pf c) <= sl /\
  rune_count (pad_right pl (DirName (CFunc c))) = pl /\
  rune_count (pad_right sl (format_call pf c)) = sl /\
  (forall rest, rune_count (line_pre1 pl c ++ rest) = 4 + pl + 1 + rune_count rest) /\
  (forall rest, rune_count (line_pre2 pf sl pl c ++ rest) = 4 + pl + 1 + sl + 1 + rune_count rest).
Proof. exact UIProofs.aligned. Qed.
Print Assumptions C16_aligned.

(* every call line of the whole output: its uncoloured text is
   "    " pkg-field " " file-field " " function "(" args ")", the file field
   starts at rune offset 4+pkgLen+1 and the function at 4+pkgLen+1+srcLen+1,
   the same offsets for all lines of all blocks *)
Theorem C16_aligned_buckets : forall pf bs b c, In b bs -> In c (Calls (SStack (BSig b))) ->
  let sl := fst (calc_lengths pf (map BSig bs)) in
  let pl := snd (calc_lengths pf (map BSig bs)) in
  flatten empty_palette (call_line pf sl pl c) =
    line_pre2 pf sl pl c ++ FName (CFunc c) ++ s2b "(" ++ args_string (CArgs c) ++ s2b ")" /\
  line_pre2 pf sl pl c = line_pre1 pl c ++ pad_right sl (format_call pf c) ++ s2b " " /\
  rune_count (line_pre1 pl c) = 4 + pl + 1 /\
  rune_count (line_pre2 pf sl pl c) = 4 + pl + 1 + sl + 1 /\
  (forall rest, rune_count (line_pre1 pl c ++ rest) = 4 + pl + 1 + rune_count rest) /\
  (forall rest, rune_count (line_pre2 pf sl pl c ++ rest) = 4 + pl + 1 + sl + 1 + rune_count rest).
Proof. exact UIProofs.aligned_buckets. Qed.
Print Assumptions C16_aligned_buckets.

Theorem C16_aligned_goroutines : forall pf gs g c, In g gs -> In c (Calls (SStack (GSig g))) ->
  let sl := fst (calc_lengths pf (map GSig gs)) in
  let pl := snd (calc_lengths pf (map GSig gs)) in
  flatten empty_palette (call_line pf sl pl c) =
    line_pre2 pf sl pl c ++ FName (CFunc c) ++ s2b "(" ++ args_string (CArgs c) ++ s2b ")" /\
  line_pre2 pf sl pl c = line_pre1 pl c ++ pad_right sl (format_call pf c) ++ s2b " " /\
  rune_count (line_pre1 pl c) = 4 + pl + 1 /\
  rune_count (line_pre2 pf sl pl c) = 4 + pl + 1 + sl + 1 /\
  (forall rest, rune_count (line_pre1 pl c ++ rest) = 4 + pl + 1 + rune_count rest) /\
  (forall rest, rune_count (line_pre2 pf sl pl c ++ rest) = 4 + pl + 1 + sl + 1 + rune_count rest).
Proof. exact UIProofs.aligned_goroutines. Qed.
Print Assumptions C16_aligned_goroutines.

(* ------------------------------------------------------------------ *)
(* 4. colour erasure                                                   *)
(* ------------------------------------------------------------------ *)
Theorem C16_uncoloured_text : forall ts,
  flatten empty_palette ts = flat_map (fun t => match t with Col _ => [] | Txt b => b end) ts.
Proof. exact UIProofs.flatten_empty. Qed.
Print Assumptions C16_uncoloured_text.

Theorem C16_tokens_palette_independent : forall p pf ne bs gs,
  write_buckets p None None pf ne bs = write_buckets empty_palette None None pf ne bs /\
  write_goroutines p None None pf ne gs = write_goroutines empty_palette None None pf ne gs.
Proof.
  intros p pf ne bs gs. split;
    [exact (UIProofs.tokens_palette_indep p pf ne bs)|exact (UIProofs.goroutine_tokens_palette_indep p pf ne gs)].
Qed.
Print Assumptions C16_tokens_palette_independent.

Theorem C16_strip_flatten : forall p ts,
  (forall sl, csi_string (pal p sl)) ->
  Forall (fun t => match t with Txt b => count_byte b ESC = 0 | Col _ => True end) ts ->
  strip_csi (flatten p ts) = flatten empty_palette ts.
Proof. exact UIProofs.strip_flatten. Qed.
Print Assumptions C16_strip_flatten.

Theorem C16_colour_erasure : forall p pf ne bs,
  Forall csi_string p -> forallb (fun b => no_esc_sig (BSig b)) bs = true ->
  strip_csi (flatten p (write_buckets p None None pf ne bs)) =
  flatten empty_palette (write_buckets empty_palette None None pf ne bs).
Proof. exact UIProofs.colour_erasure. Qed.
Print Assumptions C16_colour_erasure.

Theorem C16_goroutine_colour_erasure : forall p pf ne gs,
  Forall csi_string p -> forallb (fun g => no_esc_sig (GSig g)) gs = true ->
  strip_csi (flatten p (write_goroutines p None None pf ne gs)) =
  flatten empty_palette (write_goroutines empty_palette None None pf ne gs).
Proof. exact UIProofs.goroutine_colour_erasure. Qed.
Print Assumptions C16_goroutine_colour_erasure.

(* with filters the emitted token list depends on the palette (the regexps
   see the colour codes), but erasing the colours of what IS emitted still
   gives its uncoloured text *)
Theorem C16_colour_erasure_filtered : forall p f m pf ne bs gs,
  Forall csi_string p ->
  (forallb (fun b => no_esc_sig (BSig b)) bs = true ->
   strip_csi (flatten p (write_buckets p f m pf ne bs)) = flatten empty_palette (write_buckets p f m pf ne bs)) /\
  (forallb (fun g => no_esc_sig (GSig g)) gs = true ->
   strip_csi (flatten p (write_goroutines p f m pf ne gs)) = flatten empty_palette (write_goroutines p f m pf ne gs)).
Proof.
  intros p f m pf ne bs gs Hp. split; intros H;
    [exact (UIProofs.colour_erasure_filtered p f m pf ne bs Hp H)
    |exact (UIProofs.goroutine_colour_erasure_filtered p f m pf ne gs Hp H)].
Qed.
Print Assumptions C16_colour_erasure_filtered.

(* strip_csi is the identity on ESC-free text and erases csi_strings *)
Theorem C16_strip_csi_laws : forall e t s,
  (csi_string e -> strip_csi (e ++ s) = strip_csi s) /\
  (count_byte t ESC = 0 -> strip_csi (t ++ s) = t ++ strip_csi s) /\
  (count_byte t ESC = 0 -> strip_csi t = t).
Proof.
  intros e t s. split; [exact (UIBase.strip_csi_string e s)|]. split; [exact (UIBase.strip_csi_text t s)|exact (UIBase.strip_csi_id t)].
Qed.
Print Assumptions C16_strip_csi_laws.

(* ------------------------------------------------------------------ *)
(* 5. 'filter out' and 'match only' split the unfiltered blocks in two  *)
(* ------------------------------------------------------------------ *)
Theorem C16_filter_match_split : forall p f pf ne bs,
  let matched := filter (header_pred_b p pf bs f) bs in
  let filtered := filter (fun b => negb (header_pred_b p pf bs f b)) bs in
  partition (header_pred_b p pf bs f) bs = (matched, filtered) /\
  write_buckets p None None pf ne bs = banner_tokens ne ++ flat_map (all_block_b pf bs) bs /\
  write_buckets p None (Some f) pf ne bs = banner_tokens ne ++ flat_map (all_block_b pf bs) matched /\
  write_buckets p (Some f) None pf ne bs = banner_tokens ne ++ flat_map (all_block_b pf bs) filtered /\
  List.length matched + List.length filtered = List.length bs /\
  (forall q, List.length (flatten q (write_buckets p (Some f) None pf ne bs)) +
             List.length (flatten q (write_buckets p None (Some f) pf ne bs)) =
             List.length (flatten q (write_buckets p None None pf ne bs)) +
             List.length (flatten q (banner_tokens ne))).
Proof. exact UIProofs.filter_match_split. Qed.
Print Assumptions C16_filter_match_split.

Theorem C16_goroutine_filter_match_split : forall p f pf ne gs,
  let matched := filter (header_pred_g p pf gs f) gs in
  let filtered := filter (fun g => negb (header_pred_g p pf gs f g)) gs in
  partition (header_pred_g p pf gs f) gs = (matched, filtered) /\
  write_goroutines p None None pf ne gs = banner_tokens ne ++ flat_map (all_block_g pf gs) gs /\
  write_goroutines p None (Some f) pf ne gs = banner_tokens ne ++ flat_map (all_block_g pf gs) matched /\
  write_goroutines p (Some f) None pf ne gs = banner_tokens ne ++ flat_map (all_block_g pf gs) filtered /\
  List.length matched + List.length filtered = List.length gs /\
  (forall q, List.length (flatten q (write_goroutines p (Some f) None pf ne gs)) +
             List.length (flatten q (write_goroutines p None (Some f) pf ne gs)) =
             List.length (flatten q (write_goroutines p None None pf ne gs)) +
             List.length (flatten q (banner_tokens ne))).
Proof. exact UIProofs.goroutine_filter_match_split. Qed.
Print Assumptions C16_goroutine_filter_match_split.

(* ------------------------------------------------------------------ *)
(* 6. completeness                                                     *)
(* ------------------------------------------------------------------ *)
Theorem C16_complete : forall p pf ne bs,
  nroutine (write_buckets p None None pf ne bs) = List.length bs /\
  exists blks,
    write_buckets p None None pf ne bs = banner_tokens ne ++ List.concat blks /\
    Forall2 (fun b blk => exists rest,
               blk = Col (routine_slot (BFirst b) (multi_of bs)) ::
                     Txt (N_to_dec (N.of_nat (List.length (IDs b))) ++ s2b ": " ++ State (BSig b)) :: rest /\
               nroutine rest = 0) bs blks.
Proof. exact UIProofs.complete. Qed.
Print Assumptions C16_complete.

Theorem C16_goroutine_complete : forall p pf ne gs,
  nroutine (write_goroutines p None None pf ne gs) = List.length gs /\
  exists blks,
    write_goroutines p None None pf ne gs = banner_tokens ne ++ List.concat blks /\
    Forall2 (fun g blk => exists rest,
               blk = Col (routine_slot (First g) (multi_of gs)) ::
                     Txt (Z_to_dec (ID g) ++ s2b ": " ++ State (GSig g)) :: rest /\
               nroutine rest = 0) gs blks.
Proof. exact UIProofs.goroutine_complete. Qed.
Print Assumptions C16_goroutine_complete.

Theorem C16_complete_filtered : forall p f m pf ne bs gs,
  nroutine (write_buckets p f m pf ne bs) = List.length (filter (admitted_b p f m pf bs) bs) /\
  nroutine (write_goroutines p f m pf ne gs) = List.length (filter (admitted_g p f m pf gs) gs).
Proof.
  intros p f m pf ne bs gs. split;
    [exact (UIProofs.complete_filtered p f m pf ne bs)|exact (UIProofs.goroutine_complete_filtered p f m pf ne gs)].
Qed.
Print Assumptions C16_complete_filtered.

(* ------------------------------------------------------------------ *)
(* Examples                                                            *)
(* ------------------------------------------------------------------ *)
(* two buckets; the package of the first frame is "ünï" (5 bytes, 3 runes) *)
Example C16_example_render :
  calc_lengths BasePath (map BSig Ex.bs) = (16, 5) /\
  flatten empty_palette (write_buckets empty_palette None None BasePath false Ex.bs) =
    s2b "1: running" ++ [LF] ++
    s2b "    " ++ Ex.uni ++ s2b "   longer_name.go:7 Do(1, 0x1000, ...)" ++ [LF] ++
    s2b "    main  main.go:12       main()" ++ [LF] ++
    s2b "3: chan receive [2~5 minutes] [locked] [Created by main.main @ main.go:30]" ++ [LF] ++
    s2b "    " ++ Ex.uni ++ s2b "   longer_name.go:7 Do(1, 0x1000, ...)" ++ [LF] ++
    s2b "    (...)" ++ [LF].
Proof. split; [exact Ex.widths|exact Ex.render]. Qed.

(* byte offsets of the file column differ (12 vs 10) but rune offsets agree *)
Example C16_example_columns :
  map (fun c => List.length (line_pre1 5 c)) [Ex.c_do; Ex.c_main 12] = [12; 10] /\
  map (fun c => rune_count (line_pre1 5 c)) [Ex.c_do; Ex.c_main 12] = [10; 10] /\
  map (fun c => rune_count (line_pre2 BasePath 16 5 c)) [Ex.c_do; Ex.c_main 12] = [27; 27].
Proof. exact Ex.columns. Qed.

(* a palette of real CSI strings (slot 0 is ESC[39m ESC[m): stripping the
   450 coloured bytes gives the 306 uncoloured ones; obtained from
   C16_colour_erasure, whose hypotheses hold for this input *)
Example C16_example_colour :
  Forall csi_string Ex.colours /\
  forallb (fun b => no_esc_sig (BSig b)) Ex.bs = true /\
  strip_csi (flatten Ex.colours (write_buckets Ex.colours None None BasePath true Ex.bs)) =
  flatten empty_palette (write_buckets empty_palette None None BasePath true Ex.bs) /\
  List.length (flatten Ex.colours (write_buckets Ex.colours None None BasePath true Ex.bs)) = 450 /\
  List.length (flatten empty_palette (write_buckets empty_palette None None BasePath true Ex.bs)) = 306.
Proof. split; [exact Ex.colours_csi|]. split; [exact Ex.no_esc|exact Ex.colour]. Qed.

(* match only / filter out "running" *)
Example C16_example_split :
  flatten empty_palette (write_buckets empty_palette None (Some Ex.is_running) BasePath false Ex.bs) =
    s2b "1: running" ++ [LF] ++
    s2b "    " ++ Ex.uni ++ s2b "   longer_name.go:7 Do(1, 0x1000, ...)" ++ [LF] ++
    s2b "    main  main.go:12       main()" ++ [LF] /\
  flatten empty_palette (write_buckets empty_palette (Some Ex.is_running) None BasePath false Ex.bs) =
    s2b "3: chan receive [2~5 minutes] [locked] [Created by main.main @ main.go:30]" ++ [LF] ++
    s2b "    " ++ Ex.uni ++ s2b "   longer_name.go:7 Do(1, 0x1000, ...)" ++ [LF] ++
    s2b "    (...)" ++ [LF].
Proof. exact Ex.split. Qed.

Example C16_example_empty_stack :
  flatten empty_palette (bucket_block BasePath 0 0 false (mkBucket emptySig [1%Z] true)) = s2b "1: " ++ [LF; LF].
Proof. exact Ex.empty_stack. Qed.

Example C16_example_strip :
  strip_csi (Ex.esc "[1;31m" ++ s2b "a" ++ Ex.esc "]" ++ s2b "b" ++ Ex.esc "[0m") = s2b "a" ++ Ex.esc "]" ++ s2b "b" /\
  strip_csi (s2b "x" ++ Ex.esc "[3") = s2b "x" ++ Ex.esc "[3".
Proof. exact Ex.strip. Qed.
