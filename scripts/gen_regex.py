#!/usr/bin/env python3
"""Translates the regular expressions of panicparse into the regex AST of
coq/theories/Spec/Regex.v and writes coq/theories/Spec/RegexDefs.v.

  python3 scripts/gen_regex.py           regenerate RegexDefs.v
  python3 scripts/gen_regex.py --check   exit 1 when RegexDefs.v is out of date

The source tree is the one harness/go.mod points to (REPO=<tree> overrides).
The script reads stack/context.go and stack/html.go, takes every
`name = regexp.MustCompile(<string literal>)`, decodes the Go literal (quoted
with escapes, or raw), and parses the RE2 syntax the twelve expressions use;
anything else (lazy operators, repetition counts, \\w \\b, Unicode classes,
non-ASCII, a loop body that can match the empty string ...) is an error, not
an approximation."""
import os, re, sys

HERE = os.path.dirname(os.path.dirname(os.path.abspath(__file__)))
OUT = os.path.join(HERE, "coq", "theories", "Spec", "RegexDefs.v")
FILES = ["stack/context.go", "stack/html.go"]
EXPECTED = ["reRoutineHeader", "reMinutes", "reUnavail", "reFile", "reCreated", "reFunc",
            "reRaceOperationHeader", "reRacePreviousOperationHeader", "reRaceGoroutine",
            "reModule", "reMethodSymbol", "reVersion"]


def repo():
    if os.environ.get("REPO"):
        return os.environ["REPO"]
    for l in open(os.path.join(HERE, "harness", "go.mod")):
        mm = re.match(r"replace github.com/maruel/panicparse/v2 => (.*)$", l.strip())
        if mm:
            return mm.group(1).strip()
    sys.exit("gen_regex: no replace directive in harness/go.mod")


class Err(Exception):
    pass


# ---------- Go string literals ----------
GO_ESC = {"a": 7, "b": 8, "f": 12, "n": 10, "r": 13, "t": 9, "v": 11, "\\": 92, '"': 34, "'": 39}


def go_literal(src, i):
    """Decodes the Go string literal starting at src[i]; returns (bytes, end, text)."""
    if src[i] == "`":
        j = src.index("`", i + 1)
        return src[i + 1:j].replace("\r", "").encode("utf-8"), j + 1, src[i:j + 1]
    if src[i] != '"':
        raise Err("string literal expected")
    out, j = bytearray(), i + 1
    while src[j] != '"':
        c = src[j]
        if c == "\n":
            raise Err("newline in string literal")
        if c != "\\":
            out += c.encode("utf-8")
            j += 1
            continue
        e = src[j + 1]
        if e in GO_ESC:
            out.append(GO_ESC[e])
            j += 2
        elif e == "x":
            out.append(int(src[j + 2:j + 4], 16))
            j += 4
        elif e in "01234567":
            out.append(int(src[j + 1:j + 4], 8))
            j += 4
        elif e in "uU":
            n = 4 if e == "u" else 8
            out += chr(int(src[j + 2:j + 2 + n], 16)).encode("utf-8")
            j += 2 + n
        else:
            raise Err("unknown escape \\" + e)
    return bytes(out), j + 1, src[i:j + 1]


def extract(tree):
    found = {}
    for f in FILES:
        src = open(os.path.join(tree, f), encoding="utf-8").read()
        for mm in re.finditer(r"(\w+)\s*=\s*regexp\.MustCompile\(", src):
            bol = src.rfind("\n", 0, mm.start()) + 1
            if "//" in src[bol:mm.start()]:
                continue  # commented out
            name = mm.group(1)
            try:
                pat, end, text = go_literal(src, mm.end())
            except Err as e:
                raise Err("%s: %s: %s" % (f, name, e))
            if src[end] != ")":
                raise Err("%s: %s: not a single string literal" % (f, name))
            if name in found:
                raise Err("%s defined twice" % name)
            found[name] = (pat, text, f, src.count("\n", 0, mm.start()) + 1)
    if sorted(found) != sorted(EXPECTED):
        raise Err("expressions found %s, expected %s" % (sorted(found), sorted(EXPECTED)))
    return found


# ---------- RE2 subset -> AST ----------
# AST: ("empty",) ("lit", byte) ("any",) ("class", neg, [(lo, hi)]) ("digit",) ("space",)
#      ("seq", [..]) ("alt", [..]) ("star"|"plus"|"opt", a) ("group", n, a) ("bol",) ("eol",) ("mbol",) ("meol",)
PUNCT = set(b"!\"#$%&'()*+,-./:;<=>?@[\\]^_`{|}~")
CLASS_ESC = {ord("n"): 10, ord("r"): 13, ord("t"): 9, ord("f"): 12, ord("v"): 11}


class Parser:
    def __init__(self, pat):
        self.p, self.i, self.ngroups, self.multiline = pat, 0, 0, False
        if any(b >= 128 for b in pat):
            raise Err("non-ASCII pattern")

    def peek(self):
        return self.p[self.i] if self.i < len(self.p) else None

    def parse(self):
        if self.p.startswith(b"(?m)"):
            self.multiline, self.i = True, 4
        r = self.alt()
        if self.i != len(self.p):
            raise Err("unexpected %r at %d" % (chr(self.p[self.i]), self.i))
        return r

    def alt(self):
        branches = [self.seq()]
        while self.peek() == ord("|"):
            self.i += 1
            branches.append(self.seq())
        return branches[0] if len(branches) == 1 else ("alt", branches)

    def seq(self):
        items = []
        while self.peek() is not None and self.peek() not in (ord("|"), ord(")")):
            a = self.atom()
            c = self.peek()
            if c in (ord("*"), ord("+"), ord("?")):
                self.i += 1
                if self.peek() in (ord("?"), ord("+"), ord("*")):
                    raise Err("lazy / stacked repetition operator at %d" % self.i)
                if a[0] in ("bol", "eol", "mbol", "meol", "empty"):
                    raise Err("repetition of an empty-width expression")
                kind = {ord("*"): "star", ord("+"): "plus", ord("?"): "opt"}[c]
                if kind != "opt" and nullable(a):
                    raise Err("loop body can match the empty string")
                a = (kind, a)
            elif c == ord("{"):
                raise Err("repetition count at %d" % self.i)
            items.append(a)
        if not items:
            return ("empty",)
        return items[0] if len(items) == 1 else ("seq", items)

    def atom(self):
        c = self.p[self.i]
        self.i += 1
        if c == ord("("):
            if self.p[self.i:self.i + 2] == b"?:":
                self.i += 2
                r = self.alt()
            elif self.peek() == ord("?"):
                raise Err("group flags at %d" % self.i)
            else:
                self.ngroups += 1
                n = self.ngroups
                r = ("group", n, self.alt())
            if self.peek() != ord(")"):
                raise Err("missing )")
            self.i += 1
            return r
        if c == ord("["):
            return self.cls()
        if c == ord("."):
            return ("any",)
        if c == ord("^"):
            return ("mbol",) if self.multiline else ("bol",)
        if c == ord("$"):
            return ("meol",) if self.multiline else ("eol",)
        if c == ord("\\"):
            e = self.p[self.i]
            self.i += 1
            if e == ord("d"):
                return ("digit",)
            if e == ord("s"):
                return ("space",)
            if e in PUNCT:
                return ("lit", e)
            if e in CLASS_ESC:
                return ("lit", CLASS_ESC[e])
            raise Err("unsupported escape \\%s" % chr(e))
        if c in b"*+?{}])":
            raise Err("unexpected %r at %d" % (chr(c), self.i - 1))
        return ("lit", c)

    def cls_char(self):
        c = self.p[self.i]
        self.i += 1
        if c == ord("\\"):
            e = self.p[self.i]
            self.i += 1
            if e in CLASS_ESC:
                return CLASS_ESC[e]
            if e in PUNCT:
                return e
            raise Err("unsupported escape \\%s in a class" % chr(e))
        return c

    def cls(self):
        neg = False
        if self.peek() == ord("^"):
            neg, self.i = True, self.i + 1
        ranges, first = [], True
        while True:
            if self.peek() is None:
                raise Err("missing ]")
            if self.peek() == ord("]") and not first:
                self.i += 1
                break
            if self.peek() == ord("[") and self.p[self.i:self.i + 2] == b"[:":
                raise Err("named class")
            first = False
            lo = self.cls_char()
            hi = lo
            if self.peek() == ord("-") and self.p[self.i + 1:self.i + 2] != b"]":
                self.i += 1
                hi = self.cls_char()
                if hi < lo:
                    raise Err("bad range")
            ranges.append((lo, hi))
        return ("class", neg, ranges)


def nullable(a):
    k = a[0]
    if k in ("empty", "star", "opt", "bol", "eol", "mbol", "meol"):
        return True
    if k in ("lit", "any", "class", "digit", "space"):
        return False
    if k == "seq":
        return all(nullable(x) for x in a[1])
    if k == "alt":
        return any(nullable(x) for x in a[1])
    if k == "plus":
        return nullable(a[1])
    if k == "group":
        return nullable(a[2])
    raise Err("nullable: " + k)


# ---------- AST -> Gallina ----------
def printable(b):
    return 32 <= b < 127


def coq_str(bs):
    return '"' + bytes(bs).decode("ascii").replace('"', '""') + '"'


def emit_list(items):
    """Merges adjacent literal bytes of a sequence into lit "..." items."""
    out, run = [], []

    def flush():
        if run:
            out.append("lit " + coq_str(run))
            del run[:]
    for a in items:
        if a[0] == "lit" and printable(a[1]):
            run.append(a[1])
        else:
            flush()
            out.append(emit(a, False))
    flush()
    return out


def paren(s, need):
    return "(" + s + ")" if need and " " in s else s


def emit(a, arg=False):
    """Gallina text of a; arg = used as a constructor argument / list element."""
    k = a[0]
    if k == "empty":
        return "Empty"
    if k == "lit":
        return paren("lit " + coq_str([a[1]]) if printable(a[1]) else "Lit %d%%N" % a[1], arg)
    if k == "any":
        return "Any"
    if k == "digit":
        return "digit"
    if k == "space":
        return "space"
    if k in ("bol", "eol", "mbol", "meol"):
        return {"bol": "Bol", "eol": "Eol", "mbol": "MBol", "meol": "MEol"}[k]
    if k == "class":
        rs = "; ".join("(%d, %d)" % r for r in a[2])
        return paren("Class %s [%s]%%N" % ("true" if a[1] else "false", rs), arg)
    if k == "seq":
        l = emit_list(a[1])
        return l[0] if len(l) == 1 else paren("seqs [" + "; ".join(l) + "]", arg)
    if k == "alt":
        return paren("alts [" + "; ".join(emit(x, False) for x in a[1]) + "]", arg)
    if k in ("star", "plus", "opt"):
        return paren("%s %s" % (k.capitalize(), emit(a[1], True)), arg)
    if k == "group":
        return paren("Group %d %s" % (a[1], emit(a[2], True)), arg)
    raise Err("emit: " + k)


def snake(name):
    return re.sub(r"(?<!^)([A-Z])", r"_\1", name).lower()


def generate(tree):
    found = extract(tree)
    out = ["(* Spec/RegexDefs.v — GENERATED by scripts/gen_regex.py from stack/context.go and",
           "   stack/html.go; do not edit.  One definition per regexp.MustCompile of the",
           "   line grammar, in the abstract syntax of Spec/Regex.v; src_<name> is the Go",
           "   string literal it was translated from, verbatim. *)",
           "From PP Require Import Base.Bytes Spec.Regex.", ""]
    for name in EXPECTED:
        pat, text, f, line = found[name]
        p = Parser(pat)
        try:
            ast = p.parse()
        except Err as e:
            raise Err("%s (%s:%d): %s" % (name, f, line, e))
        s = snake(name)
        # (no line number: the generated file must not change when unrelated lines are added to the source)
        out.append("(* %s, %s, %d capture group%s%s *)" % (name, f, p.ngroups, "" if p.ngroups == 1 else "s",
                                                         ", multi-line" if p.multiline else ""))
        out.append("Definition src_%s : string := %s." % (s, '"' + text.replace('"', '""') + '"'))
        body = emit(ast)
        if ast[0] == "seq":
            l = emit_list(ast[1])
            body = "seqs [" + ";\n        ".join(l) + "]"
        out.append("Definition %s : regex :=\n  %s." % (s, body))
        out.append("")
    out.append("(* the expressions by the name of their Go variable *)")
    out.append("Definition re_all : list (bytes * regex) :=")
    out.append("  [" + ";\n   ".join('(s2b "%s", %s)' % (n, snake(n)) for n in EXPECTED) + "].")
    return "\n".join(out) + "\n"


def main():
    try:
        text = generate(repo())
    except Err as e:
        sys.exit("gen_regex: " + str(e))
    if len(sys.argv) > 1 and sys.argv[1] in ("--check", "-check"):
        cur = open(OUT, encoding="utf-8").read() if os.path.exists(OUT) else None
        if cur != text:
            sys.stderr.write("gen_regex: %s is out of date (a pattern changed in the Go source?)\n" % OUT)
            sys.exit(1)
        return
    with open(OUT, "w", encoding="utf-8") as fh:
        fh.write(text)


if __name__ == "__main__":
    main()
