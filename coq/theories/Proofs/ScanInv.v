(* Proofs/ScanInv.v — the scanner state machine never panics: a state
   invariant [Inv] that makes every partial operation of [scan] safe, is true
   of [ss0] and is preserved by every line (safety half of C03). *)
From PP Require Import Base.Bytes Base.BytesX Base.Num Base.GoResult Model.Types Model.Lines Model.FuncInit Model.ParseArgs Model.Scan.
From PP Require Import Proofs.FuncInitSafe Proofs.ParseArgsSafe.
From Coq Require Import String.

(* ------------------------------------------------------------------ *)
(* list facts: last_opt, upd_last, upd_nth                             *)
(* ------------------------------------------------------------------ *)

Lemma last_opt_cons : forall (A : Type) (x : A) (l : list A), l <> [] -> last_opt (x :: l) = last_opt l.
Proof. intros A x [|y l] H; [contradiction|reflexivity]. Qed.

Lemma last_opt_some : forall (A : Type) (l : list A), l <> [] -> exists x, last_opt l = Some x.
Proof.
  intros A l. induction l as [|a l IH]; intros H; [contradiction|].
  destruct l as [|b l].
  - exists a. reflexivity.
  - destruct IH as (x & Hx); [discriminate|].
    exists x. rewrite last_opt_cons by discriminate. exact Hx.
Qed.

Lemma last_opt_ne : forall (A : Type) (l : list A) x, last_opt l = Some x -> l <> [].
Proof. intros A [|a l] x H; [discriminate|discriminate]. Qed.

Lemma last_opt_app1 : forall (A : Type) (l : list A) x, last_opt (l ++ [x]) = Some x.
Proof.
  intros A l x. induction l as [|a l IH]; [reflexivity|].
  simpl app. rewrite last_opt_cons; [exact IH|].
  destruct l; simpl; discriminate.
Qed.

Lemma app1_ne : forall (A : Type) (l : list A) x, l ++ [x] <> [].
Proof. intros A [|a l] x; simpl; discriminate. Qed.

Lemma upd_last_length : forall (A : Type) (f : A -> A) (l : list A),
  List.length (upd_last f l) = List.length l.
Proof.
  intros A f l. induction l as [|a l IH]; [reflexivity|].
  destruct l as [|b l]; [reflexivity|].
  change (upd_last f (a :: b :: l)) with (a :: upd_last f (b :: l)).
  simpl List.length in *. rewrite IH. reflexivity.
Qed.

Lemma upd_last_ne : forall (A : Type) (f : A -> A) (l : list A), l <> [] -> upd_last f l <> [].
Proof.
  intros A f l H E. apply (f_equal (@List.length A)) in E. rewrite upd_last_length in E.
  destruct l; [contradiction|simpl in E; discriminate].
Qed.

Lemma last_opt_upd_last : forall (A : Type) (f : A -> A) (l : list A),
  last_opt (upd_last f l) = option_map f (last_opt l).
Proof.
  intros A f l. induction l as [|a l IH]; [reflexivity|].
  destruct l as [|b l]; [reflexivity|].
  change (upd_last f (a :: b :: l)) with (a :: upd_last f (b :: l)).
  rewrite last_opt_cons by (apply upd_last_ne; discriminate).
  rewrite IH. rewrite (last_opt_cons _ a (b :: l)) by discriminate. reflexivity.
Qed.

Lemma upd_nth_length : forall (A : Type) (f : A -> A) (l : list A) n,
  List.length (upd_nth n f l) = List.length l.
Proof.
  intros A f l. induction l as [|a l IH]; intros [|n]; simpl; try reflexivity.
  rewrite IH. reflexivity.
Qed.

Lemma nth_error_upd_nth : forall (A : Type) (f : A -> A) (l : list A) n x,
  nth_error l n = Some x -> nth_error (upd_nth n f l) n = Some (f x).
Proof.
  intros A f l. induction l as [|a l IH]; intros [|n] x H; simpl in *; try discriminate.
  - injection H as ->. reflexivity.
  - apply IH. exact H.
Qed.

(* ------------------------------------------------------------------ *)
(* the invariant                                                       *)
(* ------------------------------------------------------------------ *)

(* the current (last) goroutine has at least one call on its main stack *)
Definition cur_stack_ne (gs : list Goroutine) : Prop :=
  exists g, last_opt gs = Some g /\ Calls (SStack (GSig g)) <> [].
(* the current goroutine has at least one call in CreatedBy *)
Definition cur_created_ne (gs : list Goroutine) : Prop :=
  exists g, last_opt gs = Some g /\ Calls (CreatedBy (GSig g)) <> [].
(* goroutine number i exists and has at least one call in CreatedBy *)
Definition idx_created_ne (gs : list Goroutine) (i : nat) : Prop :=
  exists g, nth_error gs i = Some g /\ Calls (CreatedBy (GSig g)) <> [].

Definition Inv (s : sstate) : Prop :=
  match st s with
  | looking | gotRaceHeader1 | gotRaceHeader2 => goroutines s = [] /\ sprefix s = []
  | done => True
  | gotFunc | gotRaceOperationFunc => cur_stack_ne (goroutines s)
  | gotCreated => cur_created_ne (goroutines s)
  | gotRaceGoroutineHeader | gotRaceGoroutineFile => gindex s < List.length (goroutines s)
  | gotRaceGoroutineFunc => idx_created_ne (goroutines s) (gindex s)
  | betweenRoutine | gotRoutineHeader | gotFileFunc | gotFileCreated | gotUnavail
  | gotRaceOperationHeader | gotRaceOperationFile | betweenRaceOperations | betweenRaceGoroutines =>
      goroutines s <> []
  end.

Lemma Inv_ss0 : Inv ss0.
Proof. split; reflexivity. Qed.

Lemma cur_stack_ne_ne : forall gs, cur_stack_ne gs -> gs <> [].
Proof. intros gs (g & Hg & _). apply (last_opt_ne _ _ _ Hg). Qed.

Lemma cur_created_ne_ne : forall gs, cur_created_ne gs -> gs <> [].
Proof. intros gs (g & Hg & _). apply (last_opt_ne _ _ _ Hg). Qed.

Lemma idx_created_ne_lt : forall gs i, idx_created_ne gs i -> i < List.length gs.
Proof. intros gs i (g & Hg & _). apply nth_error_Some. rewrite Hg. discriminate. Qed.

(* Outside looking / done / the two race header states there is a current goroutine. *)
Lemma Inv_goroutines_ne : forall s, Inv s ->
  st s <> looking -> st s <> done -> st s <> gotRaceHeader1 -> st s <> gotRaceHeader2 ->
  goroutines s <> [].
Proof.
  intros s HI H1 H2 H3 H4. unfold Inv in HI.
  destruct (st s); try congruence; try exact HI.
  - apply cur_stack_ne_ne; exact HI.
  - apply cur_created_ne_ne; exact HI.
  - apply cur_stack_ne_ne; exact HI.
  - intros E. rewrite E in HI. simpl in HI. lia.
  - apply idx_created_ne_lt in HI. intros E. rewrite E in HI. simpl in HI. lia.
  - intros E. rewrite E in HI. simpl in HI. lia.
Qed.

Lemma Inv_looking : forall s, Inv s -> st s = looking -> goroutines s = [] /\ sprefix s = [].
Proof. intros s HI Hst. unfold Inv in HI. rewrite Hst in HI. exact HI. Qed.

Lemma Inv_race_header : forall s, Inv s -> st s = gotRaceHeader1 \/ st s = gotRaceHeader2 -> goroutines s = [].
Proof. intros s HI [Hst|Hst]; unfold Inv in HI; rewrite Hst in HI; apply HI. Qed.

(* ------------------------------------------------------------------ *)
(* the post-condition of one step                                      *)
(* ------------------------------------------------------------------ *)

Definition Post (s s' : sstate) (l : bool) (e : option scan_err) : Prop :=
  Inv s' /\
  (e <> None -> l = false) /\
  List.length (goroutines s) <= List.length (goroutines s') /\
  (l = false -> e = None ->
     s' = s \/ st s' = done \/ (st s = gotRaceHeader1 /\ st s' = looking)).

Definition StepOk (s : sstate) (r : result) : Prop :=
  exists s' l e, r = Ok (s', l, e) /\ Post s s' l e.

Lemma stepok_ret : forall s s' l e, Post s s' l e -> StepOk s (ret s' l e).
Proof. intros s s' l e H. exists s', l, e. split; [reflexivity|exact H]. Qed.

Lemma post_same : forall s e, Inv s -> Post s s false e.
Proof.
  intros s e HI. split; [exact HI|]. split; [reflexivity|]. split; [apply le_n|].
  intros _ _. left. reflexivity.
Qed.

Lemma post_err : forall s s' e, Inv s' ->
  List.length (goroutines s) <= List.length (goroutines s') -> Post s s' false (Some e).
Proof.
  intros s s' e HI Hl. split; [exact HI|]. split; [reflexivity|]. split; [exact Hl|].
  intros _ He. discriminate.
Qed.

Lemma post_true : forall s s', Inv s' ->
  List.length (goroutines s) <= List.length (goroutines s') -> Post s s' true None.
Proof.
  intros s s' HI Hl. split; [exact HI|]. split; [intros H; congruence|]. split; [exact Hl|].
  intros Hd. discriminate.
Qed.

Lemma inv_done : forall s, st s = done -> Inv s.
Proof. intros s H. unfold Inv. rewrite H. exact I. Qed.

Lemma post_done : forall s s' e, st s' = done ->
  List.length (goroutines s) <= List.length (goroutines s') -> Post s s' false e.
Proof.
  intros s s' e Hd Hl. split; [apply inv_done; exact Hd|]. split; [reflexivity|]. split; [exact Hl|].
  intros _ _. right. left. exact Hd.
Qed.

(* ------------------------------------------------------------------ *)
(* set_cur                                                             *)
(* ------------------------------------------------------------------ *)

Lemma set_cur_last : forall s g, goroutines s <> [] -> last_opt (goroutines (set_cur s g)) = Some g.
Proof.
  intros s g H. simpl. rewrite last_opt_upd_last.
  destruct (last_opt_some _ _ H) as (x & Hx). rewrite Hx. reflexivity.
Qed.

Lemma set_cur_ne : forall s g, goroutines s <> [] -> goroutines (set_cur s g) <> [].
Proof. intros s g H. simpl. apply upd_last_ne. exact H. Qed.

Lemma set_cur_length : forall s g, List.length (goroutines (set_cur s g)) = List.length (goroutines s).
Proof. intros s g. simpl. apply upd_last_length. Qed.

(* ------------------------------------------------------------------ *)
(* helpers of scan                                                     *)
(* ------------------------------------------------------------------ *)

Lemma try_header_shape : forall s t s', try_header s t = Some s' ->
  exists g ind,
    s' = mkSS (goroutines s ++ [g]) gotRoutineHeader (sprefix s ++ ind) (gindex s) /\
    Calls (SStack (GSig g)) = [] /\ Calls (CreatedBy (GSig g)) = [] /\
    First g = (match goroutines s with [] => true | _ => false end).
Proof.
  intros s t s' H. unfold try_header in H.
  destruct (match_routine_header t) as [[[ind ds] text]|]; [|discriminate].
  destruct (atou ds) as [id|]; [|discriminate].
  destruct (header_items _ _ _) as [sleep locked].
  injection H as <-. eexists. exists ind.
  split; [reflexivity|]. split; [reflexivity|]. split; reflexivity.
Qed.

Lemma func_step_ok : forall s line next upd notfound,
  (forall c, exists s1, upd c s = Ok s1 /\ Inv (with_state s1 next) /\
                        List.length (goroutines s) <= List.length (goroutines s1)) ->
  StepOk s notfound ->
  StepOk s (func_step s line next upd notfound).
Proof.
  intros s line next upd notfound Hupd Hnf. unfold func_step.
  destruct (parse_func_total line) as (r & Hr). rewrite Hr. unfold bind at 1.
  destruct r as [[c e]|]; [|exact Hnf].
  destruct (Hupd c) as (s1 & H1 & H2 & H3). rewrite H1. unfold bind.
  apply stepok_ret. split; [exact H2|]. split; [|split].
  - intros He. destruct e; [reflexivity|congruence].
  - exact H3.
  - intros Hl He. subst e. discriminate.
Qed.

Lemma add_call_cur_ok : forall s next,
  goroutines s <> [] ->
  next = gotFunc \/ next = gotRaceOperationFunc ->
  forall c, exists s1, add_call_cur c s = Ok s1 /\ Inv (with_state s1 next) /\
                       List.length (goroutines s) <= List.length (goroutines s1).
Proof.
  intros s next Hne Hnext c. unfold add_call_cur.
  destruct (last_opt_some _ _ Hne) as (g & Hg). rewrite Hg.
  eexists. split; [reflexivity|]. split.
  - assert (Hc : cur_stack_ne (goroutines (set_cur s (add_call g c)))).
    { exists (add_call g c). split; [apply set_cur_last; exact Hne|]. simpl. apply app1_ne. }
    destruct Hnext as [-> | ->]; exact Hc.
  - rewrite set_cur_length. apply le_n.
Qed.

Lemma file_step_ok : forall s line calls store next what,
  Inv s -> calls <> [] ->
  (forall cs, Inv (with_state (store cs) next) /\
              List.length (goroutines s) <= List.length (goroutines (store cs))) ->
  StepOk s (file_step s line calls store next what).
Proof.
  intros s line calls store next what HI Hne Hst. unfold file_step.
  destruct (last_opt_some _ _ Hne) as (c & Hc). rewrite Hc.
  destruct (parse_file c line) as [[c' [e|]]|].
  - apply stepok_ret, post_same, HI.
  - apply stepok_ret, post_true; apply Hst.
  - apply stepok_ret, post_same, HI.
Qed.

Lemma created_step_ok : forall s g sym b,
  Inv s -> goroutines s <> [] -> st s = gotFileFunc \/ st s = gotUnavail ->
  StepOk s (created_step s g sym b).
Proof.
  intros s g sym b HI Hne Hst. unfold created_step.
  destruct (func_init_total sym) as (fi & Hfi). rewrite Hfi. unfold bind.
  destruct fi as [f|].
  - apply stepok_ret, post_true.
    + unfold Inv. change (st (with_state _ gotCreated)) with gotCreated. cbv iota.
      eexists. split.
      * change (goroutines (with_state ?x _)) with (goroutines x).
        apply set_cur_last. exact Hne.
      * simpl. discriminate.
    + change (goroutines (with_state ?x _)) with (goroutines x).
      rewrite set_cur_length. apply le_n.
  - apply stepok_ret, post_err.
    + unfold Inv. change (st (set_cur s ?g)) with (st s).
      destruct Hst as [Hst|Hst]; rewrite Hst; apply set_cur_ne; exact Hne.
    + rewrite set_cur_length. apply le_n.
Qed.

Lemma race_op_header_ok : forall s m first t r,
  Inv s -> (first = true -> goroutines s = []) ->
  race_op_header s m first t = Some r -> StepOk s r.
Proof.
  intros s m first t r HI Hfirst H. unfold race_op_header in H.
  destruct m as [[[w addr] ds]|]; [|discriminate].
  injection H as <-.
  destruct (parse_uint addr) as [a|]; [|apply stepok_ret, post_same, HI].
  destruct (atou ds) as [id|]; [|apply stepok_ret, post_same, HI].
  assert (Hif : first && (match goroutines s with [] => false | _ => true end) = false).
  { destruct first; [|reflexivity]. rewrite (Hfirst eq_refl). reflexivity. }
  rewrite Hif.
  apply stepok_ret, post_true.
  - unfold Inv. simpl. apply app1_ne.
  - simpl. rewrite app_length. lia.
Qed.

(* the local [find] of race_goroutine_step *)
Definition find_id (id : N) : nat -> list Goroutine -> option nat :=
  fix find (i : nat) (l : list Goroutine) : option nat :=
    match l with
    | [] => None
    | g :: l' => if Z.eqb (ID g) (Z.of_N id) then Some i else find (S i) l'
    end.

Lemma find_id_bound : forall id l i j, find_id id i l = Some j -> i <= j < i + List.length l.
Proof.
  intros id l. induction l as [|g l IH]; intros i j H; simpl in H; [discriminate|].
  destruct (Z.eqb (ID g) (Z.of_N id)).
  - injection H as <-. simpl. lia.
  - apply IH in H. simpl. lia.
Qed.

Lemma race_goroutine_step_unfold : forall s trimmed,
  race_goroutine_step s trimmed =
  match match_race_goroutine trimmed with
  | Some (ds, stt) =>
      match atou ds with
      | None => ret s false (Some (ErrRace 1))
      | Some id =>
          match find_id id 0 (goroutines s) with
          | Some i =>
              ret (mkSS (upd_nth i (fun g => set_state g stt) (goroutines s)) gotRaceGoroutineHeader (sprefix s) i) true None
          | None => ret s false (Some (ErrRace 2))
          end
      end
  | None => ret s false (Some (ErrExpected 10))
  end.
Proof. intros s trimmed. reflexivity. Qed.

Lemma race_goroutine_step_ok : forall s t, Inv s -> StepOk s (race_goroutine_step s t).
Proof.
  intros s t HI. rewrite race_goroutine_step_unfold.
  destruct (match_race_goroutine t) as [[ds stt]|]; [|apply stepok_ret, post_same, HI].
  destruct (atou ds) as [id|]; [|apply stepok_ret, post_same, HI].
  destruct (find_id id 0 (goroutines s)) as [i|] eqn:Hf; [|apply stepok_ret, post_same, HI].
  apply find_id_bound in Hf.
  apply stepok_ret, post_true.
  - unfold Inv. simpl. rewrite upd_nth_length. lia.
  - simpl. rewrite upd_nth_length. apply le_n.
Qed.

Lemma race_goroutine_func_step_ok : forall s t,
  Inv s -> gindex s < List.length (goroutines s) ->
  StepOk s (race_goroutine_func_step s t).
Proof.
  intros s t HI Hlt. unfold race_goroutine_func_step.
  apply func_step_ok; [|apply stepok_ret, post_same, HI].
  intros c. cbv beta.
  destruct (nth_error (goroutines s) (gindex s)) as [g|] eqn:Hn.
  - eexists. split; [reflexivity|]. split.
    + unfold Inv. simpl.
      eexists. split; [apply nth_error_upd_nth; exact Hn|].
      simpl. apply app1_ne.
    + simpl. rewrite upd_nth_length. apply le_n.
  - apply nth_error_None in Hn. lia.
Qed.

(* ------------------------------------------------------------------ *)
(* scan, cut into its three stages (convertible with Scan.scan)         *)
(* ------------------------------------------------------------------ *)

Definition scan_tr (s : sstate) (line : bytes) : option bytes :=
  match strip_suffix [CR; LF] line with
  | Some t => Some t
  | None =>
      match strip_suffix [LF] line with
      | Some t => Some t
      | None => if state_eqb (st s) looking || state_eqb (st s) done then None else Some line
      end
  end.

Definition scan_pre (s : sstate) (trimmed0 : bytes) : sstate * option bytes :=
  match trimmed0, sprefix s with
  | _ :: _, _ :: _ =>
      match strip_prefix (sprefix s) trimmed0 with
      | Some t => (s, Some t)
      | None => (mkSS (goroutines s) done [] (gindex s), None)
      end
  | _, _ => (s, Some trimmed0)
  end.

Definition header_or_end (trimmed : bytes) (s : sstate) : result :=
  match try_header s trimmed with
  | Some s' => ret s' true None
  | None =>
      if state_eqb (st s) looking && beq trimmed race_header_footer
      then ret (with_state s gotRaceHeader1) true None
      else ret (if state_eqb (st s) looking then s else with_state s done) false None
  end.

Definition scan_body (s : sstate) (trimmed : bytes) : result :=
  let empty := match trimmed with [] => true | _ => false end in
  match st s with
  | done => ret s false None
  | looking | betweenRoutine => header_or_end trimmed s
  | gotRoutineHeader =>
      with_cur s (fun cur =>
      if match_unavail trimmed then
        ret (with_state (set_cur s (set_calls cur
               [mkCall emptyFunc emptyArgs (s2b "<unavailable>") 0 [] [] [] [] [] LocationUnknown])) gotUnavail) true None
      else func_step s trimmed gotFunc add_call_cur (ret s false (Some (ErrExpected 1))))
  | gotFunc =>
      with_cur s (fun cur =>
      file_step s trimmed (Calls (SStack (GSig cur))) (fun cs => set_cur s (set_calls cur cs)) gotFileFunc 2)
  | gotCreated =>
      with_cur s (fun cur =>
      match Calls (CreatedBy (GSig cur)) with
      | [] => Panic "index out of range [0]"
      | c :: rest =>
          match parse_file c trimmed with
          | Some (_, Some e) => ret s false (Some e)
          | None => ret s false (Some (ErrExpected 3))
          | Some (c', None) => ret (with_state (set_cur s (set_created_calls cur (c' :: rest))) gotFileCreated) true None
          end
      end)
  | gotFileFunc =>
      with_cur s (fun cur =>
      match match_created trimmed with
      | Some sym => created_step s cur sym true
      | None =>
          if is_frames_elided trimmed then ret (set_cur s (set_elided_stack cur)) true None
          else func_step s trimmed gotFunc add_call_cur
                 (if empty then ret (with_state s betweenRoutine) true None
                  else ret (with_state s done) false None)
      end)
  | gotFileCreated =>
      if empty then ret (with_state s betweenRoutine) true None else ret (with_state s done) false None
  | gotUnavail =>
      if empty then ret (with_state s betweenRoutine) true None else
      with_cur s (fun cur =>
      match match_created trimmed with
      | Some sym => created_step s cur sym false
      | None => ret s false (Some (ErrExpected 4))
      end)
  | gotRaceHeader1 =>
      if beq trimmed race_header then ret (with_state s gotRaceHeader2) true None
      else ret (mkSS (goroutines s) looking [] (gindex s)) false None
  | gotRaceHeader2 =>
      match race_op_header s (match_race_op trimmed) true trimmed with
      | Some r => r
      | None => ret s false (Some (ErrExpected 5))
      end
  | gotRaceOperationHeader =>
      func_step s (trim_left_space trimmed) gotRaceOperationFunc add_call_cur (ret s false (Some (ErrExpected 6)))
  | gotRaceOperationFunc =>
      with_cur s (fun cur =>
      file_step s trimmed (Calls (SStack (GSig cur))) (fun cs => set_cur s (set_calls cur cs)) gotRaceOperationFile 7)
  | gotRaceOperationFile =>
      if empty then ret (with_state s betweenRaceOperations) true None
      else func_step s (trim_left_space trimmed) gotRaceOperationFunc add_call_cur (ret s false (Some (ErrExpected 8)))
  | betweenRaceOperations =>
      match race_op_header s (match_race_prev trimmed) false trimmed with
      | Some r => r
      | None => race_goroutine_step s trimmed
      end
  | betweenRaceGoroutines => race_goroutine_step s trimmed
  | gotRaceGoroutineFunc =>
      match nth_error (goroutines s) (gindex s) with
      | None => Panic "index out of range (goroutineIndex)"
      | Some g =>
          file_step s trimmed (Calls (CreatedBy (GSig g)))
            (fun cs => with_gs s (upd_nth (gindex s) (fun g => set_created_calls g cs) (goroutines s)))
            gotRaceGoroutineFile 9
      end
  | gotRaceGoroutineFile =>
      if empty then ret (with_state s betweenRaceGoroutines) true None
      else if beq trimmed race_header_footer then ret (with_state s done) true None
      else race_goroutine_func_step s trimmed
  | gotRaceGoroutineHeader => race_goroutine_func_step s trimmed
  end.

Lemma scan_unfold : forall s line,
  scan s line =
  match scan_tr s line with
  | None => ret s false None
  | Some trimmed0 =>
      match scan_pre s trimmed0 with
      | (s', None) => ret s' false (Some ErrIndent)
      | (_, Some trimmed) => scan_body s trimmed
      end
  end.
Proof. intros s line. reflexivity. Qed.

Lemma scan_pre_cases : forall s t0,
  (exists t, scan_pre s t0 = (s, Some t)) \/
  (scan_pre s t0 = (mkSS (goroutines s) done [] (gindex s), None) /\ sprefix s <> []).
Proof.
  intros s t0. unfold scan_pre.
  destruct t0 as [|x t0]; [left; eexists; reflexivity|].
  destruct (sprefix s) as [|y p] eqn:Hp; [left; eexists; reflexivity|].
  destruct (strip_prefix (y :: p) (x :: t0)) as [t|].
  - left. eexists. reflexivity.
  - right. split; [reflexivity|discriminate].
Qed.

Lemma scan_pre_noprefix : forall s t0, sprefix s = [] -> scan_pre s t0 = (s, Some t0).
Proof. intros s t0 H. unfold scan_pre. rewrite H. destruct t0; reflexivity. Qed.

(* ------------------------------------------------------------------ *)
(* the state machine proper                                            *)
(* ------------------------------------------------------------------ *)

Lemma header_or_end_ok : forall t s,
  Inv s -> st s = looking \/ st s = betweenRoutine -> StepOk s (header_or_end t s).
Proof.
  intros t s HI Hst. unfold header_or_end.
  destruct (try_header s t) as [s'|] eqn:Hh.
  - destruct (try_header_shape _ _ _ Hh) as (g & ind & -> & _).
    apply stepok_ret, post_true.
    + unfold Inv. simpl. apply app1_ne.
    + simpl. rewrite app_length. lia.
  - destruct Hst as [Hst|Hst]; rewrite Hst.
    + change (state_eqb looking looking) with true. rewrite andb_true_l.
      destruct (beq t race_header_footer).
      * apply stepok_ret, post_true; [|apply le_n].
        unfold Inv in *. rewrite Hst in HI. exact HI.
      * apply stepok_ret, post_same, HI.
    + change (state_eqb betweenRoutine looking) with false. rewrite andb_false_l.
      apply stepok_ret, post_done; [reflexivity|apply le_n].
Qed.

Ltac use_cur Hne cur Hcur :=
  unfold with_cur;
  destruct (last_opt_some _ _ Hne) as (cur & Hcur); rewrite Hcur.

Lemma scan_body_ok : forall s t, Inv s -> StepOk s (scan_body s t).
Proof.
  intros s t HI. unfold scan_body.
  pose proof HI as HI0. unfold Inv in HI0.
  destruct (st s) eqn:Hst.
  - (* looking *) apply header_or_end_ok; [exact HI|left; exact Hst].
  - (* done *) apply stepok_ret, post_same, HI.
  - (* betweenRoutine *) apply header_or_end_ok; [exact HI|right; exact Hst].
  - (* gotRoutineHeader *)
    use_cur HI0 cur Hcur.
    destruct (match_unavail t).
    + apply stepok_ret, post_true.
      * unfold Inv. change (st (with_state _ gotUnavail)) with gotUnavail. cbv iota.
        change (goroutines (with_state ?x _)) with (goroutines x).
        apply set_cur_ne. exact HI0.
      * change (goroutines (with_state ?x _)) with (goroutines x).
        rewrite set_cur_length. apply le_n.
    + apply func_step_ok.
      * apply add_call_cur_ok; [exact HI0|left; reflexivity].
      * apply stepok_ret, post_same, HI.
  - (* gotFunc *)
    destruct HI0 as (cur & Hcur & Hcalls).
    unfold with_cur. rewrite Hcur.
    pose proof (last_opt_ne _ _ _ Hcur) as Hne.
    apply file_step_ok; [exact HI|exact Hcalls|].
    intros cs. split.
    + unfold Inv. change (st (with_state _ gotFileFunc)) with gotFileFunc. cbv iota.
      change (goroutines (with_state ?x _)) with (goroutines x).
      apply set_cur_ne. exact Hne.
    + rewrite set_cur_length. apply le_n.
  - (* gotCreated *)
    destruct HI0 as (cur & Hcur & Hcalls).
    unfold with_cur. rewrite Hcur.
    pose proof (last_opt_ne _ _ _ Hcur) as Hne.
    destruct (Calls (CreatedBy (GSig cur))) as [|c rest]; [contradiction|].
    destruct (parse_file c t) as [[c' [e|]]|].
    + apply stepok_ret, post_same, HI.
    + apply stepok_ret, post_true.
      * unfold Inv. change (st (with_state _ gotFileCreated)) with gotFileCreated. cbv iota.
        change (goroutines (with_state ?x _)) with (goroutines x).
        apply set_cur_ne. exact Hne.
      * change (goroutines (with_state ?x _)) with (goroutines x).
        rewrite set_cur_length. apply le_n.
    + apply stepok_ret, post_same, HI.
  - (* gotFileFunc *)
    use_cur HI0 cur Hcur.
    destruct (match_created t) as [sym|].
    + apply created_step_ok; [exact HI|exact HI0|left; exact Hst].
    + destruct (is_frames_elided t).
      * apply stepok_ret, post_true.
        -- unfold Inv. change (st (set_cur s ?g)) with (st s). rewrite Hst.
           apply set_cur_ne. exact HI0.
        -- rewrite set_cur_length. apply le_n.
      * apply func_step_ok.
        -- apply add_call_cur_ok; [exact HI0|left; reflexivity].
        -- destruct t.
           ++ apply stepok_ret, post_true; [|apply le_n]. unfold Inv. simpl. exact HI0.
           ++ apply stepok_ret, post_done; [reflexivity|apply le_n].
  - (* gotFileCreated *)
    destruct t.
    + apply stepok_ret, post_true; [|apply le_n]. unfold Inv. simpl. exact HI0.
    + apply stepok_ret, post_done; [reflexivity|apply le_n].
  - (* gotUnavail *)
    destruct t as [|x t'].
    + apply stepok_ret, post_true; [|apply le_n]. unfold Inv. simpl. exact HI0.
    + use_cur HI0 cur Hcur.
      destruct (match_created (x :: t')) as [sym|].
      * apply created_step_ok; [exact HI|exact HI0|right; exact Hst].
      * apply stepok_ret, post_same, HI.
  - (* gotRaceHeader1 *)
    destruct (beq t race_header).
    + apply stepok_ret, post_true; [|apply le_n]. unfold Inv. simpl. exact HI0.
    + apply stepok_ret. split; [|split; [|split]].
      * unfold Inv. simpl. split; [apply HI0|reflexivity].
      * reflexivity.
      * apply le_n.
      * intros _ _. right. right. split; [exact Hst|reflexivity].
  - (* gotRaceHeader2 *)
    destruct (race_op_header s (match_race_op t) true t) as [r|] eqn:Hr.
    + apply (race_op_header_ok _ _ _ _ _ HI (fun _ => proj1 HI0) Hr).
    + apply stepok_ret, post_same, HI.
  - (* gotRaceOperationHeader *)
    apply func_step_ok.
    + apply add_call_cur_ok; [exact HI0|right; reflexivity].
    + apply stepok_ret, post_same, HI.
  - (* gotRaceOperationFunc *)
    destruct HI0 as (cur & Hcur & Hcalls).
    unfold with_cur. rewrite Hcur.
    pose proof (last_opt_ne _ _ _ Hcur) as Hne.
    apply file_step_ok; [exact HI|exact Hcalls|].
    intros cs. split.
    + unfold Inv. change (st (with_state _ gotRaceOperationFile)) with gotRaceOperationFile. cbv iota.
      change (goroutines (with_state ?x _)) with (goroutines x).
      apply set_cur_ne. exact Hne.
    + rewrite set_cur_length. apply le_n.
  - (* gotRaceOperationFile *)
    destruct t as [|x t'].
    + apply stepok_ret, post_true; [|apply le_n]. unfold Inv. simpl. exact HI0.
    + apply func_step_ok.
      * apply add_call_cur_ok; [exact HI0|right; reflexivity].
      * apply stepok_ret, post_same, HI.
  - (* betweenRaceOperations *)
    destruct (race_op_header s (match_race_prev t) false t) as [r|] eqn:Hr.
    + apply (race_op_header_ok s (match_race_prev t) false t r HI); [intros Hf; discriminate Hf|exact Hr].
    + apply race_goroutine_step_ok, HI.
  - (* gotRaceGoroutineHeader *)
    apply race_goroutine_func_step_ok; [exact HI|exact HI0].
  - (* gotRaceGoroutineFunc *)
    destruct HI0 as (g & Hg & Hcalls).
    rewrite Hg.
    pose proof (idx_created_ne_lt _ _ (ex_intro _ g (conj Hg Hcalls))) as Hlt.
    apply file_step_ok; [exact HI|exact Hcalls|].
    intros cs. split.
    + unfold Inv. simpl. rewrite upd_nth_length. exact Hlt.
    + simpl. rewrite upd_nth_length. apply le_n.
  - (* gotRaceGoroutineFile *)
    destruct t as [|x t'].
    + apply stepok_ret, post_true; [|apply le_n]. unfold Inv. simpl.
      intros E. rewrite E in HI0. simpl in HI0. lia.
    + destruct (beq (x :: t') race_header_footer).
      * apply stepok_ret, post_true; [|apply le_n]. apply inv_done. reflexivity.
      * apply race_goroutine_func_step_ok; [exact HI|exact HI0].
  - (* betweenRaceGoroutines *)
    apply race_goroutine_step_ok, HI.
Qed.

(* ------------------------------------------------------------------ *)
(* main theorems                                                       *)
(* ------------------------------------------------------------------ *)

Theorem scan_post : forall s line, Inv s ->
  exists s' l e, scan s line = Ok (s', l, e) /\ Post s s' l e.
Proof.
  intros s line HI. rewrite scan_unfold.
  destruct (scan_tr s line) as [t0|]; [|apply stepok_ret, post_same, HI].
  destruct (scan_pre_cases s t0) as [(t & Ht)|(Ht & Hp)]; rewrite Ht.
  - apply scan_body_ok, HI.
  - apply stepok_ret, post_err; [apply inv_done; reflexivity|apply le_n].
Qed.

Theorem scan_total : forall s line, Inv s ->
  exists s' l e, scan s line = Ok (s', l, e) /\ Inv s'.
Proof.
  intros s line HI. destruct (scan_post s line HI) as (s' & l & e & H & HP & _).
  exists s', l, e. split; assumption.
Qed.

(* folding scan over a list of lines *)
Fixpoint scan_lines (s : sstate) (lines : list bytes) : GoResult sstate :=
  match lines with
  | [] => Ok s
  | line :: rest =>
      match scan s line with
      | Ok (s', _, _) => scan_lines s' rest
      | Panic m => Panic m
      end
  end.

Theorem scan_lines_total_from : forall lines s, Inv s ->
  exists s', scan_lines s lines = Ok s' /\ Inv s'.
Proof.
  induction lines as [|line rest IH]; intros s HI.
  - exists s. split; [reflexivity|exact HI].
  - simpl. destruct (scan_total s line HI) as (s1 & l & e & H1 & HI1). rewrite H1.
    apply IH. exact HI1.
Qed.

Theorem scan_lines_total : forall lines, exists s', scan_lines ss0 lines = Ok s' /\ Inv s'.
Proof. intros lines. apply scan_lines_total_from. exact Inv_ss0. Qed.

(* ------------------------------------------------------------------ *)
(* flags                                                               *)
(* ------------------------------------------------------------------ *)

(* an error is never reported together with "line consumed" *)
Theorem scan_err_flag : forall s line s' l e,
  Inv s -> scan s line = Ok (s', l, Some e) -> l = false.
Proof.
  intros s line s' l e HI H.
  destruct (scan_post s line HI) as (s1 & l1 & e1 & H1 & _ & HP & _).
  rewrite H in H1. injection H1 as <- <- <-. apply HP. discriminate.
Qed.

(* the goroutine list never shrinks *)
Theorem scan_goroutines_mono : forall s line s' l e,
  Inv s -> scan s line = Ok (s', l, e) ->
  List.length (goroutines s) <= List.length (goroutines s').
Proof.
  intros s line s' l e HI H.
  destruct (scan_post s line HI) as (s1 & l1 & e1 & H1 & _ & _ & HP & _).
  rewrite H in H1. injection H1 as <- <- <-. exact HP.
Qed.

(* a line that is neither consumed nor an error leaves the state alone, or
   ends the dump, or is the line after a lone "==================" *)
Theorem scan_false_none : forall s line s',
  Inv s -> scan s line = Ok (s', false, None) ->
  s' = s \/ st s' = done \/ (st s = gotRaceHeader1 /\ st s' = looking).
Proof.
  intros s line s' HI H.
  destruct (scan_post s line HI) as (s1 & l1 & e1 & H1 & _ & _ & _ & HP).
  rewrite H in H1. injection H1 as <- <- <-. apply HP; reflexivity.
Qed.

(* done is absorbing; the only thing that can still happen is the
   indentation error, once, which also clears the prefix *)
Theorem scan_done : forall s line, st s = done ->
  exists s' e, scan s line = Ok (s', false, e) /\
    st s' = done /\ goroutines s' = goroutines s /\ gindex s' = gindex s /\
    ((e = None /\ s' = s) \/
     (e = Some ErrIndent /\ sprefix s <> [] /\ sprefix s' = [])).
Proof.
  intros s line Hst. rewrite scan_unfold.
  destruct (scan_tr s line) as [t0|].
  - destruct (scan_pre_cases s t0) as [(t & Ht)|(Ht & Hp)]; rewrite Ht.
    + unfold scan_body. rewrite Hst. exists s, None.
      split; [reflexivity|]. split; [exact Hst|]. split; [reflexivity|]. split; [reflexivity|].
      left. split; reflexivity.
    + eexists. eexists. split; [reflexivity|]. split; [reflexivity|]. split; [reflexivity|].
      split; [reflexivity|]. right. split; [reflexivity|]. split; [exact Hp|reflexivity].
  - exists s, None.
    split; [reflexivity|]. split; [exact Hst|]. split; [reflexivity|]. split; [reflexivity|].
    left. split; reflexivity.
Qed.

Theorem scan_done_noprefix : forall s line, st s = done -> sprefix s = [] ->
  scan s line = Ok (s, false, None).
Proof.
  intros s line Hst Hp. rewrite scan_unfold.
  destruct (scan_tr s line) as [t0|]; [|reflexivity].
  rewrite scan_pre_noprefix by exact Hp.
  unfold scan_body. rewrite Hst. reflexivity.
Qed.

(* looking: no error; the line is either ignored (state unchanged) or it is a
   goroutine header (first goroutine) or the "==================" line *)
Theorem scan_looking : forall s line, Inv s -> st s = looking ->
  exists s' l, scan s line = Ok (s', l, None) /\
    ((l = false /\ s' = s) \/
     (l = true /\ st s' = gotRoutineHeader /\
        exists g, goroutines s' = [g] /\ First g = true /\
                  Calls (SStack (GSig g)) = [] /\ Calls (CreatedBy (GSig g)) = []) \/
     (l = true /\ s' = with_state s gotRaceHeader1)).
Proof.
  intros s line HI Hst.
  destruct (Inv_looking s HI Hst) as (Hgs & Hp).
  rewrite scan_unfold.
  destruct (scan_tr s line) as [t0|].
  - rewrite scan_pre_noprefix by exact Hp.
    unfold scan_body. rewrite Hst. unfold header_or_end.
    destruct (try_header s t0) as [s1|] eqn:Hh.
    + destruct (try_header_shape _ _ _ Hh) as (g & ind & -> & Hc1 & Hc2 & Hf).
      eexists. eexists. split; [reflexivity|]. right. left.
      split; [reflexivity|]. split; [reflexivity|].
      exists g. rewrite Hgs in *. split; [reflexivity|]. split; [exact Hf|]. split; assumption.
    + rewrite Hst. change (state_eqb looking looking) with true. rewrite andb_true_l.
      destruct (beq t0 race_header_footer).
      * eexists. eexists. split; [reflexivity|]. right. right. split; reflexivity.
      * eexists. eexists. split; [reflexivity|]. left. split; reflexivity.
  - eexists. eexists. split; [reflexivity|]. left. split; reflexivity.
Qed.

Corollary scan_looking_flag : forall s line s' l e, Inv s -> st s = looking ->
  scan s line = Ok (s', l, e) ->
  e = None /\ (l = false -> s' = s) /\ (goroutines s' = [] \/ l = true).
Proof.
  intros s line s' l e HI Hst H.
  destruct (scan_looking s line HI Hst) as (s1 & l1 & H1 & Hc).
  rewrite H in H1. injection H1 as <- <- ->.
  destruct (Inv_looking s HI Hst) as (Hgs & _).
  split; [reflexivity|].
  destruct Hc as [(-> & ->)|[(-> & _)|(-> & _)]].
  - split; [reflexivity|]. left. exact Hgs.
  - split; [discriminate|]. right. reflexivity.
  - split; [discriminate|]. right. reflexivity.
Qed.
