//go:build !verif

// Without the verif tag /repo/stack/verif_hooks.go is not compiled and the
// hooked ops are unavailable; check.py falls back to this build when the hook
// file no longer compiles against the tree and reports those ops as unchecked.
package main

import (
	"fmt"
	"math/rand"
	"os"
)

func hooksUnavailable() {
	fmt.Fprintln(os.Stderr, "hooked op: built without the verif tag")
	os.Exit(3)
}

func opStep(r *rand.Rand, n int, tier string)   { hooksUnavailable() }
func opSigops(r *rand.Rand, n int, tier string) { hooksUnavailable() }
func opRlines(r *rand.Rand, n int, tier string) { hooksUnavailable() }
