(* Model/Names.v — nameArguments, stack/stack.go:804.
   The two "for k := range objects" loops only collect keys that are sorted
   right afterwards (sort.Sort on uint64, a total order), so their iteration
   order cannot be observed: the model collects into sorted duplicate-free
   lists directly. *)
From PP Require Import Base.Bytes Base.Num Model.Types.

(* Args.walk restricted to the visitor of nameArguments: the values of the
   non-aggregate arguments with IsPtr, in walk order *)
Fixpoint arg_ptrs (a : Arg) : list N :=
  match a with
  | MkArg ag _ v p _ _ fv _ _ =>
      if ag then
        (fix go (l : list Arg) : list N :=
           match l with [] => [] | x :: l' => arg_ptrs x ++ go l' end) fv
      else if p then [v] else []
  end.
Fixpoint args_list_ptrs (l : list Arg) : list N :=
  match l with [] => [] | x :: l' => arg_ptrs x ++ args_list_ptrs l' end.
Definition call_ptrs (c : Call) : list N := args_list_ptrs (Values (CArgs c)).
Definition goroutine_ptrs (g : Goroutine) : list N := flat_map call_ptrs (Calls (SStack (GSig g))).

Definition memN (v : N) (l : list N) : bool := existsb (N.eqb v) l.
Fixpoint countN (v : N) (l : list N) : nat :=
  match l with [] => 0 | x :: l' => (if N.eqb v x then 1 else 0) + countN v l' end.

(* ascending, duplicate-free *)
Fixpoint insert_uniq (v : N) (l : list N) : list N :=
  match l with
  | [] => [v]
  | x :: l' => if N.ltb v x then v :: l else if N.eqb v x then l else x :: insert_uniq v l'
  end.
Fixpoint sort_uniq (l : list N) : list N :=
  match l with [] => [] | x :: l' => insert_uniq x (sort_uniq l') end.

Fixpoint number_from (n : N) (l : list N) : list (N * bytes) :=
  match l with [] => [] | v :: l' => (v, 35%N :: N_to_dec n) :: number_from (N.succ n) l' end.

Definition name_table (gs : list Goroutine) : list (N * bytes) :=
  match gs with
  | [] => []
  | g0 :: _ =>
      let p0 := goroutine_ptrs g0 in
      let all := flat_map goroutine_ptrs gs in
      let A := sort_uniq (filter (fun v => Nat.ltb 1 (countN v all) && memN v p0) all) in
      let B := sort_uniq (filter (fun v => negb (memN v p0)) all) in
      number_from 1 A ++ number_from (N.of_nat (List.length A) + 1) B
  end.

Fixpoint lookupN (v : N) (t : list (N * bytes)) : option bytes :=
  match t with [] => None | (k, n) :: t' => if N.eqb v k then Some n else lookupN v t' end.

Fixpoint arg_rename (t : list (N * bytes)) (a : Arg) : Arg :=
  match a with
  | MkArg ag n v p tl i fv fp fe =>
      if ag then
        MkArg ag n v p tl i
          ((fix go (l : list Arg) : list Arg :=
              match l with [] => [] | x :: l' => arg_rename t x :: go l' end) fv) fp fe
      else if p then
        match lookupN v t with Some nm => MkArg ag nm v p tl i fv fp fe | None => a end
      else a
  end.
Definition args_rename t (a : Args) : Args := mkArgs (map (arg_rename t) (Values a)) (Processed a) (Elided a).
Definition call_rename t (c : Call) : Call :=
  mkCall (CFunc c) (args_rename t (CArgs c)) (RemoteSrcPath c) (Line c) (SrcName c) (DirSrc c)
         (LocalSrcPath c) (RelSrcPath c) (CImportPath c) (CLocation c).
Definition goroutine_rename t (g : Goroutine) : Goroutine :=
  set_stack g (mkStack (map (call_rename t) (Calls (SStack (GSig g)))) (SElided (SStack (GSig g)))).

Definition name_arguments (gs : list Goroutine) : list Goroutine :=
  map (goroutine_rename (name_table gs)) gs.
