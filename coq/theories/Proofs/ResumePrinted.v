(* Proofs/ResumePrinted.v — audit items 4 and 5: the resume protocol
   (Model/ScanSeq.scan_seq) and the command (Model/Process.pp_run) on streams
   made of PRINTED dumps and race reports (Spec/Printer.print_dump,
   Spec/RacePrinter.print_race) separated by text.

   C07_resume speaks of "dumps" through [delimits], which is defined with the
   model's own [scan].  Here the dumps are the printer's, the expected
   snapshots are the printer's ([snapshot_of], [race_snapshot_of]) and every
   hypothesis is about the printer's data or about the bytes of the text in
   between; none mentions [scan], [accept_all], [delimits] or a scanner state.

   1. text between dumps, scan-free: [plain_text] (line matchers only),
      [ends_with_lf], [starts_with_full_line], and their equivalence with the
      vocabulary of C02/C07 ([no_start], [terminated], [first_line_terminated])
   2. items (a dump of any variant, or a race report), what they denote, the
      stream, the conditions on the stream
   3. the scanner accepts an item, and rejects what follows a dump (with the
      indentation error if the dump is indented and the next line is not)
   4. one call of ScanSnapshot on text ++ item ++ rest, any schedule
   5. scan_seq: the exact list of results (all variants)
   6. pp_run: the exact output (unindented dumps: a scan error stops pp)
   7. a race report followed by anything
   8. the statements of Properties/C00_resume.v, spelled out

   The scanner-level facts used: RoundTripScan (steps_all_trailing, through
   Compose: the lines of a printed dump take the scanner from its initial
   state to betweenRoutine with the goroutines [snapshot_of d] - the core of
   C01_fidelity), RoundTripRace.race_steps (the same for C08_fidelity),
   PrefixBase/PrefixProofs (ScanSnapshot as a fold over the lines, C07),
   ProcessProofs (the loop of pp, C02b). *)
From PP Require Import Base.Bytes Base.BytesX Base.Num Base.GoResult Model.Types Model.Lines Model.Reader
  Model.FuncInit Model.ParseArgs Model.Scan Model.Names Model.ScanSnapshot Model.ScanSeq.
From PP Require Import Model.Stack Model.Bucket Model.UI Model.Process.
From PP Require Import Proofs.ReaderBase Proofs.ReaderProofs Proofs.ScanInv Proofs.LoopBase Proofs.LoopProofs.
From PP Require Import Spec.ReaderSpec Spec.LoopSpec Spec.SeqSpec Proofs.PrefixBase Proofs.PrefixFrame Proofs.PrefixProofs.
From PP Require Import Proofs.Aggregate Proofs.ProcessProofs.
From PP Require Import Spec.Printer Spec.RacePrinter Proofs.RoundTripLines Proofs.RoundTripScan Proofs.RoundTripRace.
From PP Require Import Proofs.Compose.
From Coq Require Import String Lia.

(* ------------------------------------------------------------------ *)
(* 1. the text between the dumps                                        *)
(* ------------------------------------------------------------------ *)

(* the line (without its end of line) is a goroutine header: the header
   matcher (= the regular expression reRoutineHeader, C00_routine_header)
   finds it and its id is a number of at most 18 digits *)
Definition is_goroutine_header (t : bytes) : bool :=
  match match_routine_header t with
  | Some (_, ds, _) => match atou ds with Some _ => true | None => false end
  | None => false
  end.

(* a complete line (LF or CR LF stripped) that is neither a goroutine header
   nor the race detector's separator; an unterminated line is plain *)
Definition plain_line (line : bytes) : bool :=
  match eol_trim line with
  | None => true
  | Some t => negb (is_goroutine_header t) && negb (beq t race_separator)
  end.

Definition plain_text (J : bytes) : Prop := forallb plain_line (lines J) = true.

Definition ends_with_lf (J : bytes) : Prop := J = [] \/ exists a, J = a ++ [LF].
Definition starts_with_full_line (J : bytes) : Prop := J = [] \/ In LF J.

Lemma try_header_is_header s t :
  (match try_header s t with Some _ => true | None => false end) = is_goroutine_header t.
Proof.
  unfold try_header, is_goroutine_header.
  destruct (match_routine_header t) as [[[ind ds] text]|]; [|reflexivity].
  destruct (atou ds) as [id|]; [|reflexivity].
  destruct (header_items _ _ _). reflexivity.
Qed.

Lemma plain_line_not_start line : plain_line line = not_start_line line.
Proof.
  unfold plain_line, not_start_line. destruct (eol_trim line) as [t|]; [|reflexivity].
  rewrite <- (try_header_is_header ss0 t).
  destruct (try_header ss0 t); reflexivity.
Qed.

Lemma plain_text_no_start J : plain_text J <-> no_start J.
Proof.
  unfold plain_text, no_start.
  assert (E : forall ls, forallb plain_line ls = forallb not_start_line ls).
  { induction ls as [|l ls IH]; [reflexivity|]. cbn [forallb]. now rewrite plain_line_not_start, IH. }
  now rewrite E.
Qed.

Lemma lines_snoc_lf a : forall d, In d (lines (a ++ [LF])) -> has_lf d = true.
Proof.
  induction a as [|x a IH]; intros d Hin.
  - cbn in Hin. destruct Hin as [<-|[]]. reflexivity.
  - cbn [app lines] in Hin. destruct (N.eqb x LF) eqn:Ex.
    + destruct Hin as [<-|Hin]; [|now apply IH]. rewrite has_lf_cons, Ex. reflexivity.
    + destruct (lines (a ++ [LF])) as [|l ls] eqn:El.
      * apply lines_nil in El. destruct a; discriminate El.
      * destruct Hin as [<-|Hin].
        -- rewrite has_lf_cons, Ex. apply IH. now left.
        -- apply IH. now right.
Qed.

Lemma ends_with_lf_terminated J : ends_with_lf J <-> terminated J.
Proof.
  split.
  - intros [->|(a & ->)]; [intros d []|exact (lines_snoc_lf a)].
  - intros Ht. destruct (lines J) as [|l ls] eqn:El; [left; now apply lines_nil|right].
    assert (Hne : l :: ls <> []) by discriminate.
    destruct (exists_last Hne) as (init & d & E).
    assert (Hd : has_lf d = true).
    { apply Ht. rewrite El, E. apply in_or_app. right. now left. }
    pose proof (lines_lf_end J) as HF. rewrite El, E in HF.
    apply Forall_app in HF. destruct HF as [_ HF]. inversion HF as [|? ? Hd' _]; subst.
    destruct (Hd' Hd) as (a & ->).
    exists (List.concat init ++ a).
    rewrite <- (concat_lines J), El, E, concat_app. cbn [List.concat]. now rewrite app_nil_r, app_assoc.
Qed.

Lemma lines_hd_lf J : In LF J -> exists d rest, lines J = d :: rest /\ has_lf d = true.
Proof.
  induction J as [|x J IH]; intros Hin; [contradiction|].
  cbn [lines]. destruct (N.eqb x LF) eqn:Ex.
  - eexists. eexists. split; [reflexivity|]. rewrite has_lf_cons, Ex. reflexivity.
  - destruct Hin as [->|Hin]; [rewrite N.eqb_refl in Ex; discriminate Ex|].
    destruct (IH Hin) as (d & rest & -> & Hd). eexists. eexists. split; [reflexivity|].
    rewrite has_lf_cons, Hd. now rewrite orb_true_r.
Qed.

Lemma starts_with_full_line_flt J : starts_with_full_line J <-> first_line_terminated J.
Proof.
  unfold first_line_terminated. split.
  - intros [->|Hin]; [exact I|]. destruct (lines_hd_lf J Hin) as (d & rest & -> & Hd). exact Hd.
  - intros H. destruct (lines J) as [|d rest] eqn:El; [left; now apply lines_nil|right].
    rewrite <- (concat_lines J), El. cbn [List.concat]. apply in_or_app. left. now apply has_lf_in.
Qed.

Lemma span_app_all (p : N -> bool) a t : forallb p a = true ->
  span p (a ++ t) = (a ++ fst (span p t), snd (span p t)).
Proof.
  induction a as [|x a IH]; intros H; cbn [app].
  - destruct (span p t); reflexivity.
  - cbn [forallb] in H. apply andb_true_iff in H as [Hx Ha]. cbn [span]. rewrite Hx, (IH Ha). reflexivity.
Qed.

(* indentation does not matter to the header test *)
Lemma header_indent ind t : forallb is_space_tab ind = true ->
  is_goroutine_header (ind ++ t) = is_goroutine_header t.
Proof.
  intros H. unfold is_goroutine_header, match_routine_header.
  rewrite (span_app_all _ _ _ H). destruct (span is_space_tab t) as [i s0]. cbn [fst snd].
  destruct (strip_prefix (s2b "goroutine ") s0) as [s1|]; [|reflexivity].
  destruct (span is_digit s1) as [ds s2].
  destruct (negb (nonempty ds)); [reflexivity|].
  destruct (match_gp s2) as [s3|].
  - destruct (match_bracket s3); [reflexivity|]. destruct (match_bracket s2); reflexivity.
  - destruct (match_bracket s2); reflexivity.
Qed.

(* ------------------------------------------------------------------ *)
(* 2. items and streams                                                 *)
(* ------------------------------------------------------------------ *)

(* what stands between two stretches of text: a goroutine dump (printed with
   its trailing blank line) or a race report *)
Inductive pitem : Type :=
| PDump (v : p_variant) (d : list p_goroutine)
| PRace (r : p_race).

Definition item_text (it : pitem) : bytes :=
  match it with PDump v d => print_dump v d true | PRace r => print_race r end.

Definition item_snapshot (it : pitem) : list Goroutine :=
  match it with PDump _ d => snapshot_of d | PRace r => race_snapshot_of r end.

(* the hypotheses of C01_fidelity / C08_fidelity *)
Definition item_wf (it : pitem) : Prop :=
  match it with
  | PDump v d => wf_dump v d = true
  | PRace r => wf_race r = true
  end.

(* the dump is not indented (race reports never are) *)
Definition item_flat (it : pitem) : Prop :=
  match it with PDump v _ => pv_indent v = [] | PRace _ => True end.
Definition all_flat (segs : list (bytes * pitem)) : Prop := Forall (fun x => item_flat (snd x)) segs.

Definition is_dump (it : pitem) : bool := match it with PDump _ _ => true | PRace _ => false end.

(* J0 ++ I1 ++ J1 ++ ... ++ Ik ++ Jk for segs = [(J0, I1); ...; (J(k-1), Ik)] *)
Fixpoint pstream (segs : list (bytes * pitem)) (Jk : bytes) : bytes :=
  match segs with
  | [] => Jk
  | (J, it) :: t => J ++ item_text it ++ pstream t Jk
  end.

(* every text is plain; all but the last end with LF; a text that follows a
   DUMP is not empty when another item follows it (two adjacent dumps are one
   dump) and, if it is the last one, is empty or begins with a complete line.
   [after_dump]: the text J0 follows a dump *)
Fixpoint pstream_ok (after_dump : bool) (segs : list (bytes * pitem)) (Jk : bytes) : Prop :=
  match segs with
  | [] => plain_text Jk /\ (after_dump = true -> starts_with_full_line Jk)
  | (J, it) :: t =>
      plain_text J /\ ends_with_lf J /\ (after_dump = true -> J <> []) /\ item_wf it /\
      pstream_ok (is_dump it) t Jk
  end.

Lemma pstream_stream_of segs Jk :
  pstream segs Jk = stream_of (map (fun x => (fst x, item_text (snd x))) segs) Jk.
Proof.
  induction segs as [|[J it] t IH]; [reflexivity|]. cbn [pstream map stream_of fst snd]. now rewrite IH.
Qed.

(* the first line of what follows a dump *)
Definition follows_dump_ok (R : bytes) : Prop :=
  match lines R with [] => True | d :: _ => has_lf d = true /\ not_start_line d = true end.

Lemma pstream_ok_follows segs Jk : pstream_ok true segs Jk -> follows_dump_ok (pstream segs Jk).
Proof.
  unfold follows_dump_ok. destruct segs as [|[J it] t]; cbn [pstream_ok pstream].
  - intros (Hp & Hf). specialize (Hf eq_refl). apply starts_with_full_line_flt in Hf.
    apply plain_text_no_start in Hp. unfold first_line_terminated in Hf. unfold no_start in Hp.
    destruct (lines Jk) as [|d rest]; [exact I|]. cbn [forallb] in Hp. apply andb_true_iff in Hp as [Hp _].
    split; assumption.
  - intros (Hp & He & Hne & _). specialize (Hne eq_refl).
    apply plain_text_no_start in Hp. apply ends_with_lf_terminated in He.
    rewrite (lines_app_terminated _ _ He). unfold no_start in Hp.
    destruct (lines J) as [|d rest] eqn:El; [apply lines_nil in El; contradiction|].
    cbn [app]. cbn [forallb] in Hp. apply andb_true_iff in Hp as [Hp _].
    split; [|exact Hp]. apply He. rewrite El. now left.
Qed.

(* ------------------------------------------------------------------ *)
(* 3. the scanner on an item                                            *)
(* ------------------------------------------------------------------ *)

Lemma Steps_accept_all : forall s ls s', Steps s ls s' ->
  accept_all s (map add_lf ls) = Some s' /\ lines (text_of ls) = map add_lf ls.
Proof.
  intros s ls s' H. induction H as [s|s l s1 ls s' Hd Hl Hs H [IH1 IH2]]; [split; reflexivity|].
  split.
  - cbn [map accept_all]. rewrite Hd. unfold add_lf at 1. rewrite Hs. exact IH1.
  - unfold text_of. cbn [map List.concat]. unfold add_lf at 1. rewrite <- app_assoc. cbn [app].
    rewrite (lines_lf l _ (RoundTripRace.no_byte_In _ _ Hl)). f_equal. exact IH2.
Qed.

Lemma all_add_lf ls : Forall (fun d => has_lf d = true) (map add_lf ls).
Proof.
  induction ls as [|l ls IH]; constructor; [|exact IH].
  apply has_lf_in. unfold add_lf. apply in_or_app. right. now left.
Qed.

(* the state after an item *)
Definition item_end (it : pitem) (s : sstate) : Prop :=
  match it with
  | PDump v _ => st s = betweenRoutine /\ sprefix s = pv_indent v /\ forallb is_space_tab (pv_indent v) = true
  | PRace _ => st s = done
  end.

Lemma item_accept it : item_wf it ->
  terminated (item_text it) /\ item_snapshot it <> [] /\
  exists s, accept_all ss0 (lines (item_text it)) = Some s /\ goroutines s = item_snapshot it /\ item_end it s.
Proof.
  destruct it as [v d|r]; cbn [item_wf item_text item_snapshot item_end].
  - intros Hwf.
    pose proof (all_lines_ok v d true Hwf) as Hok. rewrite print_dump_eq, (lines_concat_ok _ Hok).
    destruct (wf_dump_spec v d Hwf) as (Hind & _ & Hne & _).
    split; [|split].
    + intros l Hin. rewrite (lines_concat_ok _ Hok) in Hin.
      exact (line_ok_has_lf _ (proj1 (Forall_forall _ _) Hok l Hin)).
    + destruct d; [congruence|discriminate].
    + destruct (steps_all_trailing v d Hwf) as (sfin & Hsteps & Hgs & Hst & Hp).
      exists sfin. split; [exact (steps_accept_all _ _ _ Hsteps)|]. split; [exact Hgs|].
      split; [exact Hst|]. split; [exact Hp|exact Hind].
  - intros Hwf. pose proof (wf_race_ok r Hwf) as Hok.
    destruct (race_steps r Hok) as (idx & HS).
    destruct (Steps_accept_all _ _ _ HS) as [Ha Hl].
    unfold print_race. rewrite Hl. split; [|split].
    + apply terminated_all_lf. rewrite Hl. apply all_add_lf.
    + destruct Hok as (Hne & _). unfold race_snapshot_of. destruct (pr_ops r); [congruence|discriminate].
    + eexists. split; [exact Ha|]. split; reflexivity.
Qed.

(* does the line (resp. the first line of R) carry the indentation [ind]?
   A blank line does, whatever it contains. *)
Definition line_keeps_indent (ind d : bytes) : bool :=
  match trim_eol d, ind with
  | _ :: _, _ :: _ => match strip_prefix ind (trim_eol d) with Some _ => true | None => false end
  | _, _ => true
  end.
Definition keeps_indent (ind R : bytes) : bool :=
  match lines R with [] => true | d :: _ => line_keeps_indent ind d end.

(* after the blank line that ends a dump, a complete plain line is rejected:
   without error if it carries the dump's indentation, else with the
   indentation error; the goroutines are not touched *)
Lemma reject_after_dump_gen s d J rest :
  st s = betweenRoutine -> forallb is_space_tab (sprefix s) = true -> lines J = d :: rest ->
  has_lf d = true -> not_start_line d = true ->
  exists s', rejects s d s' (if line_keeps_indent (sprefix s) d then None else Some ErrIndent) /\
    goroutines s' = goroutines s.
Proof.
  intros Hst Hp HJ Hlf Hns.
  assert (Hend : exists a, d = a ++ [LF]).
  { pose proof (lines_lf_end J) as HF. rewrite HJ in HF. inversion HF as [|? ? Hd _]; subst. exact (Hd Hlf). }
  destruct Hend as (a & ->).
  assert (Htr : exists t, scan_tr s (a ++ [LF]) = Some t /\ eol_trim (a ++ [LF]) = Some t).
  { unfold scan_tr, eol_trim. destruct (strip_suffix [CR; LF] (a ++ [LF])) as [t|].
    - exists t. split; reflexivity.
    - rewrite strip_suffix_lf. exists a. split; reflexivity. }
  destruct Htr as (t & Htr & Het).
  unfold not_start_line in Hns. rewrite Het in Hns.
  destruct (try_header ss0 t) eqn:Hth; [discriminate|].
  assert (Hhdr : is_goroutine_header t = false) by (rewrite <- (try_header_is_header ss0 t), Hth; reflexivity).
  assert (Hbody : forall t2, is_goroutine_header t2 = false ->
            scan_body s t2 = Ok (with_state s done, false, None)).
  { intros t2 H2. unfold scan_body. rewrite Hst. unfold header_or_end.
    pose proof (try_header_is_header s t2) as E. rewrite H2 in E.
    destruct (try_header s t2); [discriminate E|]. rewrite Hst. reflexivity. }
  unfold line_keeps_indent, trim_eol, rejects. rewrite Het, Hst, scan_unfold, Htr. unfold scan_pre.
  destruct t as [|x t'].
  - exists (with_state s done). rewrite (Hbody [] Hhdr). repeat split.
  - destruct (sprefix s) as [|y p] eqn:Hsp.
    + exists (with_state s done). rewrite (Hbody _ Hhdr). repeat split.
    + destruct (strip_prefix (y :: p) (x :: t')) as [t2|] eqn:Hstrip.
      * exists (with_state s done).
        apply RoundTripLines.strip_prefix_spec in Hstrip. rewrite Hstrip, (header_indent _ _ Hp) in Hhdr.
        rewrite (Hbody _ Hhdr). repeat split.
      * exists (mkSS (goroutines s) done [] (gindex s)). repeat split.
Qed.

(* an unindented item is delimited (in the sense of C02/C07) by whatever
   follows it, a dump provided the first line that follows is complete and
   plain *)
Lemma item_delimits it R : item_wf it -> item_flat it -> (is_dump it = true -> follows_dump_ok R) ->
  delimits_clean (item_text it) (hd_error (lines R)).
Proof.
  intros Hwf Hflat Hfol. destruct (item_accept it Hwf) as (Ht & Hne & s & Ha & Hgs & Hend).
  split; [exact Ht|]. exists s. split; [exact Ha|]. split; [now rewrite Hgs|].
  destruct it as [v d|r]; cbn [item_end is_dump item_flat] in *; [right|now left].
  specialize (Hfol eq_refl). unfold follows_dump_ok in Hfol.
  destruct (lines R) as [|d0 rest] eqn:HR; [exact I|]. cbn [hd_error].
  destruct Hfol as [Hlf Hns]. destruct Hend as (Hst & Hp & _). rewrite Hflat in Hp.
  exists (with_state s done). split; [|reflexivity].
  exact (reject_after_dump s d0 R rest Hst Hp HR Hlf Hns).
Qed.

Lemma pstream_clean : forall segs Jk b,
  pstream_ok b segs Jk -> all_flat segs ->
  clean_delimited (map (fun x => (fst x, item_text (snd x))) segs) Jk.
Proof.
  induction segs as [|[J it] t IH]; intros Jk b H Hfl; cbn [pstream_ok map clean_delimited fst snd] in *.
  - apply plain_text_no_start. exact (proj1 H).
  - destruct H as (Hp & He & _ & Hwf & Ht). inversion Hfl as [|? ? Hf1 Hf2]; subst. cbn [snd] in Hf1.
    split; [now apply plain_text_no_start|]. split; [now apply ends_with_lf_terminated|].
    split; [|exact (IH _ _ Ht Hf2)].
    rewrite <- pstream_stream_of. apply item_delimits; [exact Hwf|exact Hf1|].
    intros Hd. rewrite Hd in Ht. exact (pstream_ok_follows _ _ Ht).
Qed.

(* ------------------------------------------------------------------ *)
(* 4. one call of ScanSnapshot                                          *)
(* ------------------------------------------------------------------ *)

(* the error of the call that meets the item.  A race report ends the scan by
   itself: none.  A dump: the terminal error when it ends the stream; none
   when the first line after it carries the dump's indentation (always, for an
   unindented dump); the indentation error otherwise. *)
Definition call_err (f : io_err) (it : pitem) (R : bytes) : go_err :=
  match it with
  | PRace _ => ENil
  | PDump v _ =>
      match R with
      | [] => EIo f
      | _ => if keeps_indent (pv_indent v) R then ENil else EScan ErrIndent
      end
  end.

Lemma keeps_indent_nil R : keeps_indent [] R = true.
Proof. unfold keeps_indent, line_keeps_indent. destruct (lines R) as [|d rest]; [reflexivity|]. destruct (trim_eol d); reflexivity. Qed.

Lemma call_err_flat f it R : item_flat it ->
  call_err f it R = match it, R with PDump _ _, [] => EIo f | _, _ => ENil end.
Proof.
  destruct it as [v d|r]; cbn [item_flat call_err]; [|reflexivity].
  intros ->. rewrite keeps_indent_nil. destruct R; reflexivity.
Qed.

Definition named (na : bool) (gs : list Goroutine) : list Goroutine :=
  if na then name_arguments gs else gs.

Theorem one_call : forall na J it R sc f res,
  stall_free sc -> plain_text J -> ends_with_lf J -> item_wf it ->
  (is_dump it = true -> follows_dump_ok R) ->
  scan_snapshot na (mkSource (J ++ item_text it ++ R) sc f) = Ok res ->
  fwd res = J /\ suffix res ++ rest (unread res) = R /\
  snap res = Some (named na (item_snapshot it)) /\
  rerr_out res = call_err f it R /\
  (is_eio (rerr_out res) = true -> suffix res = [] /\ rest (unread res) = []).
Proof.
  intros na J it R sc f res Hsf Hp He Hwf Hfol H.
  apply plain_text_no_start in Hp. apply ends_with_lf_terminated in He.
  destruct (item_accept it Hwf) as (HtD & Hne & s & Ha & Hgs & Hend).
  destruct (snapshot_lines_inv _ _ _ _ _ Hsf H) as (lr & Hrun & (A1 & A2 & A3 & A4 & _) & _ & Hio).
  rewrite (lines_app_terminated _ _ He), (lines_app_terminated _ _ HtD) in Hrun.
  apply terminated_all_lf in He. apply terminated_all_lf in HtD.
  rewrite (run_lines_junk f _ _ _ _ He Hp) in Hrun. cbn [app] in Hrun. rewrite concat_lines in Hrun.
  destruct (run_lines_accept f (lines R) _ _ _ J (0 + List.length (lines J)) HtD Inv_ss0 Ha) as [E _].
  rewrite E, run_lines_eq in Hrun. clear E.
  assert (Hsnap : forall s', goroutines s' = goroutines s ->
            snap_of na (goroutines s') = Some (named na (item_snapshot it))).
  { intros s' ->. rewrite Hgs. unfold snap_of, named. destruct (item_snapshot it); [congruence|reflexivity]. }
  rewrite A1, A2, A3, A4 in *.
  destruct it as [v d|r]; cbn [item_end is_dump call_err] in *.
  - destruct Hend as (Hst & Hpre & Hind). rewrite Hst in Hrun. cbn [state_eqb] in Hrun.
    specialize (Hfol eq_refl). unfold follows_dump_ok in Hfol. unfold keeps_indent.
    pose proof (concat_lines R) as HcatR.
    destruct (lines R) as [|d0 rm] eqn:HR.
    + injection Hrun as <-. cbn [lr_ss lr_fwd lr_rem lr_err] in *. cbn [List.concat] in HcatR. subst R.
      split; [reflexivity|]. split; [reflexivity|]. split; [now apply Hsnap|]. split; [reflexivity|].
      intros _. pose proof (Hio eq_refl) as Hr. rewrite Hr, app_nil_r in A3. now split.
    + destruct Hfol as [Hlf Hns]. rewrite <- Hpre in Hind.
      destruct (reject_after_dump_gen s d0 R rm Hst Hind HR Hlf Hns) as (s' & (_ & Hscan & Hlook) & Hgs').
      rewrite Hscan in Hrun. cbv zeta in Hrun. rewrite Hlook in Hrun. cbn [negb] in Hrun.
      injection Hrun as <-. cbn [lr_ss lr_fwd lr_rem lr_err] in *.
      unfold lerr. rewrite Hlf, <- Hpre.
      split; [reflexivity|]. split; [exact HcatR|]. split; [now apply Hsnap|].
      assert (HRne : R <> []) by (intros ->; discriminate HR).
      destruct R as [|r0 R']; [congruence|].
      destruct (line_keeps_indent (sprefix s) d0); cbn [combine_err io_is_nil_or_eof is_eio];
        (split; [reflexivity|discriminate]).
  - rewrite Hend in Hrun. cbn [state_eqb] in Hrun. injection Hrun as <-.
    cbn [lr_ss lr_fwd lr_rem lr_err] in *. rewrite concat_lines.
    split; [reflexivity|]. split; [reflexivity|]. split; [now apply Hsnap|]. split; [reflexivity|]. discriminate.
Qed.

(* ------------------------------------------------------------------ *)
(* 5. the resume protocol                                               *)
(* ------------------------------------------------------------------ *)

(* the results of the successive calls: one per item, with its snapshot, the
   text before it and the error [call_err]; a dump that ends the stream
   carries the terminal error and ends the iteration; otherwise a last call
   forwards the last text and returns the terminal error *)
Fixpoint expected_items (f : io_err) (segs : list (bytes * pitem)) (Jk : bytes) : list seq_item :=
  match segs with
  | [] => [(None, Jk, EIo f)]
  | (J, it) :: t =>
      match call_err f it (pstream t Jk) with
      | EIo x => [(Some (item_snapshot it), J, EIo x)]
      | e => (Some (item_snapshot it), J, e) :: expected_items f t Jk
      end
  end.

Lemma pstream_ok_weaken segs Jk b : pstream_ok b segs Jk -> pstream_ok false segs Jk.
Proof.
  destruct segs as [|[J it] t]; cbn [pstream_ok].
  - intros [H _]. split; [exact H|discriminate].
  - intros (H1 & H2 & _ & H4). split; [exact H1|]. split; [exact H2|]. split; [discriminate|exact H4].
Qed.

Theorem resume_printed : forall segs Jk b f n,
  pstream_ok b segs Jk -> List.length (pstream segs Jk) < n ->
  scan_seq n (pstream segs Jk) f = Ok (expected_items f segs Jk, []).
Proof.
  induction segs as [|[J it] t IH]; intros Jk b f n Hok Hlen; (destruct n as [|n]; [lia|]);
    cbn [pstream pstream_ok expected_items] in *.
  - destruct Hok as [Hp _]. apply plain_text_no_start in Hp.
    destruct (scan_snapshot_total false (mkSource Jk [] f)) as (res & Hres).
    destruct (no_dump_identity false Jk [] f res I Hp Hres) as (N1 & N2 & N3 & _ & N5 & _).
    rewrite scan_seq_S, Hres. cbv zeta. rewrite N5, N1, N2, N3. reflexivity.
  - destruct Hok as (Hp & He & _ & Hwf & Ht).
    set (R := pstream t Jk) in *.
    assert (Hfol : is_dump it = true -> follows_dump_ok R).
    { intros Hd. rewrite Hd in Ht. exact (pstream_ok_follows _ _ Ht). }
    destruct (scan_snapshot_total false (mkSource (J ++ item_text it ++ R) [] f)) as (res & Hres).
    destruct (one_call false J it R [] f res I Hp He Hwf Hfol Hres) as (F1 & F2 & F3 & F4 & F5).
    rewrite scan_seq_S, Hres. cbv zeta. rewrite F1, F3, F4. cbn [named].
    assert (Hcont : is_eio (call_err f it R) = false ->
              scan_seq n (suffix res ++ rest (unread res)) f = Ok (expected_items f t Jk, [])).
    { intros Hne. rewrite <- F4 in Hne.
      pose proof (progress_strong false _ [] f res I Hres (or_intror Hne)) as Hpr.
      rewrite F2 in Hpr |- *. unfold R. apply (IH Jk (is_dump it) f n Ht). fold R. lia. }
    destruct (call_err f it R) as [|x|x] eqn:Hce.
    + rewrite (Hcont eq_refl). reflexivity.
    + rewrite F4 in F5. destruct (F5 eq_refl) as [U1 _]. rewrite U1. reflexivity.
    + rewrite (Hcont eq_refl). reflexivity.
Qed.

Lemma print_dump_ne v d : print_dump v d true <> [].
Proof.
  unfold print_dump. rewrite concat_app. cbn [List.concat]. unfold blank_line, eol.
  intros E. apply app_eq_nil in E as [_ E]. rewrite app_nil_r in E. apply app_eq_nil in E as [_ E].
  destruct (pv_crlf v); discriminate E.
Qed.

Lemma item_text_ne it : item_text it <> [].
Proof. destruct it as [v d|r]; [apply print_dump_ne|discriminate]. Qed.

Lemma call_err_eio f it t Jk x : call_err f it (pstream t Jk) = EIo x -> t = [] /\ Jk = [] /\ x = f.
Proof.
  intros H. destruct it as [v d|r]; cbn [call_err] in H; [|discriminate H].
  destruct (pstream t Jk) eqn:HR; [|destruct (keeps_indent _ _); discriminate H].
  injection H as <-. destruct t as [|[J' it'] t']; cbn [pstream] in HR; [now repeat split|].
  apply app_eq_nil in HR as [_ HR]. apply app_eq_nil in HR as [HR _]. now apply item_text_ne in HR.
Qed.

Lemma call_err_cases f it R :
  call_err f it R = ENil \/ call_err f it R = EScan ErrIndent \/ call_err f it R = EIo f.
Proof. destruct it as [v d|r]; cbn [call_err]; [|auto]. destruct R; [auto|]. destruct (keeps_indent _ _); auto. Qed.

(* what the exact list says: the snapshots, the forwarded text, the errors *)
Lemma expected_summary f : forall segs Jk,
  nonempty_snaps (expected_items f segs Jk) = map (fun x => item_snapshot (snd x)) segs /\
  List.concat (map item_fwd (expected_items f segs Jk)) = List.concat (map fst segs) ++ Jk /\
  exists es, map snd (expected_items f segs Jk) = es ++ [EIo f] /\
    Forall (fun e => e = ENil \/ e = EScan ErrIndent) es /\
    (all_flat segs -> Forall (fun e => e = ENil) es).
Proof.
  induction segs as [|[J it] t IH]; intros Jk; cbn [expected_items].
  - cbn. rewrite app_nil_r. split; [reflexivity|]. split; [reflexivity|]. exists []. repeat split; constructor.
  - destruct (IH Jk) as (I1 & I2 & es & I3 & I4 & I5). cbn [map fst snd List.concat].
    assert (Hcont : forall e, (e = ENil \/ e = EScan ErrIndent) -> call_err f it (pstream t Jk) = e ->
      nonempty_snaps ((Some (item_snapshot it), J, e) :: expected_items f t Jk) =
        item_snapshot it :: map (fun x => item_snapshot (snd x)) t /\
      List.concat (map item_fwd ((Some (item_snapshot it), J, e) :: expected_items f t Jk)) =
        (J ++ List.concat (map fst t)) ++ Jk /\
      exists es0, map snd ((Some (item_snapshot it), J, e) :: expected_items f t Jk) = es0 ++ [EIo f] /\
        Forall (fun e => e = ENil \/ e = EScan ErrIndent) es0 /\
        (all_flat ((J, it) :: t) -> Forall (fun e => e = ENil) es0)).
    { intros e He Hce.
      cbn [nonempty_snaps flat_map fst snd app map List.concat item_fwd]. fold (nonempty_snaps (expected_items f t Jk)).
      fold item_fwd. rewrite I1, I2, I3, <- app_assoc.
      split; [reflexivity|]. split; [reflexivity|]. exists (e :: es). split; [reflexivity|].
      split; [constructor; assumption|]. intros Hfl.
      pose proof (Forall_inv Hfl) as Hf1. pose proof (Forall_inv_tail Hfl) as Hf2. cbn [snd] in Hf1.
      constructor; [|exact (I5 Hf2)].
      rewrite (call_err_flat f it _ Hf1) in Hce. subst e. revert He.
      destruct it; destruct (pstream t Jk); intros [He|He]; try discriminate He; reflexivity. }
    destruct (call_err f it (pstream t Jk)) as [|x|x] eqn:Hce.
    + apply (Hcont ENil); auto.
    + destruct (call_err_eio f it t Jk x Hce) as (-> & -> & ->).
      cbn. rewrite !app_nil_r. split; [reflexivity|]. split; [reflexivity|]. exists []. repeat split; constructor.
    + destruct (call_err_cases f it (pstream t Jk)) as [E|[E|E]]; rewrite Hce in E; try discriminate E.
      injection E as ->. apply (Hcont (EScan ErrIndent)); auto.
Qed.

(* ------------------------------------------------------------------ *)
(* 6. the command                                                       *)
(* ------------------------------------------------------------------ *)

(* what pp writes for an item: the rendering (Model/Process.render_snapshot,
   i.e. processInner) of the named snapshot the item denotes; rendering is
   total (render_total), the Panic branch is dead *)
Definition item_render (o : pp_opts) (it : pitem) : bytes :=
  match render_snapshot o (name_arguments (item_snapshot it)) with Ok r => r | Panic _ => [] end.

Lemma item_render_ok o it : render_snapshot o (name_arguments (item_snapshot it)) = Ok (item_render o it).
Proof.
  unfold item_render. destruct (render_total o (name_arguments (item_snapshot it))) as (r & ->). reflexivity.
Qed.

(* J0 ++ R1 ++ J1 ++ ... ++ Rk ++ Jk *)
Fixpoint rendered_pstream (o : pp_opts) (segs : list (bytes * pitem)) (Jk : bytes) : bytes :=
  match segs with
  | [] => Jk
  | (J, it) :: t => J ++ item_render o it ++ rendered_pstream o t Jk
  end.

Lemma follows_dump_ok_nil : follows_dump_ok [].
Proof. exact I. Qed.

Lemma render_alone_item o it : item_wf it -> render_alone o (item_text it) = item_render o it.
Proof.
  intros Hwf. unfold render_alone, src_of.
  destruct (scan_snapshot_total true (mkSource (item_text it) [] EOF)) as (res & Hres).
  assert (Hres' : scan_snapshot true (mkSource ([] ++ item_text it ++ []) [] EOF) = Ok res).
  { cbn [app]. now rewrite app_nil_r. }
  destruct (one_call true [] it [] [] EOF res I eq_refl (or_introl eq_refl) Hwf (fun _ => follows_dump_ok_nil) Hres')
    as (_ & _ & F3 & _).
  rewrite Hres, F3. cbn [named]. now rewrite item_render_ok.
Qed.

Theorem pp_printed : forall o segs Jk,
  pstream_ok false segs Jk -> all_flat segs ->
  pp_run o (pstream segs Jk) = Ok (rendered_pstream o segs Jk, true).
Proof.
  intros o segs Jk Hok Hfl.
  rewrite pstream_stream_of, (process_well_delimited o _ Jk (pstream_clean _ _ _ Hok Hfl)).
  f_equal. f_equal. unfold rendered_stream.
  assert (Hall : forall b, pstream_ok b segs Jk ->
            stream_of (map (fun x => (fst x, render_alone o (snd x)))
                        (map (fun x => (fst x, item_text (snd x))) segs)) Jk = rendered_pstream o segs Jk).
  { clear Hok Hfl. induction segs as [|[J it] t IH]; intros b Hok; [reflexivity|].
    cbn [pstream_ok] in Hok. destruct Hok as (_ & _ & _ & Hwf & Ht).
    cbn [map stream_of fst snd rendered_pstream]. now rewrite (render_alone_item o it Hwf), (IH _ Ht). }
  exact (Hall _ Hok).
Qed.

(* the rendering of a dump: the buckets of the named snapshot *)
Lemma item_render_dump o v d : exists bs,
  aggregate id_shuffle (o_level o) (name_arguments (snapshot_of d)) = Ok bs /\
  item_render o (PDump v d) =
    flatten (o_pal o) (write_buckets (o_pal o) (o_filter o) (o_match o) (o_pf o)
                         (Nat.eqb (List.length d) 1 && o_banner o) bs).
Proof.
  destruct (partition_ok id_shuffle (o_level o) (name_arguments (snapshot_of d))) as (bs & Hb & _).
  exists bs. split; [exact Hb|].
  assert (Hlen : List.length (name_arguments (snapshot_of d)) = List.length d).
  { unfold name_arguments. rewrite map_length. destruct d; [reflexivity|]. cbn. rewrite map_length. reflexivity. }
  unfold item_render, render_snapshot. cbn [item_snapshot].
  rewrite is_race_snapshot_of, Hb, Hlen. reflexivity.
Qed.

Lemma is_race_name_arguments gs : is_race (name_arguments gs) = is_race gs.
Proof. unfold name_arguments. destruct gs as [|g gs]; [reflexivity|]. destruct g. reflexivity. Qed.

(* the rendering of a race report: goroutine by goroutine when Snapshot.IsRace
   holds, i.e. when the address of the first operation is not 0; otherwise
   the report is aggregated into buckets like a dump *)
Lemma item_render_race o r :
  item_render o (PRace r) =
    if is_race (race_snapshot_of r) then
      flatten (o_pal o) (write_goroutines (o_pal o) (o_filter o) (o_match o) (o_pf o)
                           (Nat.eqb (List.length (pr_ops r)) 1 && o_banner o)
                           (name_arguments (race_snapshot_of r)))
    else
      match aggregate id_shuffle (o_level o) (name_arguments (race_snapshot_of r)) with
      | Ok bs => flatten (o_pal o) (write_buckets (o_pal o) (o_filter o) (o_match o) (o_pf o)
                           (Nat.eqb (List.length (pr_ops r)) 1 && o_banner o) bs)
      | Panic _ => []
      end.
Proof.
  assert (Hlen : List.length (name_arguments (race_snapshot_of r)) = List.length (pr_ops r)).
  { unfold name_arguments. rewrite map_length. apply snapshot_length. }
  unfold item_render, render_snapshot. cbn [item_snapshot].
  rewrite is_race_name_arguments, Hlen.
  destruct (is_race (race_snapshot_of r)); [reflexivity|].
  destruct (aggregate id_shuffle (o_level o) (name_arguments (race_snapshot_of r))); reflexivity.
Qed.

Lemma item_render_race_nz o r op ops : pr_ops r = op :: ops -> ro_addr op <> 0%N ->
  item_render o (PRace r) =
    flatten (o_pal o) (write_goroutines (o_pal o) (o_filter o) (o_match o) (o_pf o)
                         (Nat.eqb (List.length (pr_ops r)) 1 && o_banner o)
                         (name_arguments (race_snapshot_of r))).
Proof.
  intros Hops Hnz. rewrite item_render_race, (snapshot_is_race r op ops Hops).
  apply N.eqb_neq in Hnz. rewrite Hnz. reflexivity.
Qed.

(* ------------------------------------------------------------------ *)
(* 7. a race report followed by ANYTHING                                *)
(* ------------------------------------------------------------------ *)

(* the resume protocol: the first call returns the report's snapshot, the
   following calls are those of the protocol on the rest *)
Theorem race_then_anything_seq : forall r J0 after f n,
  wf_race r = true -> plain_text J0 -> ends_with_lf J0 ->
  scan_seq (S n) (J0 ++ print_race r ++ after) f =
  match scan_seq n after f with
  | Ok (l, rem) => Ok ((Some (race_snapshot_of r), J0, ENil) :: l, rem)
  | Panic m => Panic m
  end.
Proof.
  intros r J0 after f n Hwf Hp He.
  destruct (scan_snapshot_total false (mkSource (J0 ++ print_race r ++ after) [] f)) as (res & Hres).
  destruct (one_call false J0 (PRace r) after [] f res I Hp He Hwf (fun H => False_ind _ (Bool.diff_false_true H)) Hres)
    as (F1 & F2 & F3 & F4 & _).
  rewrite scan_seq_S, Hres. cbv zeta. rewrite F1, F2, F3, F4. reflexivity.
Qed.

(* what was already written is a prefix of the output *)
Lemma process_out0 o : forall fuel c out0,
  process fuel o c out0 =
  match process fuel o c [] with Ok (x, e) => Ok (out0 ++ x, e) | Panic m => Panic m end.
Proof.
  induction fuel as [|fuel IH]; intros c out0; [reflexivity|].
  destruct (call_exists o c) as (pc & Hpc).
  rewrite !(process_step o c pc fuel _ Hpc). cbn [app].
  destruct (rerr_out (pc_res pc)) as [|x|x].
  - rewrite (IH _ (out0 ++ pc_out pc)), (IH _ (pc_out pc)).
    destruct (process fuel o (next_of (pc_res pc)) []) as [[y e]|m]; [|reflexivity]. now rewrite app_assoc.
  - destruct x; now rewrite !app_assoc.
  - now rewrite !app_assoc.
Qed.

(* the command: the text before, the rendering of the report, and then
   exactly what the command does on the rest, exit status included *)
Theorem race_then_anything_pp : forall o r J0 after,
  wf_race r = true -> plain_text J0 -> ends_with_lf J0 ->
  pp_run o (J0 ++ print_race r ++ after) =
  match pp_run o after with
  | Ok (out, ok) => Ok (J0 ++ item_render o (PRace r) ++ out, ok)
  | Panic m => Panic m
  end.
Proof.
  intros o r J0 after Hwf Hp He. unfold pp_run at 1.
  set (c := J0 ++ print_race r ++ after).
  destruct (call_exists o c) as (pc & Hpc). rewrite (process_step o c pc _ [] Hpc).
  pose proof Hpc as (H & Hr & _). unfold src_of in H.
  destruct (one_call true J0 (PRace r) after [] EOF _ I Hp He Hwf (fun H => False_ind _ (Bool.diff_false_true H)) H)
    as (F1 & F2 & F3 & F4 & _).
  rewrite F4. cbn [call_err app]. rewrite F3 in Hr. cbn [named item_snapshot] in Hr.
  assert (Hout : pc_out pc = J0 ++ item_render o (PRace r)).
  { unfold pc_out. rewrite F1. f_equal. pose proof (item_render_ok o (PRace r)) as E.
    cbn [item_snapshot] in E. rewrite E in Hr. now injection Hr. }
  unfold next_of. rewrite F2, Hout, process_out0.
  rewrite (process_fuel_irrelevant o after (S (List.length c))).
  - destruct (pp_run o after) as [[out ok]|m]; [|reflexivity]. now rewrite <- app_assoc.
  - unfold c. rewrite !app_length. lia.
Qed.

(* ------------------------------------------------------------------ *)
(* 8. the statements of Properties/C00_resume.v, spelled out            *)
(* ------------------------------------------------------------------ *)

(* one_call with the condition on what follows a dump stated with plain_line *)
Theorem one_call_plain : forall na J it R sc f res,
  stall_free sc -> plain_text J -> ends_with_lf J -> item_wf it ->
  (is_dump it = true ->
     match lines R with [] => True | d :: _ => has_lf d = true /\ plain_line d = true end) ->
  scan_snapshot na (mkSource (J ++ item_text it ++ R) sc f) = Ok res ->
  fwd res = J /\ suffix res ++ rest (unread res) = R /\
  snap res = Some (if na then name_arguments (item_snapshot it) else item_snapshot it) /\
  rerr_out res = call_err f it R /\
  (is_eio (rerr_out res) = true -> suffix res = [] /\ rest (unread res) = []).
Proof.
  intros na J it R sc f res Hsf Hp He Hwf Hfol H.
  apply (one_call na J it R sc f res Hsf Hp He Hwf); [|exact H].
  intros Hd. specialize (Hfol Hd). unfold follows_dump_ok.
  destruct (lines R) as [|d rest]; [exact I|]. now rewrite <- plain_line_not_start.
Qed.

Theorem resume_summary : forall segs Jk f n,
  pstream_ok false segs Jk -> List.length (pstream segs Jk) < n ->
  exists items es,
    scan_seq n (pstream segs Jk) f = Ok (items, []) /\
    nonempty_snaps items = map (fun x => item_snapshot (snd x)) segs /\
    List.concat (map item_fwd items) = List.concat (map fst segs) ++ Jk /\
    map snd items = es ++ [EIo f] /\
    Forall (fun e => e = ENil \/ e = EScan ErrIndent) es /\
    (all_flat segs -> Forall (fun e => e = ENil) es).
Proof.
  intros segs Jk f n Hok Hlen.
  destruct (expected_summary f segs Jk) as (E1 & E2 & es & E3 & E4 & E5).
  exists (expected_items f segs Jk), es.
  split; [exact (resume_printed segs Jk false f n Hok Hlen)|]. tauto.
Qed.

Ltac stream_ok_tac :=
  cbn [pstream_ok item_wf is_dump]; repeat split; try assumption; try discriminate; intros _; assumption.

Theorem resume_two_dumps : forall v1 d1 v2 d2 J0 J1 J2 f n,
  wf_dump v1 d1 = true -> pv_indent v1 = [] -> wf_dump v2 d2 = true -> pv_indent v2 = [] ->
  plain_text J0 -> ends_with_lf J0 ->
  plain_text J1 -> ends_with_lf J1 -> J1 <> [] ->
  plain_text J2 -> starts_with_full_line J2 -> J2 <> [] ->
  List.length (J0 ++ print_dump v1 d1 true ++ J1 ++ print_dump v2 d2 true ++ J2) < n ->
  scan_seq n (J0 ++ print_dump v1 d1 true ++ J1 ++ print_dump v2 d2 true ++ J2) f =
  Ok ([(Some (snapshot_of d1), J0, ENil); (Some (snapshot_of d2), J1, ENil); (None, J2, EIo f)], []).
Proof.
  intros v1 d1 v2 d2 J0 J1 J2 f n W1 I1 W2 I2 P0 E0 P1 E1 N1 P2 S2 N2 Hlen.
  pose proof (resume_printed [(J0, PDump v1 d1); (J1, PDump v2 d2)] J2 false f n) as H.
  cbn [pstream item_text expected_items item_snapshot] in H.
  rewrite !call_err_flat in H by assumption.
  assert (HJ1 : J1 ++ print_dump v2 d2 true ++ J2 <> []).
  { intros E. apply app_eq_nil in E as [E _]. contradiction. }
  destruct (J1 ++ print_dump v2 d2 true ++ J2) eqn:EJ1; [contradiction|]. rewrite <- EJ1 in *.
  destruct J2 as [|b J2']; [contradiction|].
  apply H; [|exact Hlen]. stream_ok_tac.
Qed.

Theorem pp_two_dumps : forall o v1 d1 v2 d2 J0 J1 J2,
  wf_dump v1 d1 = true -> pv_indent v1 = [] -> wf_dump v2 d2 = true -> pv_indent v2 = [] ->
  plain_text J0 -> ends_with_lf J0 ->
  plain_text J1 -> ends_with_lf J1 -> J1 <> [] ->
  plain_text J2 -> starts_with_full_line J2 ->
  exists bs1 bs2,
    aggregate id_shuffle (o_level o) (name_arguments (snapshot_of d1)) = Ok bs1 /\
    aggregate id_shuffle (o_level o) (name_arguments (snapshot_of d2)) = Ok bs2 /\
    pp_run o (J0 ++ print_dump v1 d1 true ++ J1 ++ print_dump v2 d2 true ++ J2) =
    Ok (J0 ++ flatten (o_pal o) (write_buckets (o_pal o) (o_filter o) (o_match o) (o_pf o)
                                   (Nat.eqb (List.length d1) 1 && o_banner o) bs1) ++
        J1 ++ flatten (o_pal o) (write_buckets (o_pal o) (o_filter o) (o_match o) (o_pf o)
                                   (Nat.eqb (List.length d2) 1 && o_banner o) bs2) ++ J2, true).
Proof.
  intros o v1 d1 v2 d2 J0 J1 J2 W1 I1 W2 I2 P0 E0 P1 E1 N1 P2 S2.
  destruct (item_render_dump o v1 d1) as (bs1 & A1 & R1).
  destruct (item_render_dump o v2 d2) as (bs2 & A2 & R2).
  exists bs1, bs2. split; [exact A1|]. split; [exact A2|].
  pose proof (pp_printed o [(J0, PDump v1 d1); (J1, PDump v2 d2)] J2) as H.
  cbn [pstream item_text rendered_pstream] in H. rewrite R1, R2 in H. apply H.
  - stream_ok_tac.
  - repeat constructor; assumption.
Qed.

Theorem race_end_to_end : forall o r op ops J0 J1,
  wf_race r = true -> pr_ops r = op :: ops -> ro_addr op <> 0%N ->
  plain_text J0 -> ends_with_lf J0 -> plain_text J1 ->
  pp_run o (J0 ++ print_race r ++ J1) =
  Ok (J0 ++ flatten (o_pal o) (write_goroutines (o_pal o) (o_filter o) (o_match o) (o_pf o)
                                 (Nat.eqb (List.length (pr_ops r)) 1 && o_banner o)
                                 (name_arguments (race_snapshot_of r))) ++ J1, true).
Proof.
  intros o r op ops J0 J1 Hwf Hops Hnz P0 E0 P1.
  rewrite <- (item_render_race_nz o r op ops Hops Hnz).
  apply (pp_printed o [(J0, PRace r)] J1).
  - cbn [pstream_ok item_wf is_dump]. repeat split; try assumption; discriminate.
  - repeat constructor.
Qed.

Theorem race_then_dump : forall r v d J0 J1 J2 f n,
  wf_race r = true -> wf_dump v d = true -> pv_indent v = [] ->
  plain_text J0 -> ends_with_lf J0 -> plain_text J1 -> ends_with_lf J1 ->
  plain_text J2 -> starts_with_full_line J2 -> J2 <> [] ->
  List.length (J0 ++ print_race r ++ J1 ++ print_dump v d true ++ J2) < n ->
  scan_seq n (J0 ++ print_race r ++ J1 ++ print_dump v d true ++ J2) f =
  Ok ([(Some (race_snapshot_of r), J0, ENil); (Some (snapshot_of d), J1, ENil); (None, J2, EIo f)], []).
Proof.
  intros r v d J0 J1 J2 f n Wr Wd Iv P0 E0 P1 E1 P2 S2 N2 Hlen.
  pose proof (resume_printed [(J0, PRace r); (J1, PDump v d)] J2 false f n) as H.
  cbn [pstream item_text expected_items item_snapshot] in H.
  rewrite (call_err_flat f (PDump v d) J2 Iv) in H. cbn [call_err] in H.
  destruct J2 as [|b J2']; [contradiction|].
  apply H; [|exact Hlen]. stream_ok_tac.
Qed.

Theorem race_then_dump_pp : forall o r op ops v d J0 J1 J2,
  wf_race r = true -> pr_ops r = op :: ops -> ro_addr op <> 0%N ->
  wf_dump v d = true -> pv_indent v = [] ->
  plain_text J0 -> ends_with_lf J0 -> plain_text J1 -> ends_with_lf J1 ->
  plain_text J2 -> starts_with_full_line J2 ->
  exists bs,
    aggregate id_shuffle (o_level o) (name_arguments (snapshot_of d)) = Ok bs /\
    pp_run o (J0 ++ print_race r ++ J1 ++ print_dump v d true ++ J2) =
    Ok (J0 ++ flatten (o_pal o) (write_goroutines (o_pal o) (o_filter o) (o_match o) (o_pf o)
                                   (Nat.eqb (List.length (pr_ops r)) 1 && o_banner o)
                                   (name_arguments (race_snapshot_of r))) ++
        J1 ++ flatten (o_pal o) (write_buckets (o_pal o) (o_filter o) (o_match o) (o_pf o)
                                   (Nat.eqb (List.length d) 1 && o_banner o) bs) ++ J2, true).
Proof.
  intros o r op ops v d J0 J1 J2 Wr Hops Hnz Wd Iv P0 E0 P1 E1 P2 S2.
  destruct (item_render_dump o v d) as (bs & A & R).
  exists bs. split; [exact A|].
  rewrite <- (item_render_race_nz o r op ops Hops Hnz), <- R.
  apply (pp_printed o [(J0, PRace r); (J1, PDump v d)] J2).
  - stream_ok_tac.
  - repeat constructor. exact Iv.
Qed.
