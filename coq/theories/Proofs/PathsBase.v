(* Proofs/PathsBase.v — generic lemmas for the path-guessing model
   (Model/Paths.v): literal prefixes, LastIndexByte, path_join / split_path,
   the ordering used by sortedRoots, association-list updates. *)
From PP Require Import Base.Bytes Base.BytesX Base.GoResult Model.Types Model.Stack Model.Bucket Model.Paths.
From PP Require Import Proofs.Order.
From Coq Require Import Permutation Sorted.

(* ====================================================================== *)
(* 1. literal prefixes                                                     *)
(* ====================================================================== *)

Lemma strip_prefix_app p r : strip_prefix p (p ++ r) = Some r.
Proof. induction p as [|x p IH]; simpl; [reflexivity|]. rewrite N.eqb_refl. exact IH. Qed.

Lemma strip_prefix_some p : forall s r, strip_prefix p s = Some r -> s = p ++ r.
Proof.
  induction p as [|y p IH]; intros s r H; simpl in *.
  - injection H as H. exact H.
  - destruct s as [|x s]; [discriminate H|].
    destruct (N.eqb x y) eqn:E; [|discriminate H].
    apply N.eqb_eq in E. subst y. f_equal. apply IH. exact H.
Qed.

Lemma strip_prefix_iff p s r : strip_prefix p s = Some r <-> s = p ++ r.
Proof. split; [apply strip_prefix_some|]. intros ->. apply strip_prefix_app. Qed.

Lemma strip_prefix_none p s : strip_prefix p s = None <-> (forall r, s <> p ++ r).
Proof.
  split.
  - intros H r E. subst s. rewrite strip_prefix_app in H. discriminate H.
  - intros H. destruct (strip_prefix p s) as [r|] eqn:E; [|reflexivity].
    apply strip_prefix_some in E. exfalso. apply (H r E).
Qed.

Lemma has_prefix_nil s : has_prefix s [] = true.
Proof. destruct s; reflexivity. Qed.

Lemma has_prefix_app p r : has_prefix (p ++ r) p = true.
Proof. induction p as [|x p IH]; simpl; [apply has_prefix_nil|]. rewrite N.eqb_refl. exact IH. Qed.

Lemma has_prefix_iff p : forall s, has_prefix s p = true <-> exists r, s = p ++ r.
Proof.
  induction p as [|y p IH]; intros s; simpl.
  - rewrite has_prefix_nil. split; [intros _; exists s; reflexivity|reflexivity].
  - destruct s as [|x s]; simpl.
    + split; [discriminate|intros [r H]; discriminate H].
    + rewrite andb_true_iff, N.eqb_eq, IH. split.
      * intros [-> [r ->]]. exists r. reflexivity.
      * intros [r H]. injection H as -> ->. split; [reflexivity|exists r; reflexivity].
Qed.

Lemma has_prefix_strip p s : has_prefix s p = true <-> exists r, strip_prefix p s = Some r.
Proof.
  rewrite has_prefix_iff. split; intros [r H]; exists r; apply strip_prefix_iff; exact H.
Qed.

(* ====================================================================== *)
(* 2. bcmp                                                                  *)
(* ====================================================================== *)

Lemma bcmp_eq a : forall b, bcmp a b = Eq -> a = b.
Proof.
  induction a as [|x a IH]; intros [|y b]; simpl; intros H; try discriminate H; [reflexivity|].
  destruct (N.compare x y) eqn:E; try discriminate H.
  apply N.compare_eq in E. subst y. f_equal. apply IH. exact H.
Qed.

Lemma bcmp_refl a : bcmp a a = Eq.
Proof. apply (cmp_refl bcmp_ok). Qed.

(* ====================================================================== *)
(* 3. LastIndexByte                                                         *)
(* ====================================================================== *)

Lemma last_index_none s c : last_index_byte s c = None <-> ~ In c s.
Proof.
  induction s as [|x s IH]; simpl.
  - split; [intros _ H; exact H|reflexivity].
  - destruct (last_index_byte s c) as [i|] eqn:E.
    + split; [discriminate|]. intros H. exfalso.
      assert (Hn : ~ In c s) by (intros Hc; apply H; right; exact Hc).
      apply IH in Hn. discriminate Hn.
    + destruct (N.eqb x c) eqn:Ex.
      * apply N.eqb_eq in Ex. split; [discriminate|]. intros H. exfalso. apply H. left. exact Ex.
      * apply N.eqb_neq in Ex. split; [|reflexivity]. intros _ [H|H]; [contradiction|].
        assert (Hn : ~ In c s) by (apply IH; reflexivity). contradiction.
Qed.

Lemma last_index_some s c : forall i, last_index_byte s c = Some i ->
  s = firstn i s ++ c :: skipn (S i) s /\ ~ In c (skipn (S i) s).
Proof.
  induction s as [|x s IH]; simpl; intros i H; [discriminate H|].
  destruct (last_index_byte s c) as [j|] eqn:E.
  - injection H as <-. destruct (IH j eq_refl) as [H1 H2]. simpl. split; [|exact H2].
    f_equal. exact H1.
  - destruct (N.eqb x c) eqn:Ex; [|discriminate H]. injection H as <-.
    apply N.eqb_eq in Ex. subst x. simpl. split; [reflexivity|].
    apply last_index_none. exact E.
Qed.

(* rel = dir ++ "/" ++ base with no '/' in base *)
Lemma last_index_split s c i : last_index_byte s c = Some i ->
  exists base, s = firstn i s ++ c :: base /\ ~ In c base.
Proof. intros H. apply last_index_some in H as [H1 H2]. exists (skipn (S i) s). split; assumption. Qed.

Lemma last_index_app_no c base : ~ In c base -> forall d, last_index_byte (d ++ c :: base) c = Some (List.length d).
Proof.
  intros Hb. induction d as [|x d IH]; simpl.
  - apply last_index_none in Hb. rewrite Hb, N.eqb_refl. reflexivity.
  - rewrite IH. reflexivity.
Qed.

(* ====================================================================== *)
(* 4. path_join                                                             *)
(* ====================================================================== *)

Lemma path_join2 a b : path_join [a; b] = a ++ [b_slash] ++ b.
Proof. reflexivity. Qed.

Lemma path_join3 a b c : path_join [a; b; c] = a ++ [b_slash] ++ b ++ [b_slash] ++ c.
Proof. reflexivity. Qed.

Lemma path_join_cons x l : l <> [] -> path_join (x :: l) = x ++ [b_slash] ++ path_join l.
Proof. destruct l as [|y l]; [intros H; contradiction|reflexivity]. Qed.

Lemma path_join_app l1 l2 : l1 <> [] -> l2 <> [] ->
  path_join (l1 ++ l2) = path_join l1 ++ [b_slash] ++ path_join l2.
Proof.
  intros H1 H2. induction l1 as [|x l1 IH]; [contradiction|].
  destruct l1 as [|y l1].
  - simpl app at 1. rewrite path_join_cons by exact H2. reflexivity.
  - change ((x :: y :: l1) ++ l2) with (x :: ((y :: l1) ++ l2)).
    rewrite path_join_cons by discriminate. rewrite IH by discriminate.
    rewrite (path_join_cons x (y :: l1)) by discriminate. rewrite <- !app_assoc. reflexivity.
Qed.

Lemma path_join_snoc out s : path_join (out ++ [s]) =
  match out with [] => s | _ => path_join out ++ [b_slash] ++ s end.
Proof.
  destruct out as [|x out]; [reflexivity|]. apply path_join_app; discriminate.
Qed.

(* ====================================================================== *)
(* 5. split_path and path_join                                              *)
(* ====================================================================== *)

(* [clean_tail after_slash p]: no empty component in p, i.e. no "//" and no
   trailing '/'; when [after_slash] the first component must be non-empty too *)
Fixpoint clean_tail (after_slash : bool) (p : bytes) : bool :=
  match p with
  | [] => negb after_slash
  | c :: p' => if N.eqb c b_slash then negb after_slash && clean_tail true p' else clean_tail false p'
  end.

(* no two consecutive '/', does not end with '/' (a single leading '/' is fine) *)
Definition clean_path (f : bytes) : bool := clean_tail false f.

Definition isnil (s : bytes) : bool := match s with [] => true | _ => false end.

Definition normal_mode (out : list bytes) (s : bytes) : Prop :=
  match out with [] => forallb (N.eqb b_slash) s = false | _ => True end.

Lemma forallb_snoc {A} (f : A -> bool) l x : forallb f (l ++ [x]) = forallb f l && f x.
Proof. induction l as [|y l IH]; simpl; [rewrite andb_true_r; reflexivity|]. rewrite IH, andb_assoc. reflexivity. Qed.

Lemma isnil_snoc s c : isnil (s ++ [c]) = false.
Proof. destruct s; reflexivity. Qed.

Lemma split_path_normal p : forall out s,
  normal_mode out s -> clean_tail (isnil s) p = true ->
  path_join (split_path_go p out s) =
  (match out with [] => s | _ => path_join out ++ [b_slash] ++ s end) ++ p.
Proof.
  induction p as [|c p IH]; intros out s Hn Hc; simpl in Hc |- *.
  - destruct s as [|x s]; [discriminate Hc|]. rewrite app_nil_r. apply path_join_snoc.
  - assert (Hm : (match out with [] => forallb (N.eqb b_slash) s | _ => false end) = false).
    { destruct out; [exact Hn|reflexivity]. }
    rewrite Hm, orb_false_r.
    destruct (N.eqb c b_slash) eqn:Ec; simpl.
    + apply N.eqb_eq in Ec. subst c. apply andb_true_iff in Hc as [Hs Hc].
      destruct s as [|x s]; [discriminate Hs|].
      rewrite IH; [|destruct out; exact I|exact Hc].
      assert (Hm2 : forall (X Y : bytes), match out ++ [x :: s] with [] => X | _ :: _ => Y end = Y)
        by (intros X Y; destruct out; reflexivity).
      rewrite Hm2, path_join_snoc.
      destruct out as [|o out]; rewrite <- !app_assoc; reflexivity.
    + rewrite IH; [| |rewrite isnil_snoc; exact Hc].
      * destruct out; rewrite <- !app_assoc; reflexivity.
      * destruct out; [|exact I]. simpl. rewrite forallb_snoc.
        rewrite (N.eqb_sym b_slash c), Ec. apply andb_false_r.
Qed.

Lemma split_path_initial p : forall s,
  forallb (N.eqb b_slash) s = true -> clean_tail (negb (isnil s)) p = true ->
  path_join (split_path_go p [] s) = s ++ p.
Proof.
  induction p as [|c p IH]; intros s Hs Hc; simpl in Hc |- *.
  - destruct s as [|x s]; [reflexivity|discriminate Hc].
  - rewrite Hs, orb_true_r.
    destruct (N.eqb c b_slash) eqn:Ec.
    + apply N.eqb_eq in Ec. subst c. apply andb_true_iff in Hc as [Hs' Hc].
      destruct s as [|x s]; [|discriminate Hs'].
      rewrite IH; [reflexivity|reflexivity|exact Hc].
    + rewrite (split_path_normal p [] (s ++ [c])).
      * rewrite <- app_assoc. reflexivity.
      * simpl. rewrite forallb_snoc, (N.eqb_sym b_slash c), Ec. apply andb_false_r.
      * rewrite isnil_snoc. exact Hc.
Qed.

Lemma split_path_join f : clean_path f = true -> path_join (split_path f) = f.
Proof. intros H. apply (split_path_initial f []); [reflexivity|exact H]. Qed.

(* characterisation of clean_path *)
Lemma clean_tail_true_false p : clean_tail true p = true -> clean_tail false p = true.
Proof.
  destruct p as [|c p]; simpl; [discriminate|].
  destruct (N.eqb c b_slash); [discriminate|]. intros H; exact H.
Qed.

Lemma clean_tail_no_double p : forall b a r, clean_tail b p = true -> p <> a ++ b_slash :: b_slash :: r.
Proof.
  induction p as [|c p IH]; intros b a r H E.
  - destruct a; discriminate E.
  - simpl in H. destruct a as [|x a]; simpl in E.
    + injection E as -> E. simpl in H. apply andb_true_iff in H as [_ H]. subst p. simpl in H. discriminate H.
    + injection E as -> E. destruct (N.eqb x b_slash).
      * apply andb_true_iff in H as [_ H]. apply (IH true a r H E).
      * apply (IH false a r H E).
Qed.

Lemma clean_tail_no_trailing p : forall b a, clean_tail b p = true -> p <> a ++ [b_slash].
Proof.
  induction p as [|c p IH]; intros b a H E.
  - destruct a; discriminate E.
  - simpl in H. destruct a as [|x a]; simpl in E.
    + injection E as -> E. subst p. simpl in H. apply andb_true_iff in H as [_ H]. discriminate H.
    + injection E as -> E. destruct (N.eqb x b_slash).
      * apply andb_true_iff in H as [_ H]. apply (IH true a H E).
      * apply (IH false a H E).
Qed.

Lemma clean_path_spec f : clean_path f = true ->
  (forall a r, f <> a ++ s2b "//" ++ r) /\ (forall a, f <> a ++ s2b "/").
Proof.
  intros H. split.
  - intros a r. apply (clean_tail_no_double f false a r H).
  - intros a. apply (clean_tail_no_trailing f false a H).
Qed.

(* ====================================================================== *)
(* 6. the disk oracle and association lists                                 *)
(* ====================================================================== *)

Lemma is_file_lookup fs p : is_file fs p = true <-> exists c, fs_lookup fs p = Some c.
Proof.
  unfold is_file. destruct (fs_lookup fs p) as [c|].
  - split; [intros _; exists c; reflexivity|reflexivity].
  - split; [discriminate|intros [c H]; discriminate H].
Qed.

Lemma fs_lookup_in fs p c : fs_lookup fs p = Some c -> In (p, c) fs.
Proof.
  induction fs as [|[q d] fs IH]; simpl; [discriminate|].
  destruct (beq p q) eqn:E.
  - apply beq_eq in E. subst q. intros H. injection H as ->. left. reflexivity.
  - intros H. right. apply IH. exact H.
Qed.

Lemma map_set_in m k v : forall k' v', In (k', v') (map_set m k v) -> (k' = k /\ v' = v) \/ In (k', v') m.
Proof.
  induction m as [|[k0 v0] m IH]; simpl; intros k' v' H.
  - destruct H as [H|[]]. injection H as <- <-. left. split; reflexivity.
  - destruct (beq k k0) eqn:E.
    + destruct H as [H|H].
      * injection H as <- <-. left. split; reflexivity.
      * right. right. exact H.
    + destruct H as [H|H].
      * right. left. exact H.
      * destruct (IH k' v' H) as [H'|H']; [left; exact H'|right; right; exact H'].
Qed.

Lemma existsb_beq_in x l : existsb (beq x) l = true <-> In x l.
Proof.
  rewrite existsb_exists. split.
  - intros (y & Hy & E). apply beq_eq in E. subst y. exact Hy.
  - intros H. exists x. split; [exact H|apply beq_refl].
Qed.

(* ====================================================================== *)
(* 7. sortedRoots: the comparator is a strict weak order                    *)
(* ====================================================================== *)

Definition root_cmp : bytes * bytes -> bytes * bytes -> comparison :=
  lexf (keyc (fun a : bytes * bytes => List.length (@fst bytes bytes a)) (flipc Nat.compare)) (keyc (@fst bytes bytes) bcmp).

Lemma root_cmp_ok : cmp_ok root_cmp.
Proof.
  apply cmp_ok_lexf; apply cmp_ok_keyc; [apply cmp_ok_flipc, nat_cmp_ok|apply bcmp_ok].
Qed.

Lemma root_before_cmp a b : root_before a b = ltb_of root_cmp a b.
Proof.
  unfold root_before, ltb_of, root_cmp, lexf, keyc, flipc, bltb. cbv beta.
  match goal with |- context [Nat.compare ?x ?y] => destruct (Nat.compare x y) eqn:E end; simpl.
  - apply Nat.compare_eq in E.
    match goal with |- context [Nat.eqb ?x ?y] =>
      replace (Nat.eqb x y) with true by (symmetry; apply Nat.eqb_eq; lia) end.
    destruct (bcmp (fst a) (fst b)); reflexivity.
  - apply Nat.compare_lt_iff in E.
    match goal with |- context [Nat.eqb ?x ?y] =>
      replace (Nat.eqb x y) with false by (symmetry; apply Nat.eqb_neq; lia) end.
    apply Nat.ltb_lt. exact E.
  - apply Nat.compare_gt_iff in E.
    match goal with |- context [Nat.eqb ?x ?y] =>
      replace (Nat.eqb x y) with false by (symmetry; apply Nat.eqb_neq; lia) end.
    apply Nat.ltb_ge. lia.
Qed.

Lemma all_pairs_all {B} (S : B -> B -> Prop) l : (forall x y, S x y) -> all_pairs S l.
Proof. intros H. induction l as [|x l IH]; simpl; [exact I|]. split; [intros y _; split; apply H|exact IH]. Qed.

Definition root_no_inv (a b : bytes * bytes) : Prop := root_before b a = false.

Lemma sorted_roots_sorted m : StronglySorted root_no_inv (sorted_roots m).
Proof.
  unfold sorted_roots. apply (stable_sorted_no_inv root_before m).
  apply (sort_is_stable_sorted root_before root_cmp m root_cmp_ok).
  apply all_pairs_all. apply root_before_cmp.
Qed.

Lemma sorted_roots_perm m : Permutation (sorted_roots m) m.
Proof. apply sort_perm. Qed.

Lemma sorted_roots_in m x : In x (sorted_roots m) <-> In x m.
Proof.
  split; intros H.
  - apply (Permutation_in x (sorted_roots_perm m) H).
  - apply (Permutation_in x (Permutation_sym (sorted_roots_perm m)) H).
Qed.

Lemma root_no_inv_length a b : root_no_inv a b -> List.length (fst b) <= List.length (fst a).
Proof.
  unfold root_no_inv, root_before. intros H.
  destruct (Nat.eqb (List.length (fst b)) (List.length (fst a))) eqn:E.
  - apply Nat.eqb_eq in E. lia.
  - apply Nat.ltb_ge in H. exact H.
Qed.

Lemma root_incomparable_key a b : root_before a b = false -> root_before b a = false -> fst a = fst b.
Proof.
  rewrite !root_before_cmp. intros H1 H2.
  pose proof (ltb_incomparable root_cmp_ok a b H1 H2) as E.
  unfold root_cmp, lexf in E. apply lexc_eq in E as [_ E]. unfold keyc in E.
  apply bcmp_eq. exact E.
Qed.

Lemma nodup_keys_inj (m : list (bytes * bytes)) a b :
  NoDup (map fst m) -> In a m -> In b m -> fst a = fst b -> a = b.
Proof.
  induction m as [|x m IH]; simpl; intros Hn Ha Hb E; [contradiction|].
  apply NoDup_cons_iff in Hn as [Hx Hn].
  destruct Ha as [<-|Ha]; destruct Hb as [<-|Hb].
  - reflexivity.
  - exfalso. apply Hx. rewrite E. apply in_map. exact Hb.
  - exfalso. apply Hx. rewrite <- E. apply in_map. exact Ha.
  - apply IH; assumption.
Qed.

(* the sorted table is canonical: it only depends on the set of entries *)
Lemma sorted_roots_canonical m1 m2 :
  NoDup (map fst m1) -> Permutation m1 m2 -> sorted_roots m1 = sorted_roots m2.
Proof.
  intros Hn HP.
  set (R := fun a b : bytes * bytes => In a m1 /\ In b m1 /\ a <> b /\ root_no_inv a b).
  assert (HS : forall m, Permutation m m1 -> NoDup m -> StronglySorted root_no_inv m -> StronglySorted R m).
  { induction m as [|x m IH]; intros HPm Hd Hs; [apply SSorted_nil|].
    apply StronglySorted_inv in Hs as [Hs Hf]. apply NoDup_cons_iff in Hd as [Hx Hd].
    apply SSorted_cons.
    - assert (G : forall m', (forall z, In z m' -> In z m1) -> NoDup m' -> StronglySorted root_no_inv m' -> StronglySorted R m').
      { clear. intros m'. induction m' as [|x m' IH]; intros Hin Hd Hs; [apply SSorted_nil|].
        apply StronglySorted_inv in Hs as [Hs Hf]. apply NoDup_cons_iff in Hd as [Hx Hd].
        apply SSorted_cons.
        - apply IH; [intros z Hz; apply Hin; right; exact Hz|exact Hd|exact Hs].
        - rewrite Forall_forall in Hf |- *. intros y Hy. unfold R. split; [apply Hin; left; reflexivity|].
          split; [apply Hin; right; exact Hy|]. split; [intros ->; contradiction|apply Hf, Hy]. }
      apply G; [|exact Hd|exact Hs].
      intros z Hz. apply (Permutation_in z HPm). right. exact Hz.
    - rewrite Forall_forall in Hf |- *. intros y Hy. unfold R.
      split; [apply (Permutation_in x HPm); left; reflexivity|].
      split; [apply (Permutation_in y HPm); right; exact Hy|].
      split; [intros ->; contradiction|apply Hf, Hy]. }
  assert (Hd1 : NoDup m1) by (apply (NoDup_map_inv fst), Hn).
  apply (ssorted_perm_unique R).
  - intros x y (Hx & Hy & Hne & H1) (_ & _ & _ & H2). apply Hne.
    apply (nodup_keys_inj m1 x y Hn Hx Hy). apply root_incomparable_key; assumption.
  - apply (Permutation_trans (sorted_roots_perm m1)).
    apply (Permutation_trans HP). apply Permutation_sym, sorted_roots_perm.
  - apply HS; [apply sorted_roots_perm| |apply sorted_roots_sorted].
    apply (Permutation_NoDup (Permutation_sym (sorted_roots_perm m1)) Hd1).
  - apply HS; [| |apply sorted_roots_sorted].
    + apply (Permutation_trans (sorted_roots_perm m2)). apply Permutation_sym, HP.
    + apply (Permutation_NoDup (Permutation_sym (sorted_roots_perm m2))).
      apply (Permutation_NoDup HP Hd1).
Qed.
