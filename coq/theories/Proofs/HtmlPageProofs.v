(* Proofs/HtmlPageProofs.v — theorems about the whole-document model
   Model/HtmlPage.v (property C17c).  Stdlib only, no axioms; everything Qed.
     1. holes are escaped: every delimiter byte (<, >, double quote, single quote) of the page
        lies inside a literal of the template or inside the trusted footer; every '&' produced by
        a hole starts one of the six entities of the escaper;
     2. the literals: every Lit piece of a page belongs to a fixed finite list, and every member
        of that list is a substring of the template text (stack/data.go: indexHTML);
     3. completeness: <h1>, <tr>, <li>, doctype and content div counted in the literals;
     4. the skeleton depends only on the SHAPE of the input;
     5. determinism: the page does not depend on the order of the association lists that model
        the maps (and not at all on RemoteGOPATHs);
     6. links: the Href holes of the page are the favicon and the links of the content region. *)
From PP Require Import Base.Bytes Base.BytesX Base.Num Base.GoResult Model.Types Model.Bucket Model.Html Model.UI
  Model.Stack Model.HtmlDoc Model.HtmlTpl Model.HtmlPage.
From PP Require Import Proofs.HtmlBase Proofs.HtmlProofs Proofs.HtmlDocProofs Proofs.Order.
From Coq Require Import Permutation Sorted.

(* ------------------------------------------------------------------ *)
(* vocabulary                                                          *)
(* ------------------------------------------------------------------ *)
(* a hole of the template: Text, Href, Class or Num *)
Definition is_phole (pp : ppiece) : bool :=
  match pp with
  | Tpl p => negb (is_lit p)
  | Raw _ => false
  end.

(* the piece that contains byte offset [i] of the flattened page, and the offset inside it *)
Fixpoint ppiece_at (ps : list ppiece) (i : nat) : option (ppiece * nat) :=
  match ps with
  | [] => None
  | p :: r =>
      let n := List.length (flatten_ppiece p) in
      if Nat.ltb i n then Some (p, i) else ppiece_at r (i - n)
  end.

(* the template pieces of a page (the raw footer dropped) *)
Definition tpl_of (ps : list ppiece) : list piece :=
  flat_map (fun pp => match pp with Tpl p => [p] | Raw _ => [] end) ps.

(* erase the payload of the holes; the trusted footer is kept *)
Definition shape_ppiece (pp : ppiece) : ppiece :=
  match pp with
  | Tpl p => Tpl (shape_piece p)
  | Raw h => Raw h
  end.

(* the link targets, in document order *)
Definition hrefs_of (ps : list piece) : list bytes :=
  flat_map (fun p => match p with Href u => [u] | _ => [] end) ps.

(* the literals, in document order *)
Definition lits_of (ps : list piece) : list bytes :=
  flat_map (fun p => match p with Lit s => [s] | _ => [] end) ps.

Definition tag_li : bytes := s2b "<li>".
Definition tag_doctype : bytes := s2b "<!DOCTYPE".

(* ------------------------------------------------------------------ *)
(* 1. holes are escaped                                                *)
(* ------------------------------------------------------------------ *)
Lemma phole_no_delim pp c : is_phole pp = true -> In c (flatten_ppiece pp) -> delim c = false.
Proof.
  destruct pp as [p|h]; cbn [is_phole flatten_ppiece]; intros Hp H; [|discriminate].
  apply (hole_no_delim p c); [|exact H]. destruct (is_lit p); [discriminate|reflexivity].
Qed.

Lemma flatten_ppieces_cons p r : flatten_ppieces (p :: r) = flatten_ppiece p ++ flatten_ppieces r.
Proof. reflexivity. Qed.

Lemma flatten_ppieces_app a b : flatten_ppieces (a ++ b) = flatten_ppieces a ++ flatten_ppieces b.
Proof. unfold flatten_ppieces. apply flat_map_app. Qed.

Lemma flatten_ppieces_tpl ps : flatten_ppieces (map Tpl ps) = flatten_pieces ps.
Proof. induction ps as [|p r IH]; [reflexivity|]. cbn [map]. rewrite flatten_ppieces_cons, IH. reflexivity. Qed.

Theorem ppiece_at_spec : forall ps i c, nth_error (flatten_ppieces ps) i = Some c ->
  exists p k, ppiece_at ps i = Some (p, k) /\ nth_error (flatten_ppiece p) k = Some c.
Proof.
  induction ps as [|p r IH]; intros i c H.
  - destruct i; discriminate.
  - rewrite flatten_ppieces_cons in H. cbn [ppiece_at].
    destruct (Nat.ltb_spec i (List.length (flatten_ppiece p))) as [L|L].
    + rewrite nth_error_app1 in H by assumption. eauto.
    + rewrite nth_error_app2 in H by assumption. apply IH in H. exact H.
Qed.

Theorem ppiece_at_split : forall ps i p k, ppiece_at ps i = Some (p, k) ->
  exists pre post, ps = pre ++ p :: post /\ i = (List.length (flatten_ppieces pre) + k)%nat /\
                   (k < List.length (flatten_ppiece p))%nat.
Proof.
  induction ps as [|q r IH]; intros i p k H; cbn [ppiece_at] in H; [discriminate|].
  destruct (Nat.ltb_spec i (List.length (flatten_ppiece q))) as [L|L].
  - injection H as <- <-. exists [], r. repeat split; auto.
  - apply IH in H. destruct H as (pre & post & -> & E & K).
    exists (q :: pre), post. repeat split; auto.
    rewrite flatten_ppieces_cons, app_length. lia.
Qed.

Lemma ppiece_at_in ps i p k : ppiece_at ps i = Some (p, k) -> In p ps.
Proof. intros H. apply ppiece_at_split in H. destruct H as (pre & post & -> & _). apply in_or_app. right. left. reflexivity. Qed.

(* a delimiter byte of a flattened list of pieces lies in a literal or in a raw piece *)
Theorem pdelim_origin : forall ps i c, nth_error (flatten_ppieces ps) i = Some c -> delim c = true ->
  (exists s k, ppiece_at ps i = Some (Tpl (Lit s), k) /\ nth_error s k = Some c) \/
  (exists h k, ppiece_at ps i = Some (Raw h, k) /\ nth_error h k = Some c).
Proof.
  intros ps i c H D. apply ppiece_at_spec in H. destruct H as (pp & k & P & N).
  destruct (is_phole pp) eqn:Hh.
  - apply nth_error_In in N. rewrite (phole_no_delim pp c Hh N) in D. discriminate.
  - destruct pp as [p|h].
    + destruct p; try discriminate Hh. left. eauto.
    + right. eauto.
Qed.

(* the only raw piece of a page is the footer *)
Lemma raw_of_page env m content h : In (Raw h) (page_of env m content) -> h = pe_footer env.
Proof.
  unfold page_of. intros H. apply in_app_or in H. destruct H as [H|H].
  - apply in_map_iff in H. destruct H as (p & E & _). discriminate.
  - destruct H as [H|[H|[]]]; [injection H as <-; reflexivity|discriminate].
Qed.

Theorem page_holes_escaped : forall env m content i c,
  nth_error (flatten_ppieces (page_of env m content)) i = Some c -> delim c = true ->
  (exists s k, ppiece_at (page_of env m content) i = Some (Tpl (Lit s), k) /\ nth_error s k = Some c) \/
  (exists k, ppiece_at (page_of env m content) i = Some (Raw (pe_footer env), k) /\ nth_error (pe_footer env) k = Some c).
Proof.
  intros env m content i c H D. destruct (pdelim_origin _ _ _ H D) as [L|(h & k & P & N)]; [left; exact L|right].
  pose proof (raw_of_page env m content h (ppiece_at_in _ _ _ _ P)) as E. subst h. eauto.
Qed.

(* counting formulation *)
Definition plit_bytes (ps : list ppiece) : bytes :=
  flat_map (fun pp => match pp with Tpl (Lit s) => s | Raw h => h | _ => [] end) ps.

Theorem pdelim_count : forall ps c, delim c = true ->
  count_byte (flatten_ppieces ps) c = count_byte (plit_bytes ps) c.
Proof.
  intros ps c D. induction ps as [|pp r IH]; [reflexivity|].
  rewrite flatten_ppieces_cons. unfold plit_bytes in *. cbn [flat_map]. rewrite !count_byte_app, IH. f_equal.
  destruct (is_phole pp) eqn:Hh.
  - rewrite count_byte_notin.
    + destruct pp as [p|h]; [|discriminate]. destruct p; try discriminate; reflexivity.
    + intros I. rewrite (phole_no_delim pp c Hh I) in D. discriminate.
  - destruct pp as [p|h]; [|reflexivity]. destruct p; try discriminate. reflexivity.
Qed.

(* --- the ampersands of a hole --- *)
Lemma hole_amp p pre post : is_lit p = false -> flatten_piece p = pre ++ 38%N :: post ->
  exists e, In e entities6 /\ has_prefix (38%N :: post) e = true.
Proof.
  intros Hp E. destruct p as [s|d|u|k|z]; cbn [flatten_piece] in E.
  - discriminate.
  - exact (text_amp d pre post E).
  - exact (text_amp (url_normalize u) pre post E).
  - exact (text_amp k pre post E).
  - exfalso. assert (I : In 38%N (Z_to_dec z)) by (rewrite E; apply in_or_app; right; left; reflexivity).
    apply Z_to_dec_digits in I. lia.
Qed.

Lemma has_prefix_app_l : forall (e x y : bytes), has_prefix x e = true -> has_prefix (x ++ y) e = true.
Proof.
  induction e as [|a e IH]; intros x y H; [destruct (x ++ y); reflexivity|].
  destruct x as [|b x]; [discriminate|]. cbn [has_prefix app] in *.
  apply andb_true_iff in H as [H1 H2]. rewrite H1. cbn. apply IH. exact H2.
Qed.

Lemma skipn_length_app {A} (x y : list A) : skipn (List.length x) (x ++ y) = y.
Proof. induction x as [|a x IH]; [reflexivity|]. exact IH. Qed.

(* an ampersand of the page lies in a literal, in the footer, or starts an entity *)
Theorem pamp_origin : forall ps i, nth_error (flatten_ppieces ps) i = Some 38%N ->
  (exists s k, ppiece_at ps i = Some (Tpl (Lit s), k)) \/
  (exists h k, ppiece_at ps i = Some (Raw h, k)) \/
  (exists e, In e entities6 /\ has_prefix (skipn i (flatten_ppieces ps)) e = true).
Proof.
  intros ps i H. apply ppiece_at_spec in H. destruct H as (pp & k & P & N).
  destruct pp as [p|h]; [|right; left; eauto].
  destruct (is_lit p) eqn:L; [destruct p; try discriminate; left; eauto|].
  right. right.
  apply ppiece_at_split in P. destruct P as (pre & post & -> & -> & _).
  apply nth_error_split in N. destruct N as (a & b & E & <-).
  cbn [flatten_ppiece] in E.
  destruct (hole_amp p a b L E) as (e & He & Hp). exists e. split; [exact He|].
  rewrite flatten_ppieces_app, flatten_ppieces_cons. cbn [flatten_ppiece]. rewrite E.
  rewrite <- app_length, <- !app_assoc.
  replace ((flatten_ppieces pre ++ a) ++ (38%N :: b) ++ flatten_ppieces post)
    with ((flatten_ppieces pre ++ a) ++ ((38%N :: b) ++ flatten_ppieces post)) by reflexivity.
  rewrite app_assoc, skipn_length_app.
  apply has_prefix_app_l. exact Hp.
Qed.

(* ------------------------------------------------------------------ *)
(* 2. the literals of a page                                           *)
(* ------------------------------------------------------------------ *)
Definition in_list (L : list bytes) (s : bytes) : bool := existsb (beq s) L.

(* every Lit piece satisfies P *)
Definition all_lits (P : bytes -> bool) (ps : list piece) : bool :=
  forallb (fun p => match p with Lit s => P s | _ => true end) ps.

Lemma all_lits_app P a b : all_lits P (a ++ b) = all_lits P a && all_lits P b.
Proof. unfold all_lits. apply forallb_app. Qed.

Lemma all_lits_spec P ps : all_lits P ps = true -> forall s, In (Lit s) ps -> P s = true.
Proof. unfold all_lits. rewrite forallb_forall. intros H s I. exact (H (Lit s) I). Qed.

Lemma in_list_spec L s : in_list L s = true <-> In s L.
Proof.
  unfold in_list. rewrite existsb_exists. split.
  - intros (x & I & E). apply beq_eq in E. subst x. exact I.
  - intros I. exists s. split; [exact I|apply beq_refl].
Qed.

Lemma all_lits_weaken (P Q : bytes -> bool) ps : (forall s, P s = true -> Q s = true) -> all_lits P ps = true -> all_lits Q ps = true.
Proof.
  intros W. unfold all_lits. rewrite !forallb_forall. intros H p I. specialize (H p I). destruct p; auto.
Qed.

Fixpoint dedup (l : list bytes) : list bytes :=
  match l with
  | [] => []
  | x :: r => if in_list r x then dedup r else x :: dedup r
  end.

(* Inputs that exercise every branch of the content region.  The literals they produce are ALL the
   literals the region can contain: that is what the lemmas al_* below check, branch by branch. *)
Definition rep_call_a : Call :=
  mkCall emptyFunc (mkArgs [] [[]; []] true) (s2b "a") 1 [] [] (s2b "b") [] [] LocationUnknown.
Definition rep_call_b : Call := mkCall emptyFunc (mkArgs [] [[]; []] false) [] 1 [] [] [] [] [] LocationUnknown.
Definition rep_sig_a : Signature :=
  mkSig [] (mkStack [rep_call_a] false) 1 2 (mkStack [rep_call_a; rep_call_b] true) true.
Definition rep_sig_b : Signature := mkSig [] emptyStack 3 3 (mkStack [] false) false.
Definition rep_pieces : list piece :=
  buckets_pieces [] 0 [mkBucket rep_sig_a [1%Z] true; mkBucket rep_sig_b [1%Z; 2%Z] false] ++
  flat_map (goroutine_pieces []) [mkGoroutine rep_sig_a 1 true true 1; mkGoroutine rep_sig_b 2 false false 1].

(* the literals of the inside of the content region *)
Definition inner_lits : list bytes := Eval vm_compute in dedup (lits_of rep_pieces).

(* the literals outside the content region *)
Definition meta_lits : list bytes :=
  [tpl_meta_open; tpl_li_next; tpl_li_end_version; tpl_goroot_remote; tpl_goroot_local; tpl_li_end_goroot2;
   tpl_goroot; tpl_li_end_goroot1; tpl_gopath; tpl_join_sep; tpl_li_end_gopath; tpl_gomods_open; tpl_gomod_li;
   tpl_gomod_sep; tpl_gomod_end; tpl_gomods_close; tpl_maxprocs; tpl_legend].

(* every literal a page can contain *)
Definition page_lits : list bytes :=
  [tpl_doctype; tpl_head_a; tpl_head_b; tpl_style_a; tpl_style_b; div_open] ++ inner_lits ++ [div_close] ++ meta_lits ++ [tpl_tail].

Notation innerP := (in_list inner_lits).

Ltac al_leaf := vm_compute; reflexivity.

Lemma al_args_items e l : all_lits innerP (args_item_pieces e l) = true.
Proof.
  induction l as [|x r IH]; [reflexivity|].
  cbn [args_item_pieces]. change (Text x :: ?t) with ([Text x] ++ t). rewrite !all_lits_app, IH.
  destruct (e || nonempty r); al_leaf.
Qed.

Lemma al_args a : all_lits innerP (args_pieces a) = true.
Proof. unfold args_pieces. rewrite !all_lits_app, al_args_items. destruct (Elided a); al_leaf. Qed.

Lemma al_tooltip c : all_lits innerP (tooltip_pieces c) = true.
Proof. unfold tooltip_pieces. rewrite all_lits_app. destruct (two_paths c); al_leaf. Qed.

Lemma al_created_by ver c : all_lits innerP (created_by_pieces ver c) = true.
Proof. unfold created_by_pieces. rewrite !all_lits_app, al_tooltip. al_leaf. Qed.

Lemma al_call ver i c : all_lits innerP (call_pieces ver i c) = true.
Proof. unfold call_pieces. rewrite !all_lits_app, al_tooltip, al_args. al_leaf. Qed.

Lemma al_calls ver l : forall i, all_lits innerP (calls_pieces ver i l) = true.
Proof.
  induction l as [|c r IH]; intros i; [reflexivity|].
  cbn [calls_pieces]. rewrite all_lits_app, al_call, IH. reflexivity.
Qed.

Lemma al_stack ver st : all_lits innerP (stack_pieces ver st) = true.
Proof. unfold stack_pieces. rewrite !all_lits_app, al_calls. destruct (SElided st); al_leaf. Qed.

Lemma al_sleep s : all_lits innerP (sleep_pieces s) = true.
Proof.
  unfold sleep_pieces. destruct (Z.eqb (SleepMax s) 0); [reflexivity|].
  destruct (negb (Z.eqb (SleepMin s) (SleepMax s))); al_leaf.
Qed.

Lemma al_locked s : all_lits innerP (locked_pieces s) = true.
Proof. unfold locked_pieces. destruct (Locked s); al_leaf. Qed.

Lemma al_created ver s : all_lits innerP (created_pieces ver s) = true.
Proof.
  unfold created_pieces. destruct (Calls (CreatedBy s)) as [|c r]; [reflexivity|].
  rewrite !all_lits_app, al_created_by. al_leaf.
Qed.

Lemma al_race g : all_lits innerP (race_pieces g) = true.
Proof. unfold race_pieces. destruct (N.eqb (RaceAddr g) 0); [reflexivity|]. destruct (RaceWrite g); al_leaf. Qed.

Lemma al_bucket ver i b : all_lits innerP (bucket_pieces ver i b) = true.
Proof.
  unfold bucket_pieces. rewrite !all_lits_app, al_sleep, al_locked, al_created, al_stack.
  destruct (Nat.eqb (List.length (IDs b)) 1); al_leaf.
Qed.

Lemma al_goroutine ver g : all_lits innerP (goroutine_pieces ver g) = true.
Proof. unfold goroutine_pieces. rewrite !all_lits_app, al_sleep, al_locked, al_race, al_created, al_stack. al_leaf. Qed.

Lemma al_buckets ver bs : forall i, all_lits innerP (buckets_pieces ver i bs) = true.
Proof.
  induction bs as [|b r IH]; intros i; [reflexivity|].
  cbn [buckets_pieces]. rewrite all_lits_app, al_bucket, IH. reflexivity.
Qed.

Lemma al_goroutines ver gs : all_lits innerP (flat_map (goroutine_pieces ver) gs) = true.
Proof.
  induction gs as [|g r IH]; [reflexivity|].
  cbn [flat_map]. rewrite all_lits_app, al_goroutine, IH. reflexivity.
Qed.

(* --- outside the content region --- *)
Notation metaP := (in_list meta_lits).

Lemma al_join l : all_lits metaP (join_pieces l) = true.
Proof.
  induction l as [|x r IH]; [reflexivity|].
  cbn [join_pieces]. change (Text x :: ?t) with ([Text x] ++ t). rewrite !all_lits_app, IH.
  destruct (nonempty r); al_leaf.
Qed.

Lemma al_goroot m : all_lits metaP (goroot_pieces m) = true.
Proof. unfold goroot_pieces. destruct (two_goroots m); al_leaf. Qed.

Lemma al_gomod_list l : all_lits metaP (flat_map gomod_pieces l) = true.
Proof.
  induction l as [|kv r IH]; [reflexivity|].
  cbn [flat_map]. rewrite all_lits_app, IH. al_leaf.
Qed.

Lemma al_gomods m : all_lits metaP (gomods_pieces m) = true.
Proof.
  unfold gomods_pieces. destruct (kv_sort (LocalGomods m)) as [|kv r]; [reflexivity|].
  rewrite !all_lits_app, al_gomod_list. al_leaf.
Qed.

Lemma al_meta env m : all_lits metaP (meta_pieces env m) = true.
Proof.
  unfold meta_pieces, gopath_pieces. rewrite !all_lits_app, al_goroot, al_join, al_gomods. al_leaf.
Qed.

(* --- the page --- *)
Lemma tpl_of_app a b : tpl_of (a ++ b) = tpl_of a ++ tpl_of b.
Proof. unfold tpl_of. apply flat_map_app. Qed.

Lemma tpl_of_map l : tpl_of (map Tpl l) = l.
Proof. induction l as [|p r IH]; [reflexivity|]. cbn. f_equal. exact IH. Qed.

Lemma tpl_of_page env m content :
  tpl_of (page_of env m content) = head_pieces ++ content ++ meta_pieces env m ++ [Lit tpl_tail].
Proof.
  unfold page_of. rewrite tpl_of_app, tpl_of_map. cbn [tpl_of flat_map app]. rewrite <- !app_assoc. reflexivity.
Qed.

Lemma in_list_app_l L1 L2 s : in_list L1 s = true -> in_list (L1 ++ L2) s = true.
Proof. unfold in_list. rewrite existsb_app. intros ->. reflexivity. Qed.

Lemma in_list_app_r L1 L2 s : in_list L2 s = true -> in_list (L1 ++ L2) s = true.
Proof. unfold in_list. rewrite existsb_app. intros ->. apply orb_true_r. Qed.

Notation pageP := (in_list page_lits).

Lemma inner_in_page s : innerP s = true -> pageP s = true.
Proof. intros H. unfold page_lits. apply in_list_app_r, in_list_app_l. exact H. Qed.

Lemma meta_in_page s : metaP s = true -> pageP s = true.
Proof. intros H. unfold page_lits. apply in_list_app_r, in_list_app_r, in_list_app_r, in_list_app_l. exact H. Qed.

Lemma al_page env m content : all_lits pageP content = true ->
  all_lits pageP (tpl_of (page_of env m content)) = true.
Proof.
  intros H. rewrite tpl_of_page, !all_lits_app, H.
  rewrite (all_lits_weaken _ _ _ meta_in_page (al_meta env m)). al_leaf.
Qed.

Lemma al_content_buckets ver bs : all_lits pageP (content_pieces_buckets ver bs) = true.
Proof.
  unfold content_pieces_buckets. rewrite !all_lits_app.
  rewrite (all_lits_weaken _ _ _ inner_in_page (al_buckets ver bs 0)). al_leaf.
Qed.

Lemma al_content_goroutines ver gs : all_lits pageP (content_pieces_goroutines ver gs) = true.
Proof.
  unfold content_pieces_goroutines. rewrite !all_lits_app.
  rewrite (all_lits_weaken _ _ _ inner_in_page (al_goroutines ver gs)). al_leaf.
Qed.

(* every literal of a page is one of the finitely many page_lits ... *)
Theorem page_lits_buckets : forall env m bs s,
  In (Tpl (Lit s)) (page_pieces_buckets env m bs) -> In s page_lits.
Proof.
  intros env m bs s H. apply in_list_spec.
  apply (all_lits_spec _ _ (al_page env m _ (al_content_buckets (pe_ver env) bs))).
  unfold tpl_of. apply in_flat_map. exists (Tpl (Lit s)). split; [exact H|left; reflexivity].
Qed.

Theorem page_lits_goroutines : forall env m gs s,
  In (Tpl (Lit s)) (page_pieces_goroutines env m gs) -> In s page_lits.
Proof.
  intros env m gs s H. apply in_list_spec.
  apply (all_lits_spec _ _ (al_page env m _ (al_content_goroutines (pe_ver env) gs))).
  unfold tpl_of. apply in_flat_map. exists (Tpl (Lit s)). split; [exact H|left; reflexivity].
Qed.

(* ... and each of them is a piece of the template text of stack/data.go *)
Theorem page_lits_in_template : forallb (fun s => contains tpl_index_html s) page_lits = true.
Proof. vm_compute. reflexivity. Qed.

Theorem page_lit_from_template : forall s, In s page_lits -> contains tpl_index_html s = true.
Proof. intros s H. exact (proj1 (forallb_forall _ _) page_lits_in_template s H). Qed.

(* ------------------------------------------------------------------ *)
(* 3. completeness                                                     *)
(* ------------------------------------------------------------------ *)
(* a pattern that occurs in none of the literals of L occurs in no list of pieces built from L *)
Lemma lit_count_zero pat L ps :
  forallb (fun s => Nat.eqb (count_sub pat s) 0) L = true -> all_lits (in_list L) ps = true -> lit_count pat ps = 0%nat.
Proof.
  intros HL. rewrite forallb_forall in HL. induction ps as [|p r IH]; intros H; [reflexivity|].
  change (p :: r) with ([p] ++ r) in H. rewrite all_lits_app in H. apply andb_true_iff in H as [Hp Hr].
  destruct p as [s|d|u|k|z]; cbn [lit_count]; try (apply IH; exact Hr).
  rewrite (IH Hr). cbn in Hp. rewrite andb_true_r in Hp. apply in_list_spec in Hp.
  specialize (HL s Hp). apply Nat.eqb_eq in HL. rewrite HL. reflexivity.
Qed.

Ltac lc_const := vm_compute; reflexivity.

(* the patterns other than <li> do not occur in the metadata list, the legend and the tail *)
Lemma lc_meta_zero pat env m :
  forallb (fun s => Nat.eqb (count_sub pat s) 0) meta_lits = true -> lit_count pat (meta_pieces env m) = 0%nat.
Proof. intros H. exact (lit_count_zero pat meta_lits _ H (al_meta env m)). Qed.

(* patterns that do not occur inside the content region *)
Lemma lc_buckets_zero pat ver bs i :
  forallb (fun s => Nat.eqb (count_sub pat s) 0) inner_lits = true -> lit_count pat (buckets_pieces ver i bs) = 0%nat.
Proof. intros H. exact (lit_count_zero pat inner_lits _ H (al_buckets ver bs i)). Qed.

Lemma lc_goroutines_zero pat ver gs :
  forallb (fun s => Nat.eqb (count_sub pat s) 0) inner_lits = true -> lit_count pat (flat_map (goroutine_pieces ver) gs) = 0%nat.
Proof. intros H. exact (lit_count_zero pat inner_lits _ H (al_goroutines ver gs)). Qed.

(* --- <li> in the metadata list --- *)
Lemma kv_insert_length x l : List.length (kv_insert x l) = S (List.length l).
Proof.
  induction l as [|y r IH]; [reflexivity|].
  cbn [kv_insert]. destruct (kv_le x y); cbn [List.length]; [reflexivity|]. rewrite IH. reflexivity.
Qed.

Lemma kv_sort_length l : List.length (kv_sort l) = List.length l.
Proof. induction l as [|x r IH]; [reflexivity|]. cbn [kv_sort]. rewrite kv_insert_length, IH. reflexivity. Qed.

Lemma lc_li_join l : lit_count tag_li (join_pieces l) = 0%nat.
Proof.
  induction l as [|x r IH]; [reflexivity|].
  cbn [join_pieces lit_count]. rewrite lit_count_app, IH. destruct (nonempty r); lc_const.
Qed.

Lemma lc_li_gomod_list l : lit_count tag_li (flat_map gomod_pieces l) = List.length l.
Proof.
  induction l as [|kv r IH]; [reflexivity|].
  cbn [flat_map]. rewrite lit_count_app, IH.
  change (lit_count tag_li (gomod_pieces kv)) with (count_sub tag_li tpl_gomod_li + (count_sub tag_li tpl_gomod_sep + (count_sub tag_li tpl_gomod_end + 0)))%nat.
  change (count_sub tag_li tpl_gomod_li) with 1%nat. change (count_sub tag_li tpl_gomod_sep) with 0%nat.
  change (count_sub tag_li tpl_gomod_end) with 0%nat. reflexivity.
Qed.

(* the items of the metadata list: creation time, version, GOROOT (one or two), GOPATH (ONE item for all
   the paths), the module list (one item for the list plus one per module), GOMAXPROCS *)
Definition gomods_items (m : snap_meta) : nat :=
  match LocalGomods m with [] => 0 | _ :: _ => S (List.length (LocalGomods m)) end.
Definition meta_items (m : snap_meta) : nat :=
  (5 + (if two_goroots m then 1 else 0) + gomods_items m)%nat.

Lemma lc_li_gomods m : lit_count tag_li (gomods_pieces m) = gomods_items m.
Proof.
  unfold gomods_pieces, gomods_items. pose proof (kv_sort_length (LocalGomods m)) as L.
  destruct (kv_sort (LocalGomods m)) as [|kv r] eqn:E.
  - destruct (LocalGomods m); [reflexivity|discriminate L].
  - rewrite !lit_count_app, lc_li_gomod_list, L.
    change (lit_count tag_li [Lit tpl_gomods_open]) with 1%nat. change (lit_count tag_li [Lit tpl_gomods_close]) with 0%nat.
    destruct (LocalGomods m); [discriminate L|]. lia.
Qed.

Lemma lc_li_goroot m : lit_count tag_li (goroot_pieces m) = if two_goroots m then 2%nat else 1%nat.
Proof. unfold goroot_pieces. destruct (two_goroots m); lc_const. Qed.

Lemma lc_li_meta env m : lit_count tag_li (meta_pieces env m) = meta_items m.
Proof.
  unfold meta_pieces, gopath_pieces, meta_items. rewrite !lit_count_app, lc_li_goroot, lc_li_join, lc_li_gomods.
  change (lit_count tag_li [Lit tpl_meta_open; Text (pe_now env); Lit tpl_li_next; Text (pe_ver env); Lit tpl_li_end_version]) with 2%nat.
  change (lit_count tag_li [Lit tpl_gopath]) with 1%nat. change (lit_count tag_li [Lit tpl_li_end_gopath]) with 0%nat.
  change (lit_count tag_li [Lit tpl_maxprocs; Num (pe_maxprocs env); Lit tpl_legend]) with 1%nat.
  destruct (two_goroots m); lia.
Qed.

(* --- the page --- *)
Lemma lc_page pat env m content :
  lit_count pat (tpl_of (page_of env m content)) =
  (lit_count pat head_pieces + lit_count pat content + lit_count pat (meta_pieces env m) + count_sub pat tpl_tail)%nat.
Proof. rewrite tpl_of_page, !lit_count_app. cbn [lit_count]. lia. Qed.

Record page_counts (ps : list ppiece) (h1 tr li : nat) : Prop := mkPageCounts {
  pc_h1 : lit_count tag_h1 (tpl_of ps) = h1;
  pc_tr : lit_count tag_tr (tpl_of ps) = tr;
  pc_li : lit_count tag_li (tpl_of ps) = li;
  pc_doctype : lit_count tag_doctype (tpl_of ps) = 1%nat;
  pc_div : lit_count div_open (tpl_of ps) = 1%nat }.

Lemma page_counts_of env m content h1 tr :
  lit_count tag_h1 content = h1 -> lit_count tag_tr content = tr -> lit_count tag_li content = 0%nat ->
  lit_count tag_doctype content = 0%nat -> lit_count div_open content = 1%nat ->
  page_counts (page_of env m content) h1 tr (meta_items m).
Proof.
  intros H1 H2 H3 H4 H5. split; rewrite lc_page.
  - rewrite H1, (lc_meta_zero tag_h1) by lc_const.
    change (lit_count tag_h1 head_pieces) with 0%nat. change (count_sub tag_h1 tpl_tail) with 0%nat. lia.
  - rewrite H2, (lc_meta_zero tag_tr) by lc_const.
    change (lit_count tag_tr head_pieces) with 0%nat. change (count_sub tag_tr tpl_tail) with 0%nat. lia.
  - rewrite H3, lc_li_meta.
    change (lit_count tag_li head_pieces) with 0%nat. change (count_sub tag_li tpl_tail) with 0%nat. lia.
  - rewrite H4, (lc_meta_zero tag_doctype) by lc_const.
    change (lit_count tag_doctype head_pieces) with 1%nat. change (count_sub tag_doctype tpl_tail) with 0%nat. lia.
  - rewrite H5, (lc_meta_zero div_open) by lc_const.
    change (lit_count div_open head_pieces) with 0%nat. change (count_sub div_open tpl_tail) with 0%nat. lia.
Qed.

Lemma lc_content_buckets_zero pat ver bs :
  forallb (fun s => Nat.eqb (count_sub pat s) 0) inner_lits = true ->
  lit_count pat (content_pieces_buckets ver bs) = (count_sub pat div_open + count_sub pat div_close)%nat.
Proof.
  intros H. unfold content_pieces_buckets. rewrite !lit_count_app, (lc_buckets_zero pat ver bs 0 H). cbn [lit_count]. lia.
Qed.

Lemma lc_content_goroutines_zero pat ver gs :
  forallb (fun s => Nat.eqb (count_sub pat s) 0) inner_lits = true ->
  lit_count pat (content_pieces_goroutines ver gs) = (count_sub pat div_open + count_sub pat div_close)%nat.
Proof.
  intros H. unfold content_pieces_goroutines. rewrite !lit_count_app, (lc_goroutines_zero pat ver gs H). cbn [lit_count]. lia.
Qed.

Theorem page_complete_buckets : forall env m bs,
  page_counts (page_pieces_buckets env m bs) (List.length bs)
              (total_calls (map BSig bs) + 2 * elided_stacks (map BSig bs)) (meta_items m).
Proof.
  intros env m bs. unfold page_pieces_buckets.
  destruct (complete_doc_buckets (pe_ver env) bs) as [H1 H2].
  apply page_counts_of; [exact H1|exact H2| | |]; rewrite lc_content_buckets_zero by lc_const; lc_const.
Qed.

Theorem page_complete_goroutines : forall env m gs,
  page_counts (page_pieces_goroutines env m gs) (List.length gs)
              (total_calls (map GSig gs) + 2 * elided_stacks (map GSig gs)) (meta_items m).
Proof.
  intros env m gs. unfold page_pieces_goroutines.
  destruct (complete_doc_goroutines (pe_ver env) gs) as [H1 H2].
  apply page_counts_of; [exact H1|exact H2| | |]; rewrite lc_content_goroutines_zero by lc_const; lc_const.
Qed.

(* --- what the holes of the metadata list contain, in order --- *)
Definition texts_of (ps : list piece) : list bytes :=
  flat_map (fun p => match p with Text d => [d] | _ => [] end) ps.

Lemma texts_of_app a b : texts_of (a ++ b) = texts_of a ++ texts_of b.
Proof. unfold texts_of. apply flat_map_app. Qed.

(* the GOPATH item shows every path, once, in slice order *)
Theorem gopath_texts : forall m, texts_of (gopath_pieces m) = LocalGOPATHs m.
Proof.
  intros m. unfold gopath_pieces. rewrite !texts_of_app. cbn [texts_of flat_map app]. rewrite app_nil_r.
  induction (LocalGOPATHs m) as [|x r IH]; [reflexivity|].
  cbn [join_pieces]. change (Text x :: ?t) with ([Text x] ++ t). rewrite !texts_of_app, IH.
  destruct (nonempty r); reflexivity.
Qed.

(* ... with len - 1 separators *)
Theorem gopath_separators : forall m,
  lit_count tpl_join_sep (gopath_pieces m) = Nat.pred (List.length (LocalGOPATHs m)).
Proof.
  intros m. unfold gopath_pieces. rewrite !lit_count_app.
  change (lit_count tpl_join_sep [Lit tpl_gopath]) with 0%nat. change (lit_count tpl_join_sep [Lit tpl_li_end_gopath]) with 0%nat.
  rewrite Nat.add_0_r. cbn [Nat.add].
  induction (LocalGOPATHs m) as [|x r IH]; [reflexivity|].
  cbn [join_pieces lit_count]. rewrite lit_count_app, IH.
  destruct r as [|y r]; [reflexivity|]. cbn [nonempty List.length Nat.pred].
  change (lit_count tpl_join_sep [Lit tpl_join_sep]) with 1%nat. lia.
Qed.

(* the module list shows every entry of the map: path, then import path, in sorted order *)
Theorem gomods_texts : forall m,
  texts_of (gomods_pieces m) = flat_map (fun kv => [fst kv; snd kv]) (kv_sort (LocalGomods m)).
Proof.
  intros m. unfold gomods_pieces.
  destruct (kv_sort (LocalGomods m)) as [|kv0 r0]; [reflexivity|].
  rewrite !texts_of_app.
  change (texts_of [Lit tpl_gomods_open]) with (@nil bytes). change (texts_of [Lit tpl_gomods_close]) with (@nil bytes).
  rewrite app_nil_r. cbn [app].
  generalize (kv0 :: r0). intros l.
  induction l as [|kv r IH]; [reflexivity|].
  cbn [flat_map]. rewrite texts_of_app, IH. reflexivity.
Qed.

(* ------------------------------------------------------------------ *)
(* 4. the skeleton depends only on the shape                           *)
(* ------------------------------------------------------------------ *)
(* What the template looks at outside the content region, besides the number it prints (GOMAXPROCS)
   and the trusted footer:
     and .Snapshot.LocalGOROOT (ne .Snapshot.RemoteGOROOT .Snapshot.LocalGOROOT)   [two_goroots]
     the NUMBER of LocalGOPATHs (Join) and the NUMBER of LocalGomods (if, range).
   Every string (the creation time, the Go version, the roots, the paths, the keys and the values of
   the module map) is unconstrained; RemoteGOPATHs is not looked at. *)
Definition same_shape_meta (m1 m2 : snap_meta) : Prop :=
  two_goroots m1 = two_goroots m2 /\
  List.length (LocalGOPATHs m1) = List.length (LocalGOPATHs m2) /\
  List.length (LocalGomods m1) = List.length (LocalGomods m2).

Definition same_shape_env (e1 e2 : page_env) : Prop :=
  pe_maxprocs e1 = pe_maxprocs e2 /\ pe_footer e1 = pe_footer e2.

Lemma shape_join : forall l1 l2, List.length l1 = List.length l2 ->
  map shape_piece (join_pieces l1) = map shape_piece (join_pieces l2).
Proof.
  induction l1 as [|x r1 IH]; intros [|y r2] H; try discriminate; [reflexivity|].
  injection H as H. cbn [join_pieces map shape_piece]. rewrite !map_app, (IH _ H).
  replace (nonempty r2) with (nonempty r1) by (destruct r1, r2; try discriminate; reflexivity).
  reflexivity.
Qed.

Lemma shape_gomod_list : forall l1 l2, List.length l1 = List.length l2 ->
  map shape_piece (flat_map gomod_pieces l1) = map shape_piece (flat_map gomod_pieces l2).
Proof.
  induction l1 as [|x r1 IH]; intros [|y r2] H; try discriminate; [reflexivity|].
  injection H as H. cbn [flat_map]. rewrite !map_app, (IH _ H). reflexivity.
Qed.

Lemma shape_gomods m1 m2 : List.length (LocalGomods m1) = List.length (LocalGomods m2) ->
  map shape_piece (gomods_pieces m1) = map shape_piece (gomods_pieces m2).
Proof.
  intros H. unfold gomods_pieces.
  assert (L : List.length (kv_sort (LocalGomods m1)) = List.length (kv_sort (LocalGomods m2))) by (rewrite !kv_sort_length; exact H).
  destruct (kv_sort (LocalGomods m1)) as [|a r1], (kv_sort (LocalGomods m2)) as [|b r2]; try discriminate L; [reflexivity|].
  rewrite !map_app, (shape_gomod_list _ _ L). reflexivity.
Qed.

Lemma shape_goroot m1 m2 : two_goroots m1 = two_goroots m2 ->
  map shape_piece (goroot_pieces m1) = map shape_piece (goroot_pieces m2).
Proof. intros H. unfold goroot_pieces. rewrite H. destruct (two_goroots m2); reflexivity. Qed.

Lemma shape_meta e1 e2 m1 m2 : pe_maxprocs e1 = pe_maxprocs e2 -> same_shape_meta m1 m2 ->
  map shape_piece (meta_pieces e1 m1) = map shape_piece (meta_pieces e2 m2).
Proof.
  intros P (G & A & M). unfold meta_pieces, gopath_pieces.
  rewrite !map_app, (shape_goroot _ _ G), (shape_join _ _ A), (shape_gomods _ _ M).
  cbn [map shape_piece]. rewrite P. reflexivity.
Qed.

Lemma shape_page e1 e2 m1 m2 c1 c2 : same_shape_env e1 e2 -> same_shape_meta m1 m2 ->
  map shape_piece c1 = map shape_piece c2 ->
  map shape_ppiece (page_of e1 m1 c1) = map shape_ppiece (page_of e2 m2 c2).
Proof.
  intros (P & F) M C. unfold page_of. rewrite !(map_app shape_ppiece). f_equal; [|cbn [map shape_ppiece]; rewrite F; reflexivity].
  assert (T : forall l, map shape_ppiece (map Tpl l) = map Tpl (map shape_piece l))
    by (intros l; rewrite !map_map; reflexivity).
  rewrite !T. f_equal. rewrite !map_app, C, (shape_meta e1 e2 m1 m2 P M). reflexivity.
Qed.

Theorem page_skeleton_shape_only : forall e1 e2 m1 m2 bs1 bs2,
  same_shape_env e1 e2 -> same_shape_meta m1 m2 -> same_shape bs1 bs2 ->
  map shape_ppiece (page_pieces_buckets e1 m1 bs1) = map shape_ppiece (page_pieces_buckets e2 m2 bs2).
Proof.
  intros e1 e2 m1 m2 bs1 bs2 E M B. apply shape_page; [exact E|exact M|].
  apply skeleton_shape_only2. exact B.
Qed.

Theorem page_skeleton_shape_only_goroutines : forall e1 e2 m1 m2 gs1 gs2,
  same_shape_env e1 e2 -> same_shape_meta m1 m2 -> same_shape_goroutines gs1 gs2 ->
  map shape_ppiece (page_pieces_goroutines e1 m1 gs1) = map shape_ppiece (page_pieces_goroutines e2 m2 gs2).
Proof.
  intros e1 e2 m1 m2 gs1 gs2 E M G. apply shape_page; [exact E|exact M|].
  apply skeleton_shape_only_goroutines2. exact G.
Qed.

(* the shape determines which bytes are literal: the literal bytes (template and footer) of two pages
   of the same shape are the same *)
Lemma plit_bytes_shape ps : plit_bytes (map shape_ppiece ps) = plit_bytes ps.
Proof.
  induction ps as [|pp r IH]; [reflexivity|].
  unfold plit_bytes in *. cbn [map flat_map]. rewrite IH. f_equal. destruct pp as [[]|]; reflexivity.
Qed.

Theorem page_literal_bytes_shape_only : forall e1 e2 m1 m2 bs1 bs2,
  same_shape_env e1 e2 -> same_shape_meta m1 m2 -> same_shape bs1 bs2 ->
  plit_bytes (page_pieces_buckets e1 m1 bs1) = plit_bytes (page_pieces_buckets e2 m2 bs2).
Proof.
  intros e1 e2 m1 m2 bs1 bs2 E M B.
  rewrite <- (plit_bytes_shape (page_pieces_buckets e1 m1 bs1)), <- (plit_bytes_shape (page_pieces_buckets e2 m2 bs2)).
  f_equal. apply page_skeleton_shape_only; assumption.
Qed.

Lemma same_shape_meta_refl m : same_shape_meta m m.
Proof. repeat split. Qed.

(* ------------------------------------------------------------------ *)
(* 5. determinism: the order of the association lists is irrelevant    *)
(* ------------------------------------------------------------------ *)
Definition kv_cmp (a b : bytes * bytes) : comparison := lexc (bcmp (fst a) (fst b)) (bcmp (snd a) (snd b)).

Lemma kv_cmp_ok : cmp_ok kv_cmp.
Proof.
  apply (cmp_ok_lexf (keyc fst bcmp) (keyc snd bcmp)); apply cmp_ok_keyc; exact bcmp_ok.
Qed.

Lemma kv_le_cmp a b : kv_le a b = match kv_cmp a b with Gt => false | _ => true end.
Proof. unfold kv_le, kv_cmp, lexc. destruct (bcmp (fst a) (fst b)), (bcmp (snd a) (snd b)); reflexivity. Qed.

Lemma bcmp_eq_eq a : forall b, bcmp a b = Eq -> a = b.
Proof.
  induction a as [|x a IH]; intros [|y b]; simpl; intros H; try discriminate H; [reflexivity|].
  destruct (N.compare x y) eqn:E; try discriminate H.
  apply N.compare_eq in E. subst y. f_equal. apply IH. exact H.
Qed.

Lemma kv_cmp_eq a b : kv_cmp a b = Eq -> a = b.
Proof.
  unfold kv_cmp, lexc. destruct a as [a1 a2], b as [b1 b2]. cbn [fst snd].
  destruct (bcmp a1 b1) eqn:E1; try discriminate. intros E2.
  apply bcmp_eq_eq in E1. apply bcmp_eq_eq in E2. subst. reflexivity.
Qed.

Lemma kv_le_total a b : kv_le a b = true \/ kv_le b a = true.
Proof.
  rewrite !kv_le_cmp, (cmp_sym kv_cmp_ok b a). destruct (kv_cmp a b); cbn; auto.
Qed.

Lemma kv_le_antisym a b : kv_le a b = true -> kv_le b a = true -> a = b.
Proof.
  rewrite !kv_le_cmp, (cmp_sym kv_cmp_ok b a). destruct (kv_cmp a b) eqn:E; cbn; intros H1 H2; try discriminate.
  apply kv_cmp_eq. exact E.
Qed.

Lemma kv_le_trans a b c : kv_le a b = true -> kv_le b c = true -> kv_le a c = true.
Proof.
  rewrite !kv_le_cmp. destruct (kv_cmp a b) eqn:E1; try discriminate; intros _.
  - rewrite (cmp_eq_l kv_cmp_ok a b c E1). auto.
  - destruct (kv_cmp b c) eqn:E2; try discriminate; intros _.
    + rewrite <- (cmp_eq_r kv_cmp_ok b c a E2), E1. reflexivity.
    + rewrite (cmp_trans_lt kv_cmp_ok a b c E1 E2). reflexivity.
Qed.

Lemma kv_le_false a b : kv_le a b = false -> kv_le b a = true.
Proof. intros H. destruct (kv_le_total a b) as [T|T]; [congruence|exact T]. Qed.

Lemma kv_insert_comm x y : forall l, kv_insert x (kv_insert y l) = kv_insert y (kv_insert x l).
Proof.
  induction l as [|e r IH].
  - cbn [kv_insert]. destruct (kv_le x y) eqn:A, (kv_le y x) eqn:B; try reflexivity.
    + rewrite (kv_le_antisym x y A B). reflexivity.
    + apply kv_le_false in A. congruence.
  - cbn [kv_insert]. destruct (kv_le x e) eqn:Xe, (kv_le y e) eqn:Ye; cbn [kv_insert].
    + destruct (kv_le x y) eqn:A, (kv_le y x) eqn:B; rewrite ?Xe, ?Ye; try reflexivity.
      * rewrite (kv_le_antisym x y A B). reflexivity.
      * apply kv_le_false in A. congruence.
    + rewrite Xe. destruct (kv_le y x) eqn:B; [|rewrite Ye; reflexivity].
      rewrite (kv_le_trans y x e B Xe) in Ye. discriminate.
    + rewrite Ye. destruct (kv_le x y) eqn:A; [|rewrite Xe; reflexivity].
      rewrite (kv_le_trans x y e A Ye) in Xe. discriminate.
    + rewrite Xe, Ye, IH. reflexivity.
Qed.

Theorem kv_sort_perm : forall l1 l2, Permutation l1 l2 -> kv_sort l1 = kv_sort l2.
Proof.
  induction 1 as [|x l1 l2 _ IH|x y l|l1 l2 l3 _ IH1 _ IH2].
  - reflexivity.
  - cbn [kv_sort]. rewrite IH. reflexivity.
  - cbn [kv_sort]. apply kv_insert_comm.
  - rewrite IH1. exact IH2.
Qed.

(* the range visits every entry exactly once ... *)
Lemma kv_insert_permutation x l : Permutation (kv_insert x l) (x :: l).
Proof.
  induction l as [|y r IH]; [reflexivity|].
  cbn [kv_insert]. destruct (kv_le x y); [reflexivity|].
  rewrite IH. apply perm_swap.
Qed.

Theorem kv_sort_permutation : forall l, Permutation (kv_sort l) l.
Proof.
  induction l as [|x r IH]; [reflexivity|].
  cbn [kv_sort]. rewrite kv_insert_permutation, IH. reflexivity.
Qed.

(* ... in ascending key order *)
Lemma kv_insert_sorted x l : StronglySorted (fun a b => kv_le a b = true) l ->
  StronglySorted (fun a b => kv_le a b = true) (kv_insert x l).
Proof.
  induction 1 as [|y r S IH F].
  - constructor; constructor.
  - cbn [kv_insert]. destruct (kv_le x y) eqn:E.
    + constructor; [constructor; assumption|]. constructor; [exact E|].
      rewrite Forall_forall in *. intros z I. exact (kv_le_trans x y z E (F z I)).
    + constructor; [exact IH|]. apply kv_le_false in E.
      rewrite Forall_forall in *. intros z I.
      apply (Permutation_in _ (kv_insert_permutation x r)) in I. destruct I as [<-|I]; [exact E|exact (F z I)].
Qed.

Theorem kv_sort_sorted : forall l, StronglySorted (fun a b => kv_le a b = true) (kv_sort l).
Proof. induction l as [|x r IH]; [constructor|]. cbn [kv_sort]. apply kv_insert_sorted. exact IH. Qed.

(* the keys alone are ascending (bytewise), as text/template sorts them *)
Theorem kv_sort_keys_sorted : forall l,
  StronglySorted (fun a b => bcmp a b <> Gt) (map fst (kv_sort l)).
Proof.
  intros l. pose proof (kv_sort_sorted l) as S. induction S as [|y r S IH F]; [constructor|].
  cbn [map]. constructor; [exact IH|].
  rewrite Forall_forall in *. intros k I. apply in_map_iff in I. destruct I as (z & <- & I).
  specialize (F z I). unfold kv_le in F. destruct (bcmp (fst y) (fst z)); congruence.
Qed.

(* two snapshots that differ only by the order of the entries of LocalGomods, and arbitrarily in
   RemoteGOPATHs (which is not rendered) *)
Definition meta_equiv (m1 m2 : snap_meta) : Prop :=
  LocalGOROOT m1 = LocalGOROOT m2 /\ RemoteGOROOT m1 = RemoteGOROOT m2 /\
  LocalGOPATHs m1 = LocalGOPATHs m2 /\ Permutation (LocalGomods m1) (LocalGomods m2).

Lemma meta_pieces_equiv env m1 m2 : meta_equiv m1 m2 -> meta_pieces env m1 = meta_pieces env m2.
Proof.
  intros (L & R & P & M). unfold meta_pieces, goroot_pieces, two_goroots, gopath_pieces, gomods_pieces.
  rewrite L, R, P, (kv_sort_perm _ _ M). reflexivity.
Qed.

Theorem page_deterministic_pieces : forall env m1 m2 content, meta_equiv m1 m2 ->
  page_of env m1 content = page_of env m2 content.
Proof. intros env m1 m2 content H. unfold page_of. rewrite (meta_pieces_equiv env m1 m2 H). reflexivity. Qed.

Theorem page_deterministic_buckets : forall env m1 m2 bs, meta_equiv m1 m2 ->
  render_page_buckets env m1 bs = render_page_buckets env m2 bs.
Proof.
  intros env m1 m2 bs H. unfold render_page_buckets, page_pieces_buckets.
  rewrite (page_deterministic_pieces env m1 m2 _ H). reflexivity.
Qed.

Theorem page_deterministic_goroutines : forall env m1 m2 gs, meta_equiv m1 m2 ->
  render_page_goroutines env m1 gs = render_page_goroutines env m2 gs.
Proof.
  intros env m1 m2 gs H. unfold render_page_goroutines, page_pieces_goroutines.
  rewrite (page_deterministic_pieces env m1 m2 _ H). reflexivity.
Qed.

Theorem page_deterministic_aggregate : forall shuffle env m1 m2 lvl gs, meta_equiv m1 m2 ->
  render_page_aggregate shuffle env m1 lvl gs = render_page_aggregate shuffle env m2 lvl gs.
Proof.
  intros shuffle env m1 m2 lvl gs H. unfold render_page_aggregate.
  destruct (aggregate shuffle lvl gs); [|reflexivity]. rewrite (page_deterministic_buckets env m1 m2 _ H). reflexivity.
Qed.

(* ------------------------------------------------------------------ *)
(* 6. links                                                            *)
(* ------------------------------------------------------------------ *)
Lemma hrefs_of_app a b : hrefs_of (a ++ b) = hrefs_of a ++ hrefs_of b.
Proof. unfold hrefs_of. apply flat_map_app. Qed.

(* a link of the content region: srcURL or pkgURL of some call *)
Definition link_of (ver u : bytes) : Prop := exists c, u = src_url ver c \/ u = pkg_url ver c.

Lemma hrefs_args_items e l : hrefs_of (args_item_pieces e l) = [].
Proof.
  induction l as [|x r IH]; [reflexivity|].
  cbn [args_item_pieces]. change (Text x :: ?t) with ([Text x] ++ t). rewrite !hrefs_of_app, IH.
  destruct (e || nonempty r); reflexivity.
Qed.

Lemma hrefs_args a : hrefs_of (args_pieces a) = [].
Proof. unfold args_pieces. rewrite !hrefs_of_app, hrefs_args_items. destruct (Elided a); reflexivity. Qed.

Lemma hrefs_tooltip c : hrefs_of (tooltip_pieces c) = [].
Proof. unfold tooltip_pieces. rewrite hrefs_of_app. destruct (two_paths c); reflexivity. Qed.

Lemma hrefs_created_by ver c : hrefs_of (created_by_pieces ver c) = [src_url ver c; pkg_url ver c].
Proof. unfold created_by_pieces. rewrite !hrefs_of_app, hrefs_tooltip. reflexivity. Qed.

Lemma hrefs_call ver i c : hrefs_of (call_pieces ver i c) = [pkg_url ver c; src_url ver c; pkg_url ver c].
Proof. unfold call_pieces. rewrite !hrefs_of_app, hrefs_tooltip, hrefs_args. reflexivity. Qed.

Lemma hrefs_calls ver l : forall i, Forall (link_of ver) (hrefs_of (calls_pieces ver i l)).
Proof.
  induction l as [|c r IH]; intros i; [constructor|].
  cbn [calls_pieces]. rewrite hrefs_of_app, hrefs_call. apply Forall_app. split; [|apply IH].
  repeat constructor; exists c; auto.
Qed.

Lemma hrefs_stack ver st : Forall (link_of ver) (hrefs_of (stack_pieces ver st)).
Proof.
  unfold stack_pieces. rewrite !hrefs_of_app. repeat (apply Forall_app; split); try apply hrefs_calls; try constructor.
  destruct (SElided st); constructor.
Qed.

Lemma hrefs_sleep s : hrefs_of (sleep_pieces s) = [].
Proof.
  unfold sleep_pieces. destruct (Z.eqb (SleepMax s) 0); [reflexivity|].
  destruct (negb (Z.eqb (SleepMin s) (SleepMax s))); reflexivity.
Qed.

Lemma hrefs_locked s : hrefs_of (locked_pieces s) = [].
Proof. unfold locked_pieces. destruct (Locked s); reflexivity. Qed.

Lemma hrefs_race g : hrefs_of (race_pieces g) = [].
Proof. unfold race_pieces. destruct (N.eqb (RaceAddr g) 0); [reflexivity|]. destruct (RaceWrite g); reflexivity. Qed.

Lemma hrefs_created ver s : Forall (link_of ver) (hrefs_of (created_pieces ver s)).
Proof.
  unfold created_pieces. destruct (Calls (CreatedBy s)) as [|c r]; [constructor|].
  rewrite !hrefs_of_app, hrefs_created_by. cbn [hrefs_of flat_map app].
  repeat constructor; exists c; auto.
Qed.

Lemma hrefs_bucket ver i b : Forall (link_of ver) (hrefs_of (bucket_pieces ver i b)).
Proof.
  unfold bucket_pieces. rewrite !hrefs_of_app, hrefs_sleep, hrefs_locked.
  repeat (apply Forall_app; split); try apply hrefs_created; try apply hrefs_stack; try constructor.
  destruct (Nat.eqb (List.length (IDs b)) 1); constructor.
Qed.

Lemma hrefs_goroutine ver g : Forall (link_of ver) (hrefs_of (goroutine_pieces ver g)).
Proof.
  unfold goroutine_pieces. rewrite !hrefs_of_app, hrefs_sleep, hrefs_locked, hrefs_race.
  repeat (apply Forall_app; split); try apply hrefs_created; try apply hrefs_stack; constructor.
Qed.

Lemma hrefs_buckets ver bs : forall i, Forall (link_of ver) (hrefs_of (buckets_pieces ver i bs)).
Proof.
  induction bs as [|b r IH]; intros i; [constructor|].
  cbn [buckets_pieces]. rewrite hrefs_of_app. apply Forall_app. split; [apply hrefs_bucket|apply IH].
Qed.

Lemma hrefs_goroutines ver gs : Forall (link_of ver) (hrefs_of (flat_map (goroutine_pieces ver) gs)).
Proof.
  induction gs as [|g r IH]; [constructor|].
  cbn [flat_map]. rewrite hrefs_of_app. apply Forall_app. split; [apply hrefs_goroutine|exact IH].
Qed.

Lemma hrefs_content_buckets ver bs : Forall (link_of ver) (hrefs_of (content_pieces_buckets ver bs)).
Proof.
  unfold content_pieces_buckets. rewrite !hrefs_of_app.
  repeat (apply Forall_app; split); try apply hrefs_buckets; constructor.
Qed.

Lemma hrefs_content_goroutines ver gs : Forall (link_of ver) (hrefs_of (content_pieces_goroutines ver gs)).
Proof.
  unfold content_pieces_goroutines. rewrite !hrefs_of_app.
  repeat (apply Forall_app; split); try apply hrefs_goroutines; constructor.
Qed.

(* no link outside the content region, except the icon *)
Lemma hrefs_join l : hrefs_of (join_pieces l) = [].
Proof.
  induction l as [|x r IH]; [reflexivity|].
  cbn [join_pieces]. change (Text x :: ?t) with ([Text x] ++ t). rewrite !hrefs_of_app, IH.
  destruct (nonempty r); reflexivity.
Qed.

Lemma hrefs_gomod_list l : hrefs_of (flat_map gomod_pieces l) = [].
Proof. induction l as [|kv r IH]; [reflexivity|]. cbn [flat_map]. rewrite hrefs_of_app, IH. reflexivity. Qed.

Lemma hrefs_meta env m : hrefs_of (meta_pieces env m) = [].
Proof.
  unfold meta_pieces, gopath_pieces, goroot_pieces, gomods_pieces. rewrite !hrefs_of_app, hrefs_join.
  destruct (two_goroots m); (destruct (kv_sort (LocalGomods m)) as [|kv r]; [reflexivity|]);
    rewrite !hrefs_of_app, hrefs_gomod_list; reflexivity.
Qed.

Theorem page_hrefs : forall env m content,
  hrefs_of (tpl_of (page_of env m content)) = tpl_favicon :: hrefs_of content.
Proof.
  intros env m content. rewrite tpl_of_page, !hrefs_of_app, hrefs_meta.
  change (hrefs_of head_pieces) with [tpl_favicon]. change (hrefs_of [Lit tpl_tail]) with (@nil bytes).
  rewrite !app_nil_r. reflexivity.
Qed.

(* the value that reaches the document: no delimiter, and empty or one of the five prefixes *)
Lemma href_attr_prefix u : href_ok (url_normalize u) ->
  href_attr u = [] \/ exists p, In p fixed_prefixes /\ has_prefix (href_attr u) p = true.
Proof.
  intros [_ [E|(p & I & H)]]; unfold href_attr.
  - left. rewrite E. reflexivity.
  - right. exists p. split; [exact I|].
    apply has_prefix_split in H. rewrite H.
    assert (Pl : forallb plain_byte p = true).
    { cbn [fixed_prefixes In] in I. decompose [or] I; try contradiction; subst p; vm_compute; reflexivity. }
    rewrite (html_escape_prefix p _ Pl). apply has_prefix_app.
Qed.

Lemma link_of_ok ver u : link_of ver u -> href_ok (url_normalize u).
Proof. intros (c & [-> | ->]); [apply href_ok_src|apply href_ok_pkg]. Qed.

Theorem page_links_buckets : forall env m bs u,
  In (Tpl (Href u)) (page_pieces_buckets env m bs) ->
  u = tpl_favicon \/
  (href_ok (url_normalize u) /\
   (href_attr u = [] \/ exists p, In p fixed_prefixes /\ has_prefix (href_attr u) p = true)).
Proof.
  intros env m bs u H.
  assert (I : In u (hrefs_of (tpl_of (page_pieces_buckets env m bs)))).
  { unfold hrefs_of, tpl_of. apply in_flat_map. exists (Href u). split; [|left; reflexivity].
    apply in_flat_map. exists (Tpl (Href u)). split; [exact H|left; reflexivity]. }
  unfold page_pieces_buckets in I. rewrite page_hrefs in I. destruct I as [<-|I]; [left; reflexivity|right].
  pose proof (proj1 (Forall_forall _ _) (hrefs_content_buckets (pe_ver env) bs) u I) as L.
  apply link_of_ok in L. split; [exact L|apply href_attr_prefix; exact L].
Qed.

Theorem page_links_goroutines : forall env m gs u,
  In (Tpl (Href u)) (page_pieces_goroutines env m gs) ->
  u = tpl_favicon \/
  (href_ok (url_normalize u) /\
   (href_attr u = [] \/ exists p, In p fixed_prefixes /\ has_prefix (href_attr u) p = true)).
Proof.
  intros env m gs u H.
  assert (I : In u (hrefs_of (tpl_of (page_pieces_goroutines env m gs)))).
  { unfold hrefs_of, tpl_of. apply in_flat_map. exists (Href u). split; [|left; reflexivity].
    apply in_flat_map. exists (Tpl (Href u)). split; [exact H|left; reflexivity]. }
  unfold page_pieces_goroutines in I. rewrite page_hrefs in I. destruct I as [<-|I]; [left; reflexivity|right].
  pose proof (proj1 (Forall_forall _ _) (hrefs_content_goroutines (pe_ver env) gs) u I) as L.
  apply link_of_ok in L. split; [exact L|apply href_attr_prefix; exact L].
Qed.

(* the icon: base64 text behind the literal  href=(double quote)data:image/gif;base64,  and before the closing
   double quote; the escapers only rewrite the plus sign *)
Definition is_b64 (c : N) : bool := is_alnum c || N.eqb c 43 || N.eqb c 47 || N.eqb c 61.

Theorem favicon_link :
  has_suffix tpl_head_a (s2b "href=""data:image/gif;base64,") = true /\
  has_prefix tpl_head_b (s2b """/>") = true /\
  forallb is_b64 tpl_favicon = true /\
  url_normalize tpl_favicon = tpl_favicon /\
  (forall c, In c (href_attr tpl_favicon) -> is_alnum c || memb c (s2b "/=&#;") = true).
Proof.
  repeat split; try (vm_compute; reflexivity).
  intros c H. assert (F : forallb (fun c => is_alnum c || memb c (s2b "/=&#;")) (href_attr tpl_favicon) = true) by (vm_compute; reflexivity).
  exact (proj1 (forallb_forall _ _) F c H).
Qed.
