#!/bin/sh
# Builds the framework from files on disk only: Coq development (full .vo
# build), extraction + OCaml driver, Go harness against /repo.
set -e
cd "$(dirname "$0")/.."
export GOFLAGS=-mod=mod GOPROXY=off GOSUMDB=off GOTOOLCHAIN=local CGO_ENABLED=0
mkdir -p build evidence replays
(cd coq && coq_makefile -f _CoqProject -o Makefile >/dev/null && timeout 3000 make -j16)
sh ocaml/build.sh
cp /repo/go.sum harness/go.sum
(cd harness && go build -tags verif -o ../build/vh ./cmd/vh)
(cd /repo && go build -o /verif/build/pp ./cmd/pp)
echo setup ok
