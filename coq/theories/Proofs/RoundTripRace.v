(* Proofs/RoundTripRace.v — C08, race reports: what print_race
   (Spec/RacePrinter.v) writes is read back by the race sub-state-machine of
   the scanner (Model/Scan.v) as race_snapshot_of.

   1. generic facts on byte strings
   2. numbers: the zero-padded address
   3. the header lines of operation and creation sections (matchers)
   4. a creation section for an unknown goroutine is an error (C08_unknown_creator)
   5. projections of race_snapshot_of
   ... *)
From PP Require Import Base.Bytes Base.BytesX Base.Num Base.GoResult Model.Types Model.Lines
  Model.FuncInit Model.ParseArgs Model.Scan Spec.Printer Spec.RacePrinter
  Proofs.RoundTripNum Proofs.ScanInv.
From Coq Require Import String.

Local Open Scope N_scope.

(* ------------------------------------------------------------------ *)
(* 1. generic facts on byte strings                                    *)
(* ------------------------------------------------------------------ *)

Lemma strip_prefix_app : forall lit s, strip_prefix lit (lit ++ s) = Some s.
Proof.
  induction lit as [|y lit IH]; intros s; [reflexivity|].
  cbn [app strip_prefix]. rewrite N.eqb_refl. apply IH.
Qed.

(* the head of [t], if any, fails [p] *)
Definition hd_fails (p : N -> bool) (t : bytes) : Prop :=
  match t with [] => True | x :: _ => p x = false end.

Lemma span_app : forall p a t, forallb p a = true -> hd_fails p t -> span p (a ++ t) = (a, t).
Proof.
  intros p a t. induction a as [|x a IH]; intros Ha Ht.
  - cbn [app]. destruct t as [|y t]; [reflexivity|]. cbn [span]. cbn [hd_fails] in Ht. rewrite Ht. reflexivity.
  - cbn [forallb] in Ha. apply andb_true_iff in Ha as [Hx Ha].
    cbn [app span]. rewrite Hx, (IH Ha Ht). reflexivity.
Qed.

Lemma nonempty_ne : forall b : bytes, b <> [] -> nonempty b = true.
Proof. intros [|x b] H; [congruence|reflexivity]. Qed.

Lemma nonempty_app_r : forall a b : bytes, b <> [] -> a ++ b <> [].
Proof. intros a b H C. apply app_eq_nil in C. destruct C as [_ C]. exact (H C). Qed.

Lemma forallb_repeat : forall (p : N -> bool) x k, p x = true -> forallb p (repeat x k) = true.
Proof. intros p x k H. induction k as [|k IH]; [reflexivity|]. cbn [repeat forallb]. rewrite H, IH. reflexivity. Qed.

Lemma skipn_app_exact : forall (A : Type) (a b : list A), skipn (List.length a) (a ++ b) = b.
Proof. intros A a b. induction a as [|x a IH]; [reflexivity|exact IH]. Qed.

Lemma firstn_app_exact : forall (A : Type) (a b : list A), firstn (List.length a) (a ++ b) = a.
Proof. intros A a b. induction a as [|x a IH]; [reflexivity|]. cbn [List.length app firstn]. rewrite IH. reflexivity. Qed.

Lemma has_suffix_app : forall a p, has_suffix (a ++ p) p = true.
Proof.
  intros a p. unfold has_suffix. rewrite app_length.
  replace (List.length a + List.length p - List.length p)%nat with (List.length a) by lia.
  rewrite skipn_app_exact, beq_refl.
  replace (Nat.leb (List.length p) (List.length a + List.length p)) with true
    by (symmetry; apply Nat.leb_le; lia).
  reflexivity.
Qed.

Lemma has_suffix_spec : forall s p, has_suffix s p = true -> exists a, s = a ++ p.
Proof.
  intros s p H. unfold has_suffix in H. apply andb_true_iff in H as [_ H].
  apply beq_eq in H. exists (firstn (List.length s - List.length p) s).
  pose proof (firstn_skipn (List.length s - List.length p) s) as F. rewrite H in F. symmetry. exact F.
Qed.

Lemma strip_suffix_app : forall a p, strip_suffix p (a ++ p) = Some a.
Proof.
  intros a p. unfold strip_suffix. rewrite has_suffix_app, app_length.
  replace (List.length a + List.length p - List.length p)%nat with (List.length a) by lia.
  rewrite firstn_app_exact. reflexivity.
Qed.

Lemma has_suffix_false : forall s p, (forall a, s <> a ++ p) -> has_suffix s p = false.
Proof.
  intros s p H. destruct (has_suffix s p) eqn:E; [|reflexivity].
  apply has_suffix_spec in E. destruct E as [a E]. exfalso. exact (H a E).
Qed.

(* a text ending with a byte other than CR *)
Definition ends_not_cr (l : bytes) : Prop := forall a, l <> a ++ [CR].

Lemma ends_not_cr_nil : ends_not_cr [].
Proof. intros a C. symmetry in C. apply app_eq_nil in C. destruct C as [_ C]. discriminate C. Qed.

Lemma ends_not_cr_last : forall l x, x <> CR -> ends_not_cr (l ++ [x]).
Proof. intros l x Hx a C. apply app_inj_tail in C. destruct C as [_ C]. exact (Hx C). Qed.

Lemma ends_not_cr_app : forall a b, b <> [] -> ends_not_cr b -> ends_not_cr (a ++ b).
Proof.
  intros a b Hne Hb c C.
  destruct (exists_last Hne) as (b' & x & ->).
  rewrite app_assoc in C. apply app_inj_tail in C. destruct C as [_ C].
  apply (Hb b'). rewrite C. reflexivity.
Qed.

(* a non-empty text all of whose bytes satisfy [p], none of which is CR *)
Lemma ends_not_cr_forallb : forall (p : N -> bool) l,
  p CR = false -> forallb p l = true -> ends_not_cr l.
Proof.
  intros p l Hp Hl a C. rewrite C, forallb_app in Hl. apply andb_true_iff in Hl as [_ Hl].
  cbn [forallb] in Hl. rewrite Hp in Hl. discriminate Hl.
Qed.

(* ------------------------------------------------------------------ *)
(* 2. numbers: the zero-padded address                                 *)
(* ------------------------------------------------------------------ *)

Lemma hex012_lower : forall a, forallb is_lower_hex (N_to_hex012 a) = true.
Proof.
  intros a. unfold N_to_hex012. rewrite forallb_app, N_to_hex_lower, forallb_repeat by reflexivity.
  reflexivity.
Qed.

Lemma hex012_nonempty : forall a, N_to_hex012 a <> [].
Proof. intros a. unfold N_to_hex012. apply nonempty_app_r, N_to_hex_nonempty. Qed.

(* leading zeros keep the accumulator of ParseUint at 0 *)
Lemma pu_loop_zero : forall s us, pu_loop 16 (48 :: s) 0 us = pu_loop 16 s 0 us.
Proof. intros s us. reflexivity. Qed.

Lemma pu_loop_zeros : forall k s us, pu_loop 16 (repeat 48 k ++ s) 0 us = pu_loop 16 s 0 us.
Proof.
  induction k as [|k IH]; intros s us; [reflexivity|].
  cbn [repeat app]. rewrite pu_loop_zero. apply IH.
Qed.

(* (a) the address text of an operation header is read back by ParseUint(s, 0, 64) *)
Theorem parse_uint_hex012 : forall a, a < 18446744073709551616 ->
  parse_uint (s2b "0x" ++ N_to_hex012 a) = Some a.
Proof.
  intros a Ha. destruct (N_to_hex_spec a) as (m & Hne & _ & Hpu).
  pose proof (hex012_nonempty a) as Hne12. unfold N_to_hex012 in *.
  set (k := (12 - List.length (N_to_hex false a))%nat) in *.
  destruct (repeat 48 k ++ N_to_hex false a) as [|h t] eqn:E; [congruence|].
  change (s2b "0x" ++ h :: t) with (48 :: 120 :: h :: t).
  unfold parse_uint.
  change (48 =? 48) with true. cbv iota.
  change (lower 120 =? 98) with false. change (lower 120 =? 111) with false.
  change (lower 120 =? 120) with true. cbv iota.
  rewrite <- E, pu_loop_zeros.
  specialize (Hpu 0 [] false). rewrite app_nil_r in Hpu.
  rewrite Hpu by (unfold max_uint64; lia). cbn [pu_loop N.mul N.add andb]. reflexivity.
Qed.

(* ------------------------------------------------------------------ *)
(* 3. the header lines                                                 *)
(* ------------------------------------------------------------------ *)

Lemma dec_nonempty_b : forall n, nonempty (N_to_dec n) = true.
Proof. intros n. apply nonempty_ne, N_to_dec_nonempty. Qed.

Lemma match_race_op_tail_print : forall a g,
  match_race_op_tail (s2b " at 0x" ++ N_to_hex012 a ++ s2b " by goroutine " ++ N_to_dec g ++ s2b ":") =
  Some (s2b "0x" ++ N_to_hex012 a, N_to_dec g).
Proof.
  intros a g. unfold match_race_op_tail. rewrite strip_prefix_app.
  rewrite (span_app is_lower_hex) by (try apply hex012_lower; reflexivity).
  rewrite (nonempty_ne _ (hex012_nonempty a)). cbn [negb].
  rewrite strip_prefix_app.
  rewrite (span_app is_digit) by (try apply N_to_dec_digits; reflexivity).
  rewrite dec_nonempty_b. reflexivity.
Qed.

(* (a) the header of the first operation is matched by the Read|Write regexp *)
Theorem match_race_op_print : forall w a g,
  match_race_op (print_op_header true w a g) = Some (w, s2b "0x" ++ N_to_hex012 a, N_to_dec g).
Proof.
  intros w a g. unfold print_op_header, match_race_op. destruct w; cbn [race_kind].
  - replace (strip_prefix (s2b "Read") (s2b "Write" ++ s2b " at 0x" ++ N_to_hex012 a ++
               s2b " by goroutine " ++ N_to_dec g ++ s2b ":")) with (@None bytes) by reflexivity.
    rewrite strip_prefix_app, match_race_op_tail_print. reflexivity.
  - rewrite strip_prefix_app, match_race_op_tail_print. reflexivity.
Qed.

(* ... and the headers of the following ones by the Previous read|write regexp *)
Theorem match_race_prev_print : forall w a g,
  match_race_prev (print_op_header false w a g) = Some (w, s2b "0x" ++ N_to_hex012 a, N_to_dec g).
Proof.
  intros w a g. unfold print_op_header, match_race_prev. destruct w; cbn [race_kind].
  - replace (strip_prefix (s2b "Previous read") (s2b "Previous write" ++ s2b " at 0x" ++ N_to_hex012 a ++
               s2b " by goroutine " ++ N_to_dec g ++ s2b ":")) with (@None bytes) by reflexivity.
    rewrite strip_prefix_app, match_race_op_tail_print. reflexivity.
  - rewrite strip_prefix_app, match_race_op_tail_print. reflexivity.
Qed.

(* (a) the header of a creation section *)
Theorem match_race_goroutine_print : forall n running,
  match_race_goroutine (print_creation_header n running) = Some (N_to_dec n, race_state_text running).
Proof.
  intros n running. unfold print_creation_header, match_race_goroutine.
  rewrite strip_prefix_app.
  rewrite (span_app is_digit) by (try apply N_to_dec_digits; reflexivity).
  rewrite dec_nonempty_b. cbn [negb].
  destruct running; reflexivity.
Qed.

(* a creation header is not an operation header *)
Lemma match_race_prev_creation : forall n running,
  match_race_prev (print_creation_header n running) = None.
Proof. intros n running. reflexivity. Qed.

(* ------------------------------------------------------------------ *)
(* 4. one physical line through the first two stages of scan           *)
(* ------------------------------------------------------------------ *)

(* a line that ends with LF, not with CR LF, is trimmed of its LF *)
Lemma scan_tr_lf : forall s l, ends_not_cr l -> scan_tr s (l ++ [LF]) = Some l.
Proof.
  intros s l Hl. unfold scan_tr, strip_suffix at 1.
  rewrite has_suffix_false.
  - rewrite strip_suffix_app. reflexivity.
  - intros a C. change (a ++ [CR; LF]) with (a ++ [CR] ++ [LF]) in C. rewrite app_assoc in C.
    apply app_inj_tail in C. destruct C as [C _]. exact (Hl a C).
Qed.

(* scan on a complete LF-terminated line, without indentation prefix *)
Lemma scan_line : forall s l, sprefix s = [] -> ends_not_cr l ->
  scan s (l ++ [LF]) = scan_body s l.
Proof.
  intros s l Hp Hl. rewrite scan_unfold, (scan_tr_lf s l Hl), (scan_pre_noprefix s l Hp). reflexivity.
Qed.

Ltac lit_not_cr := apply (ends_not_cr_forallb (fun c => negb (N.eqb c CR))); reflexivity.

Lemma creation_header_not_cr : forall n running, ends_not_cr (print_creation_header n running).
Proof.
  intros n running. unfold print_creation_header.
  replace (s2b "Goroutine " ++ N_to_dec n ++ s2b " (" ++ race_state_text running ++ s2b ") created at:")
    with ((s2b "Goroutine " ++ N_to_dec n ++ s2b " (" ++ race_state_text running ++ s2b ") created at") ++ [58])
    by (rewrite <- !app_assoc; reflexivity).
  apply ends_not_cr_last. discriminate.
Qed.

Lemma op_header_not_cr : forall first w a g, ends_not_cr (print_op_header first w a g).
Proof.
  intros first w a g. unfold print_op_header.
  replace (race_kind first w ++ s2b " at 0x" ++ N_to_hex012 a ++ s2b " by goroutine " ++ N_to_dec g ++ s2b ":")
    with ((race_kind first w ++ s2b " at 0x" ++ N_to_hex012 a ++ s2b " by goroutine " ++ N_to_dec g) ++ [58])
    by (rewrite <- !app_assoc; reflexivity).
  apply ends_not_cr_last. discriminate.
Qed.

(* ------------------------------------------------------------------ *)
(* 5. a creation section for an unknown goroutine (C08_unknown_creator) *)
(* ------------------------------------------------------------------ *)

Lemma find_id_none : forall id gs i,
  (forall g, In g gs -> ID g <> Z.of_N id) -> find_id id i gs = None.
Proof.
  intros id gs. induction gs as [|g gs IH]; intros i H; [reflexivity|].
  cbn [find_id]. destruct (Z.eqb (ID g) (Z.of_N id)) eqn:E.
  - apply Z.eqb_eq in E. exfalso. exact (H g (or_introl eq_refl) E).
  - apply IH. intros g' Hg'. apply H. right. exact Hg'.
Qed.

(* between two sections of a race report, a creation header whose id is the
   id of no goroutine of the report is an error, and changes nothing *)
Theorem unknown_creator : forall s n running,
  st s = betweenRaceGoroutines \/ st s = betweenRaceOperations ->
  sprefix s = [] -> n < dec_limit ->
  (forall g, In g (goroutines s) -> ID g <> Z.of_N n) ->
  scan s (print_creation_header n running ++ [LF]) = Ok (s, false, Some (ErrRace 2)).
Proof.
  intros s n running Hst Hp Hn Hid.
  rewrite (scan_line s _ Hp (creation_header_not_cr n running)).
  assert (Hstep : race_goroutine_step s (print_creation_header n running) = Ok (s, false, Some (ErrRace 2))).
  { rewrite race_goroutine_step_unfold, match_race_goroutine_print, (atou_N_to_dec n Hn).
    rewrite (find_id_none n (goroutines s) 0%nat Hid). reflexivity. }
  unfold scan_body. destruct Hst as [Hst|Hst]; rewrite Hst.
  - exact Hstep.
  - rewrite match_race_prev_creation. cbn [race_op_header]. exact Hstep.
Qed.

(* ------------------------------------------------------------------ *)
(* 6. projections of race_snapshot_of                                  *)
(* ------------------------------------------------------------------ *)

Lemma race_goroutine_of_eq : forall cs first op,
  race_goroutine_of cs first op =
  mkGoroutine (mkSig (fst (race_creation_of (ro_gid op) cs [] []))
                     (mkStack (snd (race_creation_of (ro_gid op) cs [] [])) false) 0 0
                     (mkStack (map call_of_frame (ro_frames op)) false) false)
              (Z.of_N (ro_gid op)) first (ro_write op) (ro_addr op).
Proof.
  intros cs first op. unfold race_goroutine_of.
  destruct (race_creation_of (ro_gid op) cs [] []) as [state created]. reflexivity.
Qed.

Lemma race_goroutine_of_ID : forall cs first op, ID (race_goroutine_of cs first op) = Z.of_N (ro_gid op).
Proof. intros cs first op. rewrite race_goroutine_of_eq. reflexivity. Qed.
Lemma race_goroutine_of_First : forall cs first op, First (race_goroutine_of cs first op) = first.
Proof. intros cs first op. rewrite race_goroutine_of_eq. reflexivity. Qed.
Lemma race_goroutine_of_RaceWrite : forall cs first op, RaceWrite (race_goroutine_of cs first op) = ro_write op.
Proof. intros cs first op. rewrite race_goroutine_of_eq. reflexivity. Qed.
Lemma race_goroutine_of_RaceAddr : forall cs first op, RaceAddr (race_goroutine_of cs first op) = ro_addr op.
Proof. intros cs first op. rewrite race_goroutine_of_eq. reflexivity. Qed.
Lemma race_goroutine_of_Stack : forall cs first op,
  SStack (GSig (race_goroutine_of cs first op)) = mkStack (map call_of_frame (ro_frames op)) false.
Proof. intros cs first op. rewrite race_goroutine_of_eq. reflexivity. Qed.

(* one goroutine per operation, in order; only the one of index 0 is First *)
Theorem snapshot_nth : forall r i op,
  nth_error (pr_ops r) i = Some op ->
  nth_error (race_snapshot_of r) i = Some (race_goroutine_of (pr_creations r) (Nat.eqb i 0) op).
Proof.
  intros r i op H. unfold race_snapshot_of. destruct (pr_ops r) as [|op0 ops]; [destruct i; discriminate H|].
  destruct i as [|i]; cbn [nth_error Nat.eqb] in *.
  - injection H as ->. reflexivity.
  - rewrite nth_error_map, H. reflexivity.
Qed.

Theorem snapshot_length : forall r, List.length (race_snapshot_of r) = List.length (pr_ops r).
Proof.
  intros r. unfold race_snapshot_of. destruct (pr_ops r) as [|op ops]; [reflexivity|].
  cbn [List.length]. rewrite map_length. reflexivity.
Qed.

Lemma snapshot_map : forall (A : Type) (f : Goroutine -> A) (g : p_race_op -> A) r,
  (forall cs first op, f (race_goroutine_of cs first op) = g op) ->
  map f (race_snapshot_of r) = map g (pr_ops r).
Proof.
  intros A f g r H. unfold race_snapshot_of. destruct (pr_ops r) as [|op ops]; [reflexivity|].
  cbn [map]. rewrite H, map_map. f_equal. apply map_ext. intros op'. apply H.
Qed.

Theorem snapshot_ids : forall r,
  map ID (race_snapshot_of r) = map (fun op => Z.of_N (ro_gid op)) (pr_ops r).
Proof. intros r. apply snapshot_map. apply race_goroutine_of_ID. Qed.

Theorem snapshot_writes : forall r, map RaceWrite (race_snapshot_of r) = map ro_write (pr_ops r).
Proof. intros r. apply snapshot_map. apply race_goroutine_of_RaceWrite. Qed.

Theorem snapshot_addrs : forall r, map RaceAddr (race_snapshot_of r) = map ro_addr (pr_ops r).
Proof. intros r. apply snapshot_map. apply race_goroutine_of_RaceAddr. Qed.

Theorem snapshot_stacks : forall r,
  map (fun g => SStack (GSig g)) (race_snapshot_of r) =
  map (fun op => mkStack (map call_of_frame (ro_frames op)) false) (pr_ops r).
Proof. intros r. apply snapshot_map. apply race_goroutine_of_Stack. Qed.

(* First = (index 0) *)
Theorem snapshot_first : forall r i g,
  nth_error (race_snapshot_of r) i = Some g -> First g = Nat.eqb i 0.
Proof.
  intros r i g H.
  destruct (nth_error (pr_ops r) i) as [op|] eqn:E.
  - rewrite (snapshot_nth r i op E) in H. injection H as <-. apply race_goroutine_of_First.
  - apply nth_error_None in E. rewrite <- snapshot_length in E. apply nth_error_None in E. congruence.
Qed.

(* the creation sections: none for this goroutine / exactly one *)
Lemma race_creation_of_none : forall gid cs state calls,
  (forall c, In c cs -> rc_gid c <> gid) -> race_creation_of gid cs state calls = (state, calls).
Proof.
  intros gid cs. induction cs as [|c cs IH]; intros state calls H; [reflexivity|].
  cbn [race_creation_of].
  destruct (rc_gid c =? gid) eqn:E.
  - apply N.eqb_eq in E. exfalso. exact (H c (or_introl eq_refl) E).
  - apply IH. intros c' Hc'. apply H. right. exact Hc'.
Qed.

Lemma race_creation_of_one : forall gid cs1 c cs2 state calls,
  (forall c', In c' cs1 -> rc_gid c' <> gid) -> rc_gid c = gid ->
  (forall c', In c' cs2 -> rc_gid c' <> gid) ->
  race_creation_of gid (cs1 ++ c :: cs2) state calls =
  (race_state_text (rc_running c), calls ++ map call_of_frame (rc_frames c)).
Proof.
  intros gid cs1 c cs2. induction cs1 as [|c1 cs1 IH]; intros state calls H1 Hc H2.
  - cbn [app race_creation_of]. rewrite Hc, N.eqb_refl. apply race_creation_of_none. exact H2.
  - cbn [app race_creation_of].
    destruct (rc_gid c1 =? gid) eqn:E.
    + apply N.eqb_eq in E. exfalso. exact (H1 c1 (or_introl eq_refl) E).
    + apply IH; [|exact Hc|exact H2]. intros c' Hc'. apply H1. right. exact Hc'.
Qed.

(* a goroutine without creation section: empty State, empty CreatedBy *)
Theorem snapshot_no_creation : forall cs first op,
  (forall c, In c cs -> rc_gid c <> ro_gid op) ->
  State (GSig (race_goroutine_of cs first op)) = [] /\
  CreatedBy (GSig (race_goroutine_of cs first op)) = emptyStack.
Proof.
  intros cs first op H. rewrite race_goroutine_of_eq.
  rewrite (race_creation_of_none _ cs [] [] H). split; reflexivity.
Qed.

(* a goroutine with exactly one creation section, wherever it is printed:
   State and CreatedBy come from that section *)
Theorem snapshot_creation : forall cs1 c cs2 first op,
  (forall c', In c' cs1 -> rc_gid c' <> ro_gid op) -> rc_gid c = ro_gid op ->
  (forall c', In c' cs2 -> rc_gid c' <> ro_gid op) ->
  State (GSig (race_goroutine_of (cs1 ++ c :: cs2) first op)) = race_state_text (rc_running c) /\
  CreatedBy (GSig (race_goroutine_of (cs1 ++ c :: cs2) first op)) =
    mkStack (map call_of_frame (rc_frames c)) false.
Proof.
  intros cs1 c cs2 first op H1 Hc H2. rewrite race_goroutine_of_eq.
  rewrite (race_creation_of_one _ cs1 c cs2 [] [] H1 Hc H2). split; reflexivity.
Qed.

(* ------------------------------------------------------------------ *)
(* 7. the lines of a frame                                             *)
(* ------------------------------------------------------------------ *)

(* What C08 needs from the line level of C01, for one frame: Func.Init /
   parseArgs on the function line (after trimLeftSpace) and reFile on the
   six-space file line give back the Call the frame denotes; no LF inside
   the two lines. *)
Definition frame_rt (f : p_frame) : Prop :=
  (exists c0,
     parse_func (trim_left_space (race_func_line f)) = Ok (Some (c0, None)) /\
     parse_file c0 (race_file_line f) = Some (call_of_frame f, None)) /\
  no_byte LF (race_func_line f) = true /\ no_byte LF (race_file_line f) = true.

Lemma upd_last_app1 : forall (A : Type) (h : A -> A) (l : list A) x, upd_last h (l ++ [x]) = l ++ [h x].
Proof.
  intros A h l x. induction l as [|y l IH]; [reflexivity|].
  cbn [app]. destruct (l ++ [x]) as [|z t] eqn:E.
  - destruct l; discriminate E.
  - cbn [upd_last]. cbn [upd_last] in IH. rewrite IH. reflexivity.
Qed.

Lemma func_line_not_cr : forall f, ends_not_cr (race_func_line f).
Proof.
  intros f. unfold race_func_line, print_func_line.
  replace (s2b "  " ++ sym_raw (pf_sym f) ++ s2b "(" ++ print_args (pf_args f) (pf_elided f) ++ s2b ")")
    with ((s2b "  " ++ sym_raw (pf_sym f) ++ s2b "(" ++ print_args (pf_args f) (pf_elided f)) ++ [41])
    by (rewrite <- !app_assoc; reflexivity).
  apply ends_not_cr_last. discriminate.
Qed.

Lemma dec_not_cr : forall n, ends_not_cr (N_to_dec n).
Proof. intros n. apply (ends_not_cr_forallb is_digit); [reflexivity|apply N_to_dec_digits]. Qed.

Lemma hex_not_cr : forall n, ends_not_cr (N_to_hex false n).
Proof. intros n. apply (ends_not_cr_forallb is_lower_hex); [reflexivity|apply N_to_hex_lower]. Qed.

Lemma off_tail_not_cr : forall n off, ends_not_cr (N_to_dec n ++ print_off off) /\ N_to_dec n ++ print_off off <> [].
Proof.
  intros n [o|]; cbn [print_off].
  - split.
    + unfold hex0x. rewrite !app_assoc. apply ends_not_cr_app; [apply N_to_hex_nonempty|apply hex_not_cr].
    + apply nonempty_app_r. discriminate.
  - rewrite app_nil_r. split; [apply dec_not_cr|apply N_to_dec_nonempty].
Qed.

Lemma file_line_not_cr : forall f, ends_not_cr (race_file_line f).
Proof.
  intros f. unfold race_file_line, print_file_line. cbn [print_regs]. rewrite app_nil_r.
  destruct (off_tail_not_cr (pf_line f) (pf_off f)) as [H1 H2].
  apply ends_not_cr_app; [apply nonempty_app_r, nonempty_app_r; exact H2|].
  apply ends_not_cr_app; [apply nonempty_app_r; exact H2|].
  apply ends_not_cr_app; [exact H2|exact H1].
Qed.

(* the function line, in an operation section *)
Lemma scan_op_func : forall gs g idx stt f c0,
  stt = gotRaceOperationHeader \/ stt = gotRaceOperationFile ->
  parse_func (trim_left_space (race_func_line f)) = Ok (Some (c0, None)) ->
  scan (mkSS (gs ++ [g]) stt [] idx) (race_func_line f ++ [LF]) =
  Ok (mkSS (gs ++ [add_call g c0]) gotRaceOperationFunc [] idx, true, None).
Proof.
  intros gs g idx stt f c0 Hst Hpf.
  rewrite (scan_line (mkSS (gs ++ [g]) stt [] idx) _ eq_refl (func_line_not_cr f)).
  assert (Hstep : func_step (mkSS (gs ++ [g]) stt [] idx) (trim_left_space (race_func_line f))
                    gotRaceOperationFunc add_call_cur
                    (ret (mkSS (gs ++ [g]) stt [] idx) false (Some (ErrExpected (if state_eqb stt gotRaceOperationHeader then 6 else 8)))) =
                  Ok (mkSS (gs ++ [add_call g c0]) gotRaceOperationFunc [] idx, true, None)).
  { unfold func_step. rewrite Hpf. cbn [bind]. unfold add_call_cur. cbn [goroutines].
    rewrite last_opt_app1. cbn [bind]. unfold set_cur, with_gs, with_state, ret.
    cbn [goroutines st sprefix gindex]. rewrite upd_last_app1. reflexivity. }
  unfold scan_body. cbn [st]. destruct Hst as [-> | ->].
  - exact Hstep.
  - change (race_func_line f) with (32 :: 32 :: print_func_line (pf_sym f) (pf_args f) (pf_elided f)) at 1.
    cbv iota. exact Hstep.
Qed.

(* the file line, in an operation section *)
Lemma scan_op_file : forall gs g idx f cs c0 c',
  Calls (SStack (GSig g)) = cs ++ [c0] ->
  parse_file c0 (race_file_line f) = Some (c', None) ->
  scan (mkSS (gs ++ [g]) gotRaceOperationFunc [] idx) (race_file_line f ++ [LF]) =
  Ok (mkSS (gs ++ [set_calls g (cs ++ [c'])]) gotRaceOperationFile [] idx, true, None).
Proof.
  intros gs g idx f cs c0 c' Hcs Hpf.
  rewrite (scan_line (mkSS (gs ++ [g]) gotRaceOperationFunc [] idx) _ eq_refl (file_line_not_cr f)).
  unfold scan_body. cbn [st]. unfold with_cur. cbn [goroutines]. rewrite last_opt_app1.
  unfold file_step. rewrite Hcs, last_opt_app1, Hpf.
  unfold set_cur, with_gs, with_state, ret. cbn [goroutines st sprefix gindex].
  rewrite !upd_last_app1. reflexivity.
Qed.

(* the blank line that ends an operation section *)
Lemma scan_op_blank : forall gs idx,
  scan (mkSS gs gotRaceOperationFile [] idx) (([] : bytes) ++ [LF]) =
  Ok (mkSS gs betweenRaceOperations [] idx, true, None).
Proof. intros gs idx. reflexivity. Qed.

(* the goroutine of an operation while its section is being read *)
Definition op_goroutine (first : bool) (op : p_race_op) (calls : list Call) : Goroutine :=
  mkGoroutine (mkSig [] emptyStack 0 0 (mkStack calls false) false)
              (Z.of_N (ro_gid op)) first (ro_write op) (ro_addr op).

(* the header of an operation section *)
Lemma scan_op_header : forall s (first : bool) op,
  sprefix s = [] -> ro_addr op < 18446744073709551616 -> ro_gid op < dec_limit ->
  (if first return Prop then st s = gotRaceHeader2 /\ goroutines s = [] else st s = betweenRaceOperations) ->
  scan s (print_op_header first (ro_write op) (ro_addr op) (ro_gid op) ++ [LF]) =
  Ok (mkSS (goroutines s ++ [op_goroutine first op []]) gotRaceOperationHeader []
           (List.length (goroutines s)), true, None).
Proof.
  intros s first op Hp Ha Hg Hst.
  rewrite (scan_line s _ Hp (op_header_not_cr _ _ _ _)).
  unfold scan_body. destruct first.
  - destruct Hst as [Hst Hgs]. rewrite Hst, match_race_op_print. unfold race_op_header.
    rewrite (parse_uint_hex012 _ Ha), (atou_N_to_dec _ Hg), Hgs. cbn [andb app]. unfold ret.
    rewrite Hp. reflexivity.
  - rewrite Hst, match_race_prev_print. unfold race_op_header.
    rewrite (parse_uint_hex012 _ Ha), (atou_N_to_dec _ Hg). cbn [andb]. unfold ret.
    rewrite Hp, app_length. cbn [List.length]. rewrite Nat.add_sub. reflexivity.
Qed.

(* ------------------------------------------------------------------ *)
(* 8. sequences of consumed lines                                      *)
(* ------------------------------------------------------------------ *)

Lemma no_byte_app : forall c a b, no_byte c (a ++ b) = no_byte c a && no_byte c b.
Proof.
  intros c a b. unfold no_byte. rewrite existsb_app, negb_orb. reflexivity.
Qed.

Lemma no_byte_In : forall c s, no_byte c s = true -> ~ In c s.
Proof.
  intros c s H Hin. unfold no_byte in H. apply negb_true_iff in H.
  assert (Ht : existsb (N.eqb c) s = true) by (apply existsb_exists; exists c; split; [exact Hin|apply N.eqb_refl]).
  congruence.
Qed.

Lemma forallb_no_byte : forall (p : N -> bool) c s, p c = false -> forallb p s = true -> no_byte c s = true.
Proof.
  intros p c s Hc Hs. unfold no_byte. apply negb_true_iff.
  destruct (existsb (N.eqb c) s) eqn:E; [|reflexivity].
  apply existsb_exists in E. destruct E as (x & Hin & Hx). apply N.eqb_eq in Hx. subst x.
  rewrite forallb_forall in Hs. rewrite (Hs c Hin) in Hc. discriminate Hc.
Qed.

Lemma dec_no_lf : forall n, no_byte LF (N_to_dec n) = true.
Proof. intros n. apply (forallb_no_byte is_digit); [reflexivity|apply N_to_dec_digits]. Qed.

Lemma hex012_no_lf : forall a, no_byte LF (N_to_hex012 a) = true.
Proof. intros a. apply (forallb_no_byte is_lower_hex); [reflexivity|apply hex012_lower]. Qed.

Lemma op_header_no_lf : forall first w a g, no_byte LF (print_op_header first w a g) = true.
Proof.
  intros first w a g. unfold print_op_header. rewrite !no_byte_app, hex012_no_lf, dec_no_lf.
  destruct first, w; reflexivity.
Qed.

Lemma creation_header_no_lf : forall n running, no_byte LF (print_creation_header n running) = true.
Proof.
  intros n running. unfold print_creation_header. rewrite !no_byte_app, dec_no_lf.
  destruct running; reflexivity.
Qed.

(* [Steps s ls s']: from s, the scanner consumes the lines ls (given without
   their LF), each with result (true, nil), and ends in s' *)
Inductive Steps : sstate -> list bytes -> sstate -> Prop :=
| Steps_nil : forall s, Steps s [] s
| Steps_cons : forall s l s1 ls s',
    state_eqb (st s) done = false -> no_byte LF l = true ->
    scan s (l ++ [LF]) = Ok (s1, true, None) ->
    Steps s1 ls s' -> Steps s (l :: ls) s'.

Lemma Steps_app : forall s l1 s1 l2 s2, Steps s l1 s1 -> Steps s1 l2 s2 -> Steps s (l1 ++ l2) s2.
Proof.
  intros s l1 s1 l2 s2 H1 H2. induction H1 as [s|s l sa ls s' Hd Hl Hs H1 IH]; [exact H2|].
  cbn [app]. apply (Steps_cons s l sa); [exact Hd|exact Hl|exact Hs|]. apply IH. exact H2.
Qed.

Lemma Steps_one : forall s l s1,
  state_eqb (st s) done = false -> no_byte LF l = true ->
  scan s (l ++ [LF]) = Ok (s1, true, None) -> Steps s [l] s1.
Proof. intros s l s1 Hd Hl Hs. apply (Steps_cons s l s1); [exact Hd|exact Hl|exact Hs|apply Steps_nil]. Qed.

(* ------------------------------------------------------------------ *)
(* 9. an operation section                                             *)
(* ------------------------------------------------------------------ *)

Lemma set_calls_op_goroutine : forall first op calls calls',
  set_calls (op_goroutine first op calls) calls' = op_goroutine first op calls'.
Proof. reflexivity. Qed.

Lemma add_call_op_goroutine : forall first op calls c,
  add_call (op_goroutine first op calls) c = op_goroutine first op (calls ++ [c]).
Proof. reflexivity. Qed.

(* the two lines of one frame *)
Lemma op_frame_steps : forall gs first op calls stt idx f,
  stt = gotRaceOperationHeader \/ stt = gotRaceOperationFile -> frame_rt f ->
  Steps (mkSS (gs ++ [op_goroutine first op calls]) stt [] idx) (race_frame_lines f)
        (mkSS (gs ++ [op_goroutine first op (calls ++ [call_of_frame f])]) gotRaceOperationFile [] idx).
Proof.
  intros gs first op calls stt idx f Hst ((c0 & Hpf & Hfile) & Hl1 & Hl2).
  unfold race_frame_lines.
  apply (Steps_cons _ _ (mkSS (gs ++ [op_goroutine first op (calls ++ [c0])]) gotRaceOperationFunc [] idx)).
  - destruct Hst as [-> | ->]; reflexivity.
  - exact Hl1.
  - rewrite (scan_op_func gs (op_goroutine first op calls) idx stt f c0 Hst Hpf), add_call_op_goroutine. reflexivity.
  - apply Steps_one; [reflexivity|exact Hl2|].
    rewrite (scan_op_file gs (op_goroutine first op (calls ++ [c0])) idx f calls c0 (call_of_frame f) eq_refl Hfile), set_calls_op_goroutine.
    reflexivity.
Qed.

Lemma op_frames_steps : forall frames gs first op calls stt idx,
  stt = gotRaceOperationHeader \/ stt = gotRaceOperationFile -> Forall frame_rt frames ->
  Steps (mkSS (gs ++ [op_goroutine first op calls]) stt [] idx) (race_frames_lines frames)
        (mkSS (gs ++ [op_goroutine first op (calls ++ map call_of_frame frames)])
              (match frames with [] => stt | _ => gotRaceOperationFile end) [] idx).
Proof.
  induction frames as [|f frames IH]; intros gs first op calls stt idx Hst Hall.
  - cbn [race_frames_lines flat_map map]. rewrite app_nil_r. apply Steps_nil.
  - inversion Hall as [|f' fs' Hf Hfs]; subst.
    change (race_frames_lines (f :: frames)) with (race_frame_lines f ++ race_frames_lines frames).
    apply (Steps_app _ _ _ _ _ (op_frame_steps gs first op calls stt idx f Hst Hf)).
    specialize (IH gs first op (calls ++ [call_of_frame f]) gotRaceOperationFile idx (or_intror eq_refl) Hfs).
    cbn [map]. rewrite <- app_assoc in IH. cbn [app] in IH.
    destruct frames; exact IH.
Qed.

(* what the fidelity theorem needs of one operation *)
Definition op_ok (op : p_race_op) : Prop :=
  ro_addr op < 18446744073709551616 /\ ro_gid op < dec_limit /\
  ro_frames op <> [] /\ Forall frame_rt (ro_frames op).

Lemma race_goroutine_of_nil : forall first op,
  race_goroutine_of [] first op = op_goroutine first op (map call_of_frame (ro_frames op)).
Proof. reflexivity. Qed.

(* one operation section: header, frames, blank line *)
Lemma op_section_steps : forall s (first : bool) op,
  sprefix s = [] -> op_ok op ->
  (if first return Prop then st s = gotRaceHeader2 /\ goroutines s = [] else st s = betweenRaceOperations) ->
  Steps s (race_op_lines first op)
        (mkSS (goroutines s ++ [race_goroutine_of [] first op]) betweenRaceOperations []
              (List.length (goroutines s))).
Proof.
  intros s first op Hp (Ha & Hg & Hne & Hall) Hst. unfold race_op_lines.
  apply (Steps_cons _ _ (mkSS (goroutines s ++ [op_goroutine first op []]) gotRaceOperationHeader []
                              (List.length (goroutines s)))).
  - destruct first; [destruct Hst as [Hst _]|]; rewrite Hst; reflexivity.
  - apply op_header_no_lf.
  - apply scan_op_header; assumption.
  - eapply Steps_app.
    + apply (op_frames_steps (ro_frames op) (goroutines s) first op [] gotRaceOperationHeader _ (or_introl eq_refl) Hall).
    + cbn [app]. destruct (ro_frames op) as [|f fs] eqn:E; [congruence|]. rewrite <- E.
      apply Steps_one; [reflexivity|reflexivity|]. rewrite race_goroutine_of_nil. apply scan_op_blank.
Qed.

Lemma flat_map_op_lines_cons : forall op ops,
  flat_map (race_op_lines false) (op :: ops) = race_op_lines false op ++ flat_map (race_op_lines false) ops.
Proof. reflexivity. Qed.

(* the operation sections after the first *)
Lemma ops_rest_steps : forall ops gs idx,
  Forall op_ok ops ->
  exists idx', Steps (mkSS gs betweenRaceOperations [] idx) (flat_map (race_op_lines false) ops)
                     (mkSS (gs ++ map (race_goroutine_of [] false) ops) betweenRaceOperations [] idx').
Proof.
  induction ops as [|op ops IH]; intros gs idx Hall.
  - exists idx. cbn [flat_map map]. rewrite app_nil_r. apply Steps_nil.
  - inversion Hall as [|op' ops' Hop Hops]; subst.
    pose proof (op_section_steps (mkSS gs betweenRaceOperations [] idx) false op eq_refl Hop eq_refl) as H1.
    cbn [goroutines] in H1.
    destruct (IH (gs ++ [race_goroutine_of [] false op]) (List.length gs) Hops) as (idx' & H2).
    exists idx'. rewrite flat_map_op_lines_cons. cbn [map].
    rewrite <- app_assoc in H2. cbn [app] in H2.
    exact (Steps_app _ _ _ _ _ H1 H2).
Qed.

(* separator, warning and all the operation sections, from the initial state *)
Lemma ops_steps : forall op ops,
  Forall op_ok (op :: ops) ->
  exists idx,
    Steps ss0 ([race_separator; race_warning] ++ race_ops_lines (op :: ops))
          (mkSS (race_snapshot_of (mkPRace (op :: ops) [])) betweenRaceOperations [] idx).
Proof.
  intros op ops Hall. inversion Hall as [|op' ops' Hop Hops]; subst.
  pose proof (op_section_steps (mkSS [] gotRaceHeader2 [] 0) true op eq_refl Hop (conj eq_refl eq_refl)) as H1.
  cbn [goroutines app List.length] in H1.
  destruct (ops_rest_steps ops [race_goroutine_of [] true op] 0%nat Hops) as (idx & H2).
  exists idx. cbn [race_ops_lines app].
  apply (Steps_cons _ _ (mkSS [] gotRaceHeader1 [] 0)); [reflexivity|reflexivity|reflexivity|].
  apply (Steps_cons _ _ (mkSS [] gotRaceHeader2 [] 0)); [reflexivity|reflexivity|reflexivity|].
  exact (Steps_app _ _ _ _ _ H1 H2).
Qed.

(* ------------------------------------------------------------------ *)
(* 10. a creation section                                              *)
(* ------------------------------------------------------------------ *)

Lemma upd_nth_const : forall (A : Type) (h : A -> A) (l : list A) i x,
  nth_error l i = Some x -> upd_nth i h l = upd_nth i (fun _ => h x) l.
Proof.
  intros A h l. induction l as [|a l IH]; intros [|i] x H; cbn [nth_error upd_nth] in *; try discriminate.
  - injection H as ->. reflexivity.
  - rewrite (IH i x H). reflexivity.
Qed.

Lemma upd_nth_twice : forall (A : Type) (h k : A -> A) (l : list A) i,
  upd_nth i h (upd_nth i k l) = upd_nth i (fun x => h (k x)) l.
Proof.
  intros A h k l. induction l as [|a l IH]; intros [|i]; cbn [upd_nth]; try reflexivity.
  rewrite IH. reflexivity.
Qed.

Lemma nth_error_upd_const : forall (A : Type) (l : list A) i x y,
  nth_error l i = Some x -> nth_error (upd_nth i (fun _ => y) l) i = Some y.
Proof. intros A l i x y H. apply (nth_error_upd_nth A (fun _ => y) l i x H). Qed.

(* the goroutine of a creation section while the section is being read:
   g0 with the State of the header and [calls] appended to its CreatedBy *)
Definition cr_goroutine (g0 : Goroutine) (text : bytes) (calls : list Call) : Goroutine :=
  set_created_calls (set_state g0 text) (Calls (CreatedBy (GSig g0)) ++ calls).

Lemma set_state_cr : forall g0 text, set_state g0 text = cr_goroutine g0 text [].
Proof.
  intros [[s0 [c e] a b k l] i f w ad] text. unfold cr_goroutine, set_created_calls, set_created, set_state.
  cbn [GSig State CreatedBy SleepMin SleepMax SStack Locked ID First RaceWrite RaceAddr Calls SElided].
  rewrite app_nil_r. reflexivity.
Qed.

Lemma cr_created : forall g0 text calls,
  Calls (CreatedBy (GSig (cr_goroutine g0 text calls))) = Calls (CreatedBy (GSig g0)) ++ calls.
Proof. reflexivity. Qed.

Lemma cr_set_created : forall g0 text calls calls',
  set_created_calls (cr_goroutine g0 text calls) (Calls (CreatedBy (GSig g0)) ++ calls') = cr_goroutine g0 text calls'.
Proof. reflexivity. Qed.

(* the header of a creation section *)
Lemma scan_creation_header : forall G stt idx c i g0,
  stt = betweenRaceOperations \/ stt = betweenRaceGoroutines ->
  rc_gid c < dec_limit ->
  find_id (rc_gid c) 0 G = Some i -> nth_error G i = Some g0 ->
  scan (mkSS G stt [] idx) (print_creation_header (rc_gid c) (rc_running c) ++ [LF]) =
  Ok (mkSS (upd_nth i (fun _ => cr_goroutine g0 (race_state_text (rc_running c)) []) G)
           gotRaceGoroutineHeader [] i, true, None).
Proof.
  intros G stt idx c i g0 Hst Hn Hfind Hnth.
  rewrite (scan_line (mkSS G stt [] idx) _ eq_refl (creation_header_not_cr _ _)).
  assert (Hstep : race_goroutine_step (mkSS G stt [] idx) (print_creation_header (rc_gid c) (rc_running c)) =
                  Ok (mkSS (upd_nth i (fun _ => cr_goroutine g0 (race_state_text (rc_running c)) []) G)
                           gotRaceGoroutineHeader [] i, true, None)).
  { rewrite race_goroutine_step_unfold, match_race_goroutine_print, (atou_N_to_dec _ Hn).
    cbn [goroutines sprefix]. rewrite Hfind.
    rewrite (upd_nth_const _ (fun g => set_state g (race_state_text (rc_running c))) G i g0 Hnth).
    rewrite set_state_cr. reflexivity. }
  unfold scan_body. cbn [st]. destruct Hst as [-> | ->].
  - rewrite match_race_prev_creation. cbn [race_op_header]. exact Hstep.
  - exact Hstep.
Qed.

(* the function line, in a creation section *)
Lemma scan_cr_func : forall G i g stt f c0 x,
  stt = gotRaceGoroutineHeader \/ stt = gotRaceGoroutineFile ->
  nth_error G i = Some x ->
  parse_func (trim_left_space (race_func_line f)) = Ok (Some (c0, None)) ->
  scan (mkSS (upd_nth i (fun _ => g) G) stt [] i) (race_func_line f ++ [LF]) =
  Ok (mkSS (upd_nth i (fun _ => set_created_calls g (Calls (CreatedBy (GSig g)) ++ [c0])) G)
           gotRaceGoroutineFunc [] i, true, None).
Proof.
  intros G i g stt f c0 x Hst Hnth Hpf.
  rewrite (scan_line (mkSS (upd_nth i (fun _ => g) G) stt [] i) _ eq_refl (func_line_not_cr f)).
  assert (Hstep : race_goroutine_func_step (mkSS (upd_nth i (fun _ => g) G) stt [] i) (race_func_line f) =
                  Ok (mkSS (upd_nth i (fun _ => set_created_calls g (Calls (CreatedBy (GSig g)) ++ [c0])) G)
                           gotRaceGoroutineFunc [] i, true, None)).
  { unfold race_goroutine_func_step, func_step. rewrite Hpf. cbn [bind goroutines gindex].
    rewrite (nth_error_upd_const _ G i x g Hnth). cbn [bind].
    unfold with_gs, with_state, ret. cbn [goroutines st sprefix gindex].
    rewrite upd_nth_twice. reflexivity. }
  unfold scan_body. cbn [st]. destruct Hst as [-> | ->].
  - exact Hstep.
  - change (race_func_line f) with (32 :: 32 :: print_func_line (pf_sym f) (pf_args f) (pf_elided f)) at 1 2.
    cbv iota.
    replace (beq (32 :: 32 :: print_func_line (pf_sym f) (pf_args f) (pf_elided f)) race_header_footer)
      with false by reflexivity.
    exact Hstep.
Qed.

(* the file line, in a creation section *)
Lemma scan_cr_file : forall G i g f cs c0 c' x,
  nth_error G i = Some x ->
  Calls (CreatedBy (GSig g)) = cs ++ [c0] ->
  parse_file c0 (race_file_line f) = Some (c', None) ->
  scan (mkSS (upd_nth i (fun _ => g) G) gotRaceGoroutineFunc [] i) (race_file_line f ++ [LF]) =
  Ok (mkSS (upd_nth i (fun _ => set_created_calls g (cs ++ [c'])) G) gotRaceGoroutineFile [] i, true, None).
Proof.
  intros G i g f cs c0 c' x Hnth Hcs Hpf.
  rewrite (scan_line (mkSS (upd_nth i (fun _ => g) G) gotRaceGoroutineFunc [] i) _ eq_refl (file_line_not_cr f)).
  unfold scan_body. cbn [st goroutines gindex].
  rewrite (nth_error_upd_const _ G i x g Hnth).
  unfold file_step. rewrite Hcs, last_opt_app1, Hpf.
  unfold with_gs, with_state, ret. cbn [goroutines st sprefix gindex].
  rewrite upd_last_app1, upd_nth_twice. reflexivity.
Qed.

(* the two lines of one frame *)
Lemma cr_frame_steps : forall G i x g0 text calls stt f,
  stt = gotRaceGoroutineHeader \/ stt = gotRaceGoroutineFile ->
  nth_error G i = Some x -> frame_rt f ->
  Steps (mkSS (upd_nth i (fun _ => cr_goroutine g0 text calls) G) stt [] i) (race_frame_lines f)
        (mkSS (upd_nth i (fun _ => cr_goroutine g0 text (calls ++ [call_of_frame f])) G) gotRaceGoroutineFile [] i).
Proof.
  intros G i x g0 text calls stt f Hst Hnth ((c0 & Hpf & Hfile) & Hl1 & Hl2).
  unfold race_frame_lines.
  apply (Steps_cons _ _ (mkSS (upd_nth i (fun _ => cr_goroutine g0 text (calls ++ [c0])) G) gotRaceGoroutineFunc [] i)).
  - destruct Hst as [-> | ->]; reflexivity.
  - exact Hl1.
  - rewrite (scan_cr_func G i (cr_goroutine g0 text calls) stt f c0 x Hst Hnth Hpf).
    rewrite cr_created, <- app_assoc, cr_set_created. reflexivity.
  - apply Steps_one; [reflexivity|exact Hl2|].
    rewrite (scan_cr_file G i (cr_goroutine g0 text (calls ++ [c0])) f (Calls (CreatedBy (GSig g0)) ++ calls) c0
               (call_of_frame f) x Hnth).
    + rewrite <- app_assoc, cr_set_created. reflexivity.
    + rewrite cr_created, app_assoc. reflexivity.
    + exact Hfile.
Qed.

Lemma cr_frames_steps : forall frames G i x g0 text calls stt,
  stt = gotRaceGoroutineHeader \/ stt = gotRaceGoroutineFile ->
  nth_error G i = Some x -> Forall frame_rt frames ->
  Steps (mkSS (upd_nth i (fun _ => cr_goroutine g0 text calls) G) stt [] i) (race_frames_lines frames)
        (mkSS (upd_nth i (fun _ => cr_goroutine g0 text (calls ++ map call_of_frame frames)) G)
              (match frames with [] => stt | _ => gotRaceGoroutineFile end) [] i).
Proof.
  induction frames as [|f frames IH]; intros G i x g0 text calls stt Hst Hnth Hall.
  - cbn [race_frames_lines flat_map map]. rewrite app_nil_r. apply Steps_nil.
  - inversion Hall as [|f' fs' Hf Hfs]; subst.
    change (race_frames_lines (f :: frames)) with (race_frame_lines f ++ race_frames_lines frames).
    apply (Steps_app _ _ _ _ _ (cr_frame_steps G i x g0 text calls stt f Hst Hnth Hf)).
    specialize (IH G i x g0 text (calls ++ [call_of_frame f]) gotRaceGoroutineFile (or_intror eq_refl) Hnth Hfs).
    cbn [map]. rewrite <- app_assoc in IH. cbn [app] in IH.
    destruct frames; exact IH.
Qed.

(* one creation section: header and frames *)
Lemma creation_section_steps : forall G stt idx c i g0,
  stt = betweenRaceOperations \/ stt = betweenRaceGoroutines ->
  rc_gid c < dec_limit -> rc_frames c <> [] -> Forall frame_rt (rc_frames c) ->
  find_id (rc_gid c) 0 G = Some i -> nth_error G i = Some g0 ->
  Steps (mkSS G stt [] idx) (race_creation_lines c)
        (mkSS (upd_nth i (fun _ => cr_goroutine g0 (race_state_text (rc_running c)) (map call_of_frame (rc_frames c))) G)
              gotRaceGoroutineFile [] i).
Proof.
  intros G stt idx c i g0 Hst Hn Hne Hall Hfind Hnth. unfold race_creation_lines.
  apply (Steps_cons _ _ (mkSS (upd_nth i (fun _ => cr_goroutine g0 (race_state_text (rc_running c)) []) G)
                              gotRaceGoroutineHeader [] i)).
  - destruct Hst as [-> | ->]; reflexivity.
  - apply creation_header_no_lf.
  - apply scan_creation_header; assumption.
  - pose proof (cr_frames_steps (rc_frames c) G i g0 g0 (race_state_text (rc_running c)) []
                  gotRaceGoroutineHeader (or_introl eq_refl) Hnth Hall) as H.
    cbn [app] in H. destruct (rc_frames c) as [|f fs] eqn:E; [congruence|]. exact H.
Qed.
