(* Proofs/AugmentProofs.v — C19: augment_call (Model/Augment.v) renders the
   words of a -N -l traceback truthfully when the parameter types are known
   (Spec/Abi.v), never panics (but for the documented corner extra = true with
   no type at all, which extractArgumentsType cannot produce), and degrades to
   raw words on any arity mismatch. *)
From PP Require Import Base.Bytes Base.BytesX Base.Num Base.GoResult Model.Types Model.UI Model.Augment Spec.Abi.
From Coq Require Import String Lia.

(* ------------------------------------------------------------------ *)
(* two's complement                                                    *)
(* ------------------------------------------------------------------ *)
Lemma signed_of_zext : forall b z, (0 < b)%N ->
  (- 2 ^ (Z.of_N b - 1) <= z < 2 ^ (Z.of_N b - 1))%Z -> signed b (zext b z) = z.
Proof.
  intros b z Hb Hz.
  set (M := (2 ^ (Z.of_N b - 1))%Z) in *.
  assert (HM : (0 < M)%Z) by (apply Z.pow_pos_nonneg; lia).
  assert (E2 : (2 ^ Z.of_N b = 2 * M)%Z).
  { unfold M. rewrite <- Z.pow_succ_r by lia. f_equal. lia. }
  assert (N2 : Z.of_N (2 ^ b) = (2 * M)%Z) by (rewrite N2Z.inj_pow; exact E2).
  assert (N1 : Z.of_N (2 ^ (b - 1)) = M).
  { rewrite N2Z.inj_pow. unfold M. f_equal. rewrite N2Z.inj_sub by lia. reflexivity. }
  unfold signed, zext. cbv zeta. rewrite E2.
  assert (EW : (z mod (2 * M) = if z <? 0 then z + 2 * M else z)%Z).
  { destruct (z <? 0)%Z eqn:En.
    - apply Z.ltb_lt in En. rewrite <- (Z_mod_plus_full z 1 (2 * M)). rewrite Z.mod_small by lia. lia.
    - apply Z.ltb_ge in En. apply Z.mod_small. lia. }
  set (w := Z.to_N (z mod (2 * M))).
  assert (Hw : Z.of_N w = (z mod (2 * M))%Z).
  { unfold w. apply Z2N.id. apply Z.mod_pos_bound. lia. }
  assert (Hlt : (w < 2 ^ b)%N).
  { apply N2Z.inj_lt. rewrite Hw, N2. apply Z.mod_pos_bound. lia. }
  rewrite (N.mod_small w (2 ^ b) Hlt).
  destruct (N.ltb w (2 ^ (b - 1))) eqn:EL.
  - apply N.ltb_lt in EL. apply N2Z.inj_lt in EL. rewrite N1, Hw, EW in EL.
    rewrite Hw, EW. destruct (z <? 0)%Z eqn:En; [apply Z.ltb_lt in En; lia | reflexivity].
  - apply N.ltb_ge in EL. apply N2Z.inj_le in EL. rewrite N1, Hw, EW in EL.
    rewrite Hw, EW, N2. destruct (z <? 0)%Z eqn:En; [lia | apply Z.ltb_ge in En; lia].
Qed.

(* the word is a 64-bit word *)
Lemma zext_lt : forall b z, (zext b z < 2 ^ b)%N.
Proof.
  intros b z. unfold zext. apply N2Z.inj_lt.
  assert (H : (0 < 2 ^ Z.of_N b)%Z) by (apply Z.pow_pos_nonneg; lia).
  rewrite Z2N.id by (apply Z.mod_pos_bound; exact H).
  rewrite N2Z.inj_pow. apply Z.mod_pos_bound. exact H.
Qed.

Lemma has_prefix_nil s : has_prefix s [] = true.
Proof. destruct s; reflexivity. Qed.

(* literal strings to explicit byte lists, then decide the switch *)
Ltac norm_lits :=
  repeat match goal with
  | |- context [s2b ?s] => let v := eval vm_compute in (s2b s) in change (s2b s) with v
  end.
Ltac class_tac :=
  unfold augment_one, has_pfx; norm_lits;
  cbn [app beq has_prefix N.eqb Pos.eqb andb orb]; rewrite ?has_prefix_nil; reflexivity.

Section Proofs.
  Variables f32 f64 : N -> bytes.
  Variable isptr : N -> bool.

  Notation warg := (word_arg isptr).
  Notation aone := (augment_one f32 f64).
  Notation aloop := (augment_loop f32 f64).
  Notation acall := (augment_call f32 f64).
  Notation shw := (show f32 f64).

  (* ------------------------------------------------------------------ *)
  (* the classification of type names, for arbitrary elem / text         *)
  (* ------------------------------------------------------------------ *)
  Lemma one_ptr vals i elem flat :
    aone vals i (s2b "*" ++ elem) flat =
    let '(nm, f1) := pop_name flat in ((s2b "*" ++ elem) ++ s2b "(" ++ nm ++ s2b ")", f1).
  Proof. class_tac. Qed.
  Lemma one_map vals i text flat :
    aone vals i (s2b "map[" ++ text) flat =
    let '(nm, f1) := pop_name flat in ((s2b "map[" ++ text) ++ s2b "(" ++ nm ++ s2b ")", f1).
  Proof. class_tac. Qed.
  Lemma one_chan vals i text flat :
    aone vals i (s2b "chan " ++ text) flat =
    let '(nm, f1) := pop_name flat in ((s2b "chan " ++ text) ++ s2b "(" ++ nm ++ s2b ")", f1).
  Proof. class_tac. Qed.
  Lemma one_slice vals i elem flat :
    aone vals i (s2b "[]" ++ elem) flat =
    let '(nm, f1) := pop_name flat in
    let '(ln, f2) := pop_fmt udec f1 in
    let '(cp, f3) := pop_fmt udec f2 in
    ((s2b "[]" ++ elem) ++ s2b "(" ++ nm ++ s2b " len=" ++ ln ++ s2b " cap=" ++ cp ++ s2b ")", f3).
  Proof. class_tac. Qed.

  (* which branch of the switch a parameter's type name selects: the number
     of words it consumes is the number of words it occupies, whatever the
     element / key texts are *)
  Theorem type_name_class : forall vals i p flat,
    snd (aone vals i (type_name p) flat) = skipn (List.length (encode p)) flat.
  Proof.
    intros vals i p flat.
    destruct p as [b|sz z|sz n|bits|bits|ptr len|elem ptr len cap|elem ptr|text ptr|text ptr|ptr];
      cbn [type_name encode List.length];
      try (destruct sz); try rewrite one_ptr; try rewrite one_map; try rewrite one_chan; try rewrite one_slice;
      destruct flat as [|a1 [|a2 [|a3 flat]]]; reflexivity.
  Qed.

  (* ------------------------------------------------------------------ *)
  (* one parameter                                                       *)
  (* ------------------------------------------------------------------ *)
  Lemma pop_name_warg w rest : pop_name (warg w :: rest) = (hex0x w, rest).
  Proof. reflexivity. Qed.
  Lemma pop_fmt_warg f w rest : pop_fmt f (warg w :: rest) = (f w, rest).
  Proof. reflexivity. Qed.

  Lemma int_range sz z :
    wf_param (PInt sz z) = true ->
    (0 < size_bits sz)%N /\
    (- 2 ^ (Z.of_N (size_bits sz) - 1) <= z < 2 ^ (Z.of_N (size_bits sz) - 1))%Z.
  Proof.
    cbn [wf_param]. cbv zeta. intros H. apply andb_true_iff in H as [H1 H2].
    apply Z.leb_le in H1. apply Z.ltb_lt in H2. split; [destruct sz; reflexivity | lia].
  Qed.

  Lemma aone_param vals i p rest : wf_param p = true ->
    aone vals i (type_name p) (map warg (encode p) ++ rest) = (shw p, rest).
  Proof.
    intros Hwf.
    destruct p as [b|sz z|sz n|bits|bits|ptr len|elem ptr len cap|elem ptr|text ptr|text ptr|ptr];
      cbn [type_name encode map app show].
    - destruct b; reflexivity.
    - destruct (int_range sz z Hwf) as [Hb Hz].
      assert (E : aone vals i (s2b "int" ++ size_suffix sz) (warg (zext (size_bits sz) z) :: rest) =
                  (Z_to_dec (signed (size_bits sz) (zext (size_bits sz) z)), rest))
        by (destruct sz; reflexivity).
      rewrite E, (signed_of_zext _ _ Hb Hz). reflexivity.
    - destruct sz; reflexivity.
    - reflexivity.
    - reflexivity.
    - reflexivity.
    - rewrite one_slice. reflexivity.
    - rewrite one_ptr. reflexivity.
    - rewrite one_map. reflexivity.
    - rewrite one_chan. reflexivity.
    - reflexivity.
  Qed.

  Lemma encode_cons p : exists w ws, encode p = w :: ws.
  Proof. destruct p; cbn [encode]; eauto. Qed.

  (* ------------------------------------------------------------------ *)
  (* the loop                                                            *)
  (* ------------------------------------------------------------------ *)
  Lemma aloop_nil fuel types extra vals i acc : aloop fuel types extra vals i [] acc = Ok acc.
  Proof. destruct fuel; reflexivity. Qed.

  Lemma aloop_cons f types extra vals i a fl acc :
    aloop (S f) types extra vals i (a :: fl) acc =
    match nth_error types i with
    | Some t => let '(s, fl') := aone vals i t (a :: fl) in aloop f types extra vals (S i) fl' (acc ++ [s])
    | None =>
        if negb extra then let '(s, fl') := pop_name (a :: fl) in aloop f types extra vals (S i) fl' (acc ++ [s])
        else match last_opt types with
             | None => Panic "index out of range [-1]"
             | Some t => let '(s, fl') := aone vals i t (a :: fl) in aloop f types extra vals (S i) fl' (acc ++ [s])
             end
    end.
  Proof. reflexivity. Qed.

  (* what popName shows for a leaf *)
  Definition raw_arg (a : Arg) : bytes := fst (pop_name [a]).

  Lemma raw_arg_warg w : raw_arg (warg w) = raw_word w.
  Proof. reflexivity. Qed.

  (* past the declared (non-variadic) parameters every leaf is shown raw *)
  Lemma aloop_raw : forall flat fuel types vals i acc,
    List.length types <= i -> List.length flat <= fuel ->
    aloop fuel types false vals i flat acc = Ok (acc ++ map raw_arg flat).
  Proof.
    induction flat as [|a flat IH]; intros fuel types vals i acc Hi Hf.
    - rewrite aloop_nil, app_nil_r. reflexivity.
    - destruct fuel as [|f]; [cbn in Hf; lia|]. rewrite aloop_cons.
      assert (EN : nth_error types i = None) by (apply nth_error_None; exact Hi).
      rewrite EN. cbn [negb pop_name].
      rewrite IH by (cbn in Hf; lia). rewrite <- app_assoc. reflexivity.
  Qed.

  Lemma aloop_truthful : forall ps fuel pre vals acc rest,
    forallb wf_param ps = true -> List.length ps + List.length rest <= fuel ->
    aloop fuel (pre ++ map type_name ps) false vals (List.length pre)
          (map warg (flat_map encode ps) ++ rest) acc =
    Ok (acc ++ map shw ps ++ map raw_arg rest).
  Proof.
    induction ps as [|p ps IH]; intros fuel pre vals acc rest Hwf Hf.
    - cbn [map flat_map app]. rewrite app_nil_r. apply aloop_raw; [lia | exact Hf].
    - cbn [forallb] in Hwf. apply andb_true_iff in Hwf as [Hp Hps].
      destruct fuel as [|f]; [cbn in Hf; lia|].
      cbn [flat_map map]. rewrite map_app, <- app_assoc.
      destruct (encode_cons p) as (w & ws & Ew).
      assert (EL : map warg (encode p) ++ map warg (flat_map encode ps) ++ rest =
                   warg w :: (map warg ws ++ map warg (flat_map encode ps) ++ rest))
        by (rewrite Ew; reflexivity).
      rewrite EL, aloop_cons, <- EL.
      assert (EN : nth_error (pre ++ type_name p :: map type_name ps) (List.length pre) = Some (type_name p)).
      { rewrite nth_error_app2 by lia. rewrite Nat.sub_diag. reflexivity. }
      rewrite EN, (aone_param vals (List.length pre) p _ Hp).
      replace (pre ++ type_name p :: map type_name ps) with ((pre ++ [type_name p]) ++ map type_name ps)
        by (rewrite <- app_assoc; reflexivity).
      replace (S (List.length pre)) with (List.length (pre ++ [type_name p]))
        by (rewrite app_length; cbn; lia).
      rewrite IH by (try exact Hps; cbn in Hf; lia).
      rewrite <- app_assoc. reflexivity.
  Qed.

  Lemma leaves_of_words ws : args_leaves (args_of_words isptr ws) = map warg ws.
  Proof.
    unfold args_leaves, args_of_words. cbn [Values].
    induction ws as [|w ws IH]; [reflexivity|]. cbn [map flat_map]. rewrite IH. reflexivity.
  Qed.

  Lemma encode_length_pos p : 1 <= List.length (encode p).
  Proof. destruct p; cbn; lia. Qed.

  Lemma flat_encode_length ps : List.length ps <= List.length (flat_map encode ps).
  Proof.
    induction ps as [|p ps IH]; [reflexivity|]. cbn [flat_map List.length]. rewrite app_length.
    pose proof (encode_length_pos p). lia.
  Qed.

  (* ------------------------------------------------------------------ *)
  (* truthfulness                                                        *)
  (* ------------------------------------------------------------------ *)
  Theorem extra_words_rendered_raw : forall ps ws,
    forallb wf_param ps = true ->
    acall (map type_name ps) false (args_of_words isptr (flat_map encode ps ++ ws)) =
    Ok (map shw ps ++ map raw_word ws).
  Proof.
    intros ps ws Hwf. unfold augment_call. rewrite leaves_of_words.
    cbn [Values Processed args_of_words]. rewrite map_app.
    rewrite (aloop_truthful ps _ [] _ [] (map warg ws) Hwf).
    - cbn [app]. rewrite map_map. reflexivity.
    - rewrite !app_length, !map_length. pose proof (flat_encode_length ps). lia.
  Qed.

  Theorem truthful : forall ps,
    forallb wf_param ps = true ->
    acall (map type_name ps) false (args_of_words isptr (flat_map encode ps)) = Ok (map shw ps).
  Proof.
    intros ps Hwf. pose proof (extra_words_rendered_raw ps [] Hwf) as H.
    rewrite !app_nil_r in H. exact H.
  Qed.

  (* a method with a pointer receiver: the receiver is the first word *)
  Theorem truthful_ptr_receiver : forall T recv ps,
    word_ok recv = true -> forallb wf_param ps = true ->
    acall ((s2b "*" ++ T) :: map type_name ps) false (args_of_words isptr (recv :: flat_map encode ps)) =
    Ok (((s2b "*" ++ T) ++ s2b "(" ++ hex0x recv ++ s2b ")") :: map shw ps).
  Proof.
    intros T recv ps Hr Hwf. apply (truthful (PPtr T recv :: ps)).
    cbn [forallb wf_param]. rewrite Hr, Hwf. reflexivity.
  Qed.

  (* no type information at all: every leaf raw *)
  Theorem untyped_rendered_raw : forall a,
    acall [] false a = Ok (Processed a ++ map raw_arg (args_leaves a)).
  Proof. intros a. unfold augment_call. apply aloop_raw; cbn; lia. Qed.

  (* ------------------------------------------------------------------ *)
  (* totality                                                            *)
  (* ------------------------------------------------------------------ *)
  Lemma pop_name_snd flat : snd (pop_name flat) = tl flat.
  Proof. destruct flat; reflexivity. Qed.
  Lemma pop_fmt_snd f flat : snd (pop_fmt f flat) = tl flat.
  Proof. destruct flat; reflexivity. Qed.

  Lemma popn_snd : forall n fl,
    snd ((fix popn (k : nat) (fl : list Arg) : list bytes * list Arg :=
            match k with
            | O => ([], fl)
            | S k' => let '(x, fl1) := pop_name fl in let '(xs, fl2) := popn k' fl1 in (x :: xs, fl2)
            end) n fl) = skipn n fl.
  Proof.
    induction n as [|n IH]; intros fl; [reflexivity|].
    destruct fl as [|a fl].
    - specialize (IH []). cbn [pop_name]. cbn [pop_name] in IH.
      match goal with |- snd (let '(xs, fl2) := ?X in _) = _ => destruct X as [xs fl2] end.
      cbn [snd] in *. rewrite IH. destruct n; reflexivity.
    - specialize (IH fl). cbn [pop_name].
      match goal with |- snd (let '(xs, fl2) := ?X in _) = _ => destruct X as [xs fl2] end.
      cbn [snd skipn] in *. exact IH.
  Qed.

  (* every iteration consumes k leaves; k = 0 only for an empty aggregate at a
     top-level index *)
  Lemma aone_consumes vals i t flat :
    exists k, snd (aone vals i t flat) = skipn k flat /\ (k = 0 -> i < List.length vals).
  Proof.
    unfold augment_one.
    assert (PF : forall f, exists k, snd (pop_fmt f flat) = skipn k flat /\ (k = 0 -> i < List.length vals)).
    { intros f. exists 1. rewrite pop_fmt_snd. split; [destruct flat; reflexivity | discriminate]. }
    destruct (beq t (s2b "float32")); [apply PF|].
    destruct (beq t (s2b "float64")); [apply PF|].
    destruct (beq t (s2b "int") || beq t (s2b "int64")); [apply PF|].
    destruct (beq t (s2b "int8")); [apply PF|].
    destruct (beq t (s2b "int16")); [apply PF|].
    destruct (beq t (s2b "int32")); [apply PF|].
    destruct (beq t (s2b "uint") || beq t (s2b "uint8") || beq t (s2b "uint16") || beq t (s2b "uint32") || beq t (s2b "uint64"));
      [apply PF|].
    destruct (beq t (s2b "bool")); [apply PF|].
    clear PF.
    destruct (beq t (s2b "string")); [|destruct (has_pfx t "*" || beq t (s2b "func") || has_pfx t "map[" || has_pfx t "chan ");
                                       [|destruct (has_pfx t "[]")]].
    - exists 2. destruct flat as [|a1 [|a2 flat]]; split; try reflexivity; discriminate.
    - exists 1. destruct flat as [|a1 flat]; split; try reflexivity; discriminate.
    - exists 3. destruct flat as [|a1 [|a2 [|a3 flat]]]; split; try reflexivity; discriminate.
    - destruct (nth_error vals i) as [a|] eqn:EN.
      + destruct a as [ag nm v p tl ia fv fp fe]. destruct ag.
        * exists (List.length (arg_leaves (MkArg true nm v p tl ia fv fp fe))).
          split; [|intros _; apply nth_error_Some; congruence].
          pose proof (popn_snd (List.length (arg_leaves (MkArg true nm v p tl ia fv fp fe))) flat) as HS.
          match goal with |- snd (let '(fields, f1) := ?X in _) = ?R =>
            change (snd X = R) in HS; destruct X as [fields f1] end.
          cbn [snd] in *. exact HS.
        * exists 2. destruct flat as [|a1 [|a2 flat]]; split; try reflexivity; discriminate.
      + exists 2. destruct flat as [|a1 [|a2 flat]]; split; try reflexivity; discriminate.
  Qed.

  Lemma skipn_length_le {A} k (l : list A) : List.length (skipn k l) <= List.length l.
  Proof. rewrite skipn_length. lia. Qed.

  (* the measure: leaves left + top-level values not yet passed *)
  Lemma aloop_total : forall fuel types extra vals i flat acc,
    (extra = true -> types <> []) ->
    List.length flat + (List.length vals - i) < fuel ->
    exists more, aloop fuel types extra vals i flat acc = Ok (acc ++ more) /\
                 List.length more <= List.length flat + (List.length vals - i).
  Proof.
    induction fuel as [|f IH]; intros types extra vals i flat acc Hex Hf; [lia|].
    destruct flat as [|a fl].
    - exists []. rewrite aloop_nil, app_nil_r. split; [reflexivity | cbn; lia].
    - rewrite aloop_cons.
      assert (STEP : forall t,
        exists more, (let '(s, fl') := aone vals i t (a :: fl) in aloop f types extra vals (S i) fl' (acc ++ [s]))
                     = Ok (acc ++ more) /\
                     List.length more <= List.length (a :: fl) + (List.length vals - i)).
      { intros t. destruct (aone_consumes vals i t (a :: fl)) as (k & Ek & Hk).
        destruct (aone vals i t (a :: fl)) as [s fl'] eqn:E1. cbn [snd] in Ek. subst fl'.
        assert (Hm : List.length (skipn k (a :: fl)) + (List.length vals - S i) <
                     List.length (a :: fl) + (List.length vals - i)).
        { destruct k as [|k].
          - specialize (Hk eq_refl). cbn [skipn]. lia.
          - cbn [skipn List.length]. pose proof (skipn_length_le k fl). lia. }
        destruct (IH types extra vals (S i) (skipn k (a :: fl)) (acc ++ [s]) Hex) as (more & EM & HL); [lia|].
        exists (s :: more). rewrite EM, <- app_assoc. split; [reflexivity | cbn [List.length] in *; lia]. }
      destruct (nth_error types i) as [t|] eqn:EN; [apply STEP|].
      destruct extra; cbn [negb].
      + destruct (last_opt types) as [t|] eqn:EL; [apply STEP|].
        exfalso. apply (Hex eq_refl). destruct types as [|x types]; [reflexivity|].
        clear - EL. exfalso. revert x EL. induction types as [|y types IHt]; intros x EL; [discriminate|].
        apply (IHt y). exact EL.
      + cbn [pop_name].
        destruct (IH types false vals (S i) fl
                     (acc ++ [match Name a with
                              | [] => if IsOffsetTooLarge a then s2b "_" else s2b "0x" ++ N_to_hex false (Value a)
                              | _ :: _ => Name a
                              end]) Hex) as (more & EM & HL); [cbn [List.length] in Hf; lia|].
        eexists (_ :: more). rewrite EM, <- app_assoc. split; [reflexivity | cbn [List.length] in *; lia].
  Qed.

  (* for ALL inputs, provided a variadic function has a parameter *)
  Theorem total : forall types extra a,
    (extra = true -> types <> []) -> exists r, acall types extra a = Ok r.
  Proof.
    intros types extra a Hex. unfold augment_call.
    destruct (aloop_total (List.length (args_leaves a) + List.length (Values a) + List.length types + 2)
                          types extra (Values a) 0 (args_leaves a) (Processed a) Hex) as (more & E & _); [lia|].
    eauto.
  Qed.

  (* any arity mismatch: still Ok, what was already processed is kept, and at
     most one entry is added per leaf word and per top-level value *)
  Theorem arity_mismatch_harmless : forall types extra a,
    (extra = true -> types <> []) ->
    exists more, acall types extra a = Ok (Processed a ++ more) /\
                 List.length more <= List.length (args_leaves a) + List.length (Values a).
  Proof.
    intros types extra a Hex. unfold augment_call.
    destruct (aloop_total (List.length (args_leaves a) + List.length (Values a) + List.length types + 2)
                          types extra (Values a) 0 (args_leaves a) (Processed a) Hex) as (more & E & HL); [lia|].
    exists more. split; [exact E | lia].
  Qed.

  (* the documented corner: types[len(types)-1] with no types *)
  Theorem extra_empty_panics : forall a,
    args_leaves a <> [] -> acall [] true a = Panic "index out of range [-1]".
  Proof.
    intros a Hne. unfold augment_call. destruct (args_leaves a) as [|x fl]; [contradiction|].
    cbn [List.length]. rewrite !Nat.add_0_r. rewrite Nat.add_comm. reflexivity.
  Qed.

  Theorem extra_empty_no_words : forall a, args_leaves a = [] -> acall [] true a = Ok (Processed a).
  Proof. intros a E. unfold augment_call. rewrite E. apply aloop_nil. Qed.
End Proofs.
