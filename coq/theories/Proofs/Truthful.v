(* Proofs/Truthful.v — C12: a bucket's signature truthfully generalises its
   members.  Signature-level step lemmas, the invariant of the bucketing loop
   and the theorems referred to by Properties/C12.v. *)
From PP Require Import Base.Bytes Base.GoResult Model.Types Model.Stack Model.Bucket Spec.BucketSpec.
From PP Require Import Proofs.TruthfulBase.

Local Open Scope Z_scope.

(* ------------------------------------------------------------------ *)
(* creator stacks with the arguments stripped                          *)
Definition strip_call (c : Call) : Call :=
  mkCall (CFunc c) emptyArgs (RemoteSrcPath c) (Line c) (SrcName c) (DirSrc c)
         (LocalSrcPath c) (RelSrcPath c) (CImportPath c) (CLocation c).
Definition strip_stack (s : Stack) : Stack := mkStack (map strip_call (Calls s)) (SElided s).

Lemma strip_calls_equal lvl l1 : forall l2,
  calls_similar lvl l1 l2 = true -> calls_equal (map strip_call l1) (map strip_call l2) = true.
Proof.
  induction l1 as [|x l1 IH]; intros [|y l2] H; simpl in *; try discriminate; [reflexivity|].
  apply andb_true_iff in H. destruct H as [Hc Hl]. rewrite (IH _ Hl), andb_true_r.
  unfold call_similar in Hc. apply andb_true_iff in Hc. destruct Hc as [Hc _].
  unfold call_equal. simpl. rewrite Hc. reflexivity.
Qed.

Lemma strip_stack_equal lvl a b :
  stack_similar lvl a b = true -> stack_equal (strip_stack a) (strip_stack b) = true.
Proof.
  unfold stack_similar, stack_equal. intros H. apply andb_true_iff in H. destruct H as [He Hl].
  simpl. rewrite He. simpl. eapply strip_calls_equal; eauto.
Qed.

(* ------------------------------------------------------------------ *)
(* what Signature.similar / Signature.equal give                       *)
Lemma sig_similar_inv lvl k m : sig_similar lvl k m = true ->
  beq (State k) (State m) = true /\ stack_similar lvl (CreatedBy k) (CreatedBy m) = true /\
  stack_similar lvl (SStack k) (SStack m) = true.
Proof.
  unfold sig_similar. intros H.
  destruct (beq (State k) (State m)); [|discriminate].
  destruct (stack_similar lvl (CreatedBy k) (CreatedBy m)); [|discriminate].
  simpl in H.
  destruct ((match lvl with ExactFlags => true | _ => false end) && negb (Bool.eqb (Locked k) (Locked m)));
    [discriminate|]. auto.
Qed.

Lemma sig_equal_inv k m : sig_equal k m = true ->
  Locked k = Locked m /\ SleepMin k = SleepMin m /\ SleepMax k = SleepMax m /\
  stack_equal (SStack k) (SStack m) = true.
Proof.
  unfold sig_equal. intros H.
  destruct (beq (State k) (State m)); [|discriminate].
  destruct (stack_equal (CreatedBy k) (CreatedBy m)); [|discriminate].
  destruct (Bool.eqb (Locked k) (Locked m)) eqn:HL; [|discriminate].
  destruct (Z.eqb (SleepMin k) (SleepMin m)) eqn:Hmin; [|discriminate].
  destruct (Z.eqb (SleepMax k) (SleepMax m)) eqn:Hmax; [|discriminate].
  simpl in H. apply beqb_true in HL. apply Z.eqb_eq in Hmin. apply Z.eqb_eq in Hmax. auto.
Qed.

(* ------------------------------------------------------------------ *)
(* min / max over the members                                          *)
Lemma zmin_list_snoc d l x : zmin_list d (l ++ [x]) = Z.min (zmin_list d l) x.
Proof.
  unfold zmin_list. rewrite fold_right_app. simpl.
  induction l as [|a l IH]; simpl; [lia|]. rewrite IH. lia.
Qed.

Lemma zmax_list_snoc d l x : zmax_list d (l ++ [x]) = Z.max (zmax_list d l) x.
Proof.
  unfold zmax_list. rewrite fold_right_app. simpl.
  induction l as [|a l IH]; simpl; [lia|]. rewrite IH. lia.
Qed.

(* ------------------------------------------------------------------ *)
(* the relation "key k generalises the members ms (in arrival order)"  *)
Definition sig_rel (k : Signature) (ms : list Signature) : Prop :=
  match ms with
  | [] => False
  | m1 :: _ =>
      forallb (fun m => beq (State m) (State k)) ms = true /\
      c12_stack (strip_stack (CreatedBy k)) (map (fun m => strip_stack (CreatedBy m)) ms) = true /\
      c12_stack (SStack k) (map SStack ms) = true /\
      SleepMin k = zmin_list (SleepMin m1) (map SleepMin ms) /\
      SleepMax k = zmax_list (SleepMax m1) (map SleepMax ms) /\
      Locked k = existsb Locked ms
  end.

Lemma sig_rel_init m : sig_rel m [m].
Proof.
  simpl. rewrite beq_refl, !c12_stack_init. repeat split; try reflexivity.
  - simpl. lia.
  - simpl. lia.
  - now rewrite orb_false_r.
Qed.

Lemma sig_rel_nonempty k ms : sig_rel k ms -> ms <> [].
Proof. destruct ms; simpl; [tauto|congruence]. Qed.

(* the parts common to both branches of the loop body *)
Lemma sig_rel_step_common lvl k ms m :
  sig_rel k ms -> sig_similar lvl k m = true ->
  forallb (fun x => beq (State x) (State k)) (ms ++ [m]) = true /\
  c12_stack (strip_stack (CreatedBy k)) (map (fun x => strip_stack (CreatedBy x)) (ms ++ [m])) = true.
Proof.
  intros Hr Hs. pose proof (sig_rel_nonempty _ _ Hr) as Hne.
  destruct ms as [|m1 ms]; [contradiction|].
  destruct Hr as (Hst & Hcr & _).
  destruct (sig_similar_inv _ _ _ Hs) as (Hs1 & Hs2 & _).
  split.
  - rewrite forallb_snoc, Hst. simpl. now rewrite beq_sym.
  - rewrite map_app. simpl map at 2. apply stack_step_equal; trivial.
    + apply map_nonempty. congruence.
    + eapply strip_stack_equal; eauto.
Qed.

Lemma sig_rel_merge lvl k ms m :
  sig_rel k ms -> sig_similar lvl k m = true -> sig_rel (sig_merge k m) (ms ++ [m]).
Proof.
  intros Hr Hs. destruct (sig_rel_step_common _ _ _ _ Hr Hs) as (Hst' & Hcr').
  destruct ms as [|m1 ms]; [contradiction|].
  destruct Hr as (Hst & Hcr & Hmain & Hmin & Hmax & Hlk).
  destruct (sig_similar_inv _ _ _ Hs) as (_ & _ & Hs3).
  change ((m1 :: ms) ++ [m]) with (m1 :: (ms ++ [m])).
  change (m1 :: (ms ++ [m])) with ((m1 :: ms) ++ [m]).
  unfold sig_rel. cbn [app]. change (m1 :: ms ++ [m]) with ((m1 :: ms) ++ [m]).
  split; [exact Hst'|]. split; [exact Hcr'|]. split; [|split; [|split]].
  - simpl SStack. rewrite map_app. simpl map at 2.
    apply stack_step_merge with (lvl := lvl); trivial. apply map_nonempty. congruence.
  - simpl SleepMin. rewrite map_app. simpl map at 2. rewrite zmin_list_snoc, <- Hmin.
    destruct (Z.ltb_spec (SleepMin m) (SleepMin k)); lia.
  - simpl SleepMax. rewrite map_app. simpl map at 2. rewrite zmax_list_snoc, <- Hmax.
    rewrite Z.gtb_ltb. destruct (Z.ltb_spec (SleepMax k) (SleepMax m)); lia.
  - simpl Locked. rewrite existsb_snoc, <- Hlk. reflexivity.
Qed.

Lemma sig_rel_equal lvl k ms m :
  sig_rel k ms -> sig_similar lvl k m = true -> sig_equal k m = true -> sig_rel k (ms ++ [m]).
Proof.
  intros Hr Hs He. destruct (sig_rel_step_common _ _ _ _ Hr Hs) as (Hst' & Hcr').
  destruct ms as [|m1 ms]; [contradiction|].
  destruct Hr as (Hst & Hcr & Hmain & Hmin & Hmax & Hlk).
  destruct (sig_equal_inv _ _ He) as (HeL & Hemin & Hemax & Hestk).
  unfold sig_rel. cbn [app]. change (m1 :: ms ++ [m]) with ((m1 :: ms) ++ [m]).
  split; [exact Hst'|]. split; [exact Hcr'|]. split; [|split; [|split]].
  - rewrite map_app. simpl map at 2.
    apply stack_step_equal; trivial. apply map_nonempty. congruence.
  - rewrite map_app. simpl map at 2. rewrite zmin_list_snoc, <- Hmin. lia.
  - rewrite map_app. simpl map at 2. rewrite zmax_list_snoc, <- Hmax. lia.
  - rewrite existsb_snoc, <- Hlk, <- HeL. now destruct (Locked k).
Qed.

Lemma sig_rel_bucket gs b : sig_rel (BSig b) (map GSig (members gs b)) -> c12_bucket gs b = true.
Proof.
  unfold c12_bucket. intros H.
  destruct (map GSig (members gs b)) as [|m1 ms] eqn:E; [reflexivity|].
  destruct H as (Hst & Hcr & Hmain & Hmin & Hmax & Hlk).
  apply andb_true_iff; split; [apply andb_true_iff; split; [apply andb_true_iff; split;
    [apply andb_true_iff; split; [apply andb_true_iff; split|]|]|]|].
  - exact Hst.
  - exact Hcr.
  - exact Hmain.
  - apply Z.eqb_eq. exact Hmin.
  - apply Z.eqb_eq. exact Hmax.
  - rewrite Hlk. apply Bool.eqb_reflx.
Qed.

(* ------------------------------------------------------------------ *)
(* ids: membership, duplicates, sorting                                *)
Lemma memZ_In x l : memZ x l = true <-> In x l.
Proof.
  unfold memZ. rewrite existsb_exists. split.
  - intros (y & Hy & He). apply Z.eqb_eq in He. now subst.
  - intros H. exists x. split; [exact H|apply Z.eqb_refl].
Qed.

Lemma memZ_false_notin x l : memZ x l = false <-> ~ In x l.
Proof. rewrite <- memZ_In. destruct (memZ x l); split; congruence. Qed.

Lemma nodupZ_mid l1 : forall x l2, nodupZ (l1 ++ x :: l2) = true -> memZ x l1 = false.
Proof.
  induction l1 as [|a l1 IH]; intros x l2 H; simpl in *; [reflexivity|].
  apply andb_true_iff in H. destruct H as [Ha Hn].
  rewrite (IH _ _ Hn), orb_false_r.
  apply negb_true_iff in Ha. apply memZ_false_notin in Ha.
  apply Z.eqb_neq. intros ->. apply Ha. apply in_or_app. right. now left.
Qed.

Lemma insert_stable_in {A} (before : A -> A -> bool) x y l : In y (insert_stable before x l) <-> y = x \/ In y l.
Proof.
  induction l as [|a l IH]; simpl.
  - intuition.
  - destruct (before a x); simpl; rewrite ?IH; intuition.
Qed.

Lemma sort_stable_in {A} (before : A -> A -> bool) y l : In y (sort_stable before l) <-> In y l.
Proof.
  induction l as [|a l IH]; simpl; [tauto|].
  rewrite insert_stable_in, IH. intuition.
Qed.

Lemma memZ_sort_ints x l : memZ x (sort_ints l) = memZ x l.
Proof.
  destruct (memZ x l) eqn:E.
  - apply memZ_In. apply sort_stable_in. now apply memZ_In.
  - apply memZ_false_notin. intros H. apply sort_stable_in in H. apply memZ_In in H. congruence.
Qed.

Lemma filter_ext_in' {A} (f g : A -> bool) l : (forall x, In x l -> f x = g x) -> filter f l = filter g l.
Proof.
  induction l as [|a l IH]; intros H; simpl; [reflexivity|].
  rewrite (H a (or_introl eq_refl)), IH; [reflexivity|]. intros x Hx. apply H. now right.
Qed.

(* ------------------------------------------------------------------ *)
(* the invariant of the bucketing loop                                 *)
Definition mem_of (seen : list Goroutine) (ids : list Z) : list Goroutine :=
  filter (fun g => memZ (ID g) ids) seen.

Definition entry_ok (seen : list Goroutine) (e : entry) : Prop :=
  incl (eids e) (map ID seen) /\ sig_rel (ekey e) (map GSig (mem_of seen (eids e))).

Lemma mem_of_other seen g ids :
  incl ids (map ID seen) -> memZ (ID g) (map ID seen) = false -> mem_of (seen ++ [g]) ids = mem_of seen ids.
Proof.
  intros Hincl Hg. unfold mem_of. rewrite filter_app. simpl.
  destruct (memZ (ID g) ids) eqn:E.
  - apply memZ_In in E. apply Hincl in E. apply memZ_In in E. congruence.
  - apply app_nil_r.
Qed.

Lemma mem_of_added seen g ids :
  memZ (ID g) (map ID seen) = false -> mem_of (seen ++ [g]) (ids ++ [ID g]) = mem_of seen ids ++ [g].
Proof.
  intros Hg. unfold mem_of. rewrite filter_app. f_equal.
  - apply filter_ext_in'. intros x Hx. unfold memZ. rewrite existsb_snoc.
    assert (Hne : Z.eqb (ID x) (ID g) = false).
    { apply Z.eqb_neq. intros Heq. apply memZ_false_notin in Hg. apply Hg. rewrite <- Heq. now apply in_map. }
    now rewrite Hne, orb_false_r.
  - simpl. unfold memZ. now rewrite existsb_snoc, Z.eqb_refl, orb_true_r.
Qed.

Lemma mem_of_nil seen : mem_of seen [] = [].
Proof. unfold mem_of. induction seen as [|a l IH]; simpl; [reflexivity|exact IH]. Qed.

Lemma incl_snoc_seen ids seen g : incl ids (map ID seen) -> incl ids (map ID (seen ++ [g])).
Proof. intros H x Hx. rewrite map_app. apply in_or_app. left. now apply H. Qed.

Lemma incl_snoc_both ids seen g : incl ids (map ID seen) -> incl (ids ++ [ID g]) (map ID (seen ++ [g])).
Proof.
  intros H x Hx. rewrite map_app. apply in_or_app. apply in_app_or in Hx. destruct Hx as [Hx|Hx].
  - left. now apply H.
  - right. exact Hx.
Qed.

Lemma entry_ok_other seen g e :
  memZ (ID g) (map ID seen) = false -> entry_ok seen e -> entry_ok (seen ++ [g]) e.
Proof.
  intros Hg [Hincl Hrel]. split.
  - now apply incl_snoc_seen.
  - now rewrite mem_of_other.
Qed.

Lemma Forall_upd_nth {A} (P Q : A -> Prop) (f : A -> A) l : forall i e,
  Forall P l -> (forall x, P x -> Q x) -> nth_error l i = Some e -> Q (f e) -> Forall Q (upd_nth i f l).
Proof.
  induction l as [|a l IH]; intros i e HF HPQ Hn HQ; simpl.
  - destruct i; constructor.
  - inversion HF as [|? ? Ha Hl]; subst. destruct i as [|i]; simpl in *.
    + inversion Hn; subst. constructor; [exact HQ|]. eapply Forall_impl; eauto.
    + constructor; [now apply HPQ|]. eapply IH; eauto.
Qed.

Section Loop.
  Variable shuffle : nat -> list nat -> list nat.

  Lemma agg_step_inv lvl seen st k g st' :
    memZ (ID g) (map ID seen) = false ->
    Forall (entry_ok seen) st -> agg_step shuffle lvl st k g = Ok st' ->
    Forall (entry_ok (seen ++ [g])) st'.
  Proof.
    intros Hg HF H. unfold agg_step in H.
    destruct (find (entry_similar lvl st g) (shuffle k (seq 0 (List.length st)))) as [i|] eqn:Hfind.
    - apply find_some in Hfind. destruct Hfind as [_ Hsim]. unfold entry_similar in Hsim.
      destruct (nth_error st i) as [e|] eqn:Hn; [|discriminate].
      assert (He : entry_ok seen e).
      { rewrite Forall_forall in HF. apply HF. eapply nth_error_In; eauto. }
      destruct He as [Hincl Hrel].
      destruct (sig_equal (ekey e) (GSig g)) eqn:Heq.
      + inversion H; subst st'. clear H.
        eapply Forall_upd_nth; eauto.
        * intros x Hx. now apply entry_ok_other.
        * split; simpl.
          -- now apply incl_snoc_both.
          -- rewrite mem_of_added by trivial. rewrite map_app. simpl. eapply sig_rel_equal; eauto.
      + destruct (sig_merge_safe (ekey e) (GSig g)); [|discriminate].
        inversion H; subst st'. clear H.
        eapply Forall_upd_nth; eauto.
        * intros x Hx. now apply entry_ok_other.
        * split; simpl.
          -- now apply incl_snoc_both.
          -- rewrite mem_of_added by trivial. rewrite map_app. simpl. eapply sig_rel_merge; eauto.
    - inversion H; subst st'. clear H. apply Forall_app. split.
      + eapply Forall_impl; [|exact HF]. intros x Hx. now apply entry_ok_other.
      + constructor; [|constructor]. split; simpl.
        * apply (incl_snoc_both [] seen g). intros x [].
        * change [ID g] with ([] ++ [ID g]). rewrite mem_of_added by trivial.
          rewrite mem_of_nil. simpl. apply sig_rel_init.
  Qed.

  Lemma agg_loop_inv lvl : forall gs2 seen st k st',
    nodupZ (map ID (seen ++ gs2)) = true ->
    Forall (entry_ok seen) st -> agg_loop shuffle lvl st k gs2 = Ok st' ->
    Forall (entry_ok (seen ++ gs2)) st'.
  Proof.
    induction gs2 as [|g gs2 IH]; intros seen st k st' Hnd HF H; simpl in H.
    - inversion H; subst. now rewrite app_nil_r.
    - destruct (agg_step shuffle lvl st k g) as [st1|msg] eqn:Hstep; simpl in H; [|discriminate].
      assert (Hg : memZ (ID g) (map ID seen) = false).
      { rewrite map_app in Hnd. simpl in Hnd. eapply nodupZ_mid; eauto. }
      replace (seen ++ g :: gs2) with ((seen ++ [g]) ++ gs2) in * by (now rewrite <- app_assoc).
      apply (IH (seen ++ [g]) st1 (S k) st'); trivial. apply (agg_step_inv lvl seen st k g st1); trivial.
  Qed.

  Theorem truthful : forall lvl gs bs, aggregate shuffle lvl gs = Ok bs -> c12_ok gs bs = true.
  Proof.
    intros lvl gs bs H. unfold c12_ok.
    destruct (nodupZ (map ID gs)) eqn:Hnd; [|reflexivity]. simpl.
    unfold aggregate in H.
    destruct (agg_loop shuffle lvl [] 0%nat gs) as [st|msg] eqn:Hloop; simpl in H; [|discriminate].
    inversion H; subst bs. clear H.
    assert (Hinv : Forall (entry_ok gs) st).
    { apply (agg_loop_inv lvl gs [] [] 0%nat st); trivial. }
    apply forallb_forall. intros b Hb.
    apply sort_stable_in in Hb. apply in_map_iff in Hb. destruct Hb as (e & <- & He).
    rewrite Forall_forall in Hinv. destruct (Hinv e He) as [_ Hrel].
    apply sig_rel_bucket. unfold members, bucket_of_entry. simpl.
    erewrite filter_ext_in'; [exact Hrel|]. intros x _. apply memZ_sort_ints.
  Qed.
End Loop.

(* ------------------------------------------------------------------ *)
(* a scalar shown without the wildcard is held by every member         *)
Theorem unstarred_is_common :
  forall b ms, ms <> [] -> forallb (fun m => negb (IsAggregate m)) ms = true ->
  c12_arg b ms = true -> beq (Name b) (s2b "*") = false ->
  forall m, In m ms -> Value m = Value b /\ IsPtr m = IsPtr b /\ IsOffsetTooLarge m = IsOffsetTooLarge b /\ Name m = Name b.
Proof.
  intros b ms Hne Hsc Hc Hstar m Hin.
  destruct ms as [|m1 ms]; [congruence|].
  assert (Hm1 : IsAggregate m1 = false).
  { simpl in Hsc. apply andb_true_iff in Hsc. destruct Hsc as [H1 _]. now apply negb_true_iff in H1. }
  assert (Hm : IsAggregate m = false).
  { rewrite forallb_forall in Hsc. specialize (Hsc m Hin). now apply negb_true_iff in Hsc. }
  destruct b as [bag bn bv bp bt bi bfv bfp bfe].
  rewrite c12_arg_eq in Hc. simpl forallb in Hc. rewrite Hm1 in Hc. simpl andb in Hc. cbv iota in Hc.
  unfold c12_scalar in Hc.
  apply andb_true_iff in Hc. destruct Hc as [Hc Hif]. apply andb_true_iff in Hc. destruct Hc as [Hbag _].
  simpl IsAggregate in Hbag. apply negb_true_iff in Hbag. subst bag.
  simpl Name in Hif, Hstar. rewrite Hstar in Hif.
  destruct (forallb (fun m0 => cval_eqb (canon_arg ExactLines m0) (canon_arg ExactLines m1)) (m1 :: ms)) eqn:Hall;
    [|discriminate].
  rewrite forallb_forall in Hall. specialize (Hall m Hin).
  apply scalar_canon_eq in Hall; trivial. apply scalar_canon_eq in Hif; trivial.
  assert (Hk : skey m = skey (MkArg false bn bv bp bt bi bfv bfp bfe)) by congruence.
  unfold skey in Hk. simpl in Hk. inversion Hk. simpl. auto.
Qed.

(* ------------------------------------------------------------------ *)
(* a concrete snapshot: three goroutines blocked in the same frame on  *)
(* three different pointers, bucketed at AnyPointer                    *)
Definition ex_goroutine (id : Z) (ptr : N) (first : bool) : Goroutine :=
  mkGoroutine
    (mkSig (s2b "chan receive") emptyStack 0 0
       (mkStack
          [mkCall (mkFunc (s2b "main.worker") (s2b "main") (s2b "main") (s2b "worker") false true)
                  (mkArgs [MkArg false [] ptr true false false [] [] false] [] false)
                  (s2b "/src/app/main.go") 42 (s2b "main.go") (s2b "app/main.go") [] [] [] LocationUnknown]
          false)
       false)
    id first false 0.

Definition ex_gs : list Goroutine :=
  [ex_goroutine 1 824633786368%N true; ex_goroutine 2 824633786376%N false; ex_goroutine 3 824633786384%N false].

Theorem example_truthful : exists gs bs, List.length gs = 3%nat /\ aggregate id_shuffle AnyPointer gs = Ok bs /\
  List.length bs = 1%nat /\ c12_ok gs bs = true /\
  exists b c a, bs = [b] /\ Calls (SStack (BSig b)) = [c] /\ Values (CArgs c) = [a] /\ Name a = s2b "*".
Proof.
  exists ex_gs.
  destruct (aggregate id_shuffle AnyPointer ex_gs) as [bs|msg] eqn:E; [|vm_compute in E; discriminate].
  exists bs. split; [reflexivity|]. split; [reflexivity|].
  vm_compute in E. inversion E; subst bs. clear E.
  split; [reflexivity|]. split; [vm_compute; reflexivity|].
  do 3 eexists. repeat split.
Qed.
