(* Model/FuncInit.v — Func.Init (stack/stack.go:52) and Call.init
   (stack/stack.go:383).  The two slice expressions of Func.Init are the
   partial [go_slice]; "never Panic" is a theorem (Proofs/FuncInitSafe.v). *)
From PP Require Import Base.Bytes Base.BytesX Base.GoResult Model.Types.
From Coq Require Import String.

Inductive scan_err :=
| ErrBadFunc          (* bad function reference *)
| ErrIndent           (* inconsistent indentation *)
| ErrExpected (what : nat)  (* expected a ..., got ... *)
| ErrParseInt
| ErrArgs (what : nat)      (* parseArgs errors *)
| ErrRace (what : nat)
| ErrInternal.

Definition in_goroutine_suffix : bytes := s2b " in goroutine".

(* unicode.ToUpper(r) == r for the first rune of [part]:
   empty or invalid UTF-8 decode to RuneError, a fixed point; ASCII and the
   Latin-1 supplement (U+0080..U+00FF: two-byte sequences C2 xx / C3 xx) are
   exact: the lower-case letters are U+00B5 and U+00DF..U+00FF minus U+00F7,
   of which U+00DF has no upper-case mapping.  Runes from U+0100 on need the
   Unicode case tables, which are NOT modelled: the result is reported as
   exported and the correspondence check masks IsExported for those symbols. *)
Definition first_rune_upper_fixed (part : bytes) : bool :=
  match part with
  | [] => true
  | c :: t =>
      if N.ltb c 128 then negb (N.leb 97 c && N.leb c 122) else
      match t with
      | c1 :: _ =>
          if N.eqb c 194 then negb (N.eqb c1 181)                       (* U+00B5 micro sign *)
          else if N.eqb c 195 then
            negb (N.leb 160 c1 && N.leb c1 191 && negb (N.eqb c1 183))  (* U+00E0..U+00FF except U+00F7 *)
          else true
      | [] => true
      end
  end.

Definition func_init (raw : bytes) : GoResult (option Func) :=
  let endPkg0 : option Z :=
    match last_index_byte raw b_slash with
    | Some ls =>
        match index_byte (skipn (S ls) raw) b_dot with
        | None => None
        | Some r => Some (Z.of_nat ls + Z.of_nat r + 1)%Z
        end
    | None =>
        Some (match index_byte raw b_dot with Some i => Z.of_nat i | None => (-1)%Z end)
    end in
  match endPkg0 with
  | None => Ok None
  | Some endPkg0 =>
    match path_unescape raw with
    | None => Ok None
    | Some complete =>
      pre <- (if (0 <? endPkg0)%Z then go_slice raw 0 endPkg0 else Ok []) ;;
      let endPkg := if (0 <? endPkg0)%Z then (endPkg0 - 2 * Z.of_nat (count_byte pre b_percent))%Z else endPkg0 in
      ip <- (if (endPkg =? -1)%Z then Ok [] else go_slice complete 0 endPkg) ;;
      name0 <- go_slice complete (endPkg + 1) (Z.of_nat (List.length complete)) ;;
      let name :=
        match last_index_byte name0 b_space with
        | Some idx =>
            let cut := firstn idx name0 in
            match strip_suffix in_goroutine_suffix cut with
            | Some n => n
            | None => name0
            end
        | None => name0
        end in
      let dir := match last_index_byte ip b_slash with Some i => skipn (S i) ip | None => ip end in
      let is_main := beq ip (s2b "main") in
      let exported :=
        if is_main then beq name (s2b "main")
        else match last_opt (split name [b_dot]) with
             | Some part => first_rune_upper_fixed part
             | None => true
             end in
      Ok (Some (mkFunc complete ip dir name exported is_main))
    end
  end.

Definition test_main_src : bytes := s2b "_test/_testmain.go".

(* Call.init(srcPath, line) *)
Definition call_init (c : Call) (src : bytes) (line : Z) : Call :=
  let '(rsp, sn, ds, loc) :=
    match src with
    | [] => (RemoteSrcPath c, SrcName c, DirSrc c, CLocation c)
    | _ =>
        match last_index_byte src b_slash with
        | Some i =>
            let sn := skipn (S i) src in
            let ds := match last_index_byte (firstn i src) b_slash with
                      | Some j => skipn (S j) src
                      | None => DirSrc c
                      end in
            (src, sn, ds, if beq ds test_main_src then Stdlib else CLocation c)
        | None => (src, SrcName c, DirSrc c, if beq (DirSrc c) test_main_src then Stdlib else CLocation c)
        end
    end in
  mkCall (CFunc c) (CArgs c) rsp line sn ds (LocalSrcPath c) (RelSrcPath c) (FImportPath (CFunc c)) loc.
