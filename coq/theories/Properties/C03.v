(* Properties/C03.v — "no input crashes the pipeline", safety half: the
   scanner (Func.Init, parseFunc, scanningState.scan) never panics, whatever
   the bytes.  Statements only.

   Run-time panics of the Go code are explicit in the model (GoResult): slice
   bounds in Func.Init, nil dereference of the current goroutine, index [-1]
   / [0] of an empty call list, s.Goroutines[goroutineIndex], and the explicit
   panic("internal failure; expected s.Goroutines to be nil"). *)
From PP Require Import Base.Bytes Base.BytesX Base.GoResult Model.Types Model.FuncInit Model.ParseArgs Model.Scan.
From PP Require Import Proofs.FuncInitSafe Proofs.ParseArgsSafe Proofs.ScanInv.
From Coq Require Import String.

(* Func.Init: the slice expressions are always in range. *)
Theorem C03_func_init_total : forall raw, exists r, func_init raw = Ok r.
Proof. exact FuncInitSafe.func_init_total. Qed.
Print Assumptions C03_func_init_total.

(* parseFunc never panics. *)
Theorem C03_parse_func_total : forall line, exists r, parse_func line = Ok r.
Proof. exact ParseArgsSafe.parse_func_total. Qed.
Print Assumptions C03_parse_func_total.

(* parseArgs: the frame pointer stack[depth] always exists. *)
Theorem C03_parse_args_frame : forall pieces st st',
  st <> [] -> pa_loop st pieces = inl st' -> st' <> [].
Proof. exact ParseArgsSafe.pa_loop_nonempty. Qed.
Print Assumptions C03_parse_args_frame.

(* The state invariant (ScanInv.Inv), restated so that the statement is
   self-contained:
     looking, gotRaceHeader1, gotRaceHeader2 : no goroutine yet, no indentation prefix
     done                                    : nothing
     gotFunc, gotRaceOperationFunc           : the current goroutine has >= 1 call
     gotCreated                              : the current goroutine has >= 1 CreatedBy call
     gotRaceGoroutineHeader / File           : goroutineIndex is in range
     gotRaceGoroutineFunc                    : goroutine #goroutineIndex has >= 1 CreatedBy call
     every other state                       : there is a current goroutine *)
Theorem C03_Inv_def : forall s,
  Inv s <->
  match st s with
  | looking | gotRaceHeader1 | gotRaceHeader2 => goroutines s = [] /\ sprefix s = []
  | done => True
  | gotFunc | gotRaceOperationFunc =>
      exists g, last_opt (goroutines s) = Some g /\ Calls (SStack (GSig g)) <> []
  | gotCreated =>
      exists g, last_opt (goroutines s) = Some g /\ Calls (CreatedBy (GSig g)) <> []
  | gotRaceGoroutineHeader | gotRaceGoroutineFile => gindex s < List.length (goroutines s)
  | gotRaceGoroutineFunc =>
      exists g, nth_error (goroutines s) (gindex s) = Some g /\ Calls (CreatedBy (GSig g)) <> []
  | betweenRoutine | gotRoutineHeader | gotFileFunc | gotFileCreated | gotUnavail
  | gotRaceOperationHeader | gotRaceOperationFile | betweenRaceOperations | betweenRaceGoroutines =>
      goroutines s <> []
  end.
Proof. intros s. unfold Inv. destruct (st s); reflexivity. Qed.
Print Assumptions C03_Inv_def.

Theorem C03_Inv_init : Inv ss0.
Proof. exact ScanInv.Inv_ss0. Qed.
Print Assumptions C03_Inv_init.

(* One line: from a state satisfying the invariant, scan returns (never
   panics) and re-establishes the invariant, error or not. *)
Theorem C03_scan_total : forall s line, Inv s ->
  exists s' l e, scan s line = Ok (s', l, e) /\ Inv s'.
Proof. exact ScanInv.scan_total. Qed.
Print Assumptions C03_scan_total.

(* Any sequence of lines, from the initial state (errors do not stop the
   fold: this covers every resume protocol). *)
Theorem C03_scan_lines_total : forall lines,
  exists s', scan_lines ss0 lines = Ok s' /\ Inv s'.
Proof. exact ScanInv.scan_lines_total. Qed.
Print Assumptions C03_scan_lines_total.

(* ---- facts linking the returned flag and error to the state ---- *)

Theorem C03_scan_err_flag : forall s line s' l e,
  Inv s -> scan s line = Ok (s', l, Some e) -> l = false.
Proof. exact ScanInv.scan_err_flag. Qed.
Print Assumptions C03_scan_err_flag.

Theorem C03_scan_goroutines_mono : forall s line s' l e,
  Inv s -> scan s line = Ok (s', l, e) ->
  List.length (goroutines s) <= List.length (goroutines s').
Proof. exact ScanInv.scan_goroutines_mono. Qed.
Print Assumptions C03_scan_goroutines_mono.

Theorem C03_scan_false_none : forall s line s',
  Inv s -> scan s line = Ok (s', false, None) ->
  s' = s \/ st s' = done \/ (st s = gotRaceHeader1 /\ st s' = looking).
Proof. exact ScanInv.scan_false_none. Qed.
Print Assumptions C03_scan_false_none.

(* done is absorbing.  NOTE: a done state that still carries an indentation
   prefix answers the first non-blank line lacking that prefix with
   ErrIndent (and clears the prefix): "scan s line = Ok (s, false, None)"
   holds only for an empty prefix. *)
Theorem C03_scan_done : forall s line, st s = done ->
  exists s' e, scan s line = Ok (s', false, e) /\
    st s' = done /\ goroutines s' = goroutines s /\ gindex s' = gindex s /\
    ((e = None /\ s' = s) \/
     (e = Some ErrIndent /\ sprefix s <> [] /\ sprefix s' = [])).
Proof. exact ScanInv.scan_done. Qed.
Print Assumptions C03_scan_done.

Theorem C03_scan_done_noprefix : forall s line, st s = done -> sprefix s = [] ->
  scan s line = Ok (s, false, None).
Proof. exact ScanInv.scan_done_noprefix. Qed.
Print Assumptions C03_scan_done_noprefix.

Theorem C03_scan_looking : forall s line, Inv s -> st s = looking ->
  exists s' l, scan s line = Ok (s', l, None) /\
    ((l = false /\ s' = s) \/
     (l = true /\ st s' = gotRoutineHeader /\
        exists g, goroutines s' = [g] /\ First g = true /\
                  Calls (SStack (GSig g)) = [] /\ Calls (CreatedBy (GSig g)) = []) \/
     (l = true /\ s' = with_state s gotRaceHeader1)).
Proof. exact ScanInv.scan_looking. Qed.
Print Assumptions C03_scan_looking.

Theorem C03_scan_looking_flag : forall s line s' l e, Inv s -> st s = looking ->
  scan s line = Ok (s', l, e) ->
  e = None /\ (l = false -> s' = s) /\ (goroutines s' = [] \/ l = true).
Proof. exact ScanInv.scan_looking_flag. Qed.
Print Assumptions C03_scan_looking_flag.

(* ---- concrete runs ---- *)

Definition ln (s : string) : bytes := s2b s ++ [LF].
Definition TAB : string := String (Ascii.ascii_of_nat 9) EmptyString.

Definition dump1 : list bytes :=
  [ ln "goroutine 1 [running]:";
    ln "main.main()";
    ln (TAB ++ "/tmp/x.go:10 +0x20");
    ln "created by main.start";
    ln (TAB ++ "/tmp/x.go:5 +0x10");
    ln "" ].

(* one goroutine, one call, one CreatedBy call, waiting for the next goroutine *)
Example C03_run_dump :
  match scan_lines ss0 dump1 with
  | Ok s =>
      st s = betweenRoutine /\
      match goroutines s with
      | [g] => List.length (Calls (SStack (GSig g))) = 1 /\
               List.length (Calls (CreatedBy (GSig g))) = 1 /\
               ID g = 1%Z /\ First g = true /\
               List.map (fun c => (FName (CFunc c), Line c)) (Calls (SStack (GSig g))) = [(s2b "main", 10%Z)]
      | _ => False
      end
  | Panic _ => False
  end.
Proof. vm_compute. repeat split. Qed.

(* Formerly crashing (the explicit panic "expected s.Goroutines to be nil"):
   a complete goroutine dump, a blank line, then a race report header. *)
Definition dump_then_race : list bytes :=
  dump1 ++
  [ ln "==================";
    ln "WARNING: DATA RACE";
    ln "Read at 0x1 by goroutine 2:" ].

Example C03_run_dump_then_race :
  match scan_lines ss0 dump_then_race with
  | Ok s => st s = done /\ List.length (goroutines s) = 1
  | Panic _ => False
  end.
Proof. vm_compute. split; reflexivity. Qed.

(* A race report from the initial state reaches the race states. *)
Example C03_run_race :
  match scan_lines ss0
          [ ln "==================";
            ln "WARNING: DATA RACE";
            ln "Read at 0x1 by goroutine 2:";
            ln "  main.f()";
            ln "      /tmp/x.go:7 +0x30";
            ln "" ] with
  | Ok s => st s = betweenRaceOperations /\ List.length (goroutines s) = 1
  | Panic _ => False
  end.
Proof. vm_compute. split; reflexivity. Qed.

(* Formerly crashing (slice bounds [:-5] in Func.Init): escapes before the dot. *)
Example C03_run_func_init_escapes :
  match func_init (s2b "a.%41%41%41") with
  | Ok (Some f) => FName f = s2b "AAA" /\ FImportPath f = s2b "a"
  | _ => False
  end.
Proof. vm_compute. split; reflexivity. Qed.

Example C03_run_func_init_escaped_pkg :
  match func_init (s2b "github.com/a%2eb/c%2e.d.F") with
  | Ok (Some f) => FName f = s2b "d.F" /\ FImportPath f = s2b "github.com/a.b/c."
  | _ => False
  end.
Proof. vm_compute. split; reflexivity. Qed.

(* ---- the whole scan: the ScanSnapshot loop over the line reader ---- *)
From PP Require Import Model.Reader Model.ScanSnapshot Spec.LoopSpec Proofs.LoopProofs.

(* ScanSnapshot never panics, for EVERY source: any content, any delivery
   schedule (zero-length reads, stalls), any terminal error, with or without
   the error arriving together with data.  read_line never panics (fill is
   never called on a full buffer), scan never panics (the invariant Inv holds
   along the loop), and none of the model's fuels is exhausted: an iteration
   that continues has consumed a non-empty LF-terminated line, an iteration
   that gets an empty line ends the loop with the reader's error. *)
Theorem C03_scan_snapshot_total : forall na src, exists res, scan_snapshot na src = Ok res.
Proof. exact LoopProofs.scan_snapshot_total. Qed.
Print Assumptions C03_scan_snapshot_total.

(* Work is linear in the input: scan is called once per EvLine of the trace,
   every such line is a distinct non-empty line of the input: at most one per
   LF plus the unterminated tail. *)
Theorem C03_work_bounded : forall na src res,
  scan_snapshot na src = Ok res ->
  lines_read res = handed (trace res) /\
  lines_read res <= S (count_lf (rest src)) /\
  lines_read res <= List.length (rest src).
Proof. exact LoopProofs.work_bounded. Qed.
Print Assumptions C03_work_bounded.

(* A hostile source: a truncated dump, delivered with zero-length reads and
   one byte at a time, ending with a failure instead of EOF. *)
Example C03_run_snapshot_hostile :
  let B := ln "goroutine 1 [running]:" ++ ln "main.main()" ++ s2b "	/tmp/x" in
  match scan_snapshot true (mkSource B ([(0, false); (0, true); (5, false)] ++ repeat (1, false) 20 ++ [(0, false)]) (Fail 7)) with
  | Ok res => rerr_out res = EIo (Fail 7) /\ final_state res = gotFunc /\ lines_read res = 3 /\
              suffix res = s2b "	/tmp/x" /\ rest (unread res) = [] /\
              option_map (@List.length _) (snap res) = Some 1
  | Panic _ => False
  end.
Proof. vm_compute. repeat split. Qed.
