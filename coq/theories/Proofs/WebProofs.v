(* Proofs/WebProofs.v — C20: the decision table of webstack.SnapshotHandler
   (Model/Web.v: handler), strconv.Atoi as modelled (atoi), and the
   grow-and-retry capture loop of snapshot(). *)
From PP Require Import Base.Bytes Base.BytesX Base.Num Base.GoResult Model.Types Model.Web.
From PP Require Import Proofs.RoundTripNum.
From Coq Require Import String Lia.

(* ------------------------------------------------------------------ *)
(* vocabulary: what the three form values mean                         *)
(* ------------------------------------------------------------------ *)
Definition GET : bytes := s2b "GET".
Definition default_maxmem : Z := 67108864.       (* 64 << 20 *)

Definition maxmem_is (s : bytes) (m : Z) : Prop :=
  (s = [] /\ m = default_maxmem) \/ (s <> [] /\ atoi s = Some m).
Definition maxmem_bad (s : bytes) : Prop := s <> [] /\ atoi s = None.

Definition augment_is (s : bytes) (a : bool) : Prop :=
  (s = [] /\ a = true) \/ (s <> [] /\ atoi s = Some 0%Z /\ a = false) \/ (s <> [] /\ atoi s = Some 1%Z /\ a = true).
Definition augment_bad (s : bytes) : Prop := s <> [] /\ atoi s <> Some 0%Z /\ atoi s <> Some 1%Z.

Definition similarity_is (s : bytes) (l : Similarity) : Prop :=
  (s = s2b "exactflags" /\ l = ExactFlags) \/ (s = s2b "exactlines" /\ l = ExactLines) \/
  ((s = s2b "anypointer" \/ s = []) /\ l = AnyPointer) \/ (s = s2b "anyvalue" /\ l = AnyValue).
Definition similarity_bad (s : bytes) : Prop :=
  s <> [] /\ s <> s2b "exactflags" /\ s <> s2b "exactlines" /\ s <> s2b "anypointer" /\ s <> s2b "anyvalue".

(* ------------------------------------------------------------------ *)
(* the parameters are decided, exclusively                             *)
(* ------------------------------------------------------------------ *)
Lemma maxmem_cases s : maxmem_bad s \/ exists m, maxmem_is s m.
Proof.
  unfold maxmem_bad, maxmem_is. destruct s as [|c r].
  - right. exists default_maxmem. left. split; reflexivity.
  - destruct (atoi (c :: r)) as [m|] eqn:E.
    + right. exists m. right. split; [discriminate | reflexivity].
    + left. split; [discriminate | reflexivity].
Qed.
Lemma maxmem_fun s m1 m2 : maxmem_is s m1 -> maxmem_is s m2 -> m1 = m2.
Proof. unfold maxmem_is. intros [[E1 ->] | [N1 A1]] [[E2 ->] | [N2 A2]]; congruence. Qed.
Lemma maxmem_excl s m : maxmem_is s m -> maxmem_bad s -> False.
Proof. unfold maxmem_is, maxmem_bad. intros [[E1 _] | [N1 A1]] [N2 A2]; congruence. Qed.

Lemma augment_cases s : augment_bad s \/ exists a, augment_is s a.
Proof.
  unfold augment_bad, augment_is. destruct s as [|c r].
  - right. exists true. left. split; reflexivity.
  - destruct (atoi (c :: r)) as [[|[p|p|]|p]|] eqn:E;
      try (left; split; [discriminate | split; discriminate]).
    + right. exists false. right. left. split; [discriminate | split; reflexivity].
    + right. exists true. right. right. split; [discriminate | split; reflexivity].
Qed.
Lemma augment_fun s a1 a2 : augment_is s a1 -> augment_is s a2 -> a1 = a2.
Proof.
  unfold augment_is.
  intros [[E1 ->] | [(N1 & A1 & ->) | (N1 & A1 & ->)]] [[E2 ->] | [(N2 & A2 & ->) | (N2 & A2 & ->)]]; congruence.
Qed.
Lemma augment_excl s a : augment_is s a -> augment_bad s -> False.
Proof.
  unfold augment_is, augment_bad.
  intros [[E1 _] | [(N1 & A1 & _) | (N1 & A1 & _)]] (N2 & B0 & B1); congruence.
Qed.

Lemma parse_similarity_some s l : parse_similarity s = Some l <-> similarity_is s l.
Proof.
  unfold parse_similarity, similarity_is. split.
  - destruct (beq s (s2b "exactflags")) eqn:E1; [apply beq_eq in E1; intros [= <-]; auto|].
    destruct (beq s (s2b "exactlines")) eqn:E2; [apply beq_eq in E2; intros [= <-]; auto|].
    destruct (beq s (s2b "anypointer")) eqn:E3; [apply beq_eq in E3; intros [= <-]; auto 6|].
    destruct (beq s []) eqn:E4; [apply beq_eq in E4; intros [= <-]; auto 6|].
    cbn [orb].
    destruct (beq s (s2b "anyvalue")) eqn:E5; [apply beq_eq in E5; intros [= <-]; auto 6|].
    discriminate.
  - intros [[-> ->] | [[-> ->] | [[[-> | ->] ->] | [-> ->]]]]; reflexivity.
Qed.
Lemma parse_similarity_none s : parse_similarity s = None <-> similarity_bad s.
Proof.
  unfold parse_similarity, similarity_bad. split.
  - destruct (beq s (s2b "exactflags")) eqn:E1; [discriminate|].
    destruct (beq s (s2b "exactlines")) eqn:E2; [discriminate|].
    destruct (beq s (s2b "anypointer")) eqn:E3; [discriminate|].
    destruct (beq s []) eqn:E4; [discriminate|]. cbn [orb].
    destruct (beq s (s2b "anyvalue")) eqn:E5; [discriminate|].
    intros _. apply beq_neq in E1, E2, E3, E4, E5. tauto.
  - intros (N0 & N1 & N2 & N3 & N4).
    apply beq_neq in N0, N1, N2, N3, N4. rewrite N0, N1, N2, N3, N4. reflexivity.
Qed.
Lemma similarity_cases s : similarity_bad s \/ exists l, similarity_is s l.
Proof.
  destruct (parse_similarity s) as [l|] eqn:E.
  - right. exists l. now apply parse_similarity_some.
  - left. now apply parse_similarity_none.
Qed.
Lemma similarity_fun s l1 l2 : similarity_is s l1 -> similarity_is s l2 -> l1 = l2.
Proof. intros H1 H2. apply parse_similarity_some in H1, H2. congruence. Qed.
Lemma similarity_excl s l : similarity_is s l -> similarity_bad s -> False.
Proof. intros H1 H2. apply parse_similarity_some in H1. apply parse_similarity_none in H2. congruence. Qed.

Theorem params_decided : forall mm au sim,
  (maxmem_bad mm \/ exists m, maxmem_is mm m) /\
  (augment_bad au \/ exists a, augment_is au a) /\
  (similarity_bad sim \/ exists l, similarity_is sim l) /\
  (forall m, maxmem_is mm m -> maxmem_bad mm -> False) /\
  (forall a, augment_is au a -> augment_bad au -> False) /\
  (forall l, similarity_is sim l -> similarity_bad sim -> False) /\
  (forall m1 m2, maxmem_is mm m1 -> maxmem_is mm m2 -> m1 = m2) /\
  (forall a1 a2, augment_is au a1 -> augment_is au a2 -> a1 = a2) /\
  (forall l1 l2, similarity_is sim l1 -> similarity_is sim l2 -> l1 = l2).
Proof.
  intros mm au sim.
  exact (conj (maxmem_cases mm) (conj (augment_cases au) (conj (similarity_cases sim)
        (conj (maxmem_excl mm) (conj (augment_excl au) (conj (similarity_excl sim)
        (conj (maxmem_fun mm) (conj (augment_fun au) (similarity_fun sim))))))))).
Qed.

(* ------------------------------------------------------------------ *)
(* the handler, as one nested case distinction                         *)
(* ------------------------------------------------------------------ *)
Lemma handler_spec method mm au sim sf :
  let st := handler method mm au sim sf in
  (method <> GET /\ st = S405) \/
  (method = GET /\
   ((maxmem_bad mm /\ st = S400) \/
    exists m, maxmem_is mm m /\
      ((augment_bad au /\ st = S400) \/
       exists a, augment_is au a /\
         ((sf m a = true /\ st = S500) \/
          (sf m a = false /\
           ((similarity_bad sim /\ st = S400) \/
            exists l, similarity_is sim l /\ st = S200 l a m)))))).
Proof.
  cbv zeta. unfold handler. fold GET.
  destruct (beq method GET) eqn:EM; cbn [negb].
  2:{ left. split; [now apply beq_neq | reflexivity]. }
  right. split; [now apply beq_eq|].
  assert (HM : (maxmem_bad mm /\ match mm with [] => Some 67108864%Z | _ :: _ => atoi mm end = None) \/
               exists m, maxmem_is mm m /\ match mm with [] => Some 67108864%Z | _ :: _ => atoi mm end = Some m).
  { unfold maxmem_bad, maxmem_is. destruct mm as [|c r].
    - right. exists default_maxmem. split; [left; split; reflexivity | reflexivity].
    - destruct (atoi (c :: r)) as [m|] eqn:E.
      + right. exists m. split; [right; split; [discriminate | reflexivity] | reflexivity].
      + left. split; [split; [discriminate | reflexivity] | reflexivity]. }
  destruct HM as [[HB ->] | (m & HI & ->)]; [left; split; [exact HB | reflexivity]|].
  right. exists m. split; [exact HI|].
  set (AU := match au with
             | [] => Some true
             | _ :: _ => match atoi au with Some 0%Z => Some false | Some 1%Z => Some true | _ => None end
             end).
  assert (HA : (augment_bad au /\ AU = None) \/ exists a, augment_is au a /\ AU = Some a).
  { unfold augment_bad, augment_is, AU. destruct au as [|c r].
    - right. exists true. split; [left; split; reflexivity | reflexivity].
    - destruct (atoi (c :: r)) as [[|[p|p|]|p]|] eqn:E;
        try (left; split; [split; [discriminate | split; discriminate] | reflexivity]).
      + right. exists false. split; [right; left; split; [discriminate | split; reflexivity] | reflexivity].
      + right. exists true. split; [right; right; split; [discriminate | split; reflexivity] | reflexivity]. }
  destruct HA as [[HB ->] | (a & HI2 & ->)]; [left; split; [exact HB | reflexivity]|].
  right. exists a. split; [exact HI2|].
  destruct (sf m a) eqn:ES; [left; split; reflexivity|].
  right. split; [reflexivity|].
  destruct (parse_similarity sim) as [l|] eqn:EP.
  - right. exists l. split; [now apply parse_similarity_some | reflexivity].
  - left. split; [now apply parse_similarity_none | reflexivity].
Qed.

Ltac hspec method mm au sim sf :=
  let HS := fresh "HS" in
  pose proof (handler_spec method mm au sim sf) as HS; cbv zeta in HS;
  destruct HS as [[NG ST] | [EG [[MB ST] | (m0 & MI & [[AB ST] | (a0 & AI & [[SF ST] | [SF [[SB ST] | (l0 & SI & ST)]]])])]]];
  rewrite ST.

(* the decision table: every status characterised *)
Theorem handler_table : forall method mm au sim sf,
  let st := handler method mm au sim sf in
  (st = S405 <-> method <> GET) /\
  (st = S500 <-> method = GET /\ exists m a, maxmem_is mm m /\ augment_is au a /\ sf m a = true) /\
  (forall l a m, st = S200 l a m <->
     method = GET /\ maxmem_is mm m /\ augment_is au a /\ sf m a = false /\ similarity_is sim l) /\
  (st = S400 <->
     method = GET /\
     (maxmem_bad mm \/ augment_bad au \/
      exists m a, maxmem_is mm m /\ augment_is au a /\ sf m a = false /\ similarity_bad sim)).
Proof.
  intros method mm au sim sf. cbv zeta.
  split; [|split; [|split]].
  - hspec method mm au sim sf; split; try discriminate; try (intros; exact NG); try reflexivity;
      intros H; contradiction.
  - hspec method mm au sim sf; (split; [try discriminate | intros (G & m & a & M1 & A1 & S1)]);
      try contradiction.
    + exfalso. eapply maxmem_excl; eauto.
    + exfalso. eapply augment_excl; eauto.
    + intros _. split; [exact EG|]. exists m0, a0. auto.
    + reflexivity.
    + rewrite (maxmem_fun _ _ _ M1 MI), (augment_fun _ _ _ A1 AI) in S1. congruence.
    + rewrite (maxmem_fun _ _ _ M1 MI), (augment_fun _ _ _ A1 AI) in S1. congruence.
  - intros l a m.
    hspec method mm au sim sf; (split; [try discriminate | intros (G & M1 & A1 & S1 & L1)]);
      try contradiction.
    + exfalso. eapply maxmem_excl; eauto.
    + exfalso. eapply augment_excl; eauto.
    + rewrite (maxmem_fun _ _ _ M1 MI), (augment_fun _ _ _ A1 AI) in S1. congruence.
    + exfalso. eapply similarity_excl; eauto.
    + intros [= <- <- <-]. auto.
    + rewrite (maxmem_fun _ _ _ M1 MI), (augment_fun _ _ _ A1 AI), (similarity_fun _ _ _ L1 SI). reflexivity.
  - hspec method mm au sim sf; (split; [try discriminate | intros (G & HC)]); try contradiction; try reflexivity.
    + intros _. split; [exact EG|]. left. exact MB.
    + intros _. split; [exact EG|]. right. left. exact AB.
    + destruct HC as [MB | [AB | (m & a & M1 & A1 & S1 & _)]].
      * exfalso. eapply maxmem_excl; eauto.
      * exfalso. eapply augment_excl; eauto.
      * rewrite (maxmem_fun _ _ _ M1 MI), (augment_fun _ _ _ A1 AI) in S1. congruence.
    + intros _. split; [exact EG|]. right. right. exists m0, a0. auto.
    + destruct HC as [MB | [AB | (m & a & M1 & A1 & S1 & SB)]].
      * exfalso. eapply maxmem_excl; eauto.
      * exfalso. eapply augment_excl; eauto.
      * exfalso. eapply similarity_excl; eauto.
Qed.

Theorem ok_only_if_valid : forall method mm au sim sf l a m,
  handler method mm au sim sf = S200 l a m ->
  method = GET /\ maxmem_is mm m /\ augment_is au a /\ similarity_is sim l /\ sf m a = false.
Proof.
  intros method mm au sim sf l a m H.
  destruct (handler_table method mm au sim sf) as (_ & _ & T & _). apply T in H. tauto.
Qed.

Theorem invalid_is_4xx : forall method mm au sim sf,
  (forall m a, sf m a = false) ->
  (method <> GET \/ maxmem_bad mm \/ augment_bad au \/ similarity_bad sim) ->
  status_class (handler method mm au sim sf) = 405 \/ status_class (handler method mm au sim sf) = 400.
Proof.
  intros method mm au sim sf Hsf Hbad.
  hspec method mm au sim sf; cbn [status_class]; auto.
  - rewrite Hsf in SF. discriminate.
  - exfalso. destruct Hbad as [H | [H | [H | H]]].
    + contradiction.
    + eapply maxmem_excl; eauto.
    + eapply augment_excl; eauto.
    + eapply similarity_excl; eauto.
Qed.

(* and precisely: 405 for the method, 400 otherwise *)
Theorem invalid_status : forall method mm au sim sf,
  (forall m a, sf m a = false) ->
  (method <> GET -> handler method mm au sim sf = S405) /\
  (method = GET -> maxmem_bad mm \/ augment_bad au \/ similarity_bad sim -> handler method mm au sim sf = S400).
Proof.
  intros method mm au sim sf Hsf. split.
  - intros NG. now apply (handler_table method mm au sim sf).
  - intros G Hbad. hspec method mm au sim sf; try reflexivity; try contradiction.
    + rewrite Hsf in SF. discriminate.
    + exfalso. destruct Hbad as [H | [H | H]].
      * eapply maxmem_excl; eauto.
      * eapply augment_excl; eauto.
      * eapply similarity_excl; eauto.
Qed.

Theorem valid_get_ok : forall method mm au sim sf m a l,
  method = GET -> maxmem_is mm m -> augment_is au a -> similarity_is sim l -> sf m a = false ->
  handler method mm au sim sf = S200 l a m.
Proof.
  intros method mm au sim sf m a l G M1 A1 L1 S1.
  destruct (handler_table method mm au sim sf) as (_ & _ & T & _). apply T. auto.
Qed.

(* a failing scan wins over an invalid similarity (the order of the Go code) *)
Theorem scan_failure_is_500 : forall method mm au sim sf m a,
  method = GET -> maxmem_is mm m -> augment_is au a -> sf m a = true ->
  handler method mm au sim sf = S500.
Proof.
  intros method mm au sim sf m a G M1 A1 S1.
  destruct (handler_table method mm au sim sf) as (_ & T & _). apply T. split; [exact G|]. exists m, a. auto.
Qed.

(* ------------------------------------------------------------------ *)
(* atoi                                                                *)
(* ------------------------------------------------------------------ *)
Definition dec_value (ds : bytes) : N := fold_left (fun acc c => acc * 10 + (c - 48))%N ds 0%N.
Definition min_int64 : Z := -9223372036854775808.
Definition max_int64 : Z := 9223372036854775807.

Definition sign_split (s : bytes) : bool * bytes :=
  match s with
  | 45%N :: r => (true, r)
  | 43%N :: r => (false, r)
  | _ => (false, s)
  end.
Definition atoi_digits (neg : bool) (ds : bytes) : option Z :=
  match ds with
  | [] => None
  | _ =>
      if forallb is_digit ds then
        let z := if neg then Z.opp (Z.of_N (dec_value ds)) else Z.of_N (dec_value ds) in
        if (Z.leb min_int64 z && Z.leb z max_int64)%Z then Some z else None
      else None
  end.

Lemma atoi_split s : atoi s = let '(neg, ds) := sign_split s in atoi_digits neg ds.
Proof. reflexivity. Qed.

Lemma sign_split_other c r : c <> 45%N -> c <> 43%N -> sign_split (c :: r) = (false, c :: r).
Proof.
  intros N1 N2. unfold sign_split.
  destruct c as [|p]; [reflexivity|].
  do 6 (try (destruct p as [p|p|]; try reflexivity)); try (exfalso; apply N1; reflexivity);
    try (exfalso; apply N2; reflexivity).
Qed.

Lemma is_digit_not_sign c : is_digit c = true -> c <> 45%N /\ c <> 43%N.
Proof.
  unfold is_digit. intros H. apply andb_true_iff in H as [H1 H2]. apply N.leb_le in H1. lia.
Qed.

Lemma atoi_minus r : atoi (45%N :: r) = atoi_digits true r.
Proof. reflexivity. Qed.
Lemma atoi_plus r : atoi (43%N :: r) = atoi_digits false r.
Proof. reflexivity. Qed.
Lemma atoi_other c r : c <> 45%N -> c <> 43%N -> atoi (c :: r) = atoi_digits false (c :: r).
Proof. intros N1 N2. rewrite atoi_split, (sign_split_other c r N1 N2). reflexivity. Qed.

Lemma atou_go_fold : forall ds a, forallb is_digit ds = true ->
  atou_go ds a = Some (fold_left (fun acc c => acc * 10 + (c - 48))%N ds a).
Proof.
  induction ds as [|c ds IH]; intros a H; [reflexivity|].
  cbn [forallb] in H. apply andb_true_iff in H as [H1 H2].
  cbn [atou_go fold_left]. rewrite H1. apply IH. exact H2.
Qed.

Lemma dec_value_N_to_dec n : dec_value (N_to_dec n) = n.
Proof.
  destruct (N_to_dec_spec n) as (m & _ & Hd & _ & Hat).
  specialize (Hat 0%N []). rewrite app_nil_r in Hat.
  rewrite (atou_go_fold _ _ Hd) in Hat. cbn [atou_go] in Hat.
  injection Hat as Hat. unfold dec_value. rewrite Hat. lia.
Qed.

Lemma atoi_digits_N_to_dec (neg : bool) (n : N) :
  let z := if neg then Z.opp (Z.of_N n) else Z.of_N n in
  (min_int64 <= z <= max_int64)%Z -> atoi_digits neg (N_to_dec n) = Some z.
Proof.
  cbv zeta. intros Hz. unfold atoi_digits.
  pose proof (N_to_dec_nonempty n) as Hne. pose proof (N_to_dec_digits n) as Hd.
  destruct (N_to_dec n) as [|c r] eqn:E; [congruence|].
  rewrite Hd, <- E, dec_value_N_to_dec.
  assert (EB : (Z.leb min_int64 (if neg then (- Z.of_N n)%Z else Z.of_N n) &&
                Z.leb (if neg then (- Z.of_N n)%Z else Z.of_N n) max_int64)%Z = true).
  { apply andb_true_iff. split; apply Z.leb_le; lia. }
  rewrite EB. reflexivity.
Qed.

(* Atoi reads back what FormatInt prints, on the whole int64 range *)
Theorem atoi_Z_to_dec : forall z, (min_int64 <= z <= max_int64)%Z -> atoi (Z_to_dec z) = Some z.
Proof.
  intros z Hz.
  assert (POS : forall n, (Z.of_N n <= max_int64)%Z -> atoi (N_to_dec n) = Some (Z.of_N n)).
  { intros n Hn. pose proof (N_to_dec_nonempty n) as Hne. pose proof (N_to_dec_digits n) as Hd.
    destruct (N_to_dec n) as [|c r] eqn:E; [congruence|].
    cbn [forallb] in Hd. apply andb_true_iff in Hd as [Hc _].
    destruct (is_digit_not_sign c Hc) as [N1 N2].
    rewrite (atoi_other c r N1 N2), <- E.
    apply (atoi_digits_N_to_dec false n). unfold min_int64. lia. }
  destruct z as [|p|p]; cbn [Z_to_dec].
  - apply (POS 0%N). unfold max_int64. cbn. lia.
  - change (Z.to_N (Z.pos p)) with (N.pos p). apply (POS (N.pos p)). cbn. lia.
  - rewrite atoi_minus. apply (atoi_digits_N_to_dec true (N.pos p)). cbn. lia.
Qed.

(* everything Atoi accepts: optional sign, at least one digit, only digits, in range *)
Theorem atoi_some : forall s z, atoi s = Some z ->
  (min_int64 <= z <= max_int64)%Z /\
  exists neg ds, (s = ds /\ neg = false \/ s = 43%N :: ds /\ neg = false \/ s = 45%N :: ds /\ neg = true) /\
                 ds <> [] /\ forallb is_digit ds = true /\
                 z = if neg then Z.opp (Z.of_N (dec_value ds)) else Z.of_N (dec_value ds).
Proof.
  intros s z H.
  assert (DG : forall neg ds, atoi_digits neg ds = Some z ->
               (min_int64 <= z <= max_int64)%Z /\ ds <> [] /\ forallb is_digit ds = true /\
               z = if neg then Z.opp (Z.of_N (dec_value ds)) else Z.of_N (dec_value ds)).
  { intros neg ds HD. unfold atoi_digits in HD. destruct ds as [|c r]; [discriminate|].
    destruct (forallb is_digit (c :: r)); [|discriminate]. cbv zeta in HD.
    match type of HD with (if ?b then _ else _) = _ => destruct b eqn:EB end; [|discriminate].
    injection HD as <-. apply andb_true_iff in EB as [B1 B2]. apply Z.leb_le in B1, B2.
    split; [lia|]. split; [discriminate|]. split; reflexivity. }
  destruct s as [|c r]; [discriminate|].
  destruct (N.eq_dec c 45) as [-> | N1].
  { rewrite atoi_minus in H. destruct (DG true r H) as (R & NE & D & V).
    split; [exact R|]. exists true, r. auto 6. }
  destruct (N.eq_dec c 43) as [-> | N2].
  { rewrite atoi_plus in H. destruct (DG false r H) as (R & NE & D & V).
    split; [exact R|]. exists false, r. auto 6. }
  rewrite (atoi_other c r N1 N2) in H. destruct (DG false (c :: r) H) as (R & NE & D & V).
  split; [exact R|]. exists false, (c :: r). auto 6.
Qed.

Theorem atoi_rejects_empty_and_lone_sign :
  atoi [] = None /\ atoi (s2b "-") = None /\ atoi (s2b "+") = None.
Proof. split; [reflexivity | split; reflexivity]. Qed.

(* a non-digit anywhere but in the sign position *)
Theorem atoi_rejects_nondigit : forall s c,
  is_digit c = false ->
  (In c (tl s) \/ (exists r, s = c :: r /\ c <> 45%N /\ c <> 43%N)) -> atoi s = None.
Proof.
  intros s c Hc Hin.
  destruct (atoi s) as [z|] eqn:E; [|reflexivity]. exfalso.
  destruct (atoi_some s z E) as (_ & neg & ds & Hs & _ & Hd & _).
  rewrite forallb_forall in Hd.
  destruct Hin as [Hin | (r & -> & N1 & N2)].
  - destruct Hs as [[-> _] | [[-> _] | [-> _]]]; cbn [tl] in Hin.
    + destruct ds as [|d ds]; [contradiction|]. cbn [tl] in Hin.
      rewrite (Hd c (or_intror Hin)) in Hc. discriminate.
    + rewrite (Hd c Hin) in Hc. discriminate.
    + rewrite (Hd c Hin) in Hc. discriminate.
  - destruct Hs as [[<- _] | [[[= E1 _] _] | [[= E1 _] _]]]; try congruence.
    rewrite (Hd c (or_introl eq_refl)) in Hc. discriminate.
Qed.

Theorem atoi_rejects_overflow : forall ds, forallb is_digit ds = true ->
  ((max_int64 < Z.of_N (dec_value ds))%Z -> atoi ds = None /\ atoi (43%N :: ds) = None) /\
  ((- min_int64 < Z.of_N (dec_value ds))%Z -> atoi (45%N :: ds) = None).
Proof.
  intros ds Hd.
  assert (DG : forall neg : bool,
             (let z := if neg then Z.opp (Z.of_N (dec_value ds)) else Z.of_N (dec_value ds) in
              (z < min_int64 \/ max_int64 < z)%Z) -> atoi_digits neg ds = None).
  { intros neg Hz. cbv zeta in Hz. unfold atoi_digits. destruct ds as [|c r]; [reflexivity|].
    destruct (forallb is_digit (c :: r)); [|reflexivity]. cbv zeta.
    match goal with |- (if ?b then _ else _) = _ => destruct b eqn:EB end; [|reflexivity].
    apply andb_true_iff in EB as [B1 B2]. apply Z.leb_le in B1, B2. lia. }
  split.
  - intros H. split; [|rewrite atoi_plus; apply DG; cbv zeta; lia].
    destruct ds as [|c r]; [reflexivity|].
    cbn [forallb] in Hd. apply andb_true_iff in Hd as [Hc _].
    destruct (is_digit_not_sign c Hc) as [N1 N2].
    rewrite (atoi_other c r N1 N2). apply DG. cbv zeta. lia.
  - intros H. rewrite atoi_minus. apply DG. cbv zeta. unfold min_int64 in *. lia.
Qed.

(* ------------------------------------------------------------------ *)
(* the capture loop                                                    *)
(* ------------------------------------------------------------------ *)
Lemma capture_loop_spec : forall f b M dlen,
  (0 < b <= M)%Z -> (M <= b * 2 ^ Z.of_nat f)%Z ->
  exists bl n, capture_loop (S f) b M dlen = Some (bl, n) /\
    (b <= bl <= M)%Z /\ n = Z.min dlen bl /\ (n < bl \/ bl = M)%Z /\ (bl = b \/ bl <= 2 * dlen)%Z.
Proof.
  induction f as [|f IH]; intros b M dlen Hb HM.
  - change (2 ^ Z.of_nat 0)%Z with 1%Z in HM. assert (M = b) by lia. subst M.
    cbn [capture_loop]. destruct (Z.min dlen b <? b)%Z eqn:E1.
    + apply Z.ltb_lt in E1. exists b, (Z.min dlen b). repeat split; try lia.
    + rewrite Z.leb_refl. apply Z.ltb_ge in E1. exists b, (Z.min dlen b). repeat split; try lia.
  - remember (S f) as f1 eqn:Ef1. cbn [capture_loop]. cbv zeta.
    destruct (Z.min dlen b <? b)%Z eqn:E1.
    + apply Z.ltb_lt in E1. exists b, (Z.min dlen b). repeat split; try lia.
    + apply Z.ltb_ge in E1. destruct (M <=? b)%Z eqn:E2.
      * apply Z.leb_le in E2. exists b, (Z.min dlen b). repeat split; try lia.
      * apply Z.leb_gt in E2. subst f1.
        assert (HP : (2 ^ Z.of_nat (S f) = 2 * 2 ^ Z.of_nat f)%Z).
        { rewrite Nat2Z.inj_succ. apply Z.pow_succ_r. lia. }
        assert (HQ : (0 < 2 ^ Z.of_nat f)%Z) by (apply Z.pow_pos_nonneg; lia).
        destruct (IH (Z.min (b * 2) M) M dlen) as (bl & n & EL & R1 & R2 & R3 & R4); [lia | |].
        { destruct (Z.min_spec (b * 2) M) as [[_ ->] | [_ ->]]; nia. }
        exists bl, n. split; [exact EL|]. repeat split; try lia.
  Qed.

Definition max_capture_mem : Z := 2 ^ 83.   (* 1 MiB * 2^63 *)

Theorem capture_spec : forall maxmem dlen, (maxmem <= max_capture_mem)%Z ->
  exists buflen n, capture maxmem dlen = Some (buflen, n) /\
    (mib <= buflen <= Z.max maxmem mib)%Z /\
    n = Z.min dlen buflen /\
    (n = dlen <-> dlen <= buflen)%Z /\
    (n < buflen <-> dlen < buflen)%Z /\
    (dlen < Z.max maxmem mib -> n = dlen /\ n < buflen)%Z /\
    (n < buflen \/ buflen = Z.max maxmem mib)%Z /\
    (buflen = mib \/ buflen <= 2 * dlen)%Z.
Proof.
  intros maxmem dlen HM. unfold capture.
  destruct (capture_loop_spec 63 mib (Z.max maxmem mib) dlen) as (bl & n & EL & R1 & R2 & R3 & R4).
  - unfold mib. lia.
  - unfold max_capture_mem in HM. unfold mib. change (1048576 * 2 ^ Z.of_nat 63)%Z with (2 ^ 83)%Z. lia.
  - exists bl, n. split; [exact EL|]. repeat split; try lia.
Qed.

(* every Go int is below the bound: snapshot() always leaves its loop *)
Corollary capture_int64 : forall maxmem dlen, (maxmem <= max_int64)%Z ->
  exists buflen n, capture maxmem dlen = Some (buflen, n).
Proof.
  intros maxmem dlen H. destruct (capture_spec maxmem dlen) as (bl & n & E & _).
  - unfold max_int64 in H. unfold max_capture_mem. lia.
  - eauto.
Qed.
