(* Model/ScanSnapshot.v — the loop of ScanSnapshot, stack/context.go:160-208,
   with the event trace (every Read with len(p), every Write with its data).
   The prefix writer is infallible (bytes.Buffer in the harness).
   GuessPaths / AnalyzeSources are separate stages (Model/Paths, Model/Augment). *)
From PP Require Import Base.Bytes Base.BytesX Base.GoResult Model.Types Model.Reader Model.FuncInit Model.Scan Model.Names.
From Coq Require Import String.

Inductive go_err := ENil | EIo (e : io_err) | EScan (e : scan_err).

Record scan_result := mkResult {
  snap : option (list Goroutine);
  fwd : bytes;
  suffix : bytes;
  rerr_out : go_err;
  unread : source;
  trace : list event;
  final_state : state;
  lines_read : nat }.

Definition io_is_nil_or_eof (e : option io_err) : bool :=
  match e with None => true | Some EOF => true | _ => false end.

(* one iteration state *)
Record loop_state := mkLoop {
  l_ss : sstate; l_r : reader; l_src : source; l_fwd : bytes; l_trace : list event; l_lines : nat }.

(* returns (loop state, err, suffix option) *)
Fixpoint scan_loop (fuel : nat) (ls : loop_state) : GoResult (loop_state * go_err * option bytes) :=
  match fuel with
  | O => Panic "model: scan_loop out of fuel"
  | S f =>
      if state_eqb (st (l_ss ls)) done then Ok (ls, ENil, None) else
      match read_line (l_r ls) (l_src ls) with
      | Panic m => Panic m
      | Ok (d, e, r', src', evs) =>
          let tr := l_trace ls ++ evs in
          let err0 := match e with None => ENil | Some x => EIo x end in
          match d with
          | [] =>
              let ls' := mkLoop (l_ss ls) r' src' (l_fwd ls) tr (l_lines ls) in
              match e with
              | None => scan_loop f ls'
              | Some _ => Ok (ls', err0, None)
              end
          | _ =>
              let tr := tr ++ [EvLine d] in
              match scan (l_ss ls) d with
              | Panic m => Panic m
              | Ok (ss', l, e1) =>
                  let err := match e1 with
                             | Some x => if io_is_nil_or_eof e then EScan x else err0
                             | None => err0
                             end in
                  if l then
                    let ls' := mkLoop ss' r' src' (l_fwd ls) tr (S (l_lines ls)) in
                    match err with
                    | ENil => scan_loop f ls'
                    | _ => Ok (ls', err, None)
                    end
                  else if negb (state_eqb (st ss') looking) then
                    Ok (mkLoop ss' r' src' (l_fwd ls) tr (S (l_lines ls)), err, Some (d ++ pending r'))
                  else
                    let ls' := mkLoop ss' r' src' (l_fwd ls ++ d) (tr ++ [EvWrite d]) (S (l_lines ls)) in
                    match err with
                    | ENil => scan_loop f ls'
                    | _ => Ok (ls', err, None)
                    end
              end
          end
      end
  end.

Definition scan_snapshot (name_args : bool) (src : source) : GoResult scan_result :=
  match scan_loop (S (S (List.length (rest src)))) (mkLoop ss0 reader0 src [] [] 0) with
  | Panic m => Panic m
  | Ok (ls, err, sfx) =>
      let sfx' :=
        match sfx with
        | Some x => x
        | None => if state_eqb (st (l_ss ls)) done then pending (l_r ls) else []
        end in
      let gs := goroutines (l_ss ls) in
      Ok (mkResult (match gs with [] => None | _ => Some (if name_args then name_arguments gs else gs) end)
                   (l_fwd ls) sfx' err (l_src ls) (l_trace ls) (st (l_ss ls)) (l_lines ls))
  end.
