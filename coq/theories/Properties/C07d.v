(* Properties/C07d.v — "Which line kinds start, continue, end or invalidate a
   dump follows the documented line grammar": the LANGUAGE, declaratively.
   Statements only.

   Properties/C07c.v shows that the control of [scan] is the reference
   automaton [ref_step] (Spec/RefGrammar.v), which has the scanner's 19
   states.  Spec/DumpGrammar.v gives the language itself, without states, over
   sequences of line kinds (RefGrammar.kinds):

     dump       ::= goroutine ( blank goroutine )* [ blank ]
     goroutine  ::= header ( unavailable | stack ) [ created-by file ]
     stack      ::= func file ( elided-marker | func file )*
     report     ::= separator warning section(operation) ops-tail
     ops-tail   ::= blank section(previous-operation) ops-tail
                  | blank section(goroutine N created at) gor-tail
     gor-tail   ::= separator | blank section(goroutine N created at) gor-tail
     section(h) ::= h func file ( func file )*

     indented k            the line carries the indentation of the first header
     is_header, is_first_func, is_file, is_created, is_elided, is_next_func,
     is_blank_after_stack, is_blank, is_unavail, is_created_after_unavail,
     is_race_open, is_warning, is_op, is_prev, is_racegor_first/next,
     is_rfunc_first/op/gor, is_race_close
                           the line classes: which test succeeds AND which
                           tests, tried earlier by the code, fail (priorities)
     stack_rest, goroutine e, dump x
                           the productions; e : gend = how the goroutine ends
                           (EndStack | EndCreated | EndUnavail), x : dend =
                           AfterGoroutine e | AfterBlank
     is_dump ks            all indented, dump x ks for some x
     is_dump_prefix ks     exists rest, is_dump (ks ++ rest)
     dump_complete ks      dump x ks, x <> AfterGoroutine EndUnavail
     malformed_stack_line  created-by with a bad symbol, or func with a bad
                           symbol / arguments (where created-by, elided fail)
     may_end_before ks k   ks stops after a blank, after a creator's file line,
                           or after a stack and k is not malformed
     race_report, is_race_report ks, is_race_prefix ks   likewise
     in_language ks        is_dump_prefix ks \/ is_race_prefix ks
     ref_consume st ks     run [ref_step] from st, every verdict Consume;
                           Some st' = the state reached, None otherwise
     kinds_along s lines   the kinds of the lines as scan meets them from s
                           (scan supplies the indentation prefix and the ids)
   Proofs/DumpGrammarProofs.v:
     dstate x              AfterBlank => betweenRoutine, AfterGoroutine
                           EndStack => gotFileFunc, EndCreated =>
                           gotFileCreated, EndUnavail => gotUnavail *)
From PP Require Import Base.Bytes Base.BytesX Base.Num Base.GoResult Model.Types Model.Lines Model.FuncInit Model.ParseArgs Model.Scan.
From PP Require Import Proofs.ScanInv Spec.RefGrammar Proofs.GrammarProofs Spec.SeqSpec Spec.LoopSpec.
From PP Require Import Spec.DumpGrammar Proofs.DumpGrammarProofs.
From PP Require Import Spec.Printer Spec.RacePrinter.
From Coq Require Import String.

(* ------------------------------------------------------------------ *)
(* A. the automaton consumes exactly the prefixes of the language      *)
(* ------------------------------------------------------------------ *)

(* running [ref_step] from [looking] over ks consumes every line (all verdicts
   Consume: no Forward, no EndHere, no Fail) iff ks is the beginning of a dump
   or of a race report.  No side condition: indentation is part of the
   language ([is_dump], [is_race_report] ask every line to be [indented]). *)
Theorem C07d_accepts_iff : forall ks,
  (exists st, ref_consume looking ks = Some st) <-> in_language ks.
Proof. exact DumpGrammarProofs.accepts_iff. Qed.
Print Assumptions C07d_accepts_iff.

(* a consumed sequence has no indentation mismatch *)
Theorem C07d_consumed_indented : forall ks st st',
  ref_consume st ks = Some st' -> Forall indented ks.
Proof. exact DumpGrammarProofs.consume_indented. Qed.
Print Assumptions C07d_consumed_indented.

(* the two halves separately: the first line decides *)
Theorem C07d_dump_prefix_iff : forall ks,
  is_dump_prefix ks <->
  ks = [] \/ exists h ks' st, ks = h :: ks' /\ indented h /\ is_header h /\
                              ref_consume gotRoutineHeader ks' = Some st.
Proof. exact DumpGrammarProofs.dump_prefix_iff. Qed.
Print Assumptions C07d_dump_prefix_iff.

Theorem C07d_race_prefix_iff : forall ks,
  is_race_prefix ks <->
  ks = [] \/ exists o ks' st, ks = o :: ks' /\ indented o /\ is_race_open o /\
                              ref_consume gotRaceHeader1 ks' = Some st.
Proof. exact DumpGrammarProofs.race_prefix_iff. Qed.
Print Assumptions C07d_race_prefix_iff.

(* complete words: the automaton stands at a goroutine boundary exactly after
   a [dump] (which boundary: [dstate]) ... *)
Theorem C07d_boundary_iff : forall ks x,
  ref_consume looking ks = Some (dstate x) <-> Forall indented ks /\ dump x ks.
Proof. exact DumpGrammarProofs.boundary_iff. Qed.
Print Assumptions C07d_boundary_iff.

(* ... and has consumed everything and is [done] exactly after a whole report *)
Theorem C07d_report_iff : forall ks,
  ref_consume looking ks = Some done <-> is_race_report ks.
Proof. exact DumpGrammarProofs.report_iff. Qed.
Print Assumptions C07d_report_iff.

(* ------------------------------------------------------------------ *)
(* B. which lines end a dump, which invalidate it                      *)
(* ------------------------------------------------------------------ *)

(* goroutine dumps.  After a non-empty beginning ks of a dump, a properly
   indented line k
   - continues the dump iff ks ++ [k] is still a beginning of a dump;
   - ends it without error iff it does not continue it and ks may end there;
   - is an error otherwise;
   - is never forwarded. *)
Theorem C07d_dump_next : forall ks st k, ks <> [] -> is_dump_prefix ks ->
  ref_consume looking ks = Some st -> indented k ->
  (snd (ref_step st k) = Consume <-> is_dump_prefix (ks ++ [k])) /\
  (snd (ref_step st k) = EndHere <-> ~ is_dump_prefix (ks ++ [k]) /\ may_end_before ks k) /\
  (snd (ref_step st k) = Fail <-> ~ is_dump_prefix (ks ++ [k]) /\ ~ may_end_before ks k) /\
  snd (ref_step st k) <> Forward.
Proof. exact DumpGrammarProofs.dump_next. Qed.
Print Assumptions C07d_dump_next.

(* the enumerations [ends_dump] / [invalidates] of C07c, read off the
   automaton's table state by state, are these two conditions *)
Theorem C07d_ends_iff : forall ks st k, ks <> [] -> is_dump_prefix ks ->
  ref_consume looking ks = Some st -> indented k ->
  (ends_dump st k <-> ~ is_dump_prefix (ks ++ [k]) /\ may_end_before ks k) /\
  (invalidates st k <-> ~ is_dump_prefix (ks ++ [k]) /\ ~ may_end_before ks k).
Proof. exact DumpGrammarProofs.dump_ends_iff. Qed.
Print Assumptions C07d_ends_iff.

(* a line without the indentation is an error, wherever it comes *)
Theorem C07d_unindented : forall st k, ~ indented k -> ref_step st k = (done, Fail).
Proof. exact DumpGrammarProofs.unindented_fails. Qed.
Print Assumptions C07d_unindented.

(* race reports.  After a non-empty beginning ks of a report, a line k
   - continues it iff ks ++ [k] is still a beginning of a report;
   - is forwarded (and the opening separator is lost) iff it does not continue
     it and ks is the opening separator alone;
   - finds the report complete iff ks is a whole report (then no line continues it);
   - is an error otherwise. *)
Theorem C07d_race_next : forall ks st k, ks <> [] -> is_race_prefix ks ->
  ref_consume looking ks = Some st -> indented k ->
  (snd (ref_step st k) = Consume <-> is_race_prefix (ks ++ [k])) /\
  (snd (ref_step st k) = Forward <-> ~ is_race_prefix (ks ++ [k]) /\ List.length ks = 1) /\
  (snd (ref_step st k) = EndHere <-> is_race_report ks) /\
  (snd (ref_step st k) = Fail <->
   ~ is_race_prefix (ks ++ [k]) /\ List.length ks <> 1 /\ ~ is_race_report ks).
Proof. exact DumpGrammarProofs.race_next. Qed.
Print Assumptions C07d_race_next.

(* ------------------------------------------------------------------ *)
(* C. scan                                                             *)
(* ------------------------------------------------------------------ *)

(* [accept_all ss0 lines] (Spec/SeqSpec.v, the notion under [delimits]: from
   the initial state scan accepts every line with flag true and is never [done]
   before a line) succeeds iff the kinds of the lines are a word of the
   language: "what scan accepts" is now defined without scan's control. *)
Theorem C07d_scan_language : forall lines,
  (exists s, accept_all ss0 lines = Some s) <->
  (exists ks, kinds_along ss0 lines = map Some ks /\ in_language ks).
Proof. exact DumpGrammarProofs.scan_language. Qed.
Print Assumptions C07d_scan_language.

(* the state reached says where in the language the lines stop *)
Theorem C07d_scan_dump : forall lines x,
  (exists s, accept_all ss0 lines = Some s /\ st s = dstate x) <->
  (exists ks, kinds_along ss0 lines = map Some ks /\ Forall indented ks /\ dump x ks).
Proof. exact DumpGrammarProofs.scan_dump. Qed.
Print Assumptions C07d_scan_dump.

Theorem C07d_scan_report : forall lines,
  (exists s, accept_all ss0 lines = Some s /\ st s = done) <->
  (exists ks, kinds_along ss0 lines = map Some ks /\ is_race_report ks).
Proof. exact DumpGrammarProofs.scan_report. Qed.
Print Assumptions C07d_scan_report.

(* the line after an accepted beginning of a dump: accepted, quietly refused
   (the dump ends), or refused with an error - by the language alone *)
Theorem C07d_scan_next : forall lines s ks d k s' l e,
  accept_all ss0 lines = Some s -> kinds_along ss0 lines = map Some ks ->
  ks <> [] -> is_dump_prefix ks ->
  kinds_at s d = Some k -> indented k -> scan s d = Ok (s', l, e) ->
  (l = true <-> is_dump_prefix (ks ++ [k])) /\
  (e <> None <-> ~ is_dump_prefix (ks ++ [k]) /\ ~ may_end_before ks k) /\
  (l = false /\ e = None <-> ~ is_dump_prefix (ks ++ [k]) /\ may_end_before ks k).
Proof. exact DumpGrammarProofs.scan_dump_next. Qed.
Print Assumptions C07d_scan_next.

(* ------------------------------------------------------------------ *)
(* C'. variants                                                        *)
(* ------------------------------------------------------------------ *)

(* the statement with the side condition instead: for ks without indentation
   mismatch, "consumed" = "can be continued into a word of the bare
   productions" (the continuation is unconstrained) *)
Theorem C07d_accepts_iff_shape : forall ks, Forall indented ks ->
  ((exists st, ref_consume looking ks = Some st) <->
   (exists rest x, dump x (ks ++ rest)) \/ (exists rest, race_report (ks ++ rest))).
Proof. exact DumpGrammarProofs.accepts_iff_shape. Qed.
Print Assumptions C07d_accepts_iff_shape.

(* [dump_complete] (a dump that stops at a boundary other than "header
   unavailable") or a whole report: exactly the sequences after which some
   line finds the dump ended without error *)
Theorem C07d_complete_iff : forall ks, Forall indented ks ->
  (dump_complete ks \/ race_report ks <->
   exists k, indented k /\ verdict_after ks k = Some EndHere).
Proof. exact DumpGrammarProofs.complete_iff. Qed.
Print Assumptions C07d_complete_iff.

(* ------------------------------------------------------------------ *)
(* D. Examples                                                         *)
(* ------------------------------------------------------------------ *)

(* the kinds of a line given by its text (EOL and indentation removed) *)
Definition lk (s : string) : kinds := line_kinds [] (s2b s).
Arguments lk s%string_scope.
Definition lt (s : string) : kinds := line_kinds [] (9%N :: s2b s).   (* TAB first *)
Arguments lt s%string_scope.
(* inside a race report, the ids of its operations being known *)
Definition lr (s : string) : kinds := line_kinds [7%Z; 6%Z] (s2b s).
Arguments lr s%string_scope.

Ltac cls := vm_compute; repeat split.

(* -- D1. derivations in the grammar itself (no automaton, no theorem) -- *)

Definition ex_g1 : list kinds :=
  [ lk "goroutine 1 [running]:"; lk "main.main()"; lt "/a/b.go:12 +0x1f";
    lk "main.f(0x1, {0x2, 0x3}, ...)"; lt "/a/b.go:30 +0x2";
    lk "...additional frames elided...";
    lk "created by main.g in goroutine 1"; lt "/a/b.go:12 +0x1f" ].
Definition ex_g2 : list kinds :=
  [ lk "goroutine 2 [chan receive, 5 minutes, locked to thread]:";
    lt "goroutine running on other thread; stack unavailable" ].
Definition ex_g3 : list kinds :=
  [ lk "goroutine 3 [select]:"; lk "main.h()"; lt "/a/c.go:7" ].

Example ex_g1_goroutine : goroutine EndCreated ex_g1.
Proof.
  apply (g_stack_created _ _ _ [lk "main.f(0x1, {0x2, 0x3}, ...)"; lt "/a/b.go:30 +0x2";
                                lk "...additional frames elided..."]); try (cls; fail).
  apply sr_frame; try (cls; fail). apply sr_elided; try (cls; fail). apply sr_nil.
Qed.
Example ex_g2_goroutine : goroutine EndUnavail ex_g2.
Proof. apply g_unavail; cls. Qed.
Example ex_g3_goroutine : goroutine EndStack ex_g3.
Proof. apply g_stack; try (cls; fail). apply sr_nil. Qed.

(* a two-goroutine dump with its trailing blank line ... *)
Example ex_dump2 : is_dump (ex_g1 ++ lk "" :: ex_g2 ++ [lk ""]) /\
                   dump AfterBlank (ex_g1 ++ lk "" :: ex_g2 ++ [lk ""]).
Proof.
  assert (H : dump AfterBlank (ex_g1 ++ lk "" :: ex_g2 ++ [lk ""])).
  { apply (d_more EndCreated); [exact ex_g1_goroutine|cls|].
    apply (d_last_blank EndUnavail); [exact ex_g2_goroutine|cls]. }
  split; [|exact H]. split; [|exists AfterBlank; exact H].
  repeat (constructor; [reflexivity|]). constructor.
Qed.

(* ... a three-goroutine dump that stops after a stack: complete *)
Example ex_dump3 : dump_complete (ex_g1 ++ lk "" :: ex_g2 ++ lk "" :: ex_g3).
Proof.
  exists (AfterGoroutine EndStack). split; [discriminate|].
  apply (d_more EndCreated); [exact ex_g1_goroutine|cls|].
  apply (d_more EndUnavail); [exact ex_g2_goroutine|cls|].
  apply d_last. exact ex_g3_goroutine.
Qed.

(* ... and one that stops after "unavailable": a boundary, but not complete:
   the blank line is mandatory there (see ex_unavail_then_text) *)
Example ex_dump_unavail : at_boundary (ex_g1 ++ lk "" :: ex_g2).
Proof.
  exists (AfterGoroutine EndUnavail).
  apply (d_more EndCreated); [exact ex_g1_goroutine|cls|]. apply d_last. exact ex_g2_goroutine.
Qed.

(* a race report: two operations, two creation sections *)
Definition ex_op1 : list kinds :=
  [ lr "Read at 0x00c000010000 by goroutine 7:"; lr "  main.racy()"; lr "      /a/r.go:33 +0x44";
    lr "  main.caller()"; lr "      /a/r.go:50 +0x10" ].
Definition ex_op2 : list kinds :=
  [ lr "Previous write at 0x00c000010000 by goroutine 6:"; lr "  main.racy()"; lr "      /a/r.go:33 +0x44" ].
Definition ex_cr1 : list kinds :=
  [ lr "Goroutine 7 (running) created at:"; lr "  main.main()"; lr "      /a/r.go:20 +0x44" ].
Definition ex_cr2 : list kinds :=
  [ lr "Goroutine 6 (finished) created at:"; lr "  main.main()"; lr "      /a/r.go:21 +0x44" ].
Definition ex_report : list kinds :=
  lr "==================" :: lr "WARNING: DATA RACE" ::
  ex_op1 ++ (lr "" :: ex_op2 ++ (lr "" :: ex_cr1 ++ (lr "" :: ex_cr2 ++ [lr "=================="]))).

Example ex_report_ok : is_race_report ex_report.
Proof.
  split; [repeat (constructor; [reflexivity|]); constructor|].
  apply rr; try (cls; fail).
  - apply sec; try (cls; fail). apply rf_cons; try (cls; fail). apply rf_nil.
  - apply ot_prev; try (cls; fail).
    + apply sec; try (cls; fail). apply rf_nil.
    + apply ot_gor; try (cls; fail).
      * apply sec; try (cls; fail). apply rf_nil.
      * apply gt_more; try (cls; fail).
        -- apply sec; try (cls; fail). apply rf_nil.
        -- apply gt_close. cls.
Qed.

(* -- D2. priorities -- *)

(* "created by main.f()" passes both the created-by and the function test.
   After the file line of a frame the grammar reads it as created-by
   (is_created; is_next_func asks k_created = CNo); directly after a header
   only unavailable and func are tried, and it is the FUNCTION line of a frame
   whose function is called "created by main.f" *)
Example ex_created_or_func :
  let k := lk "created by main.f()" in
  is_created k /\ ~ is_next_func k /\ is_first_func k /\
  ref_step gotFileFunc k = (gotCreated, Consume) /\
  ref_step gotRoutineHeader k = (gotFunc, Consume).
Proof. cls. intros (H & _). discriminate H. Qed.

(* a blank line is nothing else: both readings of "blank" coincide on real lines *)
Example ex_blank_real : forall ids, is_blank_after_stack (line_kinds ids []) /\ is_blank (line_kinds ids []).
Proof. intros ids. rewrite line_kinds_blank. cls. Qed.

(* -- D3. printed dumps and reports, through scan (C07d_scan_dump/_report) -- *)

(* Printer.ex_dump: three goroutines (frames with an elided marker; frames and
   a creator; unavailable and a creator), every line indented by four blanks,
   CRLF; with the trailing blank line.  Its first two goroutines alone: *)
Example ex_printed2 :
  exists ks, kinds_along ss0 (lines (print_dump ex_variant (firstn 2 ex_dump) true)) = map Some ks /\
             List.length ks = 15 /\ Forall indented ks /\ dump AfterBlank ks.
Proof.
  assert (H : exists s, accept_all ss0 (lines (print_dump ex_variant (firstn 2 ex_dump) true)) = Some s /\
                        st s = dstate AfterBlank).
  { vm_compute. eexists. split; reflexivity. }
  apply C07d_scan_dump in H. destruct H as (ks & Hka & Hi & Hd).
  exists ks. repeat split; try assumption.
  apply (f_equal (@List.length _)) in Hka. rewrite map_length in Hka. rewrite <- Hka. vm_compute. reflexivity.
Qed.

Example ex_printed3 :
  exists ks, kinds_along ss0 (lines (print_dump ex_variant ex_dump false)) = map Some ks /\
             Forall indented ks /\ dump (AfterGoroutine EndCreated) ks.
Proof.
  apply C07d_scan_dump. vm_compute. eexists. split; reflexivity.
Qed.

(* RacePrinter.ex_race: three operations, two creation sections, 26 lines *)
Example ex_printed_race :
  exists ks, kinds_along ss0 (lines (print_race ex_race)) = map Some ks /\ is_race_report ks.
Proof.
  apply C07d_scan_report. vm_compute. eexists. split; reflexivity.
Qed.

(* -- D4. near-misses -- *)

Ltac not_in_language :=
  let H := fresh in let st := fresh in
  intros H; apply C07d_accepts_iff in H; destruct H as (st & H); vm_compute in H; discriminate H.

(* a second header without the blank line: not in the language; the dump ends
   quietly before it *)
Definition ex_h2 : kinds := lk "goroutine 2 [running]:".
Example ex_no_blank : ~ in_language (ex_g3 ++ [ex_h2]) /\ verdict_after ex_g3 ex_h2 = Some EndHere.
Proof. split; [not_in_language|reflexivity]. Qed.
(* ... as the language says: ex_g3 may end there *)
Example ex_no_blank_may_end : may_end_before ex_g3 ex_h2.
Proof.
  right. right. split; [apply d_last; exact ex_g3_goroutine|].
  intros [H|(_ & _ & H)]; discriminate H.
Qed.

(* a file line without a function line: an error *)
Example ex_file_without_func :
  ~ in_language [lk "goroutine 1 [running]:"; lt "/a/b.go:12 +0x1f"] /\
  verdict_after [lk "goroutine 1 [running]:"] (lt "/a/b.go:12 +0x1f") = Some Fail.
Proof. split; [not_in_language|reflexivity]. Qed.

(* ... but a second file line after a frame ends the dump quietly *)
Example ex_file_after_file : verdict_after ex_g3 (lt "/a/b.go:12 +0x1f") = Some EndHere.
Proof. reflexivity. Qed.

(* created-by after created-by: directly, an error (a file line is due) ... *)
Example ex_created_created :
  let ks := ex_g3 ++ [lk "created by main.g"] in
  ~ in_language (ks ++ [lk "created by main.k"]) /\
  verdict_after ks (lk "created by main.k") = Some Fail.
Proof. split; [not_in_language|reflexivity]. Qed.
(* ... after the creator's file line, the dump ends quietly: one creator only *)
Example ex_created_file_created :
  let ks := ex_g3 ++ [lk "created by main.g"; lt "/a/b.go:1"] in
  ~ in_language (ks ++ [lk "created by main.k"]) /\
  verdict_after ks (lk "created by main.k") = Some EndHere.
Proof. split; [not_in_language|reflexivity]. Qed.

(* after "unavailable" anything but a blank or created-by line is an error:
   the dump cannot end quietly there *)
Example ex_unavail_then_text :
  verdict_after ex_g2 (lk "exit status 2") = Some Fail /\
  verdict_after ex_g3 (lk "exit status 2") = Some EndHere.
Proof. split; reflexivity. Qed.

(* a header followed by a blank line (a goroutine without frames): an error *)
Example ex_empty_goroutine :
  ~ in_language [lk "goroutine 1 [running]:"; lk ""] /\
  verdict_after [lk "goroutine 1 [running]:"] (lk "") = Some Fail.
Proof. split; [not_in_language|reflexivity]. Qed.

(* a created-by line with an invalid symbol after a stack: malformed, an error
   (where any other unknown text would end the dump quietly) *)
Example ex_malformed :
  let k := lk "created by a.%zz" in
  malformed_stack_line k /\ verdict_after ex_g3 k = Some Fail.
Proof. split; [left; reflexivity|reflexivity]. Qed.

(* race reports: no creation section (the closing separator after the blank
   line) is not in the language; neither is a report without operation frames *)
Example ex_race_no_creation :
  ~ in_language (lr "==================" :: lr "WARNING: DATA RACE" :: ex_op1 ++ [lr ""; lr "=================="]).
Proof. not_in_language. Qed.
(* no "Previous ..." section at all IS in the language *)
Example ex_race_no_previous :
  is_race_report (lr "==================" :: lr "WARNING: DATA RACE" ::
                  ex_op1 ++ (lr "" :: ex_cr1 ++ [lr "=================="])).
Proof. apply C07d_report_iff. reflexivity. Qed.
(* the opening separator followed by anything but the warning: forwarded, the
   separator itself is lost *)
Example ex_race_sep_alone :
  is_race_prefix [lr "=================="] /\
  verdict_after [lr "=================="] (lk "goroutine 1 [running]:") = Some Forward.
Proof.
  split; [|reflexivity]. apply C07d_race_prefix_iff. right.
  exists (lr "=================="), [], gotRaceHeader1. cls.
Qed.

(* the hypotheses of C07d_dump_next / C07d_ends_iff on non-trivial data *)
Example ex_dump_next_hyps :
  ex_g1 ++ [lk ""] <> [] /\ is_dump_prefix (ex_g1 ++ [lk ""]) /\
  ref_consume looking (ex_g1 ++ [lk ""]) = Some betweenRoutine /\ indented ex_h2 /\
  is_dump_prefix ((ex_g1 ++ [lk ""]) ++ [ex_h2]).
Proof.
  split; [discriminate|]. split; [|split; [reflexivity|split; [reflexivity|]]].
  - exists []. rewrite app_nil_r. split; [repeat (constructor; [reflexivity|]); constructor|].
    exists AfterBlank. apply (d_last_blank EndCreated); [exact ex_g1_goroutine|cls].
  - apply C07d_dump_prefix_iff. right. eexists _, _, _. split; [reflexivity|]. cls.
Qed.
