(* Properties/C10b.v — C10, the LAST goroutine at the cut.  Statements only.

   Properties/C10.v (C10_prefix_goroutines) says that every goroutine but the
   last one at the cut is final.  The property also promises that a goroutine
   whose text lies entirely before the cut is intact EVEN WHEN IT IS THE LAST
   ONE, "only the goroutine being read at the cut may be partial".  Whether a
   goroutine is still "being read" is exactly the scanner state s after the
   complete lines before the cut:

     closed_state (st s)    looking, done, betweenRoutine (the blank separator
                            was read), gotFileCreated (the "created by" file
                            line was read: the goroutine cannot grow any more,
                            the next line is "" or ends the dump),
                            gotRaceHeader1/2 (no goroutine yet)
                            => ALL goroutines of s are final: those of any
                            extension are  goroutines s ++ tl
     the other states       gotRoutineHeader, gotFunc, gotFileFunc (more calls,
                            "...frames elided...", "created by" may follow),
                            gotUnavail ("created by" may follow), gotCreated,
                            gotRaceOperationHeader/Func/File
                            => the last goroutine is being read and may still
                            change (C10b_open_last_differs); all the others
                            are final (the existing theorem)

   As in C10.v the guarantee holds along paths that avoid the five
   race-goroutine states (nonrace_path); an ordinary goroutine dump never
   enters them (C10b_dump_nonrace_path), so for a cut inside a plain dump the
   hypothesis is discharged.  Pointer pseudo-names: snapshots are related
   through snap_of na, exactly as in C10_prefix_goroutines (with na = false
   snap_of is the identity on non-empty lists: C10b_all_cuts compares the
   snapshots themselves). *)
From PP Require Import Base.Bytes Base.BytesX Base.GoResult Model.Types Model.Lines Model.Reader Model.FuncInit Model.Scan Model.Names Model.ScanSnapshot Model.ScanSeq.
From PP Require Import Proofs.ScanInv Proofs.LoopBase Proofs.LoopProofs Spec.Eqb.
From PP Require Import Spec.ReaderSpec Spec.LoopSpec Spec.SeqSpec Proofs.PrefixBase Proofs.PrefixFrame Proofs.PrefixProofs Proofs.PrefixLast.
From Coq Require Import String.

(* 1. One step from a closed state never touches an existing goroutine: the
   list is unchanged (and the state still closed) or one goroutine is
   appended. *)
Theorem C10b_closed_step : forall s line s' l e,
  closed_state (st s) = true -> scan s line = Ok (s', l, e) ->
  (goroutines s' = goroutines s /\ closed_state (st s') = true) \/
  (exists g, goroutines s' = goroutines s ++ [g]).
Proof. exact PrefixLast.closed_step. Qed.
Print Assumptions C10b_closed_step.

(* 2. Fold level (the analogue of the frame lemma): from a closed state, all
   the goroutines are a prefix of those after any further lines. *)
Theorem C10b_closed_all_final : forall s ls sB,
  closed_state (st s) = true -> nonrace_path s ls -> scan_lines s ls = Ok sB ->
  exists tl, goroutines sB = goroutines s ++ tl.
Proof. exact PrefixLast.closed_all_goroutines_final. Qed.
Print Assumptions C10b_closed_all_final.

Theorem C10b_closed_all_final_nth : forall s ls sB,
  closed_state (st s) = true -> nonrace_path s ls -> scan_lines s ls = Ok sB ->
  List.length (goroutines s) <= List.length (goroutines sB) /\
  forall i, i < List.length (goroutines s) -> nth_error (goroutines sB) i = nth_error (goroutines s) i.
Proof. exact PrefixLast.closed_all_goroutines_nth. Qed.
Print Assumptions C10b_closed_all_final_nth.

(* the general invariant, from which both follow: once gs was present in a
   closed state, it stays a prefix, and whenever the scanner is in an open
   state the goroutine being read is a later one *)
Theorem C10b_keeps : forall ls gs s sB,
  keeps gs s -> nonrace_path s ls -> scan_lines s ls = Ok sB -> keeps gs sB.
Proof. exact PrefixLast.scan_lines_keeps. Qed.
Print Assumptions C10b_keeps.

(* 3. An ordinary dump (any state from the first header on, race reports
   excluded) never reaches a race-goroutine state. *)
Theorem C10b_dump_nonrace_path : forall ls s, dump_state (st s) = true -> nonrace_path s ls.
Proof. exact PrefixLast.dump_nonrace_path. Qed.
Print Assumptions C10b_dump_nonrace_path.

(* 4. Snapshot level: C10_prefix_goroutines, verbatim, plus
     - closed state at the cut: the goroutines sB behind the snapshot of the
       whole stream are  goroutines s ++ tl  (last goroutine included), and
       the step on the partial line leaves goroutines s alone or appends one;
     - in a dump state the side condition nonrace_path holds. *)
Theorem C10b_prefix_all_goroutines : forall na B k sc sc' f f' res res',
  stall_free sc -> stall_free sc' ->
  scan_snapshot na (mkSource B sc f) = Ok res ->
  scan_snapshot na (mkSource (firstn k B) sc' f') = Ok res' ->
  exists P T R,
    lines (firstn k B) = P ++ T /\ lines B = P ++ R /\ all_lf P /\
    (T = [] \/ exists t u R', T = [t] /\ has_lf t = false /\ R = (t ++ u) :: R') /\
    ((snap res' = snap res /\ fwd res' = fwd res /\ rerr_out res' = rerr_out res /\
      final_state res' = final_state res /\ lines_read res' = lines_read res /\
      exists rm, suffix res' ++ rest (unread res') = List.concat (rm ++ T) /\
                 suffix res ++ rest (unread res) = List.concat (rm ++ R)) \/
     (exists s s', scan_lines ss0 P = Ok s /\ Inv s /\
        snap res' = snap_of na (goroutines s') /\
        (s' = s \/ exists t l e, T = [t] /\ scan s t = Ok (s', l, e)) /\
        (race_goroutine_state (st s) = false -> frame (goroutines s) (goroutines s')) /\
        (nonrace_path s R ->
         exists sB, snap res = snap_of na (goroutines sB) /\
           (forall i, S i < List.length (goroutines s) ->
              nth_error (goroutines sB) i = nth_error (goroutines s) i /\
              nth_error (goroutines s') i = nth_error (goroutines s) i) /\
           (closed_state (st s) = true ->
              exists tl, goroutines sB = goroutines s ++ tl)) /\
        (closed_state (st s) = true ->
           goroutines s' = goroutines s \/ exists g, goroutines s' = goroutines s ++ [g]) /\
        (dump_state (st s) = true -> nonrace_path s R))).
Proof. exact PrefixLast.prefix_all_goroutines. Qed.
Print Assumptions C10b_prefix_all_goroutines.

(* ------------------------------------------------------------------ *)
(* Examples                                                             *)

Definition ln (s : string) : bytes := s2b s ++ [LF].
Definition TAB : string := String (Ascii.ascii_of_nat 9) EmptyString.

(* junk, goroutine 1 (two calls, created by), goroutine 2 (one call), junk *)
Definition B2 : bytes :=
  ln "x" ++ ln "goroutine 1 [running]:" ++ ln "main.f(0x1)" ++ ln (TAB ++ "/a/b.go:1 +0x1") ++
  ln "main.main()" ++ ln (TAB ++ "/a/b.go:9 +0x2") ++ ln "created by main.g" ++ ln (TAB ++ "/a/c.go:3 +0x5") ++ ln "" ++
  ln "goroutine 2 [chan receive, 3 minutes]:" ++ ln "main.h(0xc000010000)" ++ ln (TAB ++ "/a/d.go:4 +0x7") ++ ln "" ++
  ln "trailer".

Definition snapl (B : bytes) (sc : list (nat * bool)) (f : io_err) : list Goroutine :=
  match scan_snapshot false (mkSource B sc f) with
  | Ok r => match snap r with Some g => g | None => [] end
  | Panic _ => []
  end.
Definition full : list Goroutine := snapl B2 [] EOF.

Fixpoint is_prefix (a b : list Goroutine) : bool :=
  match a, b with
  | [], _ => true
  | x :: a', y :: b' => goroutine_eqb x y && is_prefix a' b'
  | _, _ => false
  end.

(* the state after the complete lines before the cut *)
Definition cut_state (k : nat) : option sstate :=
  match scan_lines ss0 (filter has_lf (lines (firstn k B2))) with Ok s => Some s | Panic _ => None end.
Definition cut_closed (k : nat) : bool :=
  match cut_state k with Some s => closed_state (st s) | None => false end.

(* the hypotheses are satisfiable: the state after goroutine 1 and its blank
   line is betweenRoutine, closed, with one goroutine, and the rest of the
   stream is a nonrace path (by C10b_dump_nonrace_path) that ends with two *)
Example C10b_closed_nonvacuous :
  match cut_state 116 with
  | Some s => st s = betweenRoutine /\ closed_state (st s) = true /\ dump_state (st s) = true /\
              List.length (goroutines s) = 1 /\
              match scan_lines s (skipn 9 (lines B2)) with
              | Ok sB => List.length (goroutines sB) = 2 /\ firstn 1 (goroutines sB) = goroutines s
              | Panic _ => False
              end
  | None => False
  end.
Proof. vm_compute. repeat split. Qed.

(* every cut of B2 (delivered 5 bytes at a time, ending with a failure):
   all the goroutines but the last are those of the whole stream; and when
   the state s at the cut is closed, ALL the goroutines of s are, the last
   one included: the snapshot of the cut stream is goroutines s, possibly
   followed by ONE more goroutine, started by the partial line (k = 154: the
   cut is at the end of the header of goroutine 2, before its LF; the header
   is recognised and goroutine 2 appears with no call: it is "the goroutine
   being read at the cut") *)
Definition cut_all_ok (k : nat) : bool :=
  let gs' := snapl (firstn k B2) [(5, false); (0, false)] (Fail 2) in
  is_prefix (removelast gs') full &&
  match cut_state k with
  | Some s =>
      if closed_state (st s) then
        let n := List.length (goroutines s) in
        goroutines_eqb (firstn n gs') (goroutines s) && is_prefix (goroutines s) full &&
        Nat.leb (List.length gs') (S n)
      else true
  | None => false
  end.

Example C10b_all_cuts : forallb cut_all_ok (seq 0 (S (List.length B2))) = true.
Proof. vm_compute. reflexivity. Qed.

Example C10b_partial_header :
  cut_closed 154 = true /\ List.length (snapl (firstn 154 B2) [] EOF) = 2 /\
  is_prefix (snapl (firstn 154 B2) [] EOF) full = false /\
  is_prefix (firstn 1 (snapl (firstn 154 B2) [] EOF)) full = true.
Proof. vm_compute. repeat split. Qed.

(* closed cuts with a complete last goroutine exist in both closed dump
   states: k = 115 is just after the "created by" file line of goroutine 1
   (gotFileCreated, the blank separator NOT yet read), k = 116 just after the
   blank line (betweenRoutine), k = 130 inside the header of goroutine 2
   (betweenRoutine + a partial line that is not recognised); each yields
   exactly goroutine 1 as in the whole stream *)
Example C10b_closed_cuts :
  option_map (fun s => st s) (cut_state 115) = Some gotFileCreated /\
  option_map (fun s => st s) (cut_state 116) = Some betweenRoutine /\
  option_map (fun s => st s) (cut_state 130) = Some betweenRoutine /\
  forallb (fun k => goroutines_eqb (snapl (firstn k B2) [] EOF) (firstn 1 full)) [115; 116; 130] = true /\
  List.length full = 2.
Proof. vm_compute. repeat split. Qed.

(* the converse boundary: in an open state the last goroutine does differ.
   k = 59: after the first call and its file line (gotFileFunc): goroutine 1
   is present with one call; in the whole stream it has two and a creator.
   "All goroutines are final" is false there; "all but the last" holds. *)
Theorem C10b_open_last_differs :
  option_map (fun s => st s) (cut_state 59) = Some gotFileFunc /\
  cut_closed 59 = false /\
  match snapl (firstn 59 B2) [] EOF, full with
  | [g'], g :: _ =>
      ID g' = ID g /\ goroutine_eqb g' g = false /\
      List.length (Calls (SStack (GSig g'))) = 1 /\ List.length (Calls (SStack (GSig g))) = 2 /\
      Calls (CreatedBy (GSig g')) = [] /\ List.length (Calls (CreatedBy (GSig g))) = 1
  | _, _ => False
  end /\
  is_prefix (snapl (firstn 59 B2) [] EOF) full = false /\
  is_prefix (removelast (snapl (firstn 59 B2) [] EOF)) full = true.
Proof. vm_compute. repeat split. Qed.
Print Assumptions C10b_open_last_differs.

(* the same at the fold level: C10b_closed_all_final without its hypothesis
   "closed" is refuted *)
Theorem C10b_open_refuted :
  ~ (forall s ls sB, nonrace_path s ls -> scan_lines s ls = Ok sB ->
       exists tl, goroutines sB = goroutines s ++ tl).
Proof.
  intros F.
  destruct (scan_lines ss0 (firstn 4 (lines B2))) as [s|] eqn:E1; [|vm_compute in E1; discriminate E1].
  destruct (scan_lines s (skipn 4 (lines B2))) as [sB|] eqn:E2;
    [|vm_compute in E1; injection E1 as <-; vm_compute in E2; discriminate E2].
  assert (Hd : dump_state (st s) = true) by (vm_compute in E1; injection E1 as <-; reflexivity).
  destruct (F s _ sB (PrefixLast.dump_nonrace_path _ s Hd) E2) as (tl & Htl).
  vm_compute in E1. injection E1 as <-. vm_compute in E2. injection E2 as <-.
  vm_compute in Htl. discriminate Htl.
Qed.
Print Assumptions C10b_open_refuted.
