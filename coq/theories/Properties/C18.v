(* Properties/C18.v — Path rebasing: frames whose file exists locally are
   mapped to that local file, get the path relative to their root, the import
   path implied by it and the right location class; frames under no detected
   root stay unknown; the go-test main stays standard library; a resolved
   local path ends with the relative path; each detected remote root is a
   prefix of the frames it explains and is backed by a file of the disk.
   Statements only; proofs in Proofs/PathsProofs.v (generic lemmas in
   Proofs/PathsBase.v).  Model: Model/Paths.v.

   Vocabulary (all defined in PathsProofs / PathsBase, no axioms):
     is_prefix p s            = exists r, s = p ++ r
     same_core c c'           = CFunc, CArgs, RemoteSrcPath, Line, SrcName, DirSrc agree
     dir_import c rel         = directory part of rel (everything before its LAST '/') when rel
                                contains a '/', else CImportPath c           (C18_dir_import_spec)
     mod_import pkg rel       = pkg ++ "/" ++ dir(rel), or pkg when rel has no '/'  (C18_mod_import_spec)
     classify c loc           = loc when CLocation c = LocationUnknown, else CLocation c
     goroot_miss g rsp        = g = [] \/ g ++ "/src/" is not a prefix of rsp
     gopaths_miss m rsp       = for every key p of m neither p ++ "/src/" nor p ++ "/pkg/mod/" is a prefix of rsp
     gomods_miss m rsp        = for no key p of m is p ++ "/" a prefix of rsp
     gopath_longest m rsp p   = every key of m that matches rsp (either way) is at most as long as p
     gomod_longest m rsp p    = likewise for "/"
     update_case ... c c'     = the five-way case analysis below (inductive, one constructor per case)
     case_cond n ...          = the side condition of case n (0 unchanged, 1 GOROOT, 2 GOPATH src,
                                3 module cache, 4 go.mod) as a function of the tables and the remote path only
     clean_path f             = no "//" in f and f does not end with '/'   (boolean; C18_clean_path_spec)
     rooted_witness fs local remote f
                              = split_path f = pre ++ post, both non-empty, remote = join pre,
                                and local ++ "/" ++ join post is a regular file of fs
     backed fs lgoroot lgopaths files st
                              = the three "backed by the disk" clauses, stated with rooted_witness
     skip_line l              = l has no LF and does not start with 'm'
     unlines ls               = every line followed by LF, concatenated
     eol_ok rest              = rest is empty, starts with LF, is a single CR, or starts with CR LF
     blt a b                  = bcmp a b = Lt   (Go string order)
     call_core / stack_core / goroutine_core
                              = everything but LocalSrcPath, RelSrcPath, CImportPath, CLocation

   Found while proving (all faithful to the Go code):
   - no hypothesis is needed for the shape, ordering, preservation and
     counting theorems: they hold for ALL disks, root tables and calls;
   - the literal-prefix reading of "the detected remote root is a prefix of the
     file" needs [clean_path]: splitPath drops empty components, so the dump path
     "/remote//gopath/src/a/a.go" is cut into the same parts as
     "/remote/gopath/src/a/a.go"; findRoots then detects the remote GOPATH
     "/remote/gopath", which is NOT a byte prefix of that path, and
     updateLocations (byte prefixes) leaves the frame unresolved:
     C18_example_unclean.  C18_roots_backed is the hypothesis-free statement
     (in terms of the components), C18_roots_detected_from_disk the literal one;
   - a call that is already classified keeps its class even when a root
     matches (only the three paths are rewritten): C18_classified_keeps;
   - files that only appear in a CreatedBy stack do not take part in the
     detection (getFiles reads Stack.Calls only) but are rebased like the others
     (C18_example: the creator frame of goroutine 1). *)
From PP Require Import Base.Bytes Base.BytesX Base.GoResult Model.Types Model.Paths.
From PP Require Import Proofs.PathsBase Proofs.PathsProofs.
From Coq Require Import Permutation Sorted String.

(* ------------------------------------------------------------------ *)
(* 1. shape of Call.updateLocations, for arbitrary root tables          *)
(* ------------------------------------------------------------------ *)

(* update_case, spelled out (see PathsProofs.update_case):
   UC_unchanged : c' = c, and RemoteSrcPath c = [] or all three tables miss
   UC_goroot rel: goroot <> [], Remote = goroot ++ "/src/" ++ rel, Local' = localgoroot ++ "/src/" ++ rel,
                  Rel' = rel, Import' = dir_import c rel, Loc' = classify c Stdlib, same_core
   UC_gopath prefix dest rel: Remote <> [], goroot misses, (prefix,dest) IN gopaths with the longest matching key,
                  Remote = prefix ++ "/src/" ++ rel, Local' = dest ++ "/src/" ++ rel, Rel' = rel,
                  Import' = dir_import c rel, Loc' = classify c GOPATH, same_core
   UC_gopkg  prefix dest rel: the same with "/pkg/mod/" and GoPkg
   UC_gomod  prefix pkg rel : Remote <> [], goroot and gopaths miss, (prefix,pkg) IN gomods with the longest
                  matching key, Remote = prefix ++ "/" ++ rel, Local' = Remote, Rel' = rel,
                  Import' = mod_import pkg rel, Loc' = classify c GoMod, same_core *)
Theorem C18_update_shape : forall goroot localgoroot gopaths gomods c,
  update_case goroot localgoroot gopaths gomods c (update_call goroot localgoroot gopaths gomods c).
Proof. exact PathsProofs.update_shape. Qed.
Print Assumptions C18_update_shape.

(* ... and EXACTLY one: every case carries its side condition [case_cond n]
   (a property of the tables and the remote path), and these are exclusive *)
Theorem C18_update_case_tag : forall goroot localgoroot gopaths gomods c c',
  update_case goroot localgoroot gopaths gomods c c' ->
  exists n, n <= 4 /\ case_cond n goroot gopaths gomods (RemoteSrcPath c) /\
    CLocation c' = match n with
                   | 0 => CLocation c
                   | 1 => classify c Stdlib
                   | 2 => classify c GOPATH
                   | 3 => classify c GoPkg
                   | _ => classify c GoMod
                   end.
Proof. exact PathsProofs.update_case_tag. Qed.
Print Assumptions C18_update_case_tag.

Theorem C18_cases_exclusive : forall goroot gopaths gomods rsp i j,
  i <= 4 -> j <= 4 ->
  case_cond i goroot gopaths gomods rsp -> case_cond j goroot gopaths gomods rsp -> i = j.
Proof. exact PathsProofs.case_cond_exclusive. Qed.
Print Assumptions C18_cases_exclusive.

Theorem C18_dir_import_spec : forall c rel,
  (forall dir base, rel = dir ++ [b_slash] ++ base -> ~ In b_slash base -> dir_import c rel = dir) /\
  (~ In b_slash rel -> dir_import c rel = CImportPath c).
Proof. exact PathsProofs.dir_import_spec. Qed.
Print Assumptions C18_dir_import_spec.

Theorem C18_mod_import_spec : forall pkg rel,
  (forall dir base, rel = dir ++ [b_slash] ++ base -> ~ In b_slash base ->
     mod_import pkg rel = pkg ++ [b_slash] ++ dir) /\
  (~ In b_slash rel -> mod_import pkg rel = pkg).
Proof. exact PathsProofs.mod_import_spec. Qed.
Print Assumptions C18_mod_import_spec.

Theorem C18_update_empty_remote : forall goroot localgoroot gopaths gomods c,
  RemoteSrcPath c = [] -> update_call goroot localgoroot gopaths gomods c = c.
Proof. exact PathsProofs.update_empty_remote. Qed.
Print Assumptions C18_update_empty_remote.

Theorem C18_unmatched_unchanged : forall goroot localgoroot gopaths gomods c,
  goroot_miss goroot (RemoteSrcPath c) ->
  gopaths_miss gopaths (RemoteSrcPath c) ->
  gomods_miss gomods (RemoteSrcPath c) ->
  update_call goroot localgoroot gopaths gomods c = c.
Proof. exact PathsProofs.unmatched_unchanged. Qed.
Print Assumptions C18_unmatched_unchanged.

(* frames under none of the roots stay unknown, with no local path *)
Theorem C18_unmatched_unknown : forall goroot localgoroot gopaths gomods c,
  goroot_miss goroot (RemoteSrcPath c) ->
  gopaths_miss gopaths (RemoteSrcPath c) ->
  gomods_miss gomods (RemoteSrcPath c) ->
  LocalSrcPath c = [] -> RelSrcPath c = [] -> CLocation c = LocationUnknown ->
  let c' := update_call goroot localgoroot gopaths gomods c in
  LocalSrcPath c' = [] /\ RelSrcPath c' = [] /\ CImportPath c' = CImportPath c /\ CLocation c' = LocationUnknown.
Proof. exact PathsProofs.unmatched_unknown. Qed.
Print Assumptions C18_unmatched_unknown.

(* a resolved local path ends with the relative path; root_seps = ["/src/"; "/pkg/mod/"; "/"] *)
Theorem C18_local_ends_with_rel : forall goroot localgoroot gopaths gomods c,
  let c' := update_call goroot localgoroot gopaths gomods c in
  LocalSrcPath c' <> [] -> LocalSrcPath c = [] ->
  exists root mid, In mid root_seps /\ LocalSrcPath c' = root ++ mid ++ RelSrcPath c'.
Proof. exact PathsProofs.local_ends_with_rel. Qed.
Print Assumptions C18_local_ends_with_rel.

(* each remote root is a prefix of the frames it explains *)
Theorem C18_remote_root_prefix : forall goroot localgoroot gopaths gomods c,
  let c' := update_call goroot localgoroot gopaths gomods c in
  c' = c \/
  exists root mid,
    ((root = goroot /\ goroot <> [] /\ mid = s2b "/src/") \/
     (In root (map fst gopaths) /\ (mid = s2b "/src/" \/ mid = s2b "/pkg/mod/")) \/
     (In root (map fst gomods) /\ mid = s2b "/")) /\
    RemoteSrcPath c = root ++ mid ++ RelSrcPath c' /\
    is_prefix (root ++ mid) (RemoteSrcPath c).
Proof. exact PathsProofs.remote_root_prefix. Qed.
Print Assumptions C18_remote_root_prefix.

Theorem C18_class_table : forall goroot localgoroot gopaths gomods c,
  CLocation c = LocationUnknown ->
  let c' := update_call goroot localgoroot gopaths gomods c in
  match CLocation c' with
  | LocationUnknown => c' = c
  | Stdlib => goroot <> [] /\ RemoteSrcPath c = goroot ++ s2b "/src/" ++ RelSrcPath c'
  | GOPATH => exists prefix dest, In (prefix, dest) gopaths /\
                RemoteSrcPath c = prefix ++ s2b "/src/" ++ RelSrcPath c' /\
                LocalSrcPath c' = dest ++ s2b "/src/" ++ RelSrcPath c'
  | GoPkg => exists prefix dest, In (prefix, dest) gopaths /\
                RemoteSrcPath c = prefix ++ s2b "/pkg/mod/" ++ RelSrcPath c' /\
                LocalSrcPath c' = dest ++ s2b "/pkg/mod/" ++ RelSrcPath c'
  | GoMod => exists prefix pkg, In (prefix, pkg) gomods /\
                RemoteSrcPath c = prefix ++ s2b "/" ++ RelSrcPath c' /\
                LocalSrcPath c' = RemoteSrcPath c /\
                CImportPath c' = mod_import pkg (RelSrcPath c')
  end.
Proof. exact PathsProofs.class_table. Qed.
Print Assumptions C18_class_table.

Theorem C18_classified_keeps : forall goroot localgoroot gopaths gomods c,
  CLocation c <> LocationUnknown ->
  CLocation (update_call goroot localgoroot gopaths gomods c) = CLocation c.
Proof. exact PathsProofs.classified_keeps. Qed.
Print Assumptions C18_classified_keeps.

(* the go-test generated main, marked Stdlib by the scanner, stays standard library *)
Theorem C18_testmain_stays_stdlib : forall goroot localgoroot gopaths gomods c,
  CLocation c = Stdlib ->
  CLocation (update_call goroot localgoroot gopaths gomods c) = Stdlib.
Proof. exact PathsProofs.testmain_stays_stdlib. Qed.
Print Assumptions C18_testmain_stays_stdlib.

(* ------------------------------------------------------------------ *)
(* 2. longest root wins; the table is used as a set                     *)
(* ------------------------------------------------------------------ *)

(* sortedRoots really sorts: a permutation, key lengths non-increasing *)
Theorem C18_sorted_roots_perm : forall m, Permutation (sorted_roots m) m.
Proof. exact PathsBase.sorted_roots_perm. Qed.
Print Assumptions C18_sorted_roots_perm.

Theorem C18_sorted_roots_sorted : forall m,
  StronglySorted (fun a b => root_before b a = false) (sorted_roots m).
Proof. exact PathsBase.sorted_roots_sorted. Qed.
Print Assumptions C18_sorted_roots_sorted.

Theorem C18_sorted_roots_desc : forall m i j a b,
  i < j -> nth_error (sorted_roots m) i = Some a -> nth_error (sorted_roots m) j = Some b ->
  List.length (fst b) <= List.length (fst a).
Proof. exact PathsProofs.sorted_roots_desc. Qed.
Print Assumptions C18_sorted_roots_desc.

(* nested modules: whenever some go.mod root contains the file (and no
   GOROOT / GOPATH does), the frame is explained by a go.mod root at least as
   long as every other one that contains it *)
Theorem C18_longest_root_wins : forall goroot localgoroot gopaths gomods c p1 k1,
  goroot_miss goroot (RemoteSrcPath c) ->
  gopaths_miss gopaths (RemoteSrcPath c) ->
  In (p1, k1) gomods -> is_prefix (p1 ++ s2b "/") (RemoteSrcPath c) ->
  let c' := update_call goroot localgoroot gopaths gomods c in
  exists prefix pkg, In (prefix, pkg) gomods /\
    List.length p1 <= List.length prefix /\
    (forall p k, In (p, k) gomods -> is_prefix (p ++ s2b "/") (RemoteSrcPath c) ->
       List.length p <= List.length prefix) /\
    RemoteSrcPath c = prefix ++ s2b "/" ++ RelSrcPath c' /\
    LocalSrcPath c' = RemoteSrcPath c /\
    CImportPath c' = mod_import pkg (RelSrcPath c') /\
    CLocation c' = classify c GoMod.
Proof. exact PathsProofs.longest_gomod_wins. Qed.
Print Assumptions C18_longest_root_wins.

(* overlapping GOPATHs *)
Theorem C18_longest_gopath_wins : forall goroot localgoroot gopaths gomods c p1 d1,
  goroot_miss goroot (RemoteSrcPath c) ->
  In (p1, d1) gopaths ->
  is_prefix (p1 ++ s2b "/src/") (RemoteSrcPath c) \/ is_prefix (p1 ++ s2b "/pkg/mod/") (RemoteSrcPath c) ->
  let c' := update_call goroot localgoroot gopaths gomods c in
  exists prefix dest mid, In (prefix, dest) gopaths /\
    List.length p1 <= List.length prefix /\
    gopath_longest gopaths (RemoteSrcPath c) prefix /\
    ((mid = s2b "/src/" /\ CLocation c' = classify c GOPATH) \/
     (mid = s2b "/pkg/mod/" /\ CLocation c' = classify c GoPkg)) /\
    RemoteSrcPath c = prefix ++ mid ++ RelSrcPath c' /\
    LocalSrcPath c' = dest ++ mid ++ RelSrcPath c'.
Proof. exact PathsProofs.longest_gopath_wins. Qed.
Print Assumptions C18_longest_gopath_wins.

(* Go map iteration order is irrelevant: with unique keys (a Go map), two
   tables with the same entries give the same result *)
Theorem C18_sorted_roots_canonical : forall m1 m2,
  NoDup (map fst m1) -> Permutation m1 m2 -> sorted_roots m1 = sorted_roots m2.
Proof. exact PathsBase.sorted_roots_canonical. Qed.
Print Assumptions C18_sorted_roots_canonical.

Theorem C18_update_deterministic : forall goroot localgoroot gopaths gopaths' gomods gomods' c,
  NoDup (map fst gopaths) -> NoDup (map fst gomods) ->
  Permutation gopaths gopaths' -> Permutation gomods gomods' ->
  update_call goroot localgoroot gopaths gomods c = update_call goroot localgoroot gopaths' gomods' c.
Proof. exact PathsProofs.update_deterministic. Qed.
Print Assumptions C18_update_deterministic.

(* ------------------------------------------------------------------ *)
(* 3. each detected root is backed by the disk                          *)
(* ------------------------------------------------------------------ *)

(* hypothesis-free form, in terms of the components of the file *)
Theorem C18_roots_backed : forall fs local_goroot local_gopaths gs,
  backed fs local_goroot local_gopaths (get_files gs) (find_roots fs local_goroot local_gopaths gs).
Proof. exact PathsProofs.roots_backed. Qed.
Print Assumptions C18_roots_backed.

Theorem C18_split_path_join : forall f, clean_path f = true -> path_join (split_path f) = f.
Proof. exact PathsBase.split_path_join. Qed.
Print Assumptions C18_split_path_join.

Theorem C18_clean_path_spec : forall f, clean_path f = true ->
  (forall a r, f <> a ++ s2b "//" ++ r) /\ (forall a, f <> a ++ s2b "/").
Proof. exact PathsBase.clean_path_spec. Qed.
Print Assumptions C18_clean_path_spec.

(* literal form: the remote root followed by "/src/" (...) is a prefix of a
   file of the dump whose remainder exists under the local root *)
Theorem C18_roots_detected_from_disk : forall fs local_goroot local_gopaths gs,
  (forall f, In f (get_files gs) -> clean_path f = true) ->
  let st := find_roots fs local_goroot local_gopaths gs in
  (remote_goroot st <> [] ->
     exists f rest, In f (get_files gs) /\
       f = remote_goroot st ++ s2b "/src/" ++ rest /\
       is_file fs (local_goroot ++ s2b "/src/" ++ rest) = true) /\
  (forall r l, In (r, l) (remote_gopaths st) ->
     In l local_gopaths /\
     exists f mid rest, In f (get_files gs) /\ (mid = s2b "/src/" \/ mid = s2b "/pkg/mod/") /\
       f = r ++ mid ++ rest /\ is_file fs (l ++ mid ++ rest) = true) /\
  (forall k v, In (k, v) (local_gomods st) ->
     (exists content, fs_lookup fs (k ++ s2b "/go.mod") = Some content /\ find_module content = Some v) \/
     (v = s2b "main" /\ exists f, In f (get_files gs) /\ k = path_dir f /\ is_file fs f = true)).
Proof. exact PathsProofs.roots_detected_from_disk. Qed.
Print Assumptions C18_roots_detected_from_disk.

(* ------------------------------------------------------------------ *)
(* 4. the walk is deterministic; missing files are counted once each     *)
(* ------------------------------------------------------------------ *)

Theorem C18_get_files_sorted : forall gs, StronglySorted blt (get_files gs).
Proof. exact PathsProofs.get_files_sorted. Qed.
Print Assumptions C18_get_files_sorted.

Theorem C18_get_files_nodup : forall gs, NoDup (get_files gs).
Proof. exact PathsProofs.get_files_nodup. Qed.
Print Assumptions C18_get_files_nodup.

Theorem C18_get_files_in : forall gs f,
  In f (get_files gs) <->
  exists g c, In g gs /\ In c (Calls (SStack (GSig g))) /\ RemoteSrcPath c = f.
Proof. exact PathsProofs.get_files_in. Qed.
Print Assumptions C18_get_files_in.

Theorem C18_get_files_canonical : forall gs gs',
  (forall f, In f (get_files gs) <-> In f (get_files gs')) -> get_files gs = get_files gs'.
Proof. exact PathsProofs.get_files_canonical. Qed.
Print Assumptions C18_get_files_canonical.

Theorem C18_missing_count : forall fs local_goroot local_gopaths gs,
  missing (find_roots fs local_goroot local_gopaths gs) <= List.length (get_files gs).
Proof. exact PathsProofs.missing_count. Qed.
Print Assumptions C18_missing_count.

(* ------------------------------------------------------------------ *)
(* 5. guessPaths touches nothing but the four location fields           *)
(* ------------------------------------------------------------------ *)

Theorem C18_guess_preserves : forall fs local_goroot local_gopaths gs,
  map goroutine_core (snd (guess_paths fs local_goroot local_gopaths gs)) = map goroutine_core gs.
Proof. exact PathsProofs.guess_preserves. Qed.
Print Assumptions C18_guess_preserves.

Theorem C18_guess_length : forall fs local_goroot local_gopaths gs,
  List.length (snd (guess_paths fs local_goroot local_gopaths gs)) = List.length gs.
Proof. exact PathsProofs.guess_length. Qed.
Print Assumptions C18_guess_length.

Theorem C18_guess_preserves_nth : forall fs local_goroot local_gopaths gs i g,
  nth_error gs i = Some g ->
  exists g', nth_error (snd (guess_paths fs local_goroot local_gopaths gs)) i = Some g' /\
    goroutine_core g' = goroutine_core g /\
    List.length (Calls (SStack (GSig g'))) = List.length (Calls (SStack (GSig g))) /\
    List.length (Calls (CreatedBy (GSig g'))) = List.length (Calls (CreatedBy (GSig g))) /\
    (forall j c, nth_error (Calls (SStack (GSig g))) j = Some c ->
       exists c', nth_error (Calls (SStack (GSig g'))) j = Some c' /\ call_core c' = call_core c) /\
    (forall j c, nth_error (Calls (CreatedBy (GSig g))) j = Some c ->
       exists c', nth_error (Calls (CreatedBy (GSig g'))) j = Some c' /\ call_core c' = call_core c).
Proof. exact PathsProofs.guess_preserves_nth. Qed.
Print Assumptions C18_guess_preserves_nth.

(* ------------------------------------------------------------------ *)
(* 6. reModule                                                          *)
(* ------------------------------------------------------------------ *)

Theorem C18_find_module_lf : forall m,
  m <> [] -> forallb not_eol m = true ->
  match m with [] => True | x :: _ => is_re_space x = false end ->
  find_module (s2b "module " ++ m ++ [10%N]) = Some m.
Proof. exact PathsProofs.find_module_lf. Qed.
Print Assumptions C18_find_module_lf.

Theorem C18_find_module_crlf : forall m,
  m <> [] -> forallb not_eol m = true ->
  match m with [] => True | x :: _ => is_re_space x = false end ->
  find_module (s2b "module " ++ m ++ [13%N; 10%N]) = Some m.
Proof. exact PathsProofs.find_module_crlf. Qed.
Print Assumptions C18_find_module_crlf.

Theorem C18_find_module_comments : forall ls m rest,
  forallb skip_line ls = true ->
  m <> [] -> forallb not_eol m = true ->
  match m with [] => True | x :: _ => is_re_space x = false end ->
  eol_ok rest = true ->
  find_module (unlines ls ++ s2b "module " ++ m ++ rest) = Some m.
Proof. exact PathsProofs.find_module_comments. Qed.
Print Assumptions C18_find_module_comments.

(* any non-empty run of \s between "module" and the path *)
Theorem C18_find_module_after_lines : forall ls ws m rest,
  forallb skip_line ls = true ->
  ws <> [] -> forallb is_re_space ws = true ->
  m <> [] -> forallb not_eol m = true ->
  match m with [] => True | x :: _ => is_re_space x = false end ->
  eol_ok rest = true ->
  find_module (unlines ls ++ s2b "module" ++ ws ++ m ++ rest) = Some m.
Proof. exact PathsProofs.find_module_after_lines. Qed.
Print Assumptions C18_find_module_after_lines.

(* ------------------------------------------------------------------ *)
(* Examples: a GOROOT file, a GOPATH file under a renamed remote root,  *)
(* a module with a nested module, a file under no root, the test main   *)
(* ------------------------------------------------------------------ *)
Open Scope string_scope.

Definition ex_frame (path : string) : Call :=
  mkCall emptyFunc emptyArgs (s2b path) 10 [] [] [] [] [] LocationUnknown.
Definition ex_testmain : Call :=
  mkCall emptyFunc emptyArgs (s2b "_test/_testmain.go") 10 (s2b "_testmain.go") (s2b "_test/_testmain.go")
         [] [] [] Stdlib.
Definition ex_goroutine (id : Z) (cs cb : list Call) : Goroutine :=
  mkGoroutine (mkSig (s2b "running") (mkStack cb false) 0 0 (mkStack cs false) false) id false false 0.

Definition ex_fs : fsys :=
  [ (s2b "/usr/lib/go/src/runtime/proc.go", s2b "package runtime");
    (s2b "/home/me/go/src/example.com/foo/foo.go", s2b "package foo");
    (s2b "/work/app/go.mod", (s2b "// the application" ++ [10%N] ++ s2b "module example.com/app" ++ [10%N])%list);
    (s2b "/work/app/main.go", s2b "package main");
    (s2b "/work/app/tools/go.mod", (s2b "module example.com/app/tools" ++ [13%N; 10%N])%list);
    (s2b "/work/app/tools/gen/gen.go", s2b "package gen") ].

Definition ex_gs : list Goroutine :=
  [ ex_goroutine 1 [ ex_frame "/work/app/tools/gen/gen.go";
                     ex_frame "/work/app/main.go";
                     ex_frame "/goroot/src/runtime/proc.go" ]
                   [ ex_frame "/remote/gopath/src/example.com/foo/foo.go" ];
    ex_goroutine 2 [ ex_frame "/remote/gopath/src/example.com/foo/foo.go";
                     ex_frame "/nowhere/none.go";
                     ex_testmain ] [] ].

Definition ex_res := guess_paths ex_fs (s2b "/usr/lib/go") [s2b "/home/me/go"] ex_gs.
Definition ex_show (c : Call) := (LocalSrcPath c, RelSrcPath c, CImportPath c, CLocation c).

Example C18_example_roots :
  (remote_goroot (fst ex_res), remote_gopaths (fst ex_res), local_gomods (fst ex_res), missing (fst ex_res)) =
  (s2b "/goroot",
   [(s2b "/remote/gopath", s2b "/home/me/go")],
   [(s2b "/work/app", s2b "example.com/app"); (s2b "/work/app/tools", s2b "example.com/app/tools")],
   2).
Proof. vm_compute. reflexivity. Qed.

Example C18_example_files :
  get_files ex_gs =
  [ s2b "/goroot/src/runtime/proc.go"; s2b "/nowhere/none.go";
    s2b "/remote/gopath/src/example.com/foo/foo.go";
    s2b "/work/app/main.go"; s2b "/work/app/tools/gen/gen.go"; s2b "_test/_testmain.go" ].
Proof. vm_compute. reflexivity. Qed.

Example C18_example :
  map (fun g => (map ex_show (Calls (SStack (GSig g))), map ex_show (Calls (CreatedBy (GSig g))))) (snd ex_res) =
  [ ([ (* nested module: the deepest go.mod wins *)
       (s2b "/work/app/tools/gen/gen.go", s2b "gen/gen.go", s2b "example.com/app/tools/gen", GoMod);
       (s2b "/work/app/main.go", s2b "main.go", s2b "example.com/app", GoMod);
       (s2b "/usr/lib/go/src/runtime/proc.go", s2b "runtime/proc.go", s2b "runtime", Stdlib) ],
     [ (s2b "/home/me/go/src/example.com/foo/foo.go", s2b "example.com/foo/foo.go", s2b "example.com/foo", GOPATH) ]);
    ([ (s2b "/home/me/go/src/example.com/foo/foo.go", s2b "example.com/foo/foo.go", s2b "example.com/foo", GOPATH);
       (* under no root: unknown, no local path *)
       ([], [], [], LocationUnknown);
       (* go-test main: standard library *)
       ([], [], [], Stdlib) ],
     []) ].
Proof. vm_compute. reflexivity. Qed.

(* an unclean dump path: the remote GOPATH is detected through splitPath
   (which drops the empty component) but is not a byte prefix of the path, so
   the frame is left unresolved; this is why C18_roots_detected_from_disk
   assumes clean_path *)
Definition ex_unclean : list Goroutine :=
  [ ex_goroutine 1 [ ex_frame "/remote//gopath/src/example.com/foo/foo.go" ] [] ].

Example C18_example_unclean :
  let res := guess_paths ex_fs (s2b "/usr/lib/go") [s2b "/home/me/go"] ex_unclean in
  clean_path (s2b "/remote//gopath/src/example.com/foo/foo.go") = false /\
  remote_gopaths (fst res) = [(s2b "/remote/gopath", s2b "/home/me/go")] /\
  map (fun g => map ex_show (Calls (SStack (GSig g)))) (snd res) = [[([], [], [], LocationUnknown)]].
Proof. vm_compute. repeat split. Qed.

(* the capture starts after ALL the whitespace: a path "starting with a space" is not representable *)
Example C18_example_module_spaces :
  find_module (s2b "module  x") = Some (s2b "x") /\
  find_module (s2b "module x y") = Some (s2b "x y") /\
  find_module (s2b "modulex") = None /\
  find_module (s2b " module x") = None.
Proof. vm_compute. repeat split. Qed.

(* NoDup keys is needed in C18_update_deterministic: with a duplicated key
   (impossible in a Go map) the stable sort keeps the table order *)
Example C18_example_dup_keys :
  let c := ex_frame "/a/src/p/f.go" in
  LocalSrcPath (update_call [] [] [(s2b "/a", s2b "/x"); (s2b "/a", s2b "/y")] [] c) = s2b "/x/src/p/f.go" /\
  LocalSrcPath (update_call [] [] [(s2b "/a", s2b "/y"); (s2b "/a", s2b "/x")] [] c) = s2b "/y/src/p/f.go".
Proof. vm_compute. split; reflexivity. Qed.
