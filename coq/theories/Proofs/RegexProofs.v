(* Proofs/RegexProofs.v — every hand-written matcher of the model computes what
   the generic regexp interpreter of Spec/Regex.v computes on the generated
   definition (Spec/RegexDefs.v) of the expression it stands for. *)
From PP Require Import Base.Bytes Base.BytesX Base.GoResult Model.Types Model.Lines Model.Paths Model.Html
  Model.Scan Proofs.ScanInv Spec.ReaderSpec.
(* last: [state], [rest], ... below are those of Spec/Regex.v *)
From PP Require Import Spec.Regex Spec.RegexDefs.

Definition no_lf (l : bytes) : Prop := ~ In LF l.

(* ------------------------------------------------------------------ *)
(* 1. generic facts about the interpreter                              *)
(* ------------------------------------------------------------------ *)

(* the byte before the position once [l] has been consumed *)
Definition pva (l : bytes) (pv : option byte) : option byte :=
  match last_opt l with Some x => Some x | None => pv end.

Lemma last_opt_cons_some {A} (y : A) l : exists z, last_opt (y :: l) = Some z.
Proof.
  revert y. induction l as [|x l IH]; intros y; [exists y; reflexivity|].
  destruct (IH x) as [z Hz]. exists z. exact Hz.
Qed.

Lemma pva_cons x l pv : pva (x :: l) pv = pva l (Some x).
Proof.
  unfold pva. destruct l as [|y l]; [reflexivity|].
  change (last_opt (x :: y :: l)) with (last_opt (y :: l)).
  destruct (last_opt_cons_some y l) as [z Hz]. rewrite Hz. reflexivity.
Qed.

Definition accept : cont := fun _ c => Some c.

(* sequences, alternatives *)
Lemma m_seqs2 a b l f k : m (seqs (a :: b :: l)) f k = m a f (m (seqs (b :: l)) f k).
Proof. reflexivity. Qed.
Lemma m_seqs1 a f k : m (seqs [a]) f k = m a f k.
Proof. reflexivity. Qed.
Lemma m_seq a b f k : m (Seq a b) f k = m a f (m b f k).
Proof. reflexivity. Qed.
Lemma m_alts2 a b l f k st c :
  m (alts (a :: b :: l)) f k st c = match m a f k st c with Some r => Some r | None => m (alts (b :: l)) f k st c end.
Proof. reflexivity. Qed.
Lemma m_alts1 a f k : m (alts [a]) f k = m a f k.
Proof. reflexivity. Qed.
Lemma m_empty f k : m Empty f k = k.
Proof. reflexivity. Qed.
Lemma m_opt a f k st c : m (Opt a) f k st c = match m a f k st c with Some r => Some r | None => k st c end.
Proof. reflexivity. Qed.
Lemma m_group n a f k i pv s c :
  m (Group n a) f k (mkst i pv s) c = m a f (fun st' c' => k st' (set_cap n (i, idx st') c')) (mkst i pv s) c.
Proof. reflexivity. Qed.
Lemma m_bol_start f k i s c : m Bol f k (mkst i None s) c = k (mkst i None s) c.
Proof. reflexivity. Qed.
Lemma m_bol_later f k i x s c : m Bol f k (mkst i (Some x) s) c = None.
Proof. reflexivity. Qed.
Lemma m_eol f k i pv s c : m Eol f k (mkst i pv s) c = match s with [] => k (mkst i pv s) c | _ :: _ => None end.
Proof. reflexivity. Qed.

(* single-byte expressions *)
Definition atom (r : regex) : option (byte -> bool) :=
  match r with
  | Lit x => Some (N.eqb x)
  | Any => Some (fun y => negb (N.eqb y LF))
  | Class neg rs => Some (fun y => xorb neg (in_class rs y))
  | _ => None
  end.

Lemma m_atom r p f k : atom r = Some p -> m r f k = step p k.
Proof. destruct r; intros H; inversion H; reflexivity. Qed.

Lemma step_eq p k i pv s c :
  step p k (mkst i pv s) c =
  match s with x :: s' => if p x then k (mkst (N.succ i) (Some x) s') c else None | [] => None end.
Proof. reflexivity. Qed.

Lemma m_Lit x f k i pv s c :
  m (Lit x) f k (mkst i pv s) c =
  match s with y :: s' => if N.eqb x y then k (mkst (N.succ i) (Some y) s') c else None | [] => None end.
Proof. reflexivity. Qed.

(* literal strings *)
Lemma m_lits l f k i pv s c :
  m (seqs (map Lit l)) f k (mkst i pv s) c =
  match strip_prefix l s with
  | Some s' => k (mkst (i + N.of_nat (List.length l)) (pva l pv) s') c
  | None => None
  end.
Proof.
  revert i pv s. induction l as [|x l IH]; intros i pv s.
  - simpl. rewrite N.add_0_r. reflexivity.
  - change (map Lit (x :: l)) with (Lit x :: map Lit l).
    assert (E : m (seqs (Lit x :: map Lit l)) f k = m (Lit x) f (m (seqs (map Lit l)) f k))
      by (destruct (map Lit l); reflexivity).
    rewrite E, m_Lit. destruct s as [|y s]; [reflexivity|]. cbn [strip_prefix].
    rewrite (N.eqb_sym x y). destruct (N.eqb_spec y x) as [->|]; [|reflexivity].
    rewrite IH, pva_cons. destruct (strip_prefix l s); [|reflexivity].
    f_equal. f_equal. cbn [List.length]. lia.
Qed.

Lemma m_lit s0 f k i pv s c :
  m (lit s0) f k (mkst i pv s) c =
  match strip_prefix (s2b s0) s with
  | Some s' => k (mkst (i + N.of_nat (List.length (s2b s0))) (pva (s2b s0) pv) s') c
  | None => None
  end.
Proof. apply m_lits. Qed.

(* greedy loops over a single-byte expression: the longest run first, then
   one byte less, ... *)
Fixpoint star_spec (p : byte -> bool) (k : cont) (i : N) (pv : option byte) (s : bytes) (c : caps) : option caps :=
  match s with
  | x :: s' =>
      if p x then
        match star_spec p k (N.succ i) (Some x) s' c with
        | Some r => Some r
        | None => k (mkst i pv s) c
        end
      else k (mkst i pv s) c
  | [] => k (mkst i pv s) c
  end.

Lemma loop_step p k : forall s f i pv c, List.length s < f ->
  loop (step p) f k (mkst i pv s) c = star_spec p k i pv s c.
Proof.
  induction s as [|x s IH]; intros f i pv c Hf.
  - destruct f; [inversion Hf|]. reflexivity.
  - destruct f; [inversion Hf|]. cbn [loop star_spec]. rewrite step_eq.
    destruct (p x); [|reflexivity].
    cbn [idx]. replace (N.eqb (N.succ i) i) with false by (symmetry; apply N.eqb_neq; lia).
    rewrite IH by (simpl in Hf; lia). reflexivity.
Qed.

Lemma m_star r p f k i pv s c : atom r = Some p -> List.length s < f ->
  m (Star r) f k (mkst i pv s) c = star_spec p k i pv s c.
Proof.
  intros Ha Hf. cbn [m].
  assert (E : m r f = step p) by (destruct r; inversion Ha; reflexivity).
  rewrite E. apply loop_step. exact Hf.
Qed.

Lemma m_plus r p f k i pv s c : atom r = Some p -> List.length s < f ->
  m (Plus r) f k (mkst i pv s) c =
  match s with
  | x :: s' => if p x then star_spec p k (N.succ i) (Some x) s' c else None
  | [] => None
  end.
Proof.
  intros Ha Hf. cbn [m].
  assert (E : m r f = step p) by (destruct r; inversion Ha; reflexivity).
  rewrite E, step_eq. destruct s as [|x s]; [reflexivity|].
  destruct (p x); [|reflexivity]. apply loop_step. simpl in Hf. lia.
Qed.

(* the candidates in order: k after a1 for every split a = a1 ++ a2, the
   longest a1 first; b is what follows the run *)
Fixpoint back (k : cont) (i : N) (pv : option byte) (a b : bytes) (c : caps) : option caps :=
  match a with
  | x :: a' =>
      match back k (N.succ i) (Some x) a' b c with
      | Some r => Some r
      | None => k (mkst i pv (a ++ b)) c
      end
  | [] => k (mkst i pv b) c
  end.

Lemma span_eq p s a b : span p s = (a, b) -> s = a ++ b.
Proof.
  revert a b. induction s as [|x s IH]; intros a b H; simpl in H.
  - inversion H. reflexivity.
  - destruct (p x).
    + destruct (span p s) as [a' b'] eqn:E. inversion H; subst. simpl. f_equal. apply IH. reflexivity.
    + inversion H. reflexivity.
Qed.

Lemma star_spec_back p k : forall s i pv c,
  star_spec p k i pv s c = back k i pv (fst (span p s)) (snd (span p s)) c.
Proof.
  induction s as [|x s IH]; intros i pv c; [reflexivity|].
  cbn [star_spec span]. destruct (p x) eqn:Ep; [|reflexivity].
  rewrite IH. destruct (span p s) as [a b] eqn:E. cbn [fst snd back].
  rewrite (span_eq p s a b E). reflexivity.
Qed.

(* when the continuation fails in front of every byte of the class, only the
   longest run is a candidate *)
Definition fails_before (p : byte -> bool) (k : cont) : Prop :=
  forall c i pv x s, p x = true -> k (mkst i pv (x :: s)) c = None.

Lemma back_max p k c : fails_before p k -> forall a i pv b,
  forallb p a = true ->
  back k i pv a b c = k (mkst (i + N.of_nat (List.length a)) (pva a pv) b) c.
Proof.
  intros Hk. induction a as [|x a IH]; intros i pv b Ha.
  - simpl. rewrite N.add_0_r. reflexivity.
  - simpl in Ha. apply andb_true_iff in Ha as [Hx Ha].
    cbn [back]. rewrite IH by exact Ha. rewrite pva_cons.
    replace (N.succ i + N.of_nat (List.length a))%N with (i + N.of_nat (List.length (x :: a)))%N
      by (cbn [List.length]; lia).
    destruct (k _ c) eqn:E; [reflexivity|].
    simpl. apply Hk. exact Hx.
Qed.

Lemma span_fst_all p s : forallb p (fst (span p s)) = true.
Proof.
  induction s as [|x s IH]; [reflexivity|]. simpl. destruct (p x) eqn:E; [|reflexivity].
  destruct (span p s). simpl in *. rewrite E. exact IH.
Qed.

Lemma span_ext p q s : (forall x, p x = q x) -> span p s = span q s.
Proof. intros H. induction s as [|x s IH]; [reflexivity|]. simpl. rewrite H, IH. reflexivity. Qed.

Lemma star_max p q k c s i pv : (forall x, p x = q x) -> fails_before q k ->
  star_spec p k i pv s c =
  k (mkst (i + N.of_nat (List.length (fst (span q s)))) (pva (fst (span q s)) pv) (snd (span q s))) c.
Proof.
  intros Hpq Hk. rewrite star_spec_back, (span_ext p q s Hpq).
  apply (back_max q k c Hk). apply span_fst_all.
Qed.

Lemma m_plus_max r p q f k i pv s c :
  atom r = Some p -> (forall x, p x = q x) -> List.length s < f -> fails_before q k ->
  m (Plus r) f k (mkst i pv s) c =
  match fst (span q s) with
  | [] => None
  | a => k (mkst (i + N.of_nat (List.length a)) (pva a pv) (snd (span q s))) c
  end.
Proof.
  intros Ha Hpq Hf Hk. rewrite (m_plus r p f k i pv s c Ha Hf).
  destruct s as [|x s]; [reflexivity|]. cbn [span]. rewrite Hpq.
  destruct (q x) eqn:Ex; [|reflexivity].
  rewrite (star_max p q k c s _ _ Hpq Hk).
  destruct (span q s) as [a b]. cbn [fst snd]. rewrite pva_cons.
  f_equal. f_equal. cbn [List.length]. lia.
Qed.

Lemma m_star_max r p q f k i pv s c :
  atom r = Some p -> (forall x, p x = q x) -> List.length s < f -> fails_before q k ->
  m (Star r) f k (mkst i pv s) c =
  k (mkst (i + N.of_nat (List.length (fst (span q s)))) (pva (fst (span q s)) pv) (snd (span q s))) c.
Proof.
  intros Ha Hpq Hf Hk. rewrite (m_star r p f k i pv s c Ha Hf). apply star_max; assumption.
Qed.

(* the search over start offsets, for an expression anchored by ^ *)
Lemma search_later_none r f c0 :
  (forall i x s, m r f accept (mkst i (Some x) s) c0 = None) ->
  forall s i x, search r f c0 i (Some x) s = None.
Proof.
  intros H. induction s as [|y s IH]; intros i x; cbn [search]; fold accept; rewrite H; [reflexivity|apply IH].
Qed.

Lemma find_anchored r w :
  (forall f c0 i x s, m (Group 0 r) f accept (mkst i (Some x) s) c0 = None) ->
  re_find_N r w = m (Group 0 r) (S (List.length w)) accept (mkst 0 None w) (repeat None (S (ngroups r))).
Proof.
  intros H. unfold re_find_N. destruct w as [|x s]; cbn [search]; fold accept.
  - destruct (m _ _ accept _ _); reflexivity.
  - rewrite search_later_none by apply H. destruct (m _ _ accept _ _); reflexivity.
Qed.

(* the classes of the twelve expressions as the predicates of Base/Bytes.v *)
Lemma p_digit x : xorb false (in_class [(48, 57)]%N x) = is_digit x.
Proof. unfold in_class, is_digit. simpl. rewrite orb_false_r. destruct (_ && _); reflexivity. Qed.
Lemma p_hex x : xorb false (in_class [(48, 57); (97, 102)]%N x) = is_lower_hex x.
Proof. unfold in_class, is_lower_hex, is_digit. simpl. rewrite orb_false_r. destruct (_ && _), (_ && _); reflexivity. Qed.

(* slices *)
Lemma slice_app pre x post b e :
  b = List.length pre -> e = b + List.length x -> slice (pre ++ x ++ post) (b, e) = x.
Proof.
  intros -> ->. unfold slice. cbn [fst snd].
  rewrite skipn_app, skipn_all, Nat.sub_diag. cbn [skipn app].
  replace (List.length pre + List.length x - List.length pre) with (List.length x + 0) by lia.
  rewrite firstn_app_2. cbn [firstn]. apply app_nil_r.
Qed.

Lemma strip_prefix_eq l s s' : strip_prefix l s = Some s' -> s = l ++ s'.
Proof.
  revert s. induction l as [|y l IH]; intros s H; simpl in H.
  - inversion H. reflexivity.
  - destruct s as [|x s]; [discriminate|]. destruct (N.eqb_spec x y) as [->|]; [|discriminate].
    simpl. f_equal. apply IH. exact H.
Qed.

Lemma strip_prefix_beq l s :
  beq s l = match strip_prefix l s with Some [] => true | _ => false end.
Proof.
  revert s. induction l as [|y l IH]; intros s; simpl.
  - destruct s; reflexivity.
  - destruct s as [|x s]; [reflexivity|]. simpl. destruct (N.eqb x y); [apply IH|reflexivity].
Qed.

(* ------------------------------------------------------------------ *)
(* 2. the expressions                                                  *)
(* ------------------------------------------------------------------ *)

(* from the capture registers to the captured strings *)
Definition nn (be : N * N) : nat * nat := (N.to_nat (fst be), N.to_nat (snd be)).
Lemma submatch_of_find r w :
  re_submatch r w = option_map (map (option_map (fun be => slice w (nn be)))) (re_find_N r w).
Proof.
  unfold re_submatch, re_find. destruct (re_find_N r w) as [l|]; [|reflexivity]. cbn [option_map].
  f_equal. rewrite map_map. apply map_ext. intros [[b e]|]; reflexivity.
Qed.

Lemma slice_nn w b e : slice w (nn (N.of_nat b, N.of_nat e)) = slice w (b, e).
Proof. unfold nn. cbn [fst snd]. rewrite !Nat2N.id. reflexivity. Qed.

Lemma slice_all w : slice w (0, List.length w) = w.
Proof. unfold slice. cbn [fst snd skipn]. rewrite Nat.sub_0_r. apply firstn_all. Qed.

(* ---- reMinutes ---- *)
Lemma find_minutes w :
  match match_minutes w with
  | Some ds =>
      w = ds ++ s2b " minutes" /\
      re_find_N re_minutes w = Some [Some (N.of_nat 0, N.of_nat (List.length w)); Some (N.of_nat 0, N.of_nat (List.length ds))]
  | None => re_find_N re_minutes w = None
  end.
Proof.
  rewrite find_anchored by reflexivity.
  unfold re_minutes, match_minutes. cbn [ngroups Nat.max repeat].
  rewrite m_group, m_seqs2, m_bol_start, m_seqs2, m_group.
  rewrite (m_plus_max digit _ is_digit _ _ _ _ _ _ eq_refl p_digit (Nat.lt_succ_diag_r _)).
  2:{ intros c i pv x s Hx. cbv beta. rewrite m_seqs2, m_lit. simpl.
      destruct (N.eqb_spec x 32) as [->|]; [discriminate Hx|reflexivity]. }
  pose proof (span_eq is_digit w) as Hw.
  destruct (span is_digit w) as [ds s]. specialize (Hw ds s eq_refl). cbn [fst snd].
  destruct ds as [|d ds]; [reflexivity|]. cbv beta.
  rewrite m_seqs2, m_lit, m_seqs1, strip_prefix_beq. cbn [nonempty andb].
  pose proof (strip_prefix_eq (s2b " minutes") s) as Hs.
  destruct (strip_prefix (s2b " minutes") s) as [[|y s']|]; [|reflexivity|reflexivity].
  specialize (Hs [] eq_refl). rewrite m_eol. unfold accept, set_cap. cbn [upd_nth idx].
  subst w s. rewrite app_nil_r. split; [reflexivity|]. rewrite app_length. repeat f_equal; lia.
Qed.

Theorem minutes_correct w : match_minutes w = option_map (grp 1) (re_submatch re_minutes w).
Proof.
  rewrite submatch_of_find. pose proof (find_minutes w) as H.
  destruct (match_minutes w) as [ds|]; [destruct H as [Hw ->]|rewrite H; reflexivity].
  cbn [option_map map grp nth_error]. rewrite slice_nn. f_equal.
  rewrite Hw at 1. symmetry. apply (slice_app [] ds _); reflexivity.
Qed.

(* ---- continuations that fail in front of a class of bytes ---- *)
Lemma fb_closure q (k : cont) (g : state -> caps -> caps) :
  fails_before q k -> fails_before q (fun st c => k st (g st c)).
Proof. intros H c i pv x s Hx. apply H. exact Hx. Qed.

Lemma fb_lits q y l f k : q y = false -> fails_before q (m (seqs (map Lit (y :: l))) f k).
Proof.
  intros Hy c i pv x s Hx. rewrite m_lits. cbn [strip_prefix].
  destruct (N.eqb_spec x y) as [->|]; [congruence|reflexivity].
Qed.

Lemma fb_seqs_lit q s0 y l' b l f k :
  s2b s0 = y :: l' -> q y = false -> fails_before q (m (seqs (lit s0 :: b :: l)) f k).
Proof. intros E Hy. rewrite m_seqs2. unfold lit. rewrite E. apply fb_lits. exact Hy. Qed.

Lemma fb_lit q s0 y l' f k :
  s2b s0 = y :: l' -> q y = false -> fails_before q (m (lit s0) f k).
Proof. intros E Hy. unfold lit. rewrite E. apply fb_lits. exact Hy. Qed.

Lemma fb_eol q f k : fails_before q (m Eol f k).
Proof. intros c i pv x s Hx. reflexivity. Qed.

Lemma fb_atom q r p f k : atom r = Some p -> (forall x, q x = true -> p x = false) ->
  fails_before q (m r f k).
Proof.
  intros Ha H c i pv x s Hx. rewrite (m_atom r p f k Ha), step_eq, (H x Hx). reflexivity.
Qed.

Lemma fb_plus q r p f k : atom r = Some p -> (forall x, q x = true -> p x = false) ->
  fails_before q (m (Plus r) f k).
Proof.
  intros Ha H c i pv x s Hx. cbn [m]. rewrite (m_atom r p f _ Ha), step_eq, (H x Hx). reflexivity.
Qed.

Lemma fb_group q n a f k : (forall k', fails_before q (m a f k')) -> fails_before q (m (Group n a) f k).
Proof. intros H c i pv x s Hx. rewrite m_group. apply H. exact Hx. Qed.

Lemma fb_alts2 q a b l f k :
  fails_before q (m a f k) -> fails_before q (m (alts (b :: l)) f k) -> fails_before q (m (alts (a :: b :: l)) f k).
Proof. intros H1 H2 c i pv x s Hx. rewrite m_alts2, (H1 c i pv x s Hx). apply H2. exact Hx. Qed.

Lemma fb_opt q a f k : fails_before q (m a f k) -> fails_before q k -> fails_before q (m (Opt a) f k).
Proof. intros H1 H2 c i pv x s Hx. rewrite m_opt, (H1 c i pv x s Hx). apply H2. exact Hx. Qed.

Lemma strip_prefix_app a b s :
  strip_prefix (a ++ b) s = match strip_prefix a s with Some s' => strip_prefix b s' | None => None end.
Proof.
  revert s. induction a as [|y a IH]; intros s; [reflexivity|].
  destruct s as [|x s]; [reflexivity|]. simpl. destruct (N.eqb x y); [apply IH|reflexivity].
Qed.

Lemma K_idx_eq (K : cont) i i' pv s c : i = i' -> K (mkst i pv s) c = K (mkst i' pv s) c.
Proof. intros ->. reflexivity. Qed.

Lemma opt_id {A} (o : option A) : match o with Some r => Some r | None => None end = o.
Proof. destruct o; reflexivity. Qed.

Lemma strip_prefix_self l s : strip_prefix l (l ++ s) = Some s.
Proof. induction l as [|y l IH]; [reflexivity|]. simpl. rewrite N.eqb_refl. exact IH. Qed.

Lemma strip_prefix_len l s s' : strip_prefix l s = Some s' -> List.length s' <= List.length s.
Proof. intros H. apply strip_prefix_eq in H. subst. rewrite app_length. lia. Qed.

Lemma span_len p s : List.length (snd (span p s)) <= List.length s.
Proof.
  pose proof (span_eq p s) as H. destruct (span p s) as [a b]. rewrite (H a b eq_refl), app_length. simpl. lia.
Qed.

Lemma digit_not x y : is_digit y = false -> is_digit x = true -> x <> y.
Proof. intros Hy Hx ->. congruence. Qed.

(* ---- reRaceGoroutine ---- *)
Lemma find_race_goroutine w :
  match match_race_goroutine w with
  | Some (ds, st) =>
      w = s2b "Goroutine " ++ ds ++ s2b " (" ++ st ++ s2b ") created at:" /\
      re_find_N re_race_goroutine w =
        Some [Some (N.of_nat 0, N.of_nat (List.length w));
              Some (N.of_nat 10, N.of_nat (10 + List.length ds));
              Some (N.of_nat (12 + List.length ds), N.of_nat (12 + List.length ds + List.length st))]
  | None => re_find_N re_race_goroutine w = None
  end.
Proof.
  rewrite find_anchored by reflexivity.
  replace (ngroups re_race_goroutine) with 2 by reflexivity. cbn [repeat].
  unfold re_race_goroutine, match_race_goroutine.
  set (F := S (List.length w)). assert (HF : List.length w < F) by (unfold F; lia). clearbody F.
  rewrite m_group, m_seqs2, m_bol_start, m_seqs2, m_lit.
  pose proof (strip_prefix_eq (s2b "Goroutine ") w) as Hw.
  pose proof (strip_prefix_len (s2b "Goroutine ") w) as Hl1.
  destruct (strip_prefix (s2b "Goroutine ") w) as [s1|]; [|reflexivity].
  specialize (Hw s1 eq_refl). specialize (Hl1 s1 eq_refl).
  rewrite m_seqs2, m_group.
  assert (Hf1 : List.length s1 < F) by lia.
  rewrite (m_plus_max digit _ is_digit _ _ _ _ _ _ eq_refl p_digit Hf1).
  2:{ apply fb_closure. eapply fb_seqs_lit; reflexivity. }
  pose proof (span_eq is_digit s1) as Hs1.
  destruct (span is_digit s1) as [ds s2]. specialize (Hs1 ds s2 eq_refl). cbn [fst snd].
  destruct ds as [|d ds]; [reflexivity|]. cbn [nonempty negb]. cbv beta.
  set (D := d :: ds) in *. clearbody D.
  rewrite m_seqs2, m_lit, !strip_prefix_beq.
  change (s2b " (running) created at:") with (s2b " (" ++ s2b "running" ++ s2b ") created at:").
  change (s2b " (finished) created at:") with (s2b " (" ++ s2b "finished" ++ s2b ") created at:").
  rewrite !strip_prefix_app.
  pose proof (strip_prefix_eq (s2b " (") s2) as Hs2.
  destruct (strip_prefix (s2b " (") s2) as [s3|]; [|reflexivity]. specialize (Hs2 s3 eq_refl).
  rewrite !strip_prefix_app.
  rewrite m_seqs2, m_group, m_alts2, m_alts1, !m_lit. cbv beta.
  pose proof (strip_prefix_eq (s2b "running") s3) as Hs3.
  destruct (strip_prefix (s2b "running") s3) as [s4|].
  - specialize (Hs3 s4 eq_refl).
    assert (E : strip_prefix (s2b "finished") s3 = None) by (subst s3; reflexivity). rewrite E.
    rewrite m_seqs2, m_lit, m_seqs1.
    pose proof (strip_prefix_eq (s2b ") created at:") s4) as Hs4.
    destruct (strip_prefix (s2b ") created at:") s4) as [[|y s5]|]; [|reflexivity|reflexivity].
    specialize (Hs4 [] eq_refl). rewrite m_eol. unfold accept, set_cap. cbn [upd_nth idx].
    subst w s1 s2 s3 s4. split; [rewrite app_nil_r; reflexivity|].
    rewrite !app_length. cbn [List.length s2b map list_ascii_of_string]. repeat f_equal; lia.
  - clear Hs3. pose proof (strip_prefix_eq (s2b "finished") s3) as Hs3.
    destruct (strip_prefix (s2b "finished") s3) as [s4|]; [|reflexivity]. specialize (Hs3 s4 eq_refl).
    rewrite m_seqs2, m_lit, m_seqs1.
    pose proof (strip_prefix_eq (s2b ") created at:") s4) as Hs4.
    destruct (strip_prefix (s2b ") created at:") s4) as [[|y s5]|]; [|reflexivity|reflexivity].
    specialize (Hs4 [] eq_refl). rewrite m_eol. unfold accept, set_cap. cbn [upd_nth idx].
    subst w s1 s2 s3 s4. split; [rewrite app_nil_r; reflexivity|].
    rewrite !app_length. cbn [List.length s2b map list_ascii_of_string]. repeat f_equal; lia.
Qed.

Lemma slice_mid w pre x post b e :
  w = pre ++ x ++ post -> b = List.length pre -> e = b + List.length x -> slice w (b, e) = x.
Proof. intros ->. apply slice_app. Qed.

Ltac dsp l s s' H :=
  let Hl := fresh "Hl" in
  pose proof (strip_prefix_eq l s) as H; pose proof (strip_prefix_len l s) as Hl;
  destruct (strip_prefix l s) as [s'|];
  [specialize (H s' eq_refl); specialize (Hl s' eq_refl)|clear H Hl].

Ltac dspan p s a b H :=
  let Hl := fresh "Hl" in
  pose proof (span_eq p s) as H; pose proof (span_len p s) as Hl;
  destruct (span p s) as [a b]; specialize (H a b eq_refl); cbn [fst snd] in Hl |- *.

Ltac lens := unfold byte, bytes in *; rewrite ?app_length; cbn [List.length s2b map list_ascii_of_string]; lia.
(* equalities between capture registers: componentwise, then arithmetic on lengths *)
Ltac caps_eq :=
  repeat match goal with
         | |- set_cap _ _ _ = set_cap _ _ _ => f_equal
         | |- @eq (N * N) (_, _) (_, _) => f_equal
         | |- @eq (option _) (Some _) (Some _) => f_equal
         | |- @eq (list _) (_ :: _) (_ :: _) => f_equal
         | |- @eq state (mkst _ _ _) (mkst _ _ _) => f_equal
         end; try reflexivity; try lens.

Theorem race_goroutine_correct w :
  match_race_goroutine w = option_map (fun l => (grp 1 l, grp 2 l)) (re_submatch re_race_goroutine w).
Proof.
  rewrite submatch_of_find. pose proof (find_race_goroutine w) as H.
  destruct (match_race_goroutine w) as [[ds st]|]; [destruct H as [Hw ->]|rewrite H; reflexivity].
  cbn [option_map map grp nth_error]. rewrite !slice_nn. f_equal. f_equal; symmetry.
  - apply (slice_mid w (s2b "Goroutine ") ds _ _ _ Hw); reflexivity.
  - apply (slice_mid w (s2b "Goroutine " ++ ds ++ s2b " (") st (s2b ") created at:")).
    + rewrite Hw, <- !app_assoc. reflexivity.
    + lens.
    + reflexivity.
Qed.

(* ---- the common tail of reRaceOperationHeader / reRacePreviousOperationHeader ---- *)
Notation hexd := (Class false [(48, 57); (97, 102)]%N).
Definition race_tail : list regex :=
  [lit " at "; Group 2 (seqs [lit "0x"; Plus (Class false [(48, 57); (97, 102)]%N)]);
   lit " by goroutine "; Group 3 (Plus digit); lit ":"; Eol].

Lemma race_tail_eval F K0 i pv s c : List.length s < F ->
  match match_race_op_tail s with
  | Some (a, d) =>
      s = s2b " at " ++ a ++ s2b " by goroutine " ++ d ++ s2b ":" /\
      exists pv',
        m (seqs race_tail) F K0 (mkst i pv s) c =
        K0 (mkst (i + N.of_nat (List.length s)) pv' [])
           (set_cap 3 ((i + N.of_nat (18 + List.length a))%N, (i + N.of_nat (18 + List.length a + List.length d))%N)
              (set_cap 2 ((i + N.of_nat 4)%N, (i + N.of_nat (4 + List.length a))%N) c))
  | None => m (seqs race_tail) F K0 (mkst i pv s) c = None
  end.
Proof.
  intros HF. unfold race_tail, match_race_op_tail.
  change (s2b " at 0x") with (s2b " at " ++ s2b "0x"). rewrite strip_prefix_app.
  rewrite m_seqs2, m_lit.
  dsp (s2b " at ") s s1 Hs; [|reflexivity].
  rewrite m_seqs2, m_group, m_seqs2, m_lit.
  dsp (s2b "0x") s1 s2 Hs1; [|reflexivity].
  assert (Hf2 : List.length s2 < F) by lia.
  rewrite m_seqs1, (m_plus_max hexd _ is_lower_hex _ _ _ _ _ _ eq_refl p_hex Hf2).
  2:{ apply fb_closure. eapply fb_seqs_lit; reflexivity. }
  dspan is_lower_hex s2 h s3 Hs2.
  destruct h as [|h0 h]; [reflexivity|]. cbn [nonempty negb]. set (H := h0 :: h) in *. clearbody H. cbv beta.
  rewrite m_seqs2, m_lit.
  dsp (s2b " by goroutine ") s3 s4 Hs3; [|reflexivity].
  assert (Hf4 : List.length s4 < F) by lia.
  rewrite m_seqs2, m_group, (m_plus_max digit _ is_digit _ _ _ _ _ _ eq_refl p_digit Hf4).
  2:{ apply fb_closure. eapply fb_seqs_lit; reflexivity. }
  dspan is_digit s4 ds s5 Hs4.
  destruct ds as [|d0 ds]; [reflexivity|]. cbn [nonempty andb]. set (D := d0 :: ds) in *. clearbody D. cbv beta.
  rewrite m_seqs2, m_lit, m_seqs1, strip_prefix_beq.
  dsp (s2b ":") s5 s6 Hs5; [|reflexivity].
  destruct s6 as [|y s6]; [|reflexivity].
  rewrite m_eol. subst s s1 s2 s3 s4 s5. split.
  - rewrite <- !app_assoc. reflexivity.
  - eexists. cbn [idx]. f_equal; caps_eq.
Qed.

Ltac use_race_tail s1 Hf1 HT :=
  match goal with
  | |- context [m (seqs ?L) ?F ?K (mkst ?i ?pv s1) ?c] =>
      pose proof (race_tail_eval F K i pv s1 c Hf1) as HT; unfold race_tail in HT
  end.

(* ---- reRaceOperationHeader ---- *)
Lemma find_race_op w :
  match match_race_op w with
  | Some (wr, a, d) =>
      let kw := if wr then s2b "Write" else s2b "Read" in
      w = kw ++ s2b " at " ++ a ++ s2b " by goroutine " ++ d ++ s2b ":" /\
      re_find_N re_race_operation_header w =
        Some [Some (N.of_nat 0, N.of_nat (List.length w));
              Some (N.of_nat 0, N.of_nat (List.length kw));
              Some (N.of_nat (List.length kw + 4), N.of_nat (List.length kw + 4 + List.length a));
              Some (N.of_nat (List.length kw + 18 + List.length a),
                    N.of_nat (List.length kw + 18 + List.length a + List.length d))]
  | None => re_find_N re_race_operation_header w = None
  end.
Proof.
  rewrite find_anchored by reflexivity.
  replace (ngroups re_race_operation_header) with 3 by reflexivity. cbn [repeat].
  unfold re_race_operation_header, match_race_op.
  set (F := S (List.length w)). assert (HF : List.length w < F) by (unfold F; lia). clearbody F.
  rewrite m_group, m_seqs2, m_bol_start, m_seqs2, m_group, m_alts2, m_alts1, !m_lit. cbv beta.
  dsp (s2b "Read") w s1 Hw.
  - assert (Hf1 : List.length s1 < F) by lia. use_race_tail s1 Hf1 HT.
    destruct (match_race_op_tail s1) as [[a d]|]; cbn [option_map].
    + destruct HT as [Hs1 [pv' HT]]. rewrite HT. cbv zeta. split; [subst w s1; reflexivity|].
      unfold accept, set_cap. cbn [upd_nth idx]. subst w s1. caps_eq.
    + rewrite HT. subst w. reflexivity.
  - dsp (s2b "Write") w s1 Hw; [|reflexivity].
    assert (Hf1 : List.length s1 < F) by lia. use_race_tail s1 Hf1 HT.
    destruct (match_race_op_tail s1) as [[a d]|]; cbn [option_map].
    + destruct HT as [Hs1 [pv' HT]]. rewrite HT. cbv zeta. split; [subst w s1; reflexivity|].
      unfold accept, set_cap. cbn [upd_nth idx]. subst w s1. caps_eq.
    + rewrite HT. reflexivity.
Qed.

(* ---- reRacePreviousOperationHeader ---- *)
Lemma find_race_prev w :
  match match_race_prev w with
  | Some (wr, a, d) =>
      let kw := if wr then s2b "write" else s2b "read" in
      w = s2b "Previous " ++ kw ++ s2b " at " ++ a ++ s2b " by goroutine " ++ d ++ s2b ":" /\
      re_find_N re_race_previous_operation_header w =
        Some [Some (N.of_nat 0, N.of_nat (List.length w));
              Some (N.of_nat 9, N.of_nat (9 + List.length kw));
              Some (N.of_nat (9 + List.length kw + 4), N.of_nat (9 + List.length kw + 4 + List.length a));
              Some (N.of_nat (9 + List.length kw + 18 + List.length a),
                    N.of_nat (9 + List.length kw + 18 + List.length a + List.length d))]
  | None => re_find_N re_race_previous_operation_header w = None
  end.
Proof.
  rewrite find_anchored by reflexivity.
  replace (ngroups re_race_previous_operation_header) with 3 by reflexivity. cbn [repeat].
  unfold re_race_previous_operation_header, match_race_prev.
  set (F := S (List.length w)). assert (HF : List.length w < F) by (unfold F; lia). clearbody F.
  change (s2b "Previous read") with (s2b "Previous " ++ s2b "read").
  change (s2b "Previous write") with (s2b "Previous " ++ s2b "write").
  rewrite !strip_prefix_app.
  rewrite m_group, m_seqs2, m_bol_start, m_seqs2, m_lit.
  dsp (s2b "Previous ") w s0 Hw; [|reflexivity].
  rewrite m_seqs2, m_group, m_alts2, m_alts1, !m_lit. cbv beta.
  dsp (s2b "read") s0 s1 Hs0.
  - assert (Hf1 : List.length s1 < F) by lia. use_race_tail s1 Hf1 HT.
    destruct (match_race_op_tail s1) as [[a d]|]; cbn [option_map].
    + destruct HT as [Hs1 [pv' HT]]. rewrite HT. cbv zeta. split; [subst w s0 s1; reflexivity|].
      unfold accept, set_cap. cbn [upd_nth idx]. subst w s0 s1. caps_eq.
    + rewrite HT. subst s0. reflexivity.
  - dsp (s2b "write") s0 s1 Hs0; [|reflexivity].
    assert (Hf1 : List.length s1 < F) by lia. use_race_tail s1 Hf1 HT.
    destruct (match_race_op_tail s1) as [[a d]|]; cbn [option_map].
    + destruct HT as [Hs1 [pv' HT]]. rewrite HT. cbv zeta. split; [subst w s0 s1; reflexivity|].
      unfold accept, set_cap. cbn [upd_nth idx]. subst w s0 s1. caps_eq.
    + rewrite HT. reflexivity.
Qed.

Ltac slice_tac Hw pre x post :=
  match goal with
  | |- slice ?w _ = _ =>
      apply (slice_mid w pre x post);
      [rewrite Hw, <- ?app_assoc; reflexivity | lens | lens]
  end.

Theorem race_op_correct w :
  match_race_op w =
  option_map (fun l => (beq (grp 1 l) (s2b "Write"), grp 2 l, grp 3 l)) (re_submatch re_race_operation_header w).
Proof.
  rewrite submatch_of_find. pose proof (find_race_op w) as H.
  destruct (match_race_op w) as [[[wr a] d]|]; [cbv zeta in H; destruct H as [Hw ->]|rewrite H; reflexivity].
  set (kw := if wr then s2b "Write" else s2b "Read") in *.
  cbn [option_map map grp nth_error]. rewrite !slice_nn.
  assert (E1 : slice w (0, List.length kw) = kw) by slice_tac Hw (@nil N) kw (s2b " at " ++ a ++ s2b " by goroutine " ++ d ++ s2b ":").
  assert (E2 : slice w (List.length kw + 4, List.length kw + 4 + List.length a) = a)
    by slice_tac Hw (kw ++ s2b " at ") a (s2b " by goroutine " ++ d ++ s2b ":").
  assert (E3 : slice w (List.length kw + 18 + List.length a, List.length kw + 18 + List.length a + List.length d) = d)
    by slice_tac Hw (kw ++ s2b " at " ++ a ++ s2b " by goroutine ") d (s2b ":").
  rewrite E1, E2, E3. destruct wr; reflexivity.
Qed.

Theorem race_prev_correct w :
  match_race_prev w =
  option_map (fun l => (beq (grp 1 l) (s2b "write"), grp 2 l, grp 3 l))
             (re_submatch re_race_previous_operation_header w).
Proof.
  rewrite submatch_of_find. pose proof (find_race_prev w) as H.
  destruct (match_race_prev w) as [[[wr a] d]|]; [cbv zeta in H; destruct H as [Hw ->]|rewrite H; reflexivity].
  set (kw := if wr then s2b "write" else s2b "read") in *.
  cbn [option_map map grp nth_error]. rewrite !slice_nn.
  assert (E1 : slice w (9, 9 + List.length kw) = kw)
    by slice_tac Hw (s2b "Previous ") kw (s2b " at " ++ a ++ s2b " by goroutine " ++ d ++ s2b ":").
  assert (E2 : slice w (9 + List.length kw + 4, 9 + List.length kw + 4 + List.length a) = a)
    by slice_tac Hw (s2b "Previous " ++ kw ++ s2b " at ") a (s2b " by goroutine " ++ d ++ s2b ":").
  assert (E3 : slice w (9 + List.length kw + 18 + List.length a, 9 + List.length kw + 18 + List.length a + List.length d) = d)
    by slice_tac Hw (s2b "Previous " ++ kw ++ s2b " at " ++ a ++ s2b " by goroutine ") d (s2b ":").
  rewrite E1, E2, E3. destruct wr; reflexivity.
Qed.

(* ---- reUnavail (not anchored at the end, in Go and in the model alike) ---- *)
Lemma has_prefix_strip s l : has_prefix s l = match strip_prefix l s with Some _ => true | None => false end.
Proof.
  revert s. induction l as [|y l IH]; intros s; [destruct s; reflexivity|].
  destruct s as [|x s]; [reflexivity|]. simpl. destruct (N.eqb x y); [apply IH|reflexivity].
Qed.

Lemma match_unavail_cons x s :
  match_unavail (x :: s) =
  if N.eqb x 9 then has_prefix s unavail_lit
  else if N.eqb x 32 then has_prefix (snd (span (N.eqb 32) (x :: s))) unavail_lit
  else false.
Proof.
  unfold match_unavail.
  destruct x as [|p]; [reflexivity|].
  do 6 (destruct p as [p|p|]; try reflexivity).
  cbn [N.eqb Pos.eqb]. destruct (span (N.eqb 32) (32%N :: s)). reflexivity.
Qed.

Theorem unavail_correct w :
  match_unavail w = match re_submatch re_unavail w with Some _ => true | None => false end.
Proof.
  rewrite submatch_of_find.
  assert (E : match_unavail w = match re_find_N re_unavail w with Some _ => true | None => false end).
  2:{ rewrite E. destruct (re_find_N re_unavail w); reflexivity. }
  rewrite find_anchored by reflexivity.
  replace (ngroups re_unavail) with 0 by reflexivity. cbn [repeat].
  unfold re_unavail.
  set (F := S (List.length w)). assert (HF : List.length w < F) by (unfold F; lia). clearbody F.
  rewrite m_group, m_seqs2, m_bol_start, m_seqs2, m_alts2, m_alts1, m_Lit.
  destruct w as [|x s]; [reflexivity|].
  rewrite match_unavail_cons, (N.eqb_sym 9 x).
  rewrite (m_plus_max (lit " ") _ (N.eqb 32) _ _ _ _ _ _ eq_refl (fun _ => eq_refl) HF).
  2:{ apply fb_closure. eapply fb_lit; reflexivity. }
  destruct (N.eqb_spec x 9) as [->|Hx9].
  - rewrite m_seqs1, m_lit, has_prefix_strip. fold unavail_lit.
    destruct (strip_prefix unavail_lit s); reflexivity.
  - cbn [span]. destruct (N.eqb_spec x 32) as [->|Hx32].
    + rewrite N.eqb_refl.
      destruct (span (N.eqb 32) s) as [a b]. cbn [fst snd].
      rewrite m_seqs1, m_lit, has_prefix_strip. fold unavail_lit.
      destruct (strip_prefix unavail_lit b); reflexivity.
    + replace (N.eqb 32 x) with false by (symmetry; apply N.eqb_neq; congruence). reflexivity.
Qed.

(* ---- "." on LF-free text ---- *)
Notation not_lf := (fun y : N => negb (N.eqb y LF)).

Lemma no_lf_forallb s : no_lf s -> forallb not_lf s = true.
Proof.
  unfold no_lf. induction s as [|x s IH]; intros H; [reflexivity|]. simpl.
  destruct (N.eqb_spec x LF) as [->|]; [exfalso; apply H; left; reflexivity|].
  apply IH. intros Hin. apply H. right. exact Hin.
Qed.

Lemma span_all p s : forallb p s = true -> span p s = (s, []).
Proof.
  induction s as [|x s IH]; intros H; [reflexivity|]. simpl in *.
  apply andb_true_iff in H as [Hx Hs]. rewrite Hx, (IH Hs). reflexivity.
Qed.

Lemma no_lf_app a b : no_lf (a ++ b) -> no_lf a /\ no_lf b.
Proof. unfold no_lf. intros H. split; intros Hin; apply H; apply in_or_app; [left|right]; exact Hin. Qed.

Lemma no_lf_cons x s : no_lf (x :: s) -> x <> LF /\ no_lf s.
Proof. unfold no_lf. intros H. split; [intros ->; apply H; left; reflexivity|intros Hin; apply H; right; exact Hin]. Qed.

(* ---- reCreated ---- *)
Lemma find_created w : no_lf w ->
  match match_created w with
  | Some r =>
      w = s2b "created by " ++ r /\
      re_find_N re_created w =
        Some [Some (N.of_nat 0, N.of_nat (List.length w)); Some (N.of_nat 11, N.of_nat (11 + List.length r))]
  | None => re_find_N re_created w = None
  end.
Proof.
  intros Hlf. rewrite find_anchored by reflexivity.
  replace (ngroups re_created) with 1 by reflexivity. cbn [repeat].
  unfold re_created, match_created.
  set (F := S (List.length w)). assert (HF : List.length w < F) by (unfold F; lia). clearbody F.
  rewrite m_group, m_seqs2, m_bol_start, m_seqs2, m_lit.
  dsp (s2b "created by ") w r Hw; [|reflexivity].
  assert (Hf1 : List.length r < F) by lia.
  rewrite m_seqs2, m_group, (m_plus_max Any _ not_lf _ _ _ _ _ _ eq_refl (fun _ => eq_refl) Hf1).
  2:{ apply fb_closure. apply fb_eol. }
  assert (Hr : no_lf r) by (subst w; apply (no_lf_app _ _ Hlf)).
  rewrite (span_all _ r (no_lf_forallb r Hr)). cbn [fst snd].
  destruct r as [|x r]; [reflexivity|]. cbn [nonempty]. set (R := x :: r) in *. clearbody R. cbv beta.
  rewrite m_seqs1, m_eol. unfold accept, set_cap. cbn [upd_nth idx].
  split; [exact Hw|]. subst w. caps_eq.
Qed.

Theorem created_correct w : no_lf w ->
  match_created w = option_map (grp 1) (re_submatch re_created w).
Proof.
  intros Hlf. rewrite submatch_of_find. pose proof (find_created w Hlf) as H.
  destruct (match_created w) as [r|]; [destruct H as [Hw ->]|rewrite H; reflexivity].
  cbn [option_map map grp nth_error]. rewrite !slice_nn. f_equal. symmetry.
  apply (slice_mid w (s2b "created by ") r []); [rewrite app_nil_r; exact Hw|reflexivity|reflexivity].
Qed.

(* ---- more classes ---- *)
Lemma in_class1 a x : in_class [(a, a)] x = N.eqb x a.
Proof.
  unfold in_class. simpl. rewrite orb_false_r.
  destruct (N.eqb_spec x a) as [->|Hn]; [rewrite N.leb_refl; reflexivity|].
  destruct (N.leb_spec a x), (N.leb_spec x a); try reflexivity. lia.
Qed.
Lemma p_not1 a x : xorb true (in_class [(a, a)] x) = negb (N.eqb x a).
Proof. rewrite in_class1. destruct (N.eqb x a); reflexivity. Qed.
Lemma p_nonspace x : xorb true (in_class [(32, 32)]%N x) = is_nonspace x.
Proof. apply p_not1. Qed.
Lemma p_space_tab x : xorb false (in_class [(32, 32); (9, 9)]%N x) = is_space_tab x.
Proof.
  unfold is_space_tab. rewrite <- (in_class1 32 x), <- (in_class1 9 x). unfold in_class. simpl.
  rewrite !orb_false_r. destruct (_ && _), (_ && _); reflexivity.
Qed.

(* ---- reRoutineHeader ---- *)
Notation nonsp := (Class true [(32, 32)]%N).
Notation notrb := (Class true [(93, 93)]%N).
Notation notrb_p := (fun c : N => negb (N.eqb c 93)).
Definition hdr_bracket : list regex := [lit " ["; Group 3 (Plus notrb); lit "]:"; Eol].
Definition hdr_mp : regex := seqs [lit " mp="; Plus nonsp].
Definition hdr_gp : regex := seqs [lit " gp="; Plus nonsp; lit " m="; Plus nonsp; Opt hdr_mp].

Lemma bracket_eval F K0 i pv s c : List.length s < F ->
  match match_bracket s with
  | Some t =>
      s = s2b " [" ++ t ++ s2b "]:" /\
      exists pv',
        m (seqs hdr_bracket) F K0 (mkst i pv s) c =
        K0 (mkst (i + N.of_nat (List.length s)) pv' [])
           (set_cap 3 ((i + N.of_nat 2)%N, (i + N.of_nat (2 + List.length t))%N) c)
  | None => m (seqs hdr_bracket) F K0 (mkst i pv s) c = None
  end.
Proof.
  intros HF. unfold hdr_bracket, match_bracket.
  rewrite m_seqs2, m_lit.
  dsp (s2b " [") s s1 Hs; [|reflexivity].
  assert (Hf1 : List.length s1 < F) by lia.
  rewrite m_seqs2, m_group.
  rewrite (m_plus_max notrb _ notrb_p _ _ _ _ _ _ eq_refl (p_not1 93) Hf1).
  2:{ apply fb_closure. eapply fb_seqs_lit; reflexivity. }
  dspan (fun c : N => negb (N.eqb c 93)) s1 t s2 Hs1.
  destruct t as [|t0 t]; [reflexivity|]. cbn [nonempty andb]. set (T := t0 :: t) in *. clearbody T. cbv beta.
  rewrite m_seqs2, m_lit, m_seqs1, strip_prefix_beq.
  dsp (s2b "]:") s2 s3 Hs2; [|reflexivity].
  destruct s3 as [|y s3]; [|reflexivity].
  rewrite m_eol. subst s s1 s2. split; [reflexivity|].
  eexists. cbn [idx]. f_equal; caps_eq.
Qed.

Lemma gp_eval F KB i pv s c : List.length s < F ->
  fails_before is_nonspace KB ->
  (forall i' pv' s' s'' c', strip_prefix (s2b " mp=") s' = Some s'' -> KB (mkst i' pv' s') c' = None) ->
  match match_gp s with
  | Some s3 =>
      exists g pv', s = g ++ s3 /\
        m hdr_gp F KB (mkst i pv s) c = KB (mkst (i + N.of_nat (List.length g)) pv' s3) c
  | None => m hdr_gp F KB (mkst i pv s) c = None
  end.
Proof.
  intros HF Ha Hb. unfold hdr_gp, hdr_mp, match_gp.
  rewrite m_seqs2, m_lit.
  dsp (s2b " gp=") s s1 Hs; [|reflexivity].
  assert (Hf1 : List.length s1 < F) by lia.
  rewrite m_seqs2, (m_plus_max nonsp _ is_nonspace _ _ _ _ _ _ eq_refl p_nonspace Hf1).
  2:{ eapply fb_seqs_lit; reflexivity. }
  dspan is_nonspace s1 x s2 Hs1.
  destruct x as [|x0 x]; [reflexivity|]. cbn [nonempty negb]. set (X := x0 :: x) in *. clearbody X.
  rewrite m_seqs2, m_lit.
  dsp (s2b " m=") s2 s3 Hs2; [|reflexivity].
  assert (Hf3 : List.length s3 < F) by lia.
  rewrite m_seqs2, (m_plus_max nonsp _ is_nonspace _ _ _ _ _ _ eq_refl p_nonspace Hf3).
  2:{ rewrite m_seqs1. apply fb_opt; [eapply fb_seqs_lit; reflexivity|exact Ha]. }
  dspan is_nonspace s3 y s4 Hs3.
  destruct y as [|y0 y]; [reflexivity|]. cbn [nonempty negb]. set (Y := y0 :: y) in *. clearbody Y.
  rewrite m_seqs1, m_opt, m_seqs2, m_lit.
  pose proof (Hb (i + N.of_nat (List.length (s2b " gp=")) + N.of_nat (List.length X) +
                  N.of_nat (List.length (s2b " m=")) + N.of_nat (List.length Y))%N
                 (pva Y (pva (s2b " m=") (pva X (pva (s2b " gp=") pv)))) s4) as Hb4.
  dsp (s2b " mp=") s4 s5 Hs4.
  - assert (Hf5 : List.length s5 < F) by lia.
    rewrite m_seqs1, (m_plus_max nonsp _ is_nonspace _ _ _ _ _ _ eq_refl p_nonspace Hf5 Ha).
    rewrite (Hb4 s5 c eq_refl).
    dspan is_nonspace s5 z s6 Hs5.
    destruct z as [|z0 z].
    + cbn [nonempty]. clear Hb4. subst s s1 s2 s3.
      exists (s2b " gp=" ++ X ++ s2b " m=" ++ Y), None. split; [rewrite <- !app_assoc; reflexivity|].
      (* " mp=" without a value: the regexp skips the group, and fails on " mp=" as the model does later *)
      symmetry. eapply Hb. rewrite Hs4. apply strip_prefix_self.
    + cbn [nonempty]. set (Z := z0 :: z) in *. clearbody Z.
      exists (s2b " gp=" ++ X ++ s2b " m=" ++ Y ++ s2b " mp=" ++ Z). eexists.
      split; [subst s s1 s2 s3 s4 s5; rewrite <- !app_assoc; reflexivity|].
      rewrite opt_id. apply K_idx_eq. lens.
  - clear Hb4.
    exists (s2b " gp=" ++ X ++ s2b " m=" ++ Y). eexists.
    split; [subst s s1 s2 s3; rewrite <- !app_assoc; reflexivity|].
    apply K_idx_eq. lens.
Qed.

Lemma find_routine_header w :
  match match_routine_header w with
  | Some (ind, ds, t) =>
      exists gp,
      w = ind ++ s2b "goroutine " ++ ds ++ gp ++ s2b " [" ++ t ++ s2b "]:" /\
      re_find_N re_routine_header w =
        Some [Some (N.of_nat 0, N.of_nat (List.length w));
              Some (N.of_nat 0, N.of_nat (List.length ind));
              Some (N.of_nat (List.length ind + 10), N.of_nat (List.length ind + 10 + List.length ds));
              Some (N.of_nat (List.length ind + 10 + List.length ds + List.length gp + 2),
                    N.of_nat (List.length ind + 10 + List.length ds + List.length gp + 2 + List.length t))]
  | None => re_find_N re_routine_header w = None
  end.
Proof.
  rewrite find_anchored by reflexivity.
  replace (ngroups re_routine_header) with 3 by reflexivity. cbn [repeat].
  unfold re_routine_header, match_routine_header.
  set (F := S (List.length w)). assert (HF : List.length w < F) by (unfold F; lia). clearbody F.
  rewrite m_group, m_seqs2, m_bol_start, m_seqs2, m_group.
  rewrite (m_star_max (Class false [(32, 32); (9, 9)]%N) _ is_space_tab _ _ _ _ _ _ eq_refl p_space_tab HF).
  2:{ apply fb_closure. eapply fb_seqs_lit; reflexivity. }
  dspan is_space_tab w ind s0 Hw. cbv beta.
  rewrite m_seqs2, m_lit.
  dsp (s2b "goroutine ") s0 s1 Hs0; [|reflexivity].
  assert (Hf1 : List.length s1 < F) by lia.
  rewrite m_seqs2, m_group, (m_plus_max digit _ is_digit _ _ _ _ _ _ eq_refl p_digit Hf1).
  2:{ apply fb_closure. rewrite m_seqs2. apply fb_opt; eapply fb_seqs_lit; reflexivity. }
  dspan is_digit s1 ds s2 Hs1.
  destruct ds as [|d0 ds]; [reflexivity|]. cbn [nonempty negb]. set (D := d0 :: ds) in *. clearbody D. cbv beta.
  assert (Hf2 : List.length s2 < F) by lia.
  rewrite m_seqs2, m_opt. cbn [idx].
  match goal with
  | |- context [m ?G F ?KB (mkst ?i ?pv s2) ?c] =>
      match KB with
      | m (seqs _) F ?K0 =>
          assert (HB : forall i' pv' s', List.length s' < F ->
                    match match_bracket s' with
                    | Some t =>
                        s' = s2b " [" ++ t ++ s2b "]:" /\
                        exists pv'',
                          KB (mkst i' pv' s') c =
                          K0 (mkst (i' + N.of_nat (List.length s')) pv'' [])
                             (set_cap 3 ((i' + N.of_nat 2)%N, (i' + N.of_nat (2 + List.length t))%N) c)
                    | None => KB (mkst i' pv' s') c = None
                    end) by (intros i' pv' s' Hs'; apply (bracket_eval F K0 i' pv' s' c Hs'));
          pose proof (gp_eval F KB i pv s2 c Hf2) as HG
      end
  end.
  match type of HG with ?A -> ?B -> _ =>
    assert (Ha : A) by (eapply fb_seqs_lit; reflexivity);
    assert (Hb : B) by (intros i' pv' s' s'' c' E; rewrite m_seqs2, m_lit;
                        apply strip_prefix_eq in E; subst s'; reflexivity)
  end.
  specialize (HG Ha Hb). clear Ha Hb. unfold hdr_gp, hdr_mp in HG.
  pose proof (HB (0 + N.of_nat (List.length ind) + N.of_nat (List.length (s2b "goroutine ")) + N.of_nat (List.length D))%N
                 (pva D (pva (s2b "goroutine ") (pva ind None))) s2 Hf2) as HB2.
  destruct (match_gp s2) as [s3|].
  - destruct HG as [g [pvg [Hs2 HG]]]. rewrite HG.
    assert (Hf3 : List.length s3 < F) by (subst s2; rewrite app_length in Hf2; lia).
    pose proof (HB (0 + N.of_nat (List.length ind) + N.of_nat (List.length (s2b "goroutine ")) + N.of_nat (List.length D)
                    + N.of_nat (List.length g))%N pvg s3 Hf3) as HB3.
    destruct (match_bracket s3) as [t|].
    + destruct HB3 as [Hs3 [pv3 HB3]]. rewrite HB3. exists g.
      unfold accept, set_cap. cbn [upd_nth idx]. subst w s0 s1 s2 s3.
      split; [reflexivity|]. caps_eq.
    + rewrite HB3.
      destruct (match_bracket s2) as [t|].
      * destruct HB2 as [Hs2' [pv2 HB2]]. rewrite HB2. exists [].
        unfold accept, set_cap. cbn [upd_nth idx]. clear Hs2 HG HB3 Hf3. subst w s0 s1 s2.
        split; [reflexivity|]. caps_eq.
      * rewrite HB2. reflexivity.
  - rewrite HG.
    destruct (match_bracket s2) as [t|].
    + destruct HB2 as [Hs2' [pv2 HB2]]. rewrite HB2. exists [].
      unfold accept, set_cap. cbn [upd_nth idx]. subst w s0 s1 s2.
      split; [reflexivity|]. caps_eq.
    + rewrite HB2. reflexivity.
Qed.

Theorem routine_header_correct w :
  match_routine_header w =
  option_map (fun l => (grp 1 l, grp 2 l, grp 3 l)) (re_submatch re_routine_header w).
Proof.
  rewrite submatch_of_find. pose proof (find_routine_header w) as H.
  destruct (match_routine_header w) as [[[ind ds] t]|]; [destruct H as [gp [Hw ->]]|rewrite H; reflexivity].
  cbn [option_map map grp nth_error]. rewrite !slice_nn.
  assert (E1 : slice w (0, List.length ind) = ind)
    by slice_tac Hw (@nil N) ind (s2b "goroutine " ++ ds ++ gp ++ s2b " [" ++ t ++ s2b "]:").
  assert (E2 : slice w (List.length ind + 10, List.length ind + 10 + List.length ds) = ds)
    by slice_tac Hw (ind ++ s2b "goroutine ") ds (gp ++ s2b " [" ++ t ++ s2b "]:").
  assert (E3 : slice w (List.length ind + 10 + List.length ds + List.length gp + 2,
                        List.length ind + 10 + List.length ds + List.length gp + 2 + List.length t) = t)
    by slice_tac Hw (ind ++ s2b "goroutine " ++ ds ++ gp ++ s2b " [") t (s2b "]:").
  rewrite E1, E2, E3. reflexivity.
Qed.

(* ---- reFunc ---- *)
Definition K_end : cont := fun st c => accept st (set_cap 0 (0%N, idx st) c).

(* a continuation that only succeeds in front of the single byte [y] at the end
   of the text: the greedy loop must stop right before a final [y] *)
Lemma back_last y k :
  (forall i pv r c, r <> [y] -> k (mkst i pv r) c = None) ->
  forall a i pv c,
  back k i pv a [] c =
  match last_opt a with
  | Some z =>
      if N.eqb z y
      then k (mkst (i + N.of_nat (List.length (removelast a))) (pva (removelast a) pv) [y]) c
      else None
  | None => None
  end.
Proof.
  intros Hk. induction a as [|x a IH]; intros i pv c.
  - cbn [back last_opt]. apply Hk. discriminate.
  - cbn [back]. rewrite IH. destruct a as [|x' a].
    + cbn [last_opt removelast List.length app]. rewrite N.add_0_r.
      destruct (N.eqb_spec x y) as [->|Hn]; [reflexivity|].
      apply Hk. intros E. inversion E. contradiction.
    + change (last_opt (x :: x' :: a)) with (last_opt (x' :: a)).
      change (removelast (x :: x' :: a)) with (x :: removelast (x' :: a)).
      destruct (last_opt (x' :: a)) as [z|].
      * destruct (N.eqb z y).
        -- rewrite pva_cons.
           replace (N.succ i + N.of_nat (List.length (removelast (x' :: a))))%N
             with (i + N.of_nat (List.length (x :: removelast (x' :: a))))%N by (cbn [List.length]; lia).
           destruct (k _ c) eqn:E; [reflexivity|].
           apply Hk. rewrite app_nil_r. discriminate.
        -- apply Hk. rewrite app_nil_r. discriminate.
      * apply Hk. rewrite app_nil_r. discriminate.
Qed.

Definition func_inner : list regex := [lit "("; Group 2 (Star Any); lit ")"; Eol].

Lemma func_inner_eval F i pv r c : no_lf r -> List.length r < F ->
  m (seqs func_inner) F K_end (mkst i pv r) c =
  match r with
  | y :: r' =>
      if N.eqb y 40 then
        match last_opt r' with
        | Some z =>
            if N.eqb z 41
            then Some (set_cap 0 (0, i + 1 + N.of_nat (List.length (removelast r')) + 1)
                         (set_cap 2 (i + 1, i + 1 + N.of_nat (List.length (removelast r'))) c))%N
            else None
        | None => None
        end
      else None
  | [] => None
  end.
Proof.
  intros Hlf HF. unfold func_inner. rewrite m_seqs2, m_lit.
  destruct r as [|y r']; [reflexivity|]. cbn [strip_prefix s2b map list_ascii_of_string].
  change (N_of_ascii "(") with 40%N.
  destruct (N.eqb y 40); [|reflexivity].
  apply no_lf_cons in Hlf as [_ Hlf].
  assert (Hf1 : List.length r' < F) by (cbn [List.length] in HF; lia).
  rewrite m_seqs2, m_group, (m_star Any _ _ _ _ _ _ _ eq_refl Hf1), star_spec_back.
  rewrite (span_all _ r' (no_lf_forallb r' Hlf)). cbn [fst snd].
  rewrite (back_last 41).
  2:{ intros i' pv' r c' Hr. rewrite m_seqs2, m_lit.
      destruct r as [|z r]; [reflexivity|]. cbn [strip_prefix s2b map list_ascii_of_string].
      change (N_of_ascii ")") with 41%N.
      destruct (N.eqb_spec z 41) as [->|]; [|reflexivity].
      rewrite m_seqs1, m_eol. destruct r; [contradiction Hr; reflexivity|reflexivity]. }
  destruct (last_opt r') as [z|]; [|reflexivity].
  destruct (N.eqb z 41); [|reflexivity].
  rewrite m_seqs2, m_lit. cbn [strip_prefix s2b map list_ascii_of_string].
  change (N_of_ascii ")") with 41%N. rewrite N.eqb_refl, m_seqs1, m_eol.
  unfold K_end, accept. cbn [idx List.length].
  reflexivity.
Qed.

Lemma length_removelast {A} (l : list A) : List.length (removelast l) = List.length l - 1.
Proof.
  induction l as [|x l IH]; [reflexivity|]. destruct l as [|y l]; [reflexivity|].
  change (removelast (x :: y :: l)) with (x :: removelast (y :: l)).
  cbn [List.length] in *. lia.
Qed.

Definition func_K (F : nat) : cont :=
  fun st' c' => m (seqs func_inner) F K_end st' (set_cap 1 (0%N, idx st') c').

Lemma func_outer F c : forall a, no_lf a -> forall i pv, List.length a < F ->
  back (func_K F) i pv a [] c =
  match last_opt a with
  | Some z =>
      if N.eqb z 41 then
        match last_index_byte (removelast a) 40 with
        | Some j =>
            Some (set_cap 0 (0, i + N.of_nat (List.length a))
                    (set_cap 2 (i + N.of_nat (S j), i + N.of_nat (List.length a - 1))
                       (set_cap 1 (0, i + N.of_nat j) c)))%N
        | None => None
        end
      else None
  | None => None
  end.
Proof.
  induction a as [|x a IH]; intros Hlf i pv HF.
  - reflexivity.
  - pose proof (no_lf_cons _ _ Hlf) as [_ Hlf'].
    cbn [back]. rewrite (IH Hlf') by (cbn [List.length] in HF; lia). clear IH.
    rewrite app_nil_r. unfold func_K. rewrite (func_inner_eval F _ _ _ _ Hlf HF). cbn [idx].
    destruct a as [|x' a].
    + cbn [last_opt removelast last_index_byte]. destruct (N.eqb x 41), (N.eqb x 40); reflexivity.
    + change (last_opt (x :: x' :: a)) with (last_opt (x' :: a)).
      change (removelast (x :: x' :: a)) with (x :: removelast (x' :: a)).
      cbn [last_index_byte].
      destruct (last_opt (x' :: a)) as [z|]; [|destruct (N.eqb x 40); reflexivity].
      destruct (N.eqb z 41); [|destruct (N.eqb x 40); reflexivity].
      destruct (last_index_byte (removelast (x' :: a)) 40) as [j|].
      * f_equal. cbn [List.length]. caps_eq.
      * destruct (N.eqb x 40); [|reflexivity].
        f_equal. rewrite length_removelast. cbn [List.length]. caps_eq.
Qed.

Lemma match_func_eq line :
  match_func line =
  match last_opt line with
  | Some z =>
      if N.eqb z 41 then
        match last_index_byte (removelast line) 40 with
        | Some (S p) => Some (firstn (S p) (removelast line), skipn (S (S p)) (removelast line))
        | _ => None
        end
      else None
  | None => None
  end.
Proof.
  unfold match_func. destruct (last_opt line) as [z|]; [|reflexivity].
  destruct z as [|p]; [reflexivity|]. do 6 (destruct p as [p|p|]; try reflexivity).
Qed.

Lemma last_index_byte_lt s c j : last_index_byte s c = Some j -> j < List.length s.
Proof.
  revert j. induction s as [|x s IH]; intros j H; [discriminate|]. cbn [last_index_byte] in H.
  destruct (last_index_byte s c) as [k|].
  - inversion H. specialize (IH k eq_refl). cbn [List.length]. lia.
  - destruct (N.eqb x c); inversion H. cbn [List.length]. lia.
Qed.

Lemma find_func w : no_lf w ->
  match match_func w with
  | Some (a, b) =>
      exists p,
      a = firstn (S p) (removelast w) /\ b = skipn (S (S p)) (removelast w) /\
      S (S p) <= List.length w - 1 /\
      re_find_N re_func w =
        Some [Some (N.of_nat 0, N.of_nat (List.length w)); Some (N.of_nat 0, N.of_nat (S p));
              Some (N.of_nat (S (S p)), N.of_nat (List.length w - 1))]
  | None => re_find_N re_func w = None
  end.
Proof.
  intros Hlf. rewrite find_anchored by reflexivity.
  replace (ngroups re_func) with 2 by reflexivity. cbn [repeat].
  unfold re_func. rewrite match_func_eq.
  set (F := S (List.length w)). assert (HF : List.length w < F) by (unfold F; lia). clearbody F.
  rewrite m_group, m_seqs2, m_bol_start, m_seqs2, m_group, (m_plus Any _ _ _ _ _ _ _ eq_refl HF).
  destruct w as [|x s]; [reflexivity|].
  apply no_lf_cons in Hlf as [Hx Hlf].
  replace (negb (N.eqb x LF)) with true by (symmetry; apply negb_true_iff, N.eqb_neq; exact Hx).
  rewrite star_spec_back, (span_all _ s (no_lf_forallb s Hlf)). cbn [fst snd].
  assert (Hf1 : List.length s < F) by (cbn [List.length] in HF; lia).
  pose proof (func_outer F [None; None; None] s Hlf (N.succ 0) (Some x) Hf1) as HO.
  unfold func_K, K_end, func_inner in HO. rewrite HO. clear HO.
  destruct s as [|x' s].
  - cbn [last_opt removelast last_index_byte]. destruct (N.eqb x 41); reflexivity.
  - change (last_opt (x :: x' :: s)) with (last_opt (x' :: s)).
    change (removelast (x :: x' :: s)) with (x :: removelast (x' :: s)).
    set (S' := x' :: s) in *. assert (HS : 1 <= List.length S') by (unfold S'; cbn [List.length]; lia).
    clearbody S'.
    destruct (last_opt S') as [z|]; [|reflexivity].
    destruct (N.eqb z 41); [|reflexivity].
    cbn [last_index_byte].
    pose proof (last_index_byte_lt (removelast S') 40) as Hlt.
    destruct (last_index_byte (removelast S') 40) as [j|].
    + specialize (Hlt j eq_refl). rewrite length_removelast in Hlt.
      exists j. split; [reflexivity|]. split; [reflexivity|]. cbn [List.length].
      split; [lia|]. unfold set_cap. cbn [upd_nth]. caps_eq.
    + destruct (N.eqb x 40); reflexivity.
Qed.

Theorem func_correct w : no_lf w ->
  match_func w = option_map (fun l => (grp 1 l, grp 2 l)) (re_submatch re_func w).
Proof.
  intros Hlf. rewrite submatch_of_find. pose proof (find_func w Hlf) as H.
  destruct (match_func w) as [[a b]|]; [destruct H as [p [Ha [Hb [Hp ->]]]]|rewrite H; reflexivity].
  cbn [option_map map grp nth_error]. rewrite !slice_nn. unfold slice. cbn [fst snd skipn].
  rewrite Ha, Hb, removelast_firstn_len, firstn_firstn, skipn_firstn_comm.
  replace (Nat.min (S p) (Nat.pred (List.length w))) with (S p - 0) by lia.
  replace (Nat.pred (List.length w)) with (List.length w - 1) by lia. reflexivity.
Qed.

(* ---- reVersion (not anchored: leftmost match) ---- *)
Lemma back_some k i pv a b c r :
  k (mkst (i + N.of_nat (List.length a)) (pva a pv) b) c = Some r -> back k i pv a b c = Some r.
Proof.
  revert i pv. induction a as [|x a IH]; intros i pv H.
  - simpl in *. rewrite N.add_0_r in H. exact H.
  - cbn [back]. rewrite (IH (N.succ i) (Some x)); [reflexivity|].
    rewrite pva_cons in H. rewrite <- H. apply K_idx_eq. cbn [List.length]. lia.
Qed.

(* \d+ followed by the literal byte y: what is left *)
Definition dig_then (y : N) (s : bytes) : option bytes :=
  let '(d, r) := span is_digit s in match d with [] => None | _ => strip_prefix [y] r end.

Ltac bits x :=
  let p := fresh "p" in
  destruct x as [|p]; [reflexivity|]; repeat (destruct p as [p|p|]; try reflexivity).

Lemma match_version_at_eq s :
  match_version_at s =
  match strip_prefix [118%N] s with
  | Some s1 =>
    match dig_then 46 s1 with
    | Some s2 =>
      match dig_then 46 s2 with
      | Some s3 =>
        match dig_then 45 s3 with
        | Some s4 =>
          match dig_then 45 s4 with
          | Some s5 => match fst (span is_lower_hex s5) with [] => None | h => Some h end
          | None => None
          end
        | None => None
        end
      | None => None
      end
    | None => None
    end
  | None => None
  end.
Proof.
  unfold match_version_at, dig_then, digits1.
  destruct s as [|x s1]; [reflexivity|]. bits x. cbn [strip_prefix N.eqb Pos.eqb].
  destruct (span is_digit s1) as [d1 r1]. destruct d1 as [|d1 d1']; [reflexivity|].
  destruct r1 as [|y r1]; [reflexivity|]. bits y. cbn [strip_prefix N.eqb Pos.eqb].
  destruct (span is_digit r1) as [d2 r2]. destruct d2 as [|d2 d2']; [reflexivity|].
  destruct r2 as [|y r2]; [reflexivity|]. bits y. cbn [strip_prefix N.eqb Pos.eqb].
  destruct (span is_digit r2) as [d3 r3]. destruct d3 as [|d3 d3']; [reflexivity|].
  destruct r3 as [|y r3]; [reflexivity|]. bits y. cbn [strip_prefix N.eqb Pos.eqb].
  destruct (span is_digit r3) as [d4 r4]. destruct d4 as [|d4 d4']; [reflexivity|].
  destruct r4 as [|y r4]; [reflexivity|]. bits y. cbn [strip_prefix N.eqb Pos.eqb].
  destruct (span is_lower_hex r4) as [h r5]. destruct h; reflexivity.
Qed.

Lemma dig_lit_eval F s0 y b l K i pv s c :
  s2b s0 = [y] -> is_digit y = false -> List.length s < F ->
  match dig_then y s with
  | Some s' =>
      exists pre pv', s = pre ++ s' /\
        m (seqs (Plus digit :: lit s0 :: b :: l)) F K (mkst i pv s) c =
        m (seqs (b :: l)) F K (mkst (i + N.of_nat (List.length pre)) pv' s') c
  | None => m (seqs (Plus digit :: lit s0 :: b :: l)) F K (mkst i pv s) c = None
  end.
Proof.
  intros Hs0 Hy HF. unfold dig_then.
  rewrite m_seqs2, (m_plus_max digit _ is_digit _ _ _ _ _ _ eq_refl p_digit HF).
  2:{ eapply fb_seqs_lit; [exact Hs0|exact Hy]. }
  dspan is_digit s d r Hs. destruct d as [|d0 d]; [reflexivity|].
  set (D := d0 :: d) in *. clearbody D.
  rewrite m_seqs2, m_lit, Hs0.
  dsp [y] r s' Hr; [|reflexivity].
  exists (D ++ [y]). eexists. split; [subst s r; rewrite <- app_assoc; reflexivity|].
  apply K_idx_eq. lens.
Qed.

Notation hexd2 := (Class false [(97, 102); (48, 57)]%N).
Lemma p_hex2 x : xorb false (in_class [(97, 102); (48, 57)]%N x) = is_lower_hex x.
Proof.
  unfold in_class, is_lower_hex, is_digit. simpl. rewrite orb_false_r.
  destruct (_ && _), (_ && _); reflexivity.
Qed.

Ltac use_dig s1 Hf1 HD :=
  match goal with
  | |- context [m (seqs (Plus digit :: lit ?s0 :: ?b :: ?l)) ?F ?K (mkst ?i ?pv s1) ?c] =>
      let y := eval vm_compute in (hd 0%N (s2b s0)) in
      pose proof (dig_lit_eval F s0 y b l K i pv s1 c eq_refl eq_refl Hf1) as HD
  end.

Lemma version_at F i pv s : List.length s < F ->
  match match_version_at s with
  | Some h =>
      exists pre post, s = pre ++ h ++ post /\
        m (Group 0 re_version) F accept (mkst i pv s) [None; None] =
        Some [Some (i, i + N.of_nat (List.length pre + List.length h));
              Some (i + N.of_nat (List.length pre), i + N.of_nat (List.length pre + List.length h))]%N
  | None => m (Group 0 re_version) F accept (mkst i pv s) [None; None] = None
  end.
Proof.
  intros HF. rewrite match_version_at_eq. unfold re_version.
  rewrite m_group, m_seqs2, m_lit. change (s2b "v") with [118%N].
  dsp [118%N] s s1 Hs; [|reflexivity].
  assert (Hf1 : List.length s1 < F) by lia. use_dig s1 Hf1 HD1.
  destruct (dig_then 46 s1) as [s2|]; [destruct HD1 as [p1 [pv1 [Hs1 HD1]]]; rewrite HD1; clear HD1|exact HD1].
  assert (Hf2 : List.length s2 < F) by (subst s1; rewrite app_length in Hf1; lia). use_dig s2 Hf2 HD2.
  destruct (dig_then 46 s2) as [s3|]; [destruct HD2 as [p2 [pv2 [Hs2 HD2]]]; rewrite HD2; clear HD2|exact HD2].
  assert (Hf3 : List.length s3 < F) by (subst s2; rewrite app_length in Hf2; lia). use_dig s3 Hf3 HD3.
  destruct (dig_then 45 s3) as [s4|]; [destruct HD3 as [p3 [pv3 [Hs3 HD3]]]; rewrite HD3; clear HD3|exact HD3].
  assert (Hf4 : List.length s4 < F) by (subst s3; rewrite app_length in Hf3; lia). use_dig s4 Hf4 HD4.
  destruct (dig_then 45 s4) as [s5|]; [destruct HD4 as [p4 [pv4 [Hs4 HD4]]]; rewrite HD4; clear HD4|exact HD4].
  assert (Hf5 : List.length s5 < F) by (subst s4; rewrite app_length in Hf4; lia).
  rewrite m_seqs1, m_group, (m_plus hexd2 _ _ _ _ _ _ _ eq_refl Hf5).
  destruct s5 as [|x s6]; [reflexivity|]. cbn [span]. rewrite p_hex2.
  destruct (is_lower_hex x); [|reflexivity].
  rewrite star_spec_back, (span_ext _ is_lower_hex s6 p_hex2).
  pose proof (span_eq is_lower_hex s6) as Hs6.
  destruct (span is_lower_hex s6) as [h r]. specialize (Hs6 h r eq_refl). cbn [fst snd].
  exists ([118%N] ++ p1 ++ p2 ++ p3 ++ p4), r.
  split; [subst s s1 s2 s3 s4 s6; rewrite <- !app_assoc; reflexivity|].
  apply back_some. unfold accept, set_cap. cbn [upd_nth idx]. caps_eq.
Qed.

Lemma find_version_search F : forall s i pv, List.length s < F ->
  match find_version s with
  | Some h =>
      exists pre post g0, s = pre ++ h ++ post /\
        search (Group 0 re_version) F [None; None] i pv s =
        Some [g0; Some (i + N.of_nat (List.length pre), i + N.of_nat (List.length pre + List.length h))%N]
  | None => search (Group 0 re_version) F [None; None] i pv s = None
  end.
Proof.
  induction s as [|x s IH]; intros i pv HF.
  - cbn [find_version search]. fold accept. pose proof (version_at F i pv [] HF) as H.
    destruct (match_version_at []) as [h|].
    + destruct H as [pre [post [Hs H]]]. rewrite H. exists pre, post. eexists. split; [exact Hs|reflexivity].
    + rewrite H. reflexivity.
  - cbn [find_version search]. fold accept. pose proof (version_at F i pv (x :: s) HF) as H.
    destruct (match_version_at (x :: s)) as [h|].
    + destruct H as [pre [post [Hs H]]]. rewrite H. exists pre, post. eexists. split; [exact Hs|reflexivity].
    + rewrite H. assert (Hf' : List.length s < F) by (cbn [List.length] in HF; lia).
      specialize (IH (N.succ i) (Some x) Hf').
      destruct (find_version s) as [h|]; [|exact IH].
      destruct IH as [pre [post [g0 [Hs IH]]]]. exists (x :: pre), post, g0.
      split; [rewrite Hs; reflexivity|]. rewrite IH. cbn [List.length]. caps_eq.
Qed.

Theorem version_correct w :
  find_version w = option_map (grp 1) (re_submatch re_version w).
Proof.
  rewrite submatch_of_find. unfold re_find_N.
  replace (ngroups re_version) with 1 by reflexivity. cbn [repeat].
  pose proof (find_version_search (S (List.length w)) w 0%N None (Nat.lt_succ_diag_r _)) as H.
  destruct (find_version w) as [h|]; [|rewrite H; reflexivity].
  destruct H as [pre [post [g0 [Hw ->]]]].
  cbn [option_map map grp nth_error]. rewrite !N.add_0_l, slice_nn. f_equal. symmetry.
  apply (slice_mid w pre h post _ _ Hw); reflexivity.
Qed.

(* ---- reMethodSymbol (every input: the model tests for LF itself) ---- *)
Notation notrp := (Class true [(41, 41)]%N).
Definition msym_try (body : bytes) : option (bytes * bytes) :=
  let '(g1, r) := span (fun c : N => negb (N.eqb c 41)) body in
  match g1 with
  | [] => None
  | _ :: _ =>
      match strip_prefix [41; 46]%N r with
      | Some r2 =>
          match r2 with
          | [] => None
          | _ :: _ => if forallb (fun c : N => negb (N.eqb c 10)) r2 then Some (g1, 46%N :: r2) else None
          end
      | None => None
      end
  end.

Lemma match_method_symbol_eq s :
  match_method_symbol s =
  match s with
  | x :: t =>
      if N.eqb x 40 then
        match t with
        | y :: t' =>
            if N.eqb y 42
            then match msym_try t' with Some r => Some r | None => msym_try t end
            else msym_try t
        | [] => None
        end
      else None
  | [] => None
  end.
Proof.
  unfold match_method_symbol, msym_try.
  destruct s as [|x t]; [reflexivity|]. bits x. cbn [N.eqb Pos.eqb].
  assert (E : forall body,
    (let '(g1, r) := span (fun c : N => negb (N.eqb c 41)) body in
     match g1 with
     | [] => None
     | _ :: _ =>
         match r with
         | 41%N :: 46%N :: ((_ :: _) as r2) =>
             if forallb (fun c : N => negb (N.eqb c 10)) r2 then Some (g1, 46%N :: r2) else None
         | _ => None
         end
     end) =
    (let '(g1, r) := span (fun c : N => negb (N.eqb c 41)) body in
     match g1 with
     | [] => None
     | _ :: _ =>
         match strip_prefix [41; 46]%N r with
         | Some r2 =>
             match r2 with
             | [] => None
             | _ :: _ => if forallb (fun c : N => negb (N.eqb c 10)) r2 then Some (g1, 46%N :: r2) else None
             end
         | None => None
         end
     end)).
  { intros body. destruct (span _ body) as [g1 r]. destruct g1 as [|g g1]; [reflexivity|].
    destruct r as [|a r]; [reflexivity|]. bits a. cbn [strip_prefix N.eqb Pos.eqb].
    destruct r as [|b r]; [reflexivity|]. bits b. }
  destruct t as [|y t']; [reflexivity|].
  destruct (N.eqb_spec y 42) as [->|Hy].
  - rewrite !E. reflexivity.
  - rewrite <- !E. clear E.
    assert (Fin : forall (o : option (bytes * bytes)), match o with Some r => Some r | None => None end = o)
      by (intros [r|]; reflexivity).
    destruct y as [|p]; [apply Fin|].
    repeat (destruct p as [p|p|]; try apply Fin). contradiction Hy. reflexivity.
Qed.

Lemma forallb_span p s : forallb p s = match snd (span p s) with [] => true | _ :: _ => false end.
Proof.
  induction s as [|x s IH]; [reflexivity|]. simpl. destruct (p x); [|reflexivity].
  destruct (span p s) as [a b]. exact IH.
Qed.

Lemma span_snd_nil p s : snd (span p s) = [] -> fst (span p s) = s.
Proof.
  intros H. pose proof (span_eq p s) as E. destruct (span p s) as [a b]. simpl in *. subst b.
  rewrite (E a [] eq_refl), app_nil_r. reflexivity.
Qed.

Definition msym_tail : list regex :=
  [Group 1 (Plus notrp); lit ")"; Group 2 (seqs [lit "."; Plus Any]); Eol].

Lemma msym_try_eval F i pv body c : List.length body < F ->
  match msym_try body with
  | Some (g1, g2) =>
      body = g1 ++ [41%N] ++ g2 /\
      m (seqs msym_tail) F K_end (mkst i pv body) c =
      Some (set_cap 0 (0, i + N.of_nat (List.length body))
              (set_cap 2 (i + N.of_nat (List.length g1 + 1), i + N.of_nat (List.length body))
                 (set_cap 1 (i, i + N.of_nat (List.length g1)) c)))%N
  | None => m (seqs msym_tail) F K_end (mkst i pv body) c = None
  end.
Proof.
  intros HF. unfold msym_tail, msym_try.
  rewrite m_seqs2, m_group.
  rewrite (m_plus_max notrp _ (fun c : N => negb (N.eqb c 41)) _ _ _ _ _ _ eq_refl (p_not1 41) HF).
  2:{ apply fb_closure. eapply fb_seqs_lit; reflexivity. }
  dspan (fun c : N => negb (N.eqb c 41)) body g1 r Hb.
  destruct g1 as [|g0 g1]; [reflexivity|]. set (G := g0 :: g1) in *. clearbody G. cbv beta.
  change [41; 46]%N with (s2b ")" ++ s2b "."). rewrite strip_prefix_app.
  rewrite m_seqs2, m_lit.
  dsp (s2b ")") r r1 Hr; [|reflexivity].
  rewrite m_seqs2, m_group, m_seqs2, m_lit.
  dsp (s2b ".") r1 r2 Hr1; [|reflexivity].
  assert (Hf2 : List.length r2 < F) by lia.
  rewrite m_seqs1, (m_plus_max Any _ not_lf _ _ _ _ _ _ eq_refl (fun _ => eq_refl) Hf2).
  2:{ apply fb_closure. rewrite m_seqs1. apply fb_eol. }
  change (forallb (fun c : N => negb (N.eqb c 10)) r2) with (forallb not_lf r2).
  rewrite forallb_span.
  destruct r2 as [|x r2]; [reflexivity|].
  pose proof (span_snd_nil not_lf (x :: r2)) as Hall.
  destruct (span not_lf (x :: r2)) as [a b]. cbn [fst snd] in *.
  destruct b as [|b0 b].
  - specialize (Hall eq_refl). subst a.
    set (R := x :: r2) in *. cbv beta. rewrite m_seqs1, m_eol.
    unfold K_end, accept. cbn [idx]. subst body r r1. split; [reflexivity|].
    f_equal. caps_eq.
  - destruct a as [|a0 a]; [reflexivity|]. cbv beta. rewrite m_seqs1, m_eol. reflexivity.
Qed.

Lemma find_method_symbol s :
  match match_method_symbol s with
  | Some (g1, g2) =>
      exists pre, s = pre ++ g1 ++ [41%N] ++ g2 /\
      re_find_N re_method_symbol s =
        Some [Some (N.of_nat 0, N.of_nat (List.length s));
              Some (N.of_nat (List.length pre), N.of_nat (List.length pre + List.length g1));
              Some (N.of_nat (List.length pre + List.length g1 + 1), N.of_nat (List.length s))]
  | None => re_find_N re_method_symbol s = None
  end.
Proof.
  rewrite find_anchored by reflexivity.
  replace (ngroups re_method_symbol) with 2 by reflexivity. cbn [repeat].
  rewrite match_method_symbol_eq. unfold re_method_symbol.
  set (F := S (List.length s)). assert (HF : List.length s < F) by (unfold F; lia). clearbody F.
  rewrite m_group, m_seqs2, m_bol_start, m_seqs2, m_lit. change (s2b "(") with [40%N].
  destruct s as [|x t]; [reflexivity|]. cbn [strip_prefix].
  destruct (N.eqb_spec x 40) as [->|]; [|reflexivity].
  rewrite m_seqs2, m_opt, m_lit. change (s2b "*") with [42%N].
  assert (Hft : List.length t < F) by (cbn [List.length] in HF; lia).
  match goal with
  | |- context [m (seqs ?L) F ?K (mkst ?i ?pv t) ?c] =>
      pose proof (msym_try_eval F i pv t c Hft) as H2; unfold msym_tail, K_end in H2
  end.
  destruct t as [|y t'].
  - cbn [strip_prefix]. exact H2.
  - cbn [strip_prefix]. destruct (N.eqb_spec y 42) as [->|Hy].
    + assert (Hft' : List.length t' < F) by (cbn [List.length] in Hft; lia).
      match goal with
      | |- context [m (seqs ?L) F ?K (mkst ?i ?pv t') ?c] =>
          pose proof (msym_try_eval F i pv t' c Hft') as H1; unfold msym_tail, K_end in H1
      end.
      destruct (msym_try t') as [[g1 g2]|].
      * destruct H1 as [Ht' H1]. rewrite H1. exists [40; 42]%N. split; [rewrite Ht'; reflexivity|].
        unfold set_cap. cbn [upd_nth List.length]. caps_eq.
      * rewrite H1. destruct (msym_try (42%N :: t')) as [[g1 g2]|]; [|exact H2].
        destruct H2 as [Ht H2]. rewrite H2. exists [40%N]. split; [rewrite Ht; reflexivity|].
        unfold set_cap. cbn [upd_nth List.length]. caps_eq.
    + destruct (msym_try (y :: t')) as [[g1 g2]|]; [|exact H2].
      destruct H2 as [Ht H2]. rewrite H2. exists [40%N]. split; [rewrite Ht; reflexivity|].
      unfold set_cap. cbn [upd_nth List.length]. caps_eq.
Qed.

Theorem method_symbol_correct s :
  match_method_symbol s = option_map (fun l => (grp 1 l, grp 2 l)) (re_submatch re_method_symbol s).
Proof.
  rewrite submatch_of_find. pose proof (find_method_symbol s) as H.
  destruct (match_method_symbol s) as [[g1 g2]|]; [destruct H as [pre [Hs ->]]|rewrite H; reflexivity].
  cbn [option_map map grp nth_error]. rewrite !slice_nn.
  assert (E1 : slice s (List.length pre, List.length pre + List.length g1) = g1)
    by (apply (slice_mid s pre g1 ([41%N] ++ g2) _ _ Hs); reflexivity).
  assert (E2 : slice s (List.length pre + List.length g1 + 1, List.length s) = g2).
  { apply (slice_mid s (pre ++ g1 ++ [41%N]) g2 []).
    - rewrite Hs, app_nil_r, <- !app_assoc. reflexivity.
    - lens.
    - rewrite Hs. lens. }
  rewrite E1, E2. reflexivity.
Qed.

(* symbol() of html.go: ReplaceAllString(s, "$1$2") when the expression matches *)
Theorem symbol_correct (f : PP.Model.Types.Func) :
  symbol f =
  query_escape (match re_submatch re_method_symbol (PP.Model.Types.FName f) with
                | Some l => grp 1 l ++ grp 2 l
                | None => PP.Model.Types.FName f
                end).
Proof.
  unfold symbol. rewrite method_symbol_correct.
  destruct (re_submatch re_method_symbol _); reflexivity.
Qed.

(* ---- reModule ((?m), not anchored, the text has several lines) ---- *)
Lemma p_space x : xorb false (in_class [(9, 10); (12, 13); (32, 32)]%N x) = is_re_space x.
Proof.
  unfold in_class, is_re_space. rewrite xorb_false_l. cbn [existsb fst snd].
  apply eq_true_iff_eq. rewrite !orb_true_iff, !andb_true_iff, !N.leb_le, !N.eqb_eq. lia.
Qed.

Notation noteol := (Class true [(10, 10); (13, 13)]%N).
Lemma p_noteol x : xorb true (in_class [(10, 10); (13, 13)]%N x) = not_eol x.
Proof.
  unfold in_class, not_eol. rewrite xorb_true_l. cbn [existsb fst snd]. rewrite orb_false_r.
  f_equal.
  apply eq_true_iff_eq. rewrite !orb_true_iff, !andb_true_iff, !N.leb_le, !N.eqb_eq. lia.
Qed.

Definition bol_of (pv : option byte) : bool := match pv with None => true | Some x => N.eqb x 10 end.
Lemma m_mbol f k i pv s c : m MBol f k (mkst i pv s) c = if bol_of pv then k (mkst i pv s) c else None.
Proof. destruct pv; reflexivity. Qed.
Lemma m_meol f k i pv s c :
  m MEol f k (mkst i pv s) c =
  match s with [] => k (mkst i pv s) c | x :: _ => if N.eqb x LF then k (mkst i pv s) c else None end.
Proof. reflexivity. Qed.

(* the local functions of module_capture, standalone (same text) *)
Definition mod_try (body : bytes) : option bytes :=
  let '(cap, r2) := span not_eol body in
  match cap with
  | [] => None
  | _ =>
      match r2 with
      | [] => Some cap
      | 10%N :: _ => Some cap
      | 13%N :: [] => Some cap
      | 13%N :: 10%N :: _ => Some cap
      | _ => None
      end
  end.
Fixpoint mod_giveback (r a : bytes) : option bytes :=
  match a with
  | [] => None
  | _ :: a' => match mod_giveback r a' with Some c => Some c | None => mod_try (a ++ r) end
  end.

Lemma module_capture_eq s :
  module_capture s =
  match fst (span is_re_space s) with
  | [] => None
  | _ :: a => match mod_try (snd (span is_re_space s)) with
              | Some c => Some c
              | None => mod_giveback (snd (span is_re_space s)) a
              end
  end.
Proof.
  unfold module_capture. destruct (span is_re_space s) as [ws r]. cbn [fst snd].
  destruct ws as [|w0 a]; [reflexivity|]. cbn [tl].
  change (let '(cap, r2) := span not_eol r in
          match cap with
          | [] => None
          | _ :: _ => match r2 with
                      | [] => Some cap
                      | 10%N :: _ => Some cap
                      | [13%N] => Some cap
                      | 13%N :: 10%N :: _ => Some cap
                      | _ => None
                      end
          end) with (mod_try r).
  destruct (mod_try r); [reflexivity|].
  induction a as [|x a IH]; [reflexivity|]. cbn [mod_giveback]. rewrite <- IH. reflexivity.
Qed.

Definition eol_ok (r2 : bytes) : bool :=
  match r2 with
  | [] => true
  | x :: r3 =>
      if N.eqb x 10 then true
      else if N.eqb x 13 then match r3 with [] => true | y :: _ => N.eqb y 10 end
      else false
  end.

Lemma mod_try_eq body :
  mod_try body =
  match fst (span not_eol body) with
  | [] => None
  | cap => if eol_ok (snd (span not_eol body)) then Some cap else None
  end.
Proof.
  unfold mod_try, eol_ok. destruct (span not_eol body) as [cap r2]. cbn [fst snd].
  destruct cap as [|c0 cap]; [reflexivity|].
  destruct r2 as [|x r3]; [reflexivity|].
  destruct x as [|p]; [reflexivity|]. repeat (destruct p as [p|p|]; try reflexivity).
  destruct r3 as [|y r4]; [reflexivity|].
  destruct y as [|p]; [reflexivity|]. repeat (destruct p as [p|p|]; try reflexivity).
Qed.

(* the result of a search that captured [cap] somewhere in s, s starting at offset i *)
Definition modR (i : N) (s : bytes) (o : option bytes) (res : option caps) : Prop :=
  match o with
  | Some cap =>
      exists pre post g0, s = pre ++ cap ++ post /\
        res = Some [g0; Some (i + N.of_nat (List.length pre), i + N.of_nat (List.length pre + List.length cap))%N]
  | None => res = None
  end.

Lemma modR_shift l i i' s o res :
  i' = (i + N.of_nat (List.length l))%N -> modR i' s o res -> modR i (l ++ s) o res.
Proof.
  intros -> H. destruct o as [cap|]; [|exact H].
  destruct H as [pre [post [g0 [Hs ->]]]]. exists (l ++ pre), post, g0.
  split; [rewrite Hs, <- app_assoc; reflexivity|]. caps_eq.
Qed.

Definition mod_tail : list regex := [Group 1 (Plus noteol); Opt (Lit 13%N); MEol].
Definition mod_K1 (F : nat) (i0 : N) : cont :=
  m (seqs mod_tail) F (fun st' c' => accept st' (set_cap 0 (i0, idx st') c')).

Lemma mod_try_eval F i0 i pv body : List.length body < F ->
  modR i body (mod_try body) (mod_K1 F i0 (mkst i pv body) [None; None]).
Proof.
  intros HF. rewrite mod_try_eq. unfold mod_K1, mod_tail.
  rewrite m_seqs2, m_group, (m_plus_max noteol _ not_eol _ _ _ _ _ _ eq_refl p_noteol HF).
  2:{ intros c i' pv' x s Hx. cbv beta. rewrite m_seqs2, m_opt, m_Lit, m_seqs1, !m_meol.
      unfold not_eol in Hx. apply negb_true_iff, orb_false_iff in Hx as [H10 H13].
      rewrite (N.eqb_sym 13 x), H13. unfold LF. rewrite H10. reflexivity. }
  dspan not_eol body cap r2 Hb.
  destruct cap as [|c0 cap]; [reflexivity|]. set (C := c0 :: cap) in *.
  clearbody C. cbv beta.
  rewrite m_seqs2, m_opt, m_Lit, m_seqs1. unfold eol_ok.
  assert (OK : forall e, modR i body (Some C)
            (Some (set_cap 0 (i0, e) (set_cap 1 (i, (i + N.of_nat (List.length C))%N) [None; None])))).
  { intros e. exists [], r2. eexists. split; [exact Hb|]. unfold set_cap. cbn [upd_nth].
    f_equal. f_equal. f_equal. caps_eq. }
  unfold accept. cbn [idx].
  destruct r2 as [|x r3].
  - rewrite m_meol. apply OK.
  - rewrite (N.eqb_sym 13 x). destruct (N.eqb_spec x 13) as [->|H13].
    + cbn [N.eqb Pos.eqb]. rewrite !m_meol. unfold LF. cbn [idx N.eqb Pos.eqb].
      destruct r3 as [|y r4].
      * apply OK.
      * destruct (N.eqb y 10); [apply OK|reflexivity].
    + rewrite m_meol. unfold LF. cbn [idx].
      destruct (N.eqb x 10); [apply OK|reflexivity].
Qed.

Definition mod_M (b a : bytes) : option bytes :=
  match mod_try b with Some c => Some c | None => mod_giveback b a end.

Lemma back_module F i0 b : forall a i pv, List.length (a ++ b) < F ->
  modR i (a ++ b) (mod_M b a) (back (mod_K1 F i0) i pv a b [None; None]).
Proof.
  induction a as [|x a IH]; intros i pv HF.
  - cbn [back app]. unfold mod_M. cbn [mod_giveback]. rewrite opt_id.
    apply mod_try_eval. exact HF.
  - cbn [back].
    assert (Hf' : List.length (a ++ b) < F) by (cbn [List.length app] in HF; lia).
    specialize (IH (N.succ i) (Some x) Hf').
    assert (EM : mod_M b (x :: a) = match mod_M b a with Some c => Some c | None => mod_try ((x :: a) ++ b) end).
    { unfold mod_M. cbn [mod_giveback]. destruct (mod_try b); reflexivity. }
    rewrite EM. destruct (mod_M b a) as [cap|].
    + apply (modR_shift [x] i (N.succ i) (a ++ b) (Some cap)); [cbn [List.length]; lia|].
      destruct IH as [pre [post [g0 [Hs IH]]]]. rewrite IH. exists pre, post, g0. split; [exact Hs|reflexivity].
    + unfold modR in IH. rewrite IH. apply mod_try_eval. exact HF.
Qed.

Lemma module_capture_eval F i0 i pv r : List.length r < F ->
  modR i r (module_capture r)
    (m (seqs (Plus space :: mod_tail)) F (fun st' c' => accept st' (set_cap 0 (i0, idx st') c'))
       (mkst i pv r) [None; None]).
Proof.
  intros HF. rewrite module_capture_eq. unfold mod_tail at 1.
  rewrite m_seqs2, (m_plus space _ _ _ _ _ _ _ eq_refl HF).
  destruct r as [|x s']; [reflexivity|]. cbn [span]. rewrite p_space.
  destruct (is_re_space x); [|reflexivity].
  rewrite star_spec_back, (span_ext _ is_re_space s' p_space).
  pose proof (span_eq is_re_space s') as Hs.
  destruct (span is_re_space s') as [a b]. specialize (Hs a b eq_refl). cbn [fst snd].
  apply (modR_shift [x] i (N.succ i) s'); [cbn [List.length]; lia|].
  rewrite Hs. apply (back_module F i0 b a). rewrite <- Hs. cbn [List.length] in HF. lia.
Qed.

Lemma module_at F i pv s : List.length s < F ->
  modR i s (if bol_of pv
            then match strip_prefix (s2b "module") s with Some r => module_capture r | None => None end
            else None)
    (m (Group 0 re_module) F accept (mkst i pv s) [None; None]).
Proof.
  intros HF. unfold re_module. rewrite m_group, m_seqs2, m_mbol.
  destruct (bol_of pv); [|reflexivity].
  rewrite m_seqs2, m_lit.
  dsp (s2b "module") s r Hs; [|reflexivity].
  rewrite Hs. apply (modR_shift (s2b "module") i _ r _ _ eq_refl).
  apply (module_capture_eval F i). lia.
Qed.

Lemma find_module_search F : forall s fuel at_bol i pv,
  List.length s < fuel -> List.length s < F -> at_bol = bol_of pv ->
  modR i s (find_module_go fuel at_bol s) (search (Group 0 re_module) F [None; None] i pv s).
Proof.
  induction s as [|x s IH]; intros fuel at_bol i pv Hfu HF ->.
  - destruct fuel as [|fuel]; [inversion Hfu|]. cbn [find_module_go search]. fold accept.
    pose proof (module_at F i pv [] HF) as H.
    destruct (bol_of pv).
    + cbn [strip_prefix s2b map list_ascii_of_string] in *. unfold modR in H. rewrite H. reflexivity.
    + unfold modR in H. rewrite H. reflexivity.
  - destruct fuel as [|fuel]; [inversion Hfu|]. cbn [find_module_go search]. fold accept.
    pose proof (module_at F i pv (x :: s) HF) as H.
    set (here := if bol_of pv
                 then match strip_prefix (s2b "module") (x :: s) with Some r => module_capture r | None => None end
                 else None) in *.
    destruct here as [cap|].
    + destruct H as [pre [post [g0 [Hs H]]]]. rewrite H. exists pre, post, g0. split; [exact Hs|reflexivity].
    + unfold modR in H. rewrite H.
      apply (modR_shift [x] i (N.succ i) s); [cbn [List.length]; lia|].
      apply IH; [cbn [List.length] in Hfu; lia|cbn [List.length] in HF; lia|reflexivity].
Qed.

Theorem module_correct content :
  find_module content = option_map (grp 1) (re_submatch re_module content).
Proof.
  rewrite submatch_of_find. unfold re_find_N, find_module.
  replace (ngroups re_module) with 1 by reflexivity. cbn [repeat].
  pose proof (find_module_search (S (List.length content)) content (S (List.length content)) true 0%N None
                (Nat.lt_succ_diag_r _) (Nat.lt_succ_diag_r _) eq_refl) as H.
  destruct (find_module_go (S (List.length content)) true content) as [cap|]; [|rewrite H; reflexivity].
  destruct H as [pre [post [g0 [Hw ->]]]].
  cbn [option_map map grp nth_error]. rewrite !N.add_0_l, slice_nn. f_equal. symmetry.
  apply (slice_mid content pre cap post _ _ Hw); reflexivity.
Qed.

(* ---- reFile ---- *)
Lemma hexfield_eval F l K i pv s c :
  fails_before is_lower_hex K -> List.length s < F ->
  match match_hexfield (s2b l) s with
  | Some s' =>
      exists pre pv', s = pre ++ s' /\
        m (lit l) F (m (Plus hexd) F K) (mkst i pv s) c = K (mkst (i + N.of_nat (List.length pre)) pv' s') c
  | None => m (lit l) F (m (Plus hexd) F K) (mkst i pv s) c = None
  end.
Proof.
  intros HK HF. unfold match_hexfield. rewrite m_lit.
  dsp (s2b l) s s1 Hs; [|reflexivity].
  assert (Hf1 : List.length s1 < F) by lia.
  rewrite (m_plus_max hexd _ is_lower_hex _ _ _ _ _ _ eq_refl p_hex Hf1 HK).
  dspan is_lower_hex s1 h s2 Hs1.
  destruct h as [|h0 h]; [reflexivity|]. cbn [nonempty]. set (H := h0 :: h) in *. clearbody H.
  exists (s2b l ++ H). eexists. split; [subst s s1; rewrite <- app_assoc; reflexivity|].
  apply K_idx_eq. lens.
Qed.

Definition alt_pc : regex := alts [Empty; seqs [lit " pc=0x"; Plus hexd]].
Definition alt_fp : regex :=
  alts [Empty; seqs [lit " fp=0x"; Plus hexd; lit " sp=0x"; Plus hexd; alt_pc]].
Definition alt_off : regex := alts [Empty; seqs [lit " +0x"; Plus hexd]].

Lemma fb_eolK q F K : fails_before q (m (seqs [Eol]) F K).
Proof. rewrite m_seqs1. apply fb_eol. Qed.

Lemma fb_alt_pc q F K : q 32%N = false -> fails_before q (m alt_pc F (m Eol F K)).
Proof.
  intros Hq. unfold alt_pc. apply fb_alts2; [apply fb_eol|].
  rewrite m_alts1. eapply fb_seqs_lit; [reflexivity|exact Hq].
Qed.

Lemma fb_alt_fp q F K : q 32%N = false -> fails_before q (m (seqs [alt_fp; Eol]) F K).
Proof.
  intros Hq. rewrite m_seqs2. unfold alt_fp. apply fb_alts2; [apply fb_eolK|].
  rewrite m_alts1. eapply fb_seqs_lit; [reflexivity|exact Hq].
Qed.

Lemma fb_alt_off q F K : q 32%N = false -> fails_before q (m (seqs [alt_off; alt_fp; Eol]) F K).
Proof.
  intros Hq. rewrite m_seqs2. unfold alt_off. apply fb_alts2; [apply fb_alt_fp; exact Hq|].
  rewrite m_alts1. eapply fb_seqs_lit; [reflexivity|exact Hq].
Qed.

Lemma fp_eval F i pv s c : List.length s < F ->
  m (seqs [alt_fp; Eol]) F K_end (mkst i pv s) c =
  if match_file_fp s then Some (set_cap 0 (0%N, (i + N.of_nat (List.length s))%N) c) else None.
Proof.
  intros HF. unfold match_file_fp, alt_fp.
  rewrite m_seqs2, m_alts2, m_alts1, m_empty, m_seqs1, m_eol.
  destruct s as [|x s']; [unfold K_end, accept; cbn [idx List.length]; rewrite N.add_0_r; reflexivity|].
  set (s := x :: s') in *. clearbody s.
  rewrite m_seqs2, m_seqs2.
  match goal with |- context [m (lit " fp=0x") F (m (Plus hexd) F ?K) (mkst ?i0 ?pv0 s) ?c0] =>
    pose proof (hexfield_eval F " fp=0x" K i0 pv0 s c0) as H1 end.
  match type of H1 with ?A -> _ => assert (Ha : A) by (eapply fb_seqs_lit; reflexivity) end.
  specialize (H1 Ha HF). clear Ha.
  destruct (match_hexfield (s2b " fp=0x") s) as [s1|]; [|rewrite H1; reflexivity].
  destruct H1 as [p1 [pv1 [Hs H1]]]. rewrite H1. clear H1.
  assert (Hf1 : List.length s1 < F) by (subst s; rewrite app_length in HF; lia).
  rewrite m_seqs2, m_seqs2, m_seqs1.
  match goal with |- context [m (lit " sp=0x") F (m (Plus hexd) F ?K) (mkst ?i0 ?pv0 s1) ?c0] =>
    pose proof (hexfield_eval F " sp=0x" K i0 pv0 s1 c0) as H2 end.
  match type of H2 with ?A -> _ => assert (Ha : A) by (apply fb_alt_pc; reflexivity) end.
  specialize (H2 Ha Hf1). clear Ha.
  destruct (match_hexfield (s2b " sp=0x") s1) as [s2|]; [|rewrite H2; reflexivity].
  destruct H2 as [p2 [pv2 [Hs1 H2]]]. rewrite H2. clear H2.
  assert (Hf2 : List.length s2 < F) by (subst s1; rewrite app_length in Hf1; lia).
  unfold alt_pc. rewrite m_alts2, m_alts1, m_empty, m_eol.
  destruct s2 as [|y s2'].
  - unfold K_end, accept. cbn [idx]. subst s s1. f_equal. caps_eq.
  - set (s2 := y :: s2') in *. clearbody s2. rewrite m_seqs2, m_seqs1.
    match goal with |- context [m (lit " pc=0x") F (m (Plus hexd) F ?K) (mkst ?i0 ?pv0 s2) ?c0] =>
      pose proof (hexfield_eval F " pc=0x" K i0 pv0 s2 c0 (fb_eol _ _ _) Hf2) as H3 end.
    destruct (match_hexfield (s2b " pc=0x") s2) as [s3|]; [|rewrite H3; reflexivity].
    destruct H3 as [p3 [pv3 [Hs2 H3]]]. rewrite H3. clear H3. rewrite m_eol.
    destruct s3 as [|z s3]; [|reflexivity].
    unfold K_end, accept. cbn [idx]. subst s s1 s2. f_equal. caps_eq.
Qed.

Definition file_tail : list regex := [lit ":"; Group 2 (Plus digit); alt_off; alt_fp; Eol].

Lemma match_file_tail_eq s :
  match_file_tail s =
  match strip_prefix [58%N] s with
  | Some s1 =>
      if negb (nonempty (fst (span is_digit s1))) then None
      else if match_file_fp (snd (span is_digit s1)) then Some (fst (span is_digit s1))
      else match match_hexfield (s2b " +0x") (snd (span is_digit s1)) with
           | Some s3 => if match_file_fp s3 then Some (fst (span is_digit s1)) else None
           | None => None
           end
  | None => None
  end.
Proof.
  unfold match_file_tail. destruct s as [|x s1]; [reflexivity|]. bits x.
  cbn [strip_prefix N.eqb Pos.eqb]. destruct (span is_digit s1). reflexivity.
Qed.

Lemma file_tail_eval F i pv s c : List.length s < F ->
  m (seqs file_tail) F K_end (mkst i pv s) c =
  match match_file_tail s with
  | Some ds =>
      Some (set_cap 0 (0, i + N.of_nat (List.length s))
              (set_cap 2 (i + 1, i + 1 + N.of_nat (List.length ds)) c))%N
  | None => None
  end.
Proof.
  intros HF. rewrite match_file_tail_eq. unfold file_tail.
  rewrite m_seqs2, m_lit. change (s2b ":") with [58%N].
  dsp [58%N] s s1 Hs; [|reflexivity].
  assert (Hf1 : List.length s1 < F) by lia.
  rewrite m_seqs2, m_group, (m_plus_max digit _ is_digit _ _ _ _ _ _ eq_refl p_digit Hf1).
  2:{ apply fb_closure. apply fb_alt_off. reflexivity. }
  dspan is_digit s1 ds s2 Hs1.
  destruct ds as [|d0 ds]; [reflexivity|]. cbn [nonempty negb]. set (D := d0 :: ds) in *. clearbody D. cbv beta.
  assert (Hf2 : List.length s2 < F) by lia.
  rewrite m_seqs2. unfold alt_off. rewrite m_alts2, m_alts1, m_empty.
  rewrite (fp_eval F _ _ s2 _ Hf2).
  destruct (match_file_fp s2).
  - cbn [idx]. subst s s1. f_equal. caps_eq.
  - rewrite m_seqs2, m_seqs1.
    match goal with |- context [m (lit " +0x") F (m (Plus hexd) F ?K) (mkst ?i0 ?pv0 s2) ?c0] =>
      pose proof (hexfield_eval F " +0x" K i0 pv0 s2 c0) as H1 end.
    match type of H1 with ?A -> _ => assert (Ha : A) by (apply fb_alt_fp; reflexivity) end.
    specialize (H1 Ha Hf2). clear Ha.
    destruct (match_hexfield (s2b " +0x") s2) as [s3|]; [|rewrite H1; reflexivity].
    destruct H1 as [p1 [pv1 [Hs2 H1]]]. rewrite H1. clear H1.
    assert (Hf3 : List.length s3 < F) by (subst s2; rewrite app_length in Hf2; lia).
    rewrite (fp_eval F _ _ s3 _ Hf3).
    destruct (match_file_fp s3); [|reflexivity].
    cbn [idx]. subst s s1 s2. f_equal. caps_eq.
Qed.

Lemma match_file_tail_some s ds : match_file_tail s = Some ds -> exists post, s = [58%N] ++ ds ++ post.
Proof.
  rewrite match_file_tail_eq. intros H.
  pose proof (strip_prefix_eq [58%N] s) as Hs.
  destruct (strip_prefix [58%N] s) as [s1|]; [|discriminate]. specialize (Hs s1 eq_refl).
  pose proof (span_eq is_digit s1) as Hs1. destruct (span is_digit s1) as [d s2]. specialize (Hs1 d s2 eq_refl).
  cbn [fst snd] in H. exists s2. rewrite Hs, Hs1. f_equal. f_equal.
  destruct (negb (nonempty d)); [discriminate|].
  destruct (match_file_fp s2); [inversion H; reflexivity|].
  destruct (match_hexfield (s2b " +0x") s2) as [s3|]; [|discriminate].
  destruct (match_file_fp s3); [inversion H; reflexivity|discriminate].
Qed.

Definition file_KT (F : nat) (i1 : N) : cont :=
  fun st' c' => m (seqs file_tail) F K_end st' (set_cap 1 (i1, idx st') c').
Definition file_ext : list regex := [lit "."; alts [lit "c"; lit "go"; lit "s"]].

Lemma KT_eval F i1 i pv s c : List.length s < F ->
  file_KT F i1 (mkst i pv s) c =
  match match_file_tail s with
  | Some ds =>
      Some (set_cap 0 (0, i + N.of_nat (List.length s))
              (set_cap 2 (i + 1, i + 1 + N.of_nat (List.length ds)) (set_cap 1 (i1, i) c)))%N
  | None => None
  end.
Proof. intros HF. unfold file_KT. rewrite (file_tail_eval F i pv s _ HF). reflexivity. Qed.

Ltac bits_ne x := (* x differs from the literals of the pattern: every surviving case is absurd *)
  let p := fresh "p" in
  destruct x as [|p]; [reflexivity|]; repeat (destruct p as [p|p|]; try reflexivity); exfalso; congruence.

Lemma K2_eval F i1 i pv s c : List.length s < F ->
  m (seqs file_ext) F (file_KT F i1) (mkst i pv s) c =
  match ext_len s with
  | Some n =>
      match match_file_tail (skipn n s) with
      | Some ds =>
          Some (set_cap 0 (0, i + N.of_nat (List.length s))
                  (set_cap 2 (i + N.of_nat n + 1, i + N.of_nat n + 1 + N.of_nat (List.length ds))
                     (set_cap 1 (i1, i + N.of_nat n) c)))%N
      | None => None
      end
  | None => None
  end.
Proof.
  intros HF. unfold file_ext.
  rewrite m_seqs2, m_lit. change (s2b ".") with [46%N].
  destruct s as [|a s1]; [reflexivity|]. cbn [strip_prefix].
  destruct (N.eqb_spec a 46) as [->|Ha]; [|unfold ext_len; bits_ne a].
  rewrite m_seqs1, m_alts2, m_alts2, m_alts1, !m_lit.
  change (s2b "c") with [99%N]. change (s2b "go") with [103%N; 111%N]. change (s2b "s") with [115%N].
  destruct s1 as [|y s2]; [reflexivity|]. cbn [strip_prefix].
  cbn [List.length] in HF.
  destruct (N.eqb_spec y 99) as [->|H99].
  - cbn [ext_len skipn]. rewrite KT_eval by lia. cbn [strip_prefix N.eqb Pos.eqb].
    destruct (match_file_tail s2); [|reflexivity]. f_equal. cbn [List.length]. caps_eq.
  - destruct (N.eqb_spec y 103) as [->|H103].
    + destruct s2 as [|z s3]; [reflexivity|]. cbn [strip_prefix N.eqb Pos.eqb].
      destruct (N.eqb_spec z 111) as [->|H111]; [|unfold ext_len; bits_ne z].
      cbn [ext_len skipn]. cbn [List.length] in HF. rewrite KT_eval by lia.
      destruct (match_file_tail s3); [|reflexivity]. f_equal. cbn [List.length]. caps_eq.
    + destruct (N.eqb_spec y 115) as [->|H115]; [|unfold ext_len; bits_ne y].
      cbn [ext_len skipn]. rewrite KT_eval by lia.
      destruct (match_file_tail s2); [|reflexivity]. f_equal. cbn [List.length]. caps_eq.
Qed.

Ltac bits_d x :=
  let p := fresh "p" in
  destruct x as [|p]; [discriminate|]; repeat (destruct p as [p|p|]; try discriminate).

Lemma ext_len_le s n : ext_len s = Some n -> n <= List.length s.
Proof.
  unfold ext_len. destruct s as [|a s]; [discriminate|]. bits_d a.
  destruct s as [|b s]; [discriminate|]. bits_d b.
  all: try (intros H; inversion H; cbn [List.length]; lia).
  destruct s as [|c s]; [discriminate|]. bits_d c. intros H. inversion H. cbn [List.length]. lia.
Qed.

Lemma back_ext F i1 c : forall s pre pv, pre <> [] -> List.length s < F ->
  back (m (seqs file_ext) F (file_KT F i1)) (i1 + N.of_nat (List.length pre)) pv s [] c =
  match match_file_ext_go pre s with
  | Some (f, ds) =>
      Some (set_cap 0 (0, i1 + N.of_nat (List.length pre + List.length s))
              (set_cap 2 (i1 + N.of_nat (List.length f) + 1,
                          i1 + N.of_nat (List.length f) + 1 + N.of_nat (List.length ds))
                 (set_cap 1 (i1, i1 + N.of_nat (List.length f)) c)))%N
  | None => None
  end.
Proof.
  induction s as [|x s IH]; intros pre pv Hpre HF.
  - cbn [back match_file_ext_go]. rewrite (K2_eval F i1 _ _ [] c HF). reflexivity.
  - cbn [back match_file_ext_go].
    replace (N.succ (i1 + N.of_nat (List.length pre)))%N with (i1 + N.of_nat (List.length (x :: pre)))%N
      by (cbn [List.length]; lia).
    rewrite (IH (x :: pre) (Some x)) by (try discriminate; cbn [List.length] in HF; lia).
    destruct (match_file_ext_go (x :: pre) s) as [[f ds]|].
    + f_equal. cbn [List.length]. caps_eq.
    + rewrite app_nil_r, (K2_eval F i1 _ _ (x :: s) c HF).
      destruct pre as [|p0 pre]; [contradiction Hpre; reflexivity|].
      pose proof (ext_len_le (x :: s)) as Hn.
      destruct (ext_len (x :: s)) as [n|]; [|reflexivity]. specialize (Hn n eq_refl).
      destruct (match_file_tail (skipn n (x :: s))) as [ds|]; [|reflexivity].
      f_equal. rewrite app_length, rev_length, (firstn_length_le _ Hn). caps_eq.
Qed.

(* the result of a match whose groups are the file [f] and the line digits [ds],
   somewhere in s, s starting at offset i *)
Definition fileR (i : N) (s : bytes) (o : option (bytes * bytes)) (res : option caps) : Prop :=
  match o with
  | Some (f, ds) =>
      exists pre post, s = pre ++ f ++ [58%N] ++ ds ++ post /\
        res = Some [Some (0, i + N.of_nat (List.length s));
                    Some (i + N.of_nat (List.length pre), i + N.of_nat (List.length pre + List.length f));
                    Some (i + N.of_nat (List.length pre + List.length f + 1),
                          i + N.of_nat (List.length pre + List.length f + 1 + List.length ds))]%N
  | None => res = None
  end.

Lemma fileR_shift l i i' s o res :
  i' = (i + N.of_nat (List.length l))%N -> fileR i' s o res -> fileR i (l ++ s) o res.
Proof.
  intros -> H. destruct o as [[f ds]|]; [|exact H].
  destruct H as [pre [post [Hs ->]]]. exists (l ++ pre), post.
  split; [rewrite Hs, <- app_assoc; reflexivity|]. caps_eq.
Qed.

Lemma ext_go_some : forall s pre f ds, match_file_ext_go pre s = Some (f, ds) ->
  exists post, rev pre ++ s = f ++ [58%N] ++ ds ++ post.
Proof.
  induction s as [|x s IH]; intros pre f ds H; [discriminate|]. cbn [match_file_ext_go] in H.
  destruct (match_file_ext_go (x :: pre) s) as [[f' ds']|] eqn:E.
  - inversion H; subst. destruct (IH _ _ _ E) as [post Hp]. exists post.
    rewrite <- Hp. cbn [rev]. rewrite <- app_assoc. reflexivity.
  - destruct pre as [|p0 pre]; [discriminate|].
    destruct (ext_len (x :: s)) as [n|]; [|discriminate].
    destruct (match_file_tail (skipn n (x :: s))) as [ds'|] eqn:Et; [|discriminate].
    inversion H; subst. destruct (match_file_tail_some _ _ Et) as [post Hp]. exists post.
    rewrite <- Hp, <- app_assoc, firstn_skipn. reflexivity.
Qed.

Definition file_g1 : regex :=
  Group 1 (alts [lit "??"; lit "<autogenerated>"; seqs (Plus Any :: file_ext)]).
Definition file_KB (F : nat) : cont := m (seqs (file_g1 :: file_tail)) F K_end.

Lemma alt_lit_eval F i pv r l : List.length r < F -> l <> [] ->
  fileR i r
    (match strip_prefix l r with
     | Some t => match match_file_tail t with Some ds => Some (l, ds) | None => None end
     | None => None
     end)
    (m (seqs (map Lit l)) F (file_KT F i) (mkst i pv r) [None; None; None]).
Proof.
  intros HF Hl. rewrite m_lits.
  dsp l r t Hr; [|reflexivity].
  rewrite KT_eval by lia.
  destruct (match_file_tail t) as [ds|] eqn:Et; [|reflexivity].
  destruct (match_file_tail_some _ _ Et) as [post Hp]. exists [], post.
  split; [rewrite Hr, Hp; reflexivity|]. unfold set_cap. cbn [upd_nth List.length].
  rewrite Hr, app_length. caps_eq.
Qed.

Lemma ext_eval F i pv r : no_lf r -> List.length r < F ->
  fileR i r (match_file_ext_go [] r)
    (m (seqs (Plus Any :: file_ext)) F (file_KT F i) (mkst i pv r) [None; None; None]).
Proof.
  intros Hlf HF.
  assert (E : m (seqs (Plus Any :: file_ext)) F (file_KT F i) = m (Plus Any) F (m (seqs file_ext) F (file_KT F i)))
    by reflexivity.
  rewrite E. clear E. rewrite (m_plus Any _ _ _ _ _ _ _ eq_refl HF).
  destruct r as [|x s]; [reflexivity|].
  apply no_lf_cons in Hlf as [Hx Hlf].
  replace (negb (N.eqb x LF)) with true by (symmetry; apply negb_true_iff, N.eqb_neq; exact Hx).
  rewrite star_spec_back, (span_all _ s (no_lf_forallb s Hlf)). cbn [fst snd].
  replace (N.succ i) with (i + N.of_nat (List.length [x]))%N by (cbn [List.length]; lia).
  rewrite (back_ext F i _ s [x] (Some x)) by (try discriminate; cbn [List.length] in HF; lia).
  cbn [match_file_ext_go].
  destruct (match_file_ext_go [x] s) as [[f ds]|] eqn:Eg; [|reflexivity].
  destruct (ext_go_some _ _ _ _ Eg) as [post Hp]. cbn [rev app] in Hp.
  exists [], post. split; [exact Hp|]. unfold set_cap. cbn [upd_nth List.length]. caps_eq.
Qed.

Lemma body_eval F i pv r : no_lf r -> List.length r < F ->
  fileR i r (match_file_body r) (file_KB F (mkst i pv r) [None; None; None]).
Proof.
  intros Hlf HF. unfold file_KB.
  assert (E : m (seqs (file_g1 :: file_tail)) F K_end = m file_g1 F (m (seqs file_tail) F K_end)) by reflexivity.
  rewrite E. clear E. unfold file_g1. rewrite m_group. fold (file_KT F i).
  unfold match_file_body. rewrite m_alts2, m_alts2, m_alts1.
  pose proof (alt_lit_eval F i pv r (s2b "??") HF ltac:(discriminate)) as H1.
  pose proof (alt_lit_eval F i pv r (s2b "<autogenerated>") HF ltac:(discriminate)) as H2.
  pose proof (ext_eval F i pv r Hlf HF) as H3.
  fold (lit "??") in H1. fold (lit "<autogenerated>") in H2.
  destruct (strip_prefix (s2b "??") r) as [t1|].
  - destruct (match_file_tail t1) as [ds1|].
    + destruct H1 as [pre [post [Hs H1]]]. rewrite H1. exists pre, post. split; [exact Hs|reflexivity].
    + unfold fileR in H1. rewrite H1. clear H1.
      destruct (strip_prefix (s2b "<autogenerated>") r) as [t2|].
      * destruct (match_file_tail t2) as [ds2|].
        -- destruct H2 as [pre [post [Hs H2]]]. rewrite H2. exists pre, post. split; [exact Hs|reflexivity].
        -- unfold fileR in H2. rewrite H2. exact H3.
      * unfold fileR in H2. rewrite H2. exact H3.
  - unfold fileR in H1. rewrite H1. clear H1.
    destruct (strip_prefix (s2b "<autogenerated>") r) as [t2|].
    + destruct (match_file_tail t2) as [ds2|].
      * destruct H2 as [pre [post [Hs H2]]]. rewrite H2. exists pre, post. split; [exact Hs|reflexivity].
      * unfold fileR in H2. rewrite H2. exact H3.
    + unfold fileR in H2. rewrite H2. exact H3.
Qed.

Lemma repeat_snoc_app {A} (x : A) n l : repeat x n ++ x :: l = repeat x (S n) ++ l.
Proof. induction n as [|n IH]; [reflexivity|]. cbn [repeat app] in *. rewrite IH. reflexivity. Qed.

Lemma spaces_snoc : forall k b,
  match_file_spaces (S (S k)) b =
  match match_file_spaces (S k) b with
  | Some x => Some x
  | None => match_file_body (repeat 32%N (S k) ++ b)
  end.
Proof.
  induction k as [|k IH]; intros b.
  - cbn [match_file_spaces repeat app]. destruct (match_file_body b); [reflexivity|].
    destruct (match_file_body (32%N :: b)); reflexivity.
  - change (match_file_spaces (S (S (S k))) b)
      with (match match_file_body b with Some x => Some x | None => match_file_spaces (S (S k)) (32%N :: b) end).
    change (match_file_spaces (S (S k)) b)
      with (match match_file_body b with Some x => Some x | None => match_file_spaces (S k) (32%N :: b) end).
    destruct (match_file_body b); [reflexivity|].
    rewrite IH, repeat_snoc_app. reflexivity.
Qed.

Lemma all_spaces_repeat a : forallb (N.eqb 32) a = true -> a = repeat 32%N (List.length a).
Proof.
  induction a as [|x a IH]; intros H; [reflexivity|]. cbn [forallb] in H.
  apply andb_true_iff in H as [Hx Ha]. apply N.eqb_eq in Hx. subst x. cbn [List.length repeat].
  f_equal. apply IH. exact Ha.
Qed.

Lemma all_spaces_no_lf a : forallb (N.eqb 32) a = true -> no_lf a.
Proof.
  intros H Hin. rewrite forallb_forall in H. specialize (H _ Hin). discriminate.
Qed.

Lemma no_lf_app_intro a b : no_lf a -> no_lf b -> no_lf (a ++ b).
Proof. unfold no_lf. intros Ha Hb Hin. apply in_app_or in Hin as [H|H]; [apply Ha|apply Hb]; exact H. Qed.

Lemma back_spaces F : forall a b i pv,
  forallb (N.eqb 32) a = true -> no_lf b -> List.length (a ++ b) < F ->
  fileR i (a ++ b) (match_file_spaces (S (List.length a)) b)
    (back (file_KB F) i pv a b [None; None; None]).
Proof.
  induction a as [|x a IH]; intros b i pv Ha Hb HF.
  - cbn [back app List.length match_file_spaces].
    pose proof (body_eval F i pv b Hb HF) as H. destruct (match_file_body b); exact H.
  - cbn [back List.length]. rewrite spaces_snoc.
    pose proof Ha as Ha'. cbn [forallb] in Ha'. apply andb_true_iff in Ha' as [Hx Ha'].
    assert (Hf' : List.length (a ++ b) < F) by (cbn [List.length app] in HF; lia).
    specialize (IH b (N.succ i) (Some x) Ha' Hb Hf').
    destruct (match_file_spaces (S (List.length a)) b) as [[f ds]|].
    + apply (fileR_shift [x] i (N.succ i) (a ++ b) (Some (f, ds))); [cbn [List.length]; lia|].
      destruct IH as [pre [post [Hs IH]]]. rewrite IH. exists pre, post. split; [exact Hs|reflexivity].
    + unfold fileR in IH. rewrite IH.
      change (S (List.length a)) with (List.length (x :: a)).
      rewrite <- (all_spaces_repeat (x :: a) Ha).
      apply body_eval; [|exact HF].
      apply no_lf_app_intro; [apply all_spaces_no_lf; exact Ha|exact Hb].
Qed.

Lemma match_file_cons x s :
  match_file (x :: s) =
  if N.eqb x 9 then match_file_body s
  else if N.eqb x 32
       then match_file_spaces (List.length (fst (span (N.eqb 32) (x :: s)))) (snd (span (N.eqb 32) (x :: s)))
       else None.
Proof.
  unfold match_file.
  destruct x as [|p]; [reflexivity|].
  repeat (destruct p as [p|p|]; try reflexivity).
  cbn [N.eqb Pos.eqb]. destruct (span (N.eqb 32) (32%N :: s)). reflexivity.
Qed.

Lemma find_file w : no_lf w -> fileR 0 w (match_file w) (re_find_N re_file w).
Proof.
  intros Hlf. rewrite find_anchored by reflexivity.
  replace (ngroups re_file) with 2 by reflexivity. cbn [repeat].
  set (F := S (List.length w)). assert (HF : List.length w < F) by (unfold F; lia). clearbody F.
  rewrite m_group. fold K_end. unfold re_file. rewrite m_seqs2, m_bol_start.
  match goal with |- context [m (seqs (?A :: ?L)) F K_end] =>
    assert (E : m (seqs (A :: L)) F K_end = m A F (file_KB F)) by reflexivity; rewrite E; clear E end.
  rewrite m_alts2, m_alts1, m_Lit.
  destruct w as [|x s]; [reflexivity|].
  rewrite match_file_cons, (N.eqb_sym 9 x).
  apply no_lf_cons in Hlf as [Hx Hlf].
  assert (Hf1 : List.length s < F) by (cbn [List.length] in HF; lia).
  rewrite (m_plus (lit " ") _ _ _ _ _ _ _ eq_refl HF). change (N_of_ascii " ") with 32%N.
  destruct (N.eqb_spec x 9) as [->|H9].
  - pose proof (body_eval F (N.succ 0) (Some 9%N) s Hlf Hf1) as H.
    destruct (match_file_body s) as [[f ds]|].
    + apply (fileR_shift [9%N] 0%N (N.succ 0) s (Some (f, ds))); [reflexivity|].
      destruct H as [pre [post [Hs H]]]. rewrite H. exists pre, post. split; [exact Hs|reflexivity].
    + unfold fileR in H. rewrite H. reflexivity.
  - destruct (N.eqb_spec x 32) as [->|H32].
    + cbn [N.eqb Pos.eqb span]. rewrite star_spec_back.
      pose proof (span_eq (N.eqb 32) s) as Hs. pose proof (span_fst_all (N.eqb 32) s) as Hall.
      destruct (span (N.eqb 32) s) as [a b]. specialize (Hs a b eq_refl). cbn [fst snd List.length] in *.
      apply (fileR_shift [32%N] 0%N (N.succ 0) s); [reflexivity|].
      rewrite Hs. apply back_spaces; [exact Hall| |rewrite <- Hs; exact Hf1].
      rewrite Hs in Hlf. apply (no_lf_app _ _ Hlf).
    + replace (N.eqb 32 x) with false by (symmetry; apply N.eqb_neq; congruence). reflexivity.
Qed.

Theorem file_correct w : no_lf w ->
  match_file w = option_map (fun l => (grp 1 l, grp 2 l)) (re_submatch re_file w).
Proof.
  intros Hlf. rewrite submatch_of_find. pose proof (find_file w Hlf) as H.
  destruct (match_file w) as [[f ds]|]; [|unfold fileR in H; rewrite H; reflexivity].
  destruct H as [pre [post [Hw ->]]].
  cbn [option_map map grp nth_error]. rewrite !N.add_0_l, !slice_nn.
  assert (E1 : slice w (List.length pre, List.length pre + List.length f) = f)
    by (apply (slice_mid w pre f ([58%N] ++ ds ++ post) _ _ Hw); reflexivity).
  assert (E2 : slice w (List.length pre + List.length f + 1, List.length pre + List.length f + 1 + List.length ds) = ds).
  { apply (slice_mid w (pre ++ f ++ [58%N]) ds post).
    - rewrite Hw, <- !app_assoc. reflexivity.
    - lens.
    - reflexivity. }
  rewrite E1, E2. reflexivity.
Qed.

(* ------------------------------------------------------------------ *)
(* 3. the texts the scanner applies the line matchers to are LF-free   *)
(* ------------------------------------------------------------------ *)

(* a raw line: at most one LF, at the very end (what reader.readLine returns) *)
Definition one_line (line : bytes) : Prop := no_lf (removelast line).

Lemma first_line_one_line b : one_line (first_line b).
Proof.
  unfold one_line, no_lf. induction b as [|x b IH]; [intros []|].
  cbn [first_line]. destruct (N.eqb_spec x LF) as [->|Hx]; [intros []|].
  destruct (first_line b) as [|y l] eqn:E; [intros []|].
  change (removelast (x :: y :: l)) with (x :: removelast (y :: l)).
  intros [H|H]; [congruence|exact (IH H)].
Qed.

Lemma strip_suffix_eq lit s t : strip_suffix lit s = Some t -> s = t ++ lit.
Proof.
  unfold strip_suffix, has_suffix. destruct (Nat.leb _ _ && beq _ _) eqn:E; [|discriminate].
  intros H. inversion H. apply andb_true_iff in E as [_ E]. apply beq_eq in E.
  rewrite <- E at 2. symmetry. apply firstn_skipn.
Qed.

Lemma strip_suffix_none_last l x : strip_suffix [LF] (l ++ [x]) = None -> x <> LF.
Proof.
  intros H ->. unfold strip_suffix, has_suffix in H.
  rewrite app_length in H. cbn [List.length] in H.
  replace (List.length l + 1 - 1) with (List.length l + 0) in H by lia.
  rewrite skipn_app, skipn_all2 in H by lia.
  replace (List.length l + 0 - List.length l) with 0 in H by lia. cbn [skipn app] in H.
  rewrite beq_refl in H. replace (Nat.leb 1 (List.length l + 1)) with true in H; [discriminate|].
  symmetry. apply Nat.leb_le. lia.
Qed.

Lemma scan_tr_no_lf s line t0 : one_line line -> scan_tr s line = Some t0 -> no_lf t0.
Proof.
  unfold one_line, scan_tr. intros Hl H.
  destruct (strip_suffix [CR; LF] line) as [t|] eqn:E1.
  - inversion H; subst. apply strip_suffix_eq in E1. subst line.
    rewrite removelast_app in Hl by discriminate. cbn [removelast] in Hl.
    apply (no_lf_app _ _ Hl).
  - destruct (strip_suffix [LF] line) as [t|] eqn:E2.
    + inversion H; subst. apply strip_suffix_eq in E2. subst line.
      rewrite removelast_last in Hl. exact Hl.
    + destruct (state_eqb (st s) looking || state_eqb (st s) done); [discriminate|].
      inversion H; subst.
      destruct t0 as [|x0 t0] using rev_ind; [intros []|]. clear IHt0.
      rewrite removelast_last in Hl. apply strip_suffix_none_last in E2.
      apply no_lf_app_intro; [exact Hl|]. intros [Hx|[]]. congruence.
Qed.

Lemma scan_pre_no_lf s t0 s' t : no_lf t0 -> scan_pre s t0 = (s', Some t) -> no_lf t.
Proof.
  unfold scan_pre. intros Hl H.
  destruct t0 as [|x t0]; [inversion H; subst; exact Hl|].
  destruct (sprefix s) as [|y p]; [inversion H; subst; exact Hl|].
  destruct (strip_prefix (y :: p) (x :: t0)) as [t'|] eqn:E; [|discriminate].
  inversion H; subst. apply strip_prefix_eq in E. rewrite E in Hl. apply (no_lf_app _ _ Hl).
Qed.

Lemma trim_left_space_no_lf t : no_lf t -> no_lf (trim_left_space t).
Proof.
  induction t as [|x t IH]; intros H; [exact H|]. cbn [trim_left_space].
  destruct (is_space_tab x); [apply IH; apply (no_lf_cons _ _ H)|exact H].
Qed.

Lemma In_skipn {A} (x : A) n l : In x (skipn n l) -> In x l.
Proof. intros H. rewrite <- (firstn_skipn n l). apply in_or_app. right. exact H. Qed.

Lemma split_go_bytes sep : forall fuel s cur it c,
  In it (split_go fuel s sep cur) -> In c it -> In c s \/ In c cur.
Proof.
  induction fuel as [|f IH]; intros s cur it c Hit Hc.
  - cbn [split_go] in Hit. destruct Hit as [<-|[]]. right. apply in_rev. exact Hc.
  - cbn [split_go] in Hit. destruct s as [|x s'].
    + destruct Hit as [<-|[]]. right. apply in_rev. exact Hc.
    + destruct (has_prefix (x :: s') sep).
      * destruct Hit as [<-|Hit]; [right; apply in_rev; exact Hc|].
        destruct (IH _ _ _ _ Hit Hc) as [H|[]]. left. apply (In_skipn _ _ _ H).
      * destruct (IH _ _ _ _ Hit Hc) as [H|[H|H]]; [left; right; exact H|left; left; exact H|right; exact H].
Qed.

Lemma split_no_lf text sep it : no_lf text -> In it (split text sep) -> no_lf it.
Proof.
  intros Hl Hit Hc. destruct (split_go_bytes sep _ _ _ _ _ Hit Hc) as [H|[]]. exact (Hl H).
Qed.

Lemma routine_header_text_no_lf t ind ds text :
  no_lf t -> match_routine_header t = Some (ind, ds, text) -> no_lf text.
Proof.
  intros Hl H. pose proof (find_routine_header t) as F. rewrite H in F.
  destruct F as [gp [Ht _]]. rewrite Ht in Hl.
  do 5 (apply no_lf_app in Hl as [_ Hl]). apply (no_lf_app _ _ Hl).
Qed.

(* Every text [scan] hands to a line matcher: the line without its end of line
   and indentation (scan_body's argument, ScanInv.scan_unfold), that text with
   its leading blanks removed (the race report's frames), and the items of the
   bracket text of a goroutine header (match_minutes). *)
Theorem scan_texts_no_lf s line t0 s' t :
  one_line line -> scan_tr s line = Some t0 -> scan_pre s t0 = (s', Some t) ->
  no_lf t /\ no_lf (trim_left_space t) /\
  (forall ind ds text it, match_routine_header t = Some (ind, ds, text) ->
                          In it (split text (s2b ", ")) -> no_lf it).
Proof.
  intros Hl Htr Hpre.
  assert (Ht : no_lf t) by (eapply scan_pre_no_lf; [eapply scan_tr_no_lf; eassumption|eassumption]).
  split; [exact Ht|]. split; [apply trim_left_space_no_lf; exact Ht|].
  intros ind ds text it Hm Hit. eapply split_no_lf; [|exact Hit].
  eapply routine_header_text_no_lf; eassumption.
Qed.
