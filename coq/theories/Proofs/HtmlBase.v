(* Proofs/HtmlBase.v — byte classes, percent-triple checkers and generic list
   lemmas used by Proofs/HtmlProofs.v (property C17).  Stdlib only, no axioms. *)
From PP Require Import Base.Bytes Base.BytesX Base.Num Base.GoResult Model.Types Model.Html.

Local Open Scope N_scope.

(* ------------------------------------------------------------------ *)
(* vocabulary                                                          *)
(* ------------------------------------------------------------------ *)

(* every element is a real byte *)
Definition bytes_ok (s : bytes) : bool := forallb (fun c => c <? 256) s.

(* what may appear in an href after html/template's normaliser *)
Definition url_safe (c : N) : bool := is_alnum c || memb c (s2b "!#$&*+,/:;=?@[]-._~%").

(* bytes that could leave a quoted (or even unquoted) attribute value or open a tag:
   control bytes and space (<= 32), double quote 34, single quote 39, '<' 60, '>' 62,
   backslash 92, backquote 96 *)
Definition attr_danger (c : N) : bool :=
  (c <=? 32) || (c =? 34) || (c =? 39) || (c =? 60) || (c =? 62) || (c =? 92) || (c =? 96).

Definition is_upper_hex (c : N) : bool := is_digit c || ((65 <=? c) && (c <=? 70)).

(* kept verbatim by url.URL.EscapedPath / url.QueryEscape *)
Definition path_keep (c : N) : bool := is_alnum c || memb c (s2b "-_.~$&+,/:;=@").
Definition query_keep (c : N) : bool := is_alnum c || memb c (s2b "-_.~").

(* every '%' is followed by two bytes satisfying [hx] *)
Fixpoint pct_ok (hx : N -> bool) (s : bytes) : bool :=
  match s with
  | [] => true
  | c :: t =>
      (if c =? 37 then match t with h1 :: h2 :: _ => hx h1 && hx h2 | _ => false end else true) && pct_ok hx t
  end.

(* every '&' starts one of the given entities *)
Fixpoint amp_ok (ents : list bytes) (s : bytes) : bool :=
  match s with
  | [] => true
  | c :: t => (if c =? 38 then existsb (has_prefix s) ents else true) && amp_ok ents t
  end.

(* ------------------------------------------------------------------ *)
(* boolean -> arithmetic                                               *)
(* ------------------------------------------------------------------ *)
Ltac b2p :=
  repeat (rewrite ?andb_true_iff, ?orb_true_iff, ?andb_false_iff, ?orb_false_iff, ?negb_true_iff, ?negb_false_iff,
                  ?N.eqb_eq, ?N.eqb_neq, ?N.leb_le, ?N.leb_gt, ?N.ltb_lt, ?N.ltb_ge in * ).

Ltac unfold_classes :=
  unfold url_safe, attr_danger, is_upper_hex, path_keep, query_keep, is_alnum, is_alpha, is_hex, is_lower_hex,
         is_digit, memb in *; simpl existsb in *.

Ltac byte_lia := unfold_classes; b2p; lia.

(* ------------------------------------------------------------------ *)
(* generic list lemmas                                                 *)
(* ------------------------------------------------------------------ *)
Lemma has_prefix_app (p r : bytes) : has_prefix (p ++ r) p = true.
Proof. induction p as [|x p IH]; simpl; [now destruct r|]. now rewrite N.eqb_refl, IH. Qed.

(* [has_prefix] recurses on the string, so a literal prefix check on an open term is done through this *)
Lemma has_prefix_lit (p u : bytes) : u = p ++ skipn (List.length p) u -> has_prefix u p = true.
Proof. intros H. rewrite H. apply has_prefix_app. Qed.

Lemma has_prefix_split : forall (p s : bytes), has_prefix s p = true -> s = p ++ skipn (List.length p) s.
Proof.
  induction p as [|y p IH]; intros [|x s] H; simpl in *; try reflexivity; try discriminate.
  apply andb_true_iff in H as [H1 H2]. apply N.eqb_eq in H1. subst. f_equal. now apply IH.
Qed.

Lemma bytes_ok_app a b : bytes_ok (a ++ b) = bytes_ok a && bytes_ok b.
Proof. apply forallb_app. Qed.

Lemma bytes_ok_in s c : bytes_ok s = true -> In c s -> c < 256.
Proof. intros H Hin. unfold bytes_ok in H. rewrite forallb_forall in H. apply N.ltb_lt. now apply H. Qed.

(* ------------------------------------------------------------------ *)
(* hex digits                                                          *)
(* ------------------------------------------------------------------ *)
Lemma div16_lt c : c < 256 -> c / 16 < 16.
Proof. intros H. apply N.div_lt_upper_bound; lia. Qed.

Lemma mod16_lt c : c mod 16 < 16.
Proof. apply N.mod_lt. lia. Qed.

Lemma hex_digit_lower d : d < 16 -> is_lower_hex (hex_digit false d) = true.
Proof. intros H. unfold hex_digit. destruct (d <? 10) eqn:E; byte_lia. Qed.

Lemma hex_digit_upper d : d < 16 -> is_upper_hex (hex_digit true d) = true.
Proof. intros H. unfold hex_digit. destruct (d <? 10) eqn:E; byte_lia. Qed.

(* for ANY argument: a digit, a letter of the right case, or something above it *)
Lemma hex_digit_lower_any d : is_lower_hex (hex_digit false d) = true \/ 103 <= hex_digit false d.
Proof. unfold hex_digit. destruct (d <? 10) eqn:E; byte_lia. Qed.

Lemma hex_digit_upper_any d : is_upper_hex (hex_digit true d) = true \/ 71 <= hex_digit true d.
Proof. unfold hex_digit. destruct (d <? 10) eqn:E; byte_lia. Qed.

Lemma lower_hex_is_hex c : is_lower_hex c = true -> is_hex c = true.
Proof. intros H. unfold is_hex. now rewrite H. Qed.

Lemma upper_hex_is_hex c : is_upper_hex c = true -> is_hex c = true.
Proof. intros H. byte_lia. Qed.

Lemma hex_is_alnum c : is_hex c = true -> is_alnum c = true.
Proof. intros H. byte_lia. Qed.

Lemma hex_url_safe c : is_hex c = true -> url_safe c = true.
Proof. intros H. byte_lia. Qed.

Lemma hex_ne37 c : is_hex c = true -> c <> 37.
Proof. intros H. byte_lia. Qed.

Lemma url_safe_not_danger c : url_safe c = true -> attr_danger c = false.
Proof. intros H. byte_lia. Qed.

(* ------------------------------------------------------------------ *)
(* pct_ok                                                              *)
(* ------------------------------------------------------------------ *)
Lemma pct_ok_single hx c t : c <> 37 -> pct_ok hx (c :: t) = pct_ok hx t.
Proof. intros H. simpl. apply N.eqb_neq in H. now rewrite H. Qed.

Lemma pct_ok_triple hx d1 d2 t :
  hx d1 = true -> hx d2 = true -> d1 <> 37 -> d2 <> 37 -> pct_ok hx (37 :: d1 :: d2 :: t) = pct_ok hx t.
Proof.
  intros H1 H2 N1 N2. apply N.eqb_neq in N1, N2. simpl. rewrite H1, H2, N1, N2. reflexivity.
Qed.

(* the checker means what it says *)
Lemma pct_ok_spec hx : forall pre s post,
  pct_ok hx s = true -> s = pre ++ 37 :: post ->
  exists h1 h2 r, post = h1 :: h2 :: r /\ hx h1 = true /\ hx h2 = true.
Proof.
  induction pre as [|x pre IH]; intros s post H E; subst s.
  - simpl in H. apply andb_true_iff in H as [H _].
    destruct post as [|h1 [|h2 r]]; try discriminate.
    apply andb_true_iff in H as [Ha Hb]. now exists h1, h2, r.
  - simpl app in H. simpl in H. apply andb_true_iff in H as [_ H]. now apply (IH _ post H).
Qed.

(* ------------------------------------------------------------------ *)
(* amp_ok                                                              *)
(* ------------------------------------------------------------------ *)
Lemma amp_ok_single ents c t : c <> 38 -> amp_ok ents (c :: t) = amp_ok ents t.
Proof. intros H. simpl. apply N.eqb_neq in H. now rewrite H. Qed.

Lemma amp_ok_spec ents : forall pre s post,
  amp_ok ents s = true -> s = pre ++ 38 :: post ->
  exists e, In e ents /\ has_prefix (38 :: post) e = true.
Proof.
  induction pre as [|x pre IH]; intros s post H E; subst s.
  - simpl app in H. cbn [amp_ok] in H. rewrite N.eqb_refl in H. apply andb_true_iff in H as [H _].
    apply existsb_exists in H. exact H.
  - simpl app in H. cbn [amp_ok] in H. apply andb_true_iff in H as [_ H]. now apply (IH _ post H).
Qed.
