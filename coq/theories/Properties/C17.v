(* Properties/C17.v — HTML rendering is injection-safe.  Statements only;
   proofs in Proofs/HtmlProofs.v (generic lemmas in Proofs/HtmlBase.v), over
   Model/Html.v: the hand-built values of stack/html.go that are cast to
   template.URL / template.HTML and the escapers html/template applies.

   All text taken from the dump appears only as escaped character data or
   inside URL-escaped link targets with a fixed https: or file: scheme; no dump
   content can introduce an element, an attribute, script or a link scheme.

   Vocabulary (HtmlBase / HtmlProofs, no axioms):
     bytes_ok s      every element of s is < 256 (bytes are arbitrary N in the model)
     url_safe c      alphanumeric or one of  ! # $ & * + , / : ; = ? @ [ ] - . _ ~ %
     attr_danger c   c <= 32 (controls, space) or one of: double quote, single quote, <, >,
                     backslash, backquote
     path_out c      alphanumeric or one of  - _ . ~ $ & + , / : ; = @   or '%'
     query_out c     alphanumeric or one of  - _ . ~                     or '+' or '%'
     chunk_ok ch     ch = [c] with c not in {0,34,38,39,43,60,62}, or ch is one of
                     &#34; &amp; &#39; &#43; &lt; &gt;, or ch is U+FFFD (EF BF BD)
     html_chunks s   = map esc1 s (one chunk per input byte)
     tag_ok t        t = "master" or t = query_escape x for some x
     href_ok a       no attr_danger byte in a, and a = [] or a starts with one of the five
                     fixed prefixes https://github.com/ file:/// https://golang.org/pkg/
                     https://godoc.org/ https://pkg.go.dev/

   Findings about the range hypothesis (c < 256 is needed NOWHERE for the
   "no delimiter" statements, and exactly for the alphabet / %XX statements):
   - C17_text_safe, C17_text_chunks, C17_text_amp, C17_attr_no_danger, C17_href_safe,
     C17_escape_path_no_delim, C17_query_escape_no_delim, C17_url_scheme, C17_href_scheme,
     C17_class_safe, C17_attrs_total, C17_attrs_safe, C17_src_url_shape: NO hypothesis;
   - C17_attr_safe, C17_attr_pct, C17_escape_path_safe/_pct, C17_query_escape_safe/_pct need
     [bytes_ok]: pct of a value >= 256 prints a non-hex "digit"
     (C17_attr_needs_bytes_ok: url_normalize [592] = "%|0"; C17_escape_needs_bytes_ok).
   Other findings (faithful to the Go code):
   - url_normalize does NOT remove a scheme: "javascript:alert(1)" stays
     "javascript:alert%281%29" (C17_example_normalize_keeps_scheme), so the safety of
     the links rests on the fixed literal prefix of srcURL / pkgURL (C17_url_scheme);
   - the repository name returned by splitTag is formatted UNESCAPED into srcURL
     (C17_src_url_raw_unsafe_example: a double quote survives in the raw value); the
     normaliser html/template applies to template.URL is therefore part of the trusted
     path (C17_attr_no_danger, C17_attrs_safe); the name contains neither '/' nor '@'
     but may contain '?' or '#' (the rest of the link then becomes query / fragment,
     still on github.com);
   - escape_path returns "*" unchanged (url.URL.EscapedPath special case), hence the
     hypothesis s <> "*" in C17_escape_path_safe; '*' is harmless (C17_escape_path_no_delim). *)
From PP Require Import Base.Bytes Base.BytesX Base.Num Base.GoResult Model.Types Model.Html.
From PP Require Import Proofs.HtmlBase Proofs.HtmlProofs.

Local Open Scope N_scope.

(* ------------------------------------------------------------------ *)
(* 1. escaped text / quoted attribute values                           *)
(* ------------------------------------------------------------------ *)
Theorem C17_text_safe : forall s c, In c (html_escape s) -> c <> 60 /\ c <> 62 /\ c <> 34 /\ c <> 39 /\ c <> 0.
Proof. exact HtmlProofs.text_safe. Qed.
Print Assumptions C17_text_safe.

Theorem C17_text_chunks : forall s, Forall chunk_ok (html_chunks s) /\ List.concat (html_chunks s) = html_escape s.
Proof. exact HtmlProofs.text_chunks. Qed.
Print Assumptions C17_text_chunks.

(* every '&' of the output is the first byte of one of the six entities *)
Theorem C17_text_amp : forall s pre post, html_escape s = pre ++ 38 :: post ->
  exists e, In e entities6 /\ has_prefix (38 :: post) e = true.
Proof. exact HtmlProofs.text_amp. Qed.
Print Assumptions C17_text_amp.

(* ------------------------------------------------------------------ *)
(* 2. template.URL in an href                                          *)
(* ------------------------------------------------------------------ *)
Theorem C17_attr_safe : forall u, bytes_ok u = true -> forall c, In c (url_normalize u) -> url_safe c = true.
Proof. exact HtmlProofs.attr_safe. Qed.
Print Assumptions C17_attr_safe.

Theorem C17_attr_pct : forall u pre post, bytes_ok u = true -> url_normalize u = pre ++ 37 :: post ->
  exists h1 h2 r, post = h1 :: h2 :: r /\ is_hex h1 = true /\ is_hex h2 = true.
Proof. exact HtmlProofs.attr_pct. Qed.
Print Assumptions C17_attr_pct.

Theorem C17_attr_no_danger : forall u c, In c (url_normalize u) -> attr_danger c = false.
Proof. exact HtmlProofs.attr_no_danger. Qed.
Print Assumptions C17_attr_no_danger.

Theorem C17_attr_needs_bytes_ok : url_normalize [592] = [37; 124; 48] /\ url_safe 124 = false /\ is_hex 124 = false.
Proof. exact HtmlProofs.url_normalize_needs_bytes_ok. Qed.
Print Assumptions C17_attr_needs_bytes_ok.

Theorem C17_href_safe : forall u c, In c (href_attr u) ->
  c <> 34 /\ c <> 39 /\ c <> 60 /\ c <> 62 /\ c <> 32 /\ 32 <= c.
Proof. exact HtmlProofs.href_safe. Qed.
Print Assumptions C17_href_safe.

(* ------------------------------------------------------------------ *)
(* 3. url.URL.EscapedPath and url.QueryEscape                          *)
(* ------------------------------------------------------------------ *)
Theorem C17_escape_path_safe : forall s, bytes_ok s = true -> s <> s2b "*" ->
  forall c, In c (escape_path s) -> path_out c = true.
Proof. exact HtmlProofs.escape_path_safe. Qed.
Print Assumptions C17_escape_path_safe.

Theorem C17_escape_path_pct : forall s pre post, bytes_ok s = true -> s <> s2b "*" -> escape_path s = pre ++ 37 :: post ->
  exists h1 h2 r, post = h1 :: h2 :: r /\ is_upper_hex h1 = true /\ is_upper_hex h2 = true.
Proof. exact HtmlProofs.escape_path_pct. Qed.
Print Assumptions C17_escape_path_pct.

Theorem C17_escape_path_no_delim : forall s c, In c (escape_path s) ->
  c <> 34 /\ c <> 39 /\ c <> 60 /\ c <> 62 /\ c <> 32 /\ c <> 35 /\ c <> 63 /\ 32 < c.
Proof. exact HtmlProofs.escape_path_no_delim. Qed.
Print Assumptions C17_escape_path_no_delim.

Theorem C17_query_escape_safe : forall s, bytes_ok s = true -> forall c, In c (query_escape s) -> query_out c = true.
Proof. exact HtmlProofs.query_escape_safe. Qed.
Print Assumptions C17_query_escape_safe.

Theorem C17_query_escape_pct : forall s pre post, bytes_ok s = true -> query_escape s = pre ++ 37 :: post ->
  exists h1 h2 r, post = h1 :: h2 :: r /\ is_upper_hex h1 = true /\ is_upper_hex h2 = true.
Proof. exact HtmlProofs.query_escape_pct. Qed.
Print Assumptions C17_query_escape_pct.

Theorem C17_query_escape_no_delim : forall s c, In c (query_escape s) ->
  c <> 34 /\ c <> 39 /\ c <> 60 /\ c <> 62 /\ c <> 32 /\ c <> 35 /\ c <> 63 /\
  c <> 47 /\ c <> 58 /\ c <> 64 /\ c <> 38 /\ c <> 61 /\ 32 < c.
Proof. exact HtmlProofs.query_escape_no_delim. Qed.
Print Assumptions C17_query_escape_no_delim.

Theorem C17_symbol_no_delim : forall f c, In c (symbol f) ->
  c <> 34 /\ c <> 39 /\ c <> 60 /\ c <> 62 /\ c <> 32 /\ c <> 35 /\ c <> 63 /\
  c <> 47 /\ c <> 58 /\ c <> 64 /\ c <> 38 /\ c <> 61 /\ 32 < c.
Proof. exact HtmlProofs.symbol_no_delim. Qed.
Print Assumptions C17_symbol_no_delim.

Theorem C17_escape_needs_bytes_ok :
  query_escape [4096] = [37; 311; 48] /\ escape_path [4096] = [37; 311; 48] /\ query_out 311 = false /\ path_out 311 = false.
Proof. exact HtmlProofs.escape_needs_bytes_ok. Qed.
Print Assumptions C17_escape_needs_bytes_ok.

(* ------------------------------------------------------------------ *)
(* 4. fixed scheme and host                                            *)
(* ------------------------------------------------------------------ *)
Theorem C17_url_scheme : forall ver c,
  (src_url ver c = [] \/ has_prefix (src_url ver c) (s2b "https://github.com/") = true \/
   has_prefix (src_url ver c) (s2b "file:///") = true) /\
  (pkg_url ver c = [] \/ has_prefix (pkg_url ver c) (s2b "https://golang.org/pkg/") = true \/
   has_prefix (pkg_url ver c) (s2b "https://godoc.org/") = true \/
   has_prefix (pkg_url ver c) (s2b "https://pkg.go.dev/") = true).
Proof. exact HtmlProofs.url_scheme. Qed.
Print Assumptions C17_url_scheme.

Theorem C17_normalize_prefix : forall x,
  url_normalize (s2b "https://github.com/" ++ x) = s2b "https://github.com/" ++ url_normalize x /\
  url_normalize (s2b "file:///" ++ x) = s2b "file:///" ++ url_normalize x /\
  url_normalize (s2b "https://golang.org/pkg/" ++ x) = s2b "https://golang.org/pkg/" ++ url_normalize x /\
  url_normalize (s2b "https://godoc.org/" ++ x) = s2b "https://godoc.org/" ++ url_normalize x /\
  url_normalize (s2b "https://pkg.go.dev/" ++ x) = s2b "https://pkg.go.dev/" ++ url_normalize x.
Proof. exact HtmlProofs.normalize_prefix. Qed.
Print Assumptions C17_normalize_prefix.

Theorem C17_href_scheme : forall ver c,
  let h := url_normalize (src_url ver c) in
  h = [] \/ has_prefix h (s2b "https://github.com/") = true \/ has_prefix h (s2b "file:///") = true.
Proof. exact HtmlProofs.href_scheme. Qed.
Print Assumptions C17_href_scheme.

Theorem C17_href_pkg_scheme : forall ver c,
  let h := url_normalize (pkg_url ver c) in
  h = [] \/ has_prefix h (s2b "https://golang.org/pkg/") = true \/
  has_prefix h (s2b "https://godoc.org/") = true \/ has_prefix h (s2b "https://pkg.go.dev/") = true.
Proof. exact HtmlProofs.href_pkg_scheme. Qed.
Print Assumptions C17_href_pkg_scheme.

(* ------------------------------------------------------------------ *)
(* 5. the class attribute                                              *)
(* ------------------------------------------------------------------ *)
Theorem C17_class_safe : forall c,
  In (func_class c)
     [ s2b "FuncMain Exported";
       s2b "FuncLocationUnknown"; s2b "FuncLocationUnknown Exported";
       s2b "FuncGoMod"; s2b "FuncGoMod Exported";
       s2b "FuncGOPATH"; s2b "FuncGOPATH Exported";
       s2b "FuncGoPkg"; s2b "FuncGoPkg Exported";
       s2b "FuncStdlib"; s2b "FuncStdlib Exported" ] /\
  html_escape (func_class c) = func_class c.
Proof. exact HtmlProofs.class_safe. Qed.
Print Assumptions C17_class_safe.

(* ------------------------------------------------------------------ *)
(* 6. the raw srcURL, and where the dump strings go inside it          *)
(* ------------------------------------------------------------------ *)
Theorem C17_src_url_raw_unsafe_example : forall ver, exists c, In 34 (src_url ver c).
Proof. exact HtmlProofs.src_url_raw_unsafe_example. Qed.
Print Assumptions C17_src_url_raw_unsafe_example.

Theorem C17_src_url_path_confined : forall ver c,
  src_url ver c = [] \/
  (exists p, src_url ver c = s2b "file:///" ++ escape_path p) \/
  (exists x, src_url ver c =
     s2b "https://github.com/golang/go/blob/" ++ query_escape x ++ s2b "/src/" ++ escape_path (RelSrcPath c) ++ line_part c) \/
  (exists p0 p st p2,
     src_url ver c = s2b "https://github.com/" ++ escape_path p0 ++ s2b "/" ++ p ++ s2b "/blob/" ++ st ++ s2b "/" ++
                     escape_path p2 ++ line_part c /\
     tag_ok st /\ ~ In 47 p /\ ~ In 64 p) \/
  (exists p st p2,
     src_url ver c = s2b "https://github.com/golang/" ++ p ++ s2b "/blob/" ++ st ++ s2b "/" ++ escape_path p2 ++ line_part c /\
     tag_ok st /\ ~ In 47 p /\ ~ In 64 p).
Proof. exact HtmlProofs.src_url_shape. Qed.
Print Assumptions C17_src_url_path_confined.

(* ------------------------------------------------------------------ *)
(* 7. one row of links per frame, each of them safe                    *)
(* ------------------------------------------------------------------ *)
Theorem C17_attrs_total : forall ver s,
  List.length (sig_attrs ver s) =
  (3 * (match Calls (CreatedBy s) with [] => 0 | _ :: _ => 1 end) + 4 * List.length (Calls (SStack s)))%nat.
Proof. exact HtmlProofs.attrs_total. Qed.
Print Assumptions C17_attrs_total.

Theorem C17_attrs_safe : forall ver s a, In a (sig_attrs ver s) -> In a class_list \/ href_ok a.
Proof. exact HtmlProofs.attrs_safe. Qed.
Print Assumptions C17_attrs_safe.

(* ------------------------------------------------------------------ *)
(* Examples on hostile strings                                         *)
(* ------------------------------------------------------------------ *)
Example C17_example_text_script :
  html_escape (s2b """><script>alert(1)</script>") = s2b "&#34;&gt;&lt;script&gt;alert(1)&lt;/script&gt;".
Proof. vm_compute. reflexivity. Qed.

Example C17_example_text_attr :
  html_escape (s2b "' onmouseover='x") = s2b "&#39; onmouseover=&#39;x".
Proof. vm_compute. reflexivity. Qed.

Example C17_example_text_nul_amp :
  html_escape (0 :: s2b "&lt;+") = [239; 191; 189] ++ s2b "&amp;lt;&#43;".
Proof. vm_compute. reflexivity. Qed.

Example C17_example_href_script :
  href_attr (s2b """><script>alert(1)</script>") = s2b "%22%3e%3cscript%3ealert%281%29%3c/script%3e".
Proof. vm_compute. reflexivity. Qed.

Example C17_example_href_attr :
  href_attr (s2b "' onmouseover='x") = s2b "%27%20onmouseover=%27x".
Proof. vm_compute. reflexivity. Qed.

(* the normaliser keeps a scheme: safety of the links is the fixed prefix, not the normaliser *)
Example C17_example_normalize_keeps_scheme :
  url_normalize (s2b "javascript:alert(1)") = s2b "javascript:alert%281%29".
Proof. vm_compute. reflexivity. Qed.

(* '%' not followed by two hex digits is re-escaped, a well-formed triple is kept *)
Example C17_example_normalize_pct :
  url_normalize (s2b "%zz%2F%") = s2b "%25zz%2F%25".
Proof. vm_compute. reflexivity. Qed.

Definition hostile_local (p : bytes) : Call := mkCall emptyFunc emptyArgs [] 7 [] [] p [] [] LocationUnknown.
Definition hostile_rel (p : bytes) : Call := mkCall emptyFunc emptyArgs [] 7 [] [] [] p [] GoMod.

(* a "javascript:" path ends up behind file:/// *)
Example C17_example_src_javascript : forall ver,
  src_url ver (hostile_local (s2b "javascript:alert(1)")) = s2b "file:///javascript:alert%281%29".
Proof. intros ver. vm_compute. reflexivity. Qed.

Example C17_example_src_script : forall ver,
  src_url ver (hostile_local (s2b """><script>alert(1)</script>")) = s2b "file:///%22%3E%3Cscript%3Ealert%281%29%3C/script%3E".
Proof. intros ver. vm_compute. reflexivity. Qed.

(* the unescaped repository name: raw value, and what reaches the document *)
Example C17_example_repo_raw : forall ver,
  src_url ver (hostile_rel (s2b "github.com/u/r"" onclick=""x/f.go")) =
  s2b "https://github.com/u/r"" onclick=""x/blob/master/f.go#L7".
Proof. intros ver. vm_compute. reflexivity. Qed.

Example C17_example_repo_href : forall ver,
  href_attr (src_url ver (hostile_rel (s2b "github.com/u/r"" onclick=""x/f.go"))) =
  s2b "https://github.com/u/r%22%20onclick=%22x/blob/master/f.go#L7".
Proof. intros ver. vm_compute. reflexivity. Qed.

(* a hostile tag after '@' is query-escaped *)
Example C17_example_repo_tag : forall ver,
  src_url ver (hostile_rel (s2b "github.com/u/r@<b>'/f.go")) =
  s2b "https://github.com/u/r/blob/%3Cb%3E%27/f.go#L7".
Proof. intros ver. vm_compute. reflexivity. Qed.

Example C17_example_pkg_url : forall ver,
  pkg_url ver (mkCall (mkFunc [] [] [] (s2b "(*T<x>).M'") true false) emptyArgs [] 1 [] [] [] [] (s2b "a/vendor/x.y/""q") GoMod) =
  s2b "https://godoc.org/x.y/%22q#T%3Cx%3E.M%27".
Proof. intros ver. vm_compute. reflexivity. Qed.
