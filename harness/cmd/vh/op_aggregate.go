package main

import (
	"fmt"
	"math/rand"
	"strconv"

	"github.com/maruel/panicparse/v2/stack"
)

var levels = []stack.Similarity{stack.ExactFlags, stack.ExactLines, stack.AnyPointer, stack.AnyValue}

// runAggregate aggregates reps times and reports the first result, whether all
// results were identical, whether the snapshot was left unchanged and whether
// the aggregation refers back to the snapshot.
func runAggregate(gs []*stack.Goroutine, lvl stack.Similarity, reps int) (res string, det, immut, backref bool) {
	defer func() {
		if e := recover(); e != nil {
			res = "PANIC:" + fmt.Sprint(e)
		}
	}()
	before := sexpGoroutines(gs)
	snap := &stack.Snapshot{Goroutines: gs}
	det, backref = true, true
	for i := 0; i < reps; i++ {
		a := snap.Aggregate(lvl)
		o := sexpBuckets(a.Buckets)
		if i == 0 {
			res = o
		} else if o != res {
			det = false
		}
		if a.Snapshot != snap {
			backref = false
		}
	}
	// aggregating at the other levels in between must not change what this level gives
	for _, l2 := range levels {
		snap.Aggregate(l2)
	}
	if o := sexpBuckets(snap.Aggregate(lvl).Buckets); o != res {
		det = false
	}
	immut = sexpGoroutines(gs) == before
	return
}

func b2s(b bool) string {
	if b {
		return "1"
	}
	return "0"
}

func emitAggregate(id string, gs []*stack.Goroutine, lvl stack.Similarity) {
	in := sexpGoroutines(gs)
	res, det, immut, backref := runAggregate(gs, lvl, 8)
	emit("aggregate", id, strconv.Itoa(int(lvl)), in, res, b2s(det), b2s(immut), b2s(backref))
}

func opAggregate(r *rand.Rand, n int, tier string) {
	for i := 0; i < n; i++ {
		var size int
		switch r.Intn(10) {
		case 0:
			size = 1
		case 1:
			size = 20 + r.Intn(60)
		default:
			size = 2 + r.Intn(9)
		}
		if tier == "thorough" && r.Intn(300) == 0 {
			// (the extracted model is quadratic with a large constant: a few big snapshots per run)
			size = 300 + r.Intn(700)
		}
		k := 1 + r.Intn(3)
		if r.Intn(60) == 0 {
			size = 0 // an empty snapshot (all goroutines filtered out by the caller)
		}
		gs := genSnapshot(r, size, k, r.Intn(2) == 0)
		if r.Intn(25) == 0 && size > 1 {
			// duplicate ids: only the multiset laws apply
			gs[size-1].ID = gs[0].ID
		}
		lvl := levels[r.Intn(4)]
		emitAggregate(fmt.Sprintf("agg-%d", i), gs, lvl)
	}
}

// opLess3 observes Signature.less through the order of two singleton buckets
// at ExactFlags, for the six ordered pairs of three signatures.
func opLess3(r *rand.Rand, n int, tier string) {
	g := &argGen{r: r}
	for i := 0; i < n; i++ {
		base := g.signature()
		sigs := [3]stack.Signature{base, g.lessVariant(base), g.lessVariant(base)}
		if r.Intn(3) == 0 {
			sigs[2] = g.lessVariant(sigs[1])
		}
		if r.Intn(4) == 0 {
			sigs[1] = g.signature()
		}
		var b sb
		b.WriteString("(sigs")
		for k := range sigs {
			b.sp()
			b.sig(&sigs[k])
		}
		b.WriteByte(')')
		emitLess3(fmt.Sprintf("less3-%d", i), b.String())
	}
}

func emitLess3(id, sigsSx string) {
	var sigs []stack.Signature
	for _, n := range parseSx(sigsSx).head("sigs") {
		sigs = append(sigs, readSig(n))
	}
	obs := ""
	for x := 0; x < 3; x++ {
		for y := 0; y < 3; y++ {
			if x == y {
				continue
			}
			obs += observeFirst(sigs[x], sigs[y])
		}
	}
	emit("less3", id, sigsSx, obs)
}

// observeFirst aggregates [x, y] (ids 1, 2, neither First) at ExactFlags and
// returns "x" if x's bucket comes first, "y" if y's does, "-" if they merged,
// "P" on panic.
func observeFirst(x, y stack.Signature) (res string) {
	defer func() {
		if e := recover(); e != nil {
			res = "P"
		}
	}()
	gs := []*stack.Goroutine{{Signature: deepCopySig(x), ID: 1}, {Signature: deepCopySig(y), ID: 2}}
	a := (&stack.Snapshot{Goroutines: gs}).Aggregate(stack.ExactFlags)
	if len(a.Buckets) != 2 {
		return "-"
	}
	if a.Buckets[0].IDs[0] == 1 {
		return "x"
	}
	return "y"
}

// lessVariant changes attributes the ordering looks at (and keeps the pair
// distinguishable at ExactFlags through the file path, which Location and
// DirSrc are functions of).
func (g *argGen) lessVariant(s stack.Signature) stack.Signature {
	r := g.r
	out := deepCopySig(s)
	pick := r.Intn(9)
	if len(out.Stack.Calls) == 0 && (pick == 2 || pick == 3 || pick == 4) {
		pick = 5
	}
	switch pick {
	case 8:
		fc := fileUniverse[r.Intn(len(fileUniverse))]
		k := 60 + r.Intn(70)
		for i := 0; i < k; i++ {
			out.Stack.Calls = append(out.Stack.Calls, mkCall("runtime.gopark", fc, 7, stack.Args{}))
		}
	case 0:
		out.Locked = !out.Locked
	case 1:
		out.State = stateUniverse[r.Intn(len(stateUniverse))]
	case 2:
		i := r.Intn(len(out.Stack.Calls))
		out.Stack.Calls[i].Line = 1 + r.Intn(3)
	case 3:
		i := r.Intn(len(out.Stack.Calls))
		c := out.Stack.Calls[i]
		out.Stack.Calls[i] = mkCall(symbolUniverse[r.Intn(len(symbolUniverse))], fileChoice{c.RemoteSrcPath, c.Location}, c.Line, c.Args)
	case 4:
		i := r.Intn(len(out.Stack.Calls))
		c := out.Stack.Calls[i]
		out.Stack.Calls[i] = mkCall(c.Func.Complete, fileUniverse[r.Intn(len(fileUniverse))], c.Line, c.Args)
	case 5:
		fc := fileUniverse[r.Intn(len(fileUniverse))]
		out.Stack.Calls = append(out.Stack.Calls, mkCall(symbolUniverse[r.Intn(len(symbolUniverse))], fc, 1+r.Intn(3), stack.Args{}))
	case 6:
		if len(out.Stack.Calls) > 1 {
			out.Stack.Calls = out.Stack.Calls[:len(out.Stack.Calls)-1]
		} else if r.Intn(2) == 0 {
			out.Stack.Calls = nil
		}
	case 7:
		out.SleepMin, out.SleepMax = 7, 7
	}
	return out
}
