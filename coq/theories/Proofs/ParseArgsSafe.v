(* Proofs/ParseArgsSafe.v — parseFunc / parseFile / parseArgs never panic.
   [parse_args] and [parse_file] are total Gallina functions (no GoResult);
   the only run-time partiality of parseArgs in Go is the frame pointer
   stack[depth], modelled by the frame list: it is shown never to be empty, so
   the defensive [[] => []] branches of [push_val] / [set_elided] are dead. *)
From PP Require Import Base.Bytes Base.BytesX Base.Num Base.GoResult Model.Types Model.Lines Model.FuncInit Model.ParseArgs.
From PP Require Import Proofs.FuncInitSafe.
From Coq Require Import String.

Theorem parse_func_total : forall line, exists r, parse_func line = Ok r.
Proof.
  intros line. unfold parse_func.
  destruct (match_func line) as [[sym argtext]|]; [|eexists; reflexivity].
  destruct (func_init_total sym) as (fi & Hfi). rewrite Hfi. unfold bind.
  destruct fi as [f|]; [|eexists; reflexivity].
  destruct (parse_args argtext) as [a|e]; eexists; reflexivity.
Qed.

(* The shape of the result: an error is reported with the (possibly partial) call. *)
Theorem parse_func_shape : forall line,
  parse_func line = Ok None \/
  (exists c, parse_func line = Ok (Some (c, None))) \/
  (exists c e, parse_func line = Ok (Some (c, Some e)) /\ (e = ErrBadFunc \/ exists n, e = ErrArgs n)).
Proof.
  intros line. unfold parse_func.
  destruct (match_func line) as [[sym argtext]|]; [|left; reflexivity].
  destruct (func_init_total sym) as (fi & Hfi). rewrite Hfi. unfold bind.
  destruct fi as [f|].
  - destruct (parse_args argtext) as [a|e].
    + right; left. eexists. reflexivity.
    + right; right. eexists. eexists. split; [reflexivity|]. right. eexists. reflexivity.
  - right; right. eexists. eexists. split; [reflexivity|]. left. reflexivity.
Qed.

(* parse_file / parse_args are functions into option / sum: totality is by typing. *)
Theorem parse_file_total : forall c line,
  parse_file c line = None \/ exists c' e, parse_file c line = Some (c', e).
Proof.
  intros c line. destruct (parse_file c line) as [[c' e]|]; [right; eauto|left; reflexivity].
Qed.

Theorem parse_args_total : forall line,
  (exists a, parse_args line = inl a) \/ (exists e, parse_args line = inr e).
Proof.
  intros line. destruct (parse_args line) as [a|e]; [left|right]; eauto.
Qed.

(* ---- stack[depth] is always a valid frame ---- *)

Lemma push_val_nonempty : forall a st, st <> [] -> push_val a st <> [].
Proof. intros a [|f st] H; [contradiction|simpl; discriminate]. Qed.

Lemma set_elided_nonempty : forall st, st <> [] -> set_elided st <> [].
Proof. intros [|f st] H; [contradiction|simpl; discriminate]. Qed.

Lemma pa_open_nonempty : forall n st st', st <> [] -> pa_open n st = Some st' -> st' <> [].
Proof.
  induction n as [|n IH]; intros st st' Hne H; simpl in H.
  - injection H as <-. exact Hne.
  - match type of H with (if ?X then _ else _) = _ => destruct X; [discriminate|] end.
    apply (IH (mkFrame [] false :: st) st'); [discriminate|exact H].
Qed.

Lemma pa_close_nonempty : forall n st st', st <> [] -> pa_close n st = Some st' -> st' <> [].
Proof.
  induction n as [|n IH]; intros st st' Hne H; simpl in H.
  - injection H as <-. exact Hne.
  - destruct st as [|f [|g st2]]; try discriminate.
    eapply IH; [|exact H]. destruct g; simpl; discriminate.
Qed.

Lemma pa_piece_nonempty : forall st piece st', st <> [] -> pa_piece st piece = inl st' -> st' <> [].
Proof.
  intros st piece st' Hne H. unfold pa_piece in H.
  destruct (trim_curly piece) as [[opened a] closed].
  destruct (pa_open opened st) as [st1|] eqn:Hopen; [|discriminate].
  pose proof (pa_open_nonempty _ _ _ Hne Hopen) as Hne1.
  match type of H with
  | match ?X with _ => _ end = _ => destruct X as [st2|] eqn:Hst2; [|discriminate]
  end.
  assert (Hne2 : st2 <> []).
  { destruct a as [|a0 a'].
    - injection Hst2 as <-. exact Hne1.
    - destruct (beq (a0 :: a') (s2b "...")).
      + injection Hst2 as <-. apply set_elided_nonempty. exact Hne1.
      + destruct (beq (a0 :: a') (s2b "_")).
        * injection Hst2 as <-. apply push_val_nonempty. exact Hne1.
        * match type of Hst2 with
          | match ?X with _ => _ end = _ => destruct X as [v|]; [|discriminate]
          end.
          injection Hst2 as <-. apply push_val_nonempty. exact Hne1. }
  destruct (pa_close closed st2) as [st3|] eqn:Hclose; [|discriminate].
  injection H as <-. apply (pa_close_nonempty _ _ _ Hne2 Hclose).
Qed.

Theorem pa_loop_nonempty : forall pieces st st', st <> [] -> pa_loop st pieces = inl st' -> st' <> [].
Proof.
  induction pieces as [|p ps IH]; intros st st' Hne H; simpl in H.
  - injection H as <-. exact Hne.
  - destruct (pa_piece st p) as [st1|e] eqn:Hp; [|discriminate].
    apply (IH _ _ (pa_piece_nonempty _ _ _ Hne Hp) H).
Qed.
