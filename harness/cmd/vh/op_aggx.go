// op aggx (C04, C05, C12): bounded-exhaustive aggregation over a small
// universe of signature variants: EVERY sequence (hence every multiset in every
// arrival order) of 1..4 goroutines drawn from 10 variants that differ in
// exactly the attributes the similarity levels ignore or respect, at all four
// levels.  Case index i enumerates (level, sequence); quick samples indices,
// thorough takes them all (44 440).  Emits ordinary "aggregate" lines.
package main

import (
	"fmt"
	"math/rand"

	"github.com/maruel/panicparse/v2/stack"
)

func aggxUniverse() []stack.Signature {
	f1 := fileChoice{"/home/u/proj/main.go", stack.GoMod}
	ptr := func(v uint64) stack.Arg { return stack.Arg{Value: v, IsPtr: true} }
	val := func(v uint64) stack.Arg { return stack.Arg{Value: v} }
	agg := func(a ...stack.Arg) stack.Arg { return stack.Arg{IsAggregate: true, Fields: stack.Args{Values: a}} }
	mk := func(state string, locked bool, sleep int, line int, elided bool, creator string, args ...stack.Arg) stack.Signature {
		s := stack.Signature{State: state, Locked: locked, SleepMin: sleep, SleepMax: sleep}
		s.Stack.Calls = []stack.Call{mkCall("main.worker", f1, line, stack.Args{Values: args, Elided: elided}), mkCall("main.main", f1, 30, stack.Args{})}
		if creator != "" {
			s.CreatedBy.Calls = []stack.Call{mkCall(creator, f1, 7, stack.Args{})}
		}
		return s
	}
	return []stack.Signature{
		mk("chan receive", false, 0, 10, false, "", ptr(0xc000010000), val(1), agg(val(2), ptr(0xc000020000))),           // 0 base
		mk("chan receive", false, 0, 10, false, "", ptr(0xc000010008), val(1), agg(val(2), ptr(0xc000020000))),           // 1 another pointer
		mk("chan receive", false, 0, 10, false, "", ptr(0xc000010000), val(7), agg(val(2), ptr(0xc000020000))),           // 2 another value
		mk("chan receive", false, 0, 10, false, "", ptr(0xc000010000), val(1), agg(val(3), ptr(0xc000020008))),           // 3 differs inside the aggregate
		mk("chan receive", false, 5, 10, false, "", ptr(0xc000010000), val(1), agg(val(2), ptr(0xc000020000))),           // 4 slept
		mk("chan receive", true, 0, 10, false, "", ptr(0xc000010000), val(1), agg(val(2), ptr(0xc000020000))),            // 5 locked
		mk("chan receive", false, 0, 11, false, "", ptr(0xc000010000), val(1), agg(val(2), ptr(0xc000020000))),           // 6 another line
		mk("select", false, 0, 10, false, "", ptr(0xc000010000), val(1), agg(val(2), ptr(0xc000020000))),                 // 7 another state
		mk("chan receive", false, 0, 10, false, "main.spawn", ptr(0xc000010000), val(1), agg(val(2), ptr(0xc000020000))), // 8 a creator
		mk("chan receive", false, 0, 10, true, "", ptr(0xc000010000), val(1), agg(val(2))),                               // 9 elided, other shape
	}
}

// aggxCase decodes index i: level = i % 4, then the sequence in base 10 with lengths 1..4.
func aggxCase(i int) (stack.Similarity, []int) {
	lvl := levels[i%4]
	rem := i / 4
	k := 1
	for pw := 10; rem >= pw && k < 4; pw *= 10 {
		rem -= pw
		k++
	}
	var seq []int
	for j := 0; j < k; j++ {
		seq = append(seq, rem%10)
		rem /= 10
	}
	return lvl, seq
}

const aggxTotal = 4 * (10 + 100 + 1000 + 10000)

func opAggx(r *rand.Rand, n int, tier string) {
	u := aggxUniverse()
	for c := 0; c < n; c++ {
		i := c
		if tier != "thorough" || n < aggxTotal {
			i = r.Intn(aggxTotal)
		}
		lvl, seq := aggxCase(i)
		var gs []*stack.Goroutine
		for k, x := range seq {
			gs = append(gs, &stack.Goroutine{Signature: deepCopySig(u[x]), ID: 10 + 3*k - 2*(k%2)*k, First: k == 0})
		}
		// ids 10, 11, 16, 13: not in arrival order
		emitAggregate(fmt.Sprintf("aggx-%d", i), gs, lvl)
	}
}
