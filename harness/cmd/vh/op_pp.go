// op pp (C16, C02 end to end, C06): the real pp binary built from /repo/cmd/pp.
// pp id content level pf lit banner palette | plain plain-exit color color-exit filt filt-exit match match-exit ngoroutines
package main

import (
	"bytes"
	"fmt"
	"math/rand"
	"os"
	"os/exec"
	"path/filepath"
	"regexp"
	"strings"
	"unicode/utf8"

	"github.com/mgutz/ansi"
)

const resetFG = ansi.DefaultFG + "\033[m"

// the palette of internal/main.go (defaultPalette), in the slot order of Model/UI.v
func defaultPalette() []string {
	return []string{
		resetFG,                     // EOLReset
		ansi.ColorCode("magenta+b"), // RoutineFirst
		"",                          // Routine
		ansi.LightBlack,             // CreatedBy
		ansi.LightRed,               // Race
		ansi.ColorCode("default+b"), // Package
		resetFG,                     // SrcFile
		ansi.ColorCode("yellow+b"),  // FuncMain
		ansi.White,                  // FuncLocationUnknown
		ansi.ColorCode("white+b"),   // FuncLocationUnknownExported
		ansi.Red,                    // FuncGoMod
		ansi.ColorCode("red+b"),     // FuncGoModExported
		ansi.Cyan,                   // FuncGOPATH
		ansi.ColorCode("cyan+b"),    // FuncGOPATHExported
		ansi.Blue,                   // FuncGoPkg
		ansi.ColorCode("blue+b"),    // FuncGoPkgExported
		ansi.Green,                  // FuncStdLib
		ansi.ColorCode("green+b"),   // FuncStdLibExported
		resetFG,                     // Arguments
	}
}

func runPP(content []byte, args []string, banner bool) (string, int) {
	return runPPEnv(content, args, banner, nil)
}

func runPPEnv(content []byte, args []string, banner bool, extraEnv []string) (string, int) {
	cmd := exec.Command(os.Getenv("VERIF_PP"), args...)
	cmd.Stdin = bytes.NewReader(content)
	cmd.Dir = "/"
	var out bytes.Buffer
	cmd.Stdout = &out
	env := append([]string{"PATH=/usr/bin:/bin", "HOME=/tmp", "TERM=xterm"}, extraEnv...)
	if !banner {
		env = append(env, "GOTRACEBACK=all")
	}
	cmd.Env = env
	err := cmd.Run()
	code := 0
	if err != nil {
		if ee, ok := err.(*exec.ExitError); ok {
			code = ee.ExitCode()
		} else {
			code = -1
		}
	}
	return out.String(), code
}

func emitPP(id string, content []byte, level, pf, lit string, banner bool, ngor string, junks string) {
	base := []string{"-rebase=false"}
	if level == "3" {
		base = append(base, "-aggressive")
	}
	if pf == "full" {
		base = append(base, "-full-path")
	}
	plain, pe := runPP(content, append(append([]string{}, base...), "-no-color"), banner)
	color, ce := runPP(content, append(append([]string{}, base...), "-force-color"), banner)
	// determinism across processes (C06): the same run again
	det := "1"
	for k := 0; k < 2; k++ {
		if p2, e2 := runPP(content, append(append([]string{}, base...), "-no-color"), banner); p2 != plain || e2 != pe {
			det = "0"
		}
	}
	// pp in its DEFAULT mode (path guessing and source analysis on) in an environment where no Go root, no GOPATH
	// and none of the dump's files exist: nothing can be rebased or augmented, the output must be the plain one
	def := "1"
	var dargs []string
	for _, a := range base {
		if a != "-rebase=false" {
			dargs = append(dargs, a)
		}
	}
	if d, de := runPPEnv(content, append(dargs, "-no-color"), banner, []string{"GOROOT=/nonexistent/goroot", "GOPATH=/nonexistent/gopath"}); d != plain || de != pe {
		def = "0"
	}
	// -html: the dumps go to the HTML file, everything else still passes through to stdout, to the last byte
	if junks != "-" && def == "1" {
		want := ""
		for _, h := range strings.Split(junks, ",") {
			want += string(unhexs(h))
		}
		os.MkdirAll("/tmp/vhg", 0o755)
		hf := fmt.Sprintf("/tmp/vhg/pp-%d.html", os.Getpid())
		got, code := runPP(content, append(append([]string{}, base...), "-no-color", "-html", hf), banner)
		os.Remove(hf)
		if got != want || code != pe {
			def = "H"
		}
	}
	filt, fe, mat, me := "", 0, "", 0
	q := ""
	if lit != "" {
		q = regexp.QuoteMeta(lit)
		// "X$" / "X\n$": expressions that look at the END of the header (which ends with a newline)
		if strings.HasPrefix(lit, "\x01") {
			q = regexp.QuoteMeta(lit[1:]) + "$"
		} else if strings.HasPrefix(lit, "\x02") {
			q = regexp.QuoteMeta(lit[1:]) + "\n$"
		} else if strings.HasPrefix(lit, "\x03") {
			q = "^" + regexp.QuoteMeta(lit[1:]) + "\n$" // the whole header
		}
		filt, fe = runPP(content, append(append([]string{}, base...), "-no-color", "-f", q), banner)
		mat, me = runPP(content, append(append([]string{}, base...), "-no-color", "-m", q), banner)
	}
	var pal []string
	for _, p := range defaultPalette() {
		pal = append(pal, hexs([]byte(p)))
	}
	b := "0"
	if banner {
		b = "1"
	}
	emit("pp", id, hexs(content), level, pf, hexs([]byte(lit)), b, strings.Join(pal, ","),
		hexs([]byte(plain)), fmt.Sprint(pe), hexs([]byte(color)), fmt.Sprint(ce),
		hexs([]byte(filt)), fmt.Sprint(fe), hexs([]byte(mat)), fmt.Sprint(me), ngor, junks, det, def, runVint(content, level, pf, q, plain))
}

// runVint (C14, hook internal/verif_hooks.go + internal/verifcmd, tag verif): pp's text renderer called twice on every
// snapshot of the stream, with the expression as -f, then as -m; the snapshot must stay deep-equal to a fresh parse and
// a later rendering must equal the rendering of the fresh parse. "X" when the hook binary could not be built.
func runVint(content []byte, level, pf, q, plain string) string {
	bin := filepath.Join(filepath.Dir(os.Getenv("VERIF_PP")), "vint")
	if _, err := os.Stat(bin); err != nil {
		return "X"
	}
	res := "ok"
	runs := [][2]string{{q, ""}, {"", q}}
	if q == "" {
		runs = runs[:1]
	}
	// every header line of the unfiltered output in turn as the one block dropped, then as the one block kept
	// (scenarios the property names are enumerated, not sampled)
	seen := map[string]bool{}
	for _, l := range strings.Split(plain, "\n") {
		if l == "" || strings.HasPrefix(l, "    ") || seen[l] || len(seen) >= 8 || len(l) > 300 || !utf8.ValidString(l) {
			continue
		}
		seen[l] = true
		h := "^" + regexp.QuoteMeta(l) + "\n$"
		runs = append(runs, [2]string{h, ""}, [2]string{"", h})
	}
	for _, a := range runs {
		cmd := exec.Command(bin, level, pf, a[0], a[1])
		cmd.Stdin = bytes.NewReader(content)
		cmd.Dir = "/"
		cmd.Env = []string{"PATH=/usr/bin:/bin", "HOME=/tmp", "TERM=xterm", "GOTRACEBACK=all"}
		out, err := cmd.Output()
		o := strings.TrimSpace(string(out))
		if err != nil {
			return "crash"
		}
		if !strings.HasPrefix(o, "ok:") {
			return o
		}
		res = o
	}
	return res
}

func init() {
	replayers["pp"] = func(id string, in []string) {
		emitPP(id, unhexs(in[0]), in[1], in[2], string(unhexs(in[3])), in[4] == "1", in[14], in[15])
	}
}

func opPP(r *rand.Rand, n int, tier string) {
	g := dgen{r}
	for i := 0; i < n; i++ {
		var txt string
		ngor := "-"
		junks := "-"
		lits := []string{"zzz-never", ": ", "[locked]", "minutes", "Created by"}
		forced := ""
		choice := r.Intn(6)
		// every tenth case is a stream whose last dump is followed by exactly one unterminated line
		forceTrailer := i%10 == 3
		if forceTrailer {
			choice = 1
		}
		switch choice {
		case 5: // a bucket whose whole header is a proper part of another bucket's header ("1: S" in "11: S")
			st := []string{"chan receive", "select", "IO wait", "running"}[r.Intn(4)]
			base := g.dump(2, 3)
			for k := range base {
				base[k].Unavailable, base[k].ElideAfter, base[k].Annot = false, -1, ""
				if len(base[k].Frames) == 0 {
					base[k].Frames = []dFrame{{Sym: dSym{Pkg: "main", Name: "work"}, File: "/home/u/proj/work.go", Line: 3}}
				}
			}
			var d []dGoroutine
			for k := 0; k < 11; k++ {
				cp := base[0]
				cp.ID, cp.State, cp.Minutes, cp.Locked, cp.Creator = k+1, st, 0, false, nil
				d = append(d, cp)
			}
			other := base[1]
			other.ID, other.State, other.Minutes, other.Locked, other.Creator = 12, st, 0, false, nil
			other.Frames = append([]dFrame{{Sym: dSym{Pkg: "main", Name: "loneWolf"}, File: "/home/u/proj/lone.go", Line: 7}}, other.Frames...)
			d = append(d, other)
			txt = printDump(d, dVariant{FileIndent: "\t"}, true)
			ngor = "12"
			forced = "\x03" + "1: " + st
		case 0: // a race report
			d := g.race()
			for len(d.Creations) == 0 {
				d = g.race()
			}
			txt = printRace(d)
			ngor = fmt.Sprint(len(d.Ops))
			lits = append(lits, "running", "finished", "Race write", "Race read")
		case 1: // stream with several dumps and junk
			j0 := genJunk(r, r.Intn(3), true, false)
			txt = j0
			js := []string{hexs([]byte(j0))}
			nd := 1 + r.Intn(2)
			for k := 0; k < nd; k++ {
				j := genJunk(r, 1+r.Intn(3), true, false)
				if k == nd-1 && r.Intn(2) == 0 {
					j += "last line without eol"
				}
				if k == nd-1 && (r.Intn(2) == 0 || forceTrailer) {
					j = "exit status 2" // exactly one unterminated line after the last dump
				}
				if k == 0 && r.Intn(3) == 0 && !(forceTrailer && nd == 1) {
					// more text after the first dump than the read-ahead buffer holds
					j += variedText(r, 18000+r.Intn(9000)) + "\n" + genJunk(r, 1+r.Intn(2), true, false)
				}
				// no indentation: an indented dump followed by unindented text ends with a scan error (observation O1)
				v := g.variant()
				v.Indent, v.BlankIndents = "", false
				txt += printDump(g.dump(1+r.Intn(4), 4), v, true) + j
				js = append(js, hexs([]byte(j)))
			}
			junks = strings.Join(js, ",")
		default: // one dump, similar goroutines so that buckets merge
			ng := 1 + r.Intn(8)
			d := g.dump(ng, 4)
			for k := 1; k < len(d); k++ {
				if r.Intn(2) == 0 {
					src := d[r.Intn(k)]
					cp := src
					cp.ID = d[k].ID
					cp.Frames = append([]dFrame{}, src.Frames...)
					if len(cp.Frames) > 0 && len(cp.Frames[0].Args) > 0 && r.Intn(2) == 0 {
						as := append([]dArg{}, cp.Frames[0].Args...)
						if !as[0].Agg && !as[0].TooLarge {
							as[0].V = 0xc000000000 + uint64(r.Intn(8))*8
						}
						cp.Frames[0].Args = as
					}
					if r.Intn(3) == 0 {
						cp.Minutes = 1 + r.Intn(100)
					}
					d[k] = cp
				}
			}
			if r.Intn(3) == 0 {
				// two consecutive frames with the same base file name and line in different packages and directories,
				// the second one carrying the longest package name / path of the output
				k := r.Intn(len(d))
				if j := r.Intn(len(d[k].Frames) + 1); j < len(d[k].Frames) && strings.HasSuffix(d[k].Frames[j].File, ".go") && !strings.Contains(d[k].Frames[j].File, " ") {
					f := d[k].Frames[j]
					base := f.File
					if p := strings.LastIndexByte(base, '/'); p >= 0 {
						base = base[p+1:]
					}
					twin := dFrame{Sym: dSym{Pkg: "example.com/billing/transactionsledgerreconciliation", Name: "Apply"},
						File: "/home/u/go/src/example.com/billing/transactionsledgerreconciliation/" + base, Line: f.Line, Off: f.Off}
					fr := append([]dFrame{}, d[k].Frames[:j+1]...)
					fr = append(fr, twin)
					d[k].Frames = append(fr, d[k].Frames[j+1:]...)
					if d[k].ElideAfter >= j {
						d[k].ElideAfter++
					}
				}
			}
			txt = printDump(d, dVariant{FileIndent: "\t"}, true)
			ngor = fmt.Sprint(len(d))
			for _, x := range d {
				lits = append(lits, x.State)
			}
		}
		lit := ""
		if forced != "" && r.Intn(4) != 0 {
			lit = forced
		} else if r.Intn(3) != 0 {
			lit = lits[r.Intn(len(lits))]
			// expressions anchored at the end of the header: use what headers really end with
			ends := []string{"]", "minutes]", "running", lit}
			switch r.Intn(5) {
			case 0:
				lit = "\x01" + ends[r.Intn(len(ends))]
			case 1:
				lit = "\x02" + ends[r.Intn(len(ends))]
			}
		}
		level := "2"
		if r.Intn(3) == 0 {
			level = "3"
		}
		pf := "base"
		if r.Intn(3) == 0 {
			pf = "full"
		}
		emitPP(fmt.Sprintf("pp-%d", i), []byte(txt), level, pf, lit, r.Intn(3) == 0, ngor, junks)
	}
}
