(* Spec/Wf.v — well-formedness of snapshots: the facts about parser output
   that the bucket theorems need.  All boolean, all proved for every snapshot
   the scanner model returns (Proofs/ScanWf.v) and checked on every snapshot
   the harness feeds to the implementation. *)
From PP Require Import Base.Bytes Model.Types.

(* a non-pointer carries no pseudo-name; a too-large argument is not a pointer *)
Fixpoint wf_arg (a : Arg) : bool :=
  match a with
  | MkArg ag n _ p tl _ fv _ _ =>
      if ag then (fix go (l : list Arg) : bool := match l with [] => true | x :: l' => wf_arg x && go l' end) fv
      else (p || beq n []) && (negb tl || negb p)
  end.
Definition wf_args (a : Args) : bool := forallb wf_arg (Values a).
Definition wf_stack (s : Stack) : bool := forallb (fun c => wf_args (CArgs c)) (Calls s).
Definition wf_sig (s : Signature) : bool := wf_stack (CreatedBy s) && wf_stack (SStack s).
Definition wf_goroutines (gs : list Goroutine) : bool := forallb (fun g => wf_sig (GSig g)) gs.

Definition count_first (gs : list Goroutine) : nat := List.length (filter First gs).
Definition count_bfirst (bs : list Bucket) : nat := List.length (filter BFirst bs).
