(* Properties/C14.v — Aggregating or rendering never modifies the snapshot it
   is given, and may run concurrently on the same snapshot.  Statements only.

   In the functional model (Model/Bucket.v, Model/UI.v) this is vacuous.  It is
   stated on the TAGGED model of Model/Alias.v, where every slice carries the
   name of its backing array (Shared g path = a slice of goroutine g of the
   snapshot, Fresh n = allocated by the operation) and its capacity, and every
   store instruction of the Go code is logged as (backing array, index). *)
From PP Require Import Base.Bytes Base.GoResult Model.Types Model.Stack Model.Bucket Model.UI Model.Alias.
From PP Require Import Proofs.AliasProofs.

(* The tagged model IS the functional model once the tags are erased: for
   every spare capacity of the snapshot's slices and every allocator state.
   (Map iteration order: id_shuffle, i.e. creation order, on both sides.) *)
Theorem C14_erasure : forall spare lvl gs s,
  erase_buckets (fst (t_aggregate lvl (tag_snapshot spare gs) s)) = aggregate id_shuffle lvl gs.
Proof. exact AliasProofs.erasure. Qed.
Print Assumptions C14_erasure.

Theorem C14_erasure_snapshot : forall spare gs, erase_snapshot (tag_snapshot spare gs) = gs.
Proof. exact AliasProofs.erasure_snapshot. Qed.
Print Assumptions C14_erasure_snapshot.

Theorem C14_erasure_string : forall a s, fst (t_args_string a s) = args_string (erase_args a).
Proof. exact AliasProofs.erasure_string. Qed.
Print Assumptions C14_erasure_string.

(* Every write performed by Aggregate (on the tagged snapshot, any spare
   capacity) and by Args.String (on ANY tagged Args) goes to an array that
   the operation allocated itself. *)
Theorem C14_writes_fresh : forall spare lvl gs a,
  (forall w, In w (w_log (snd (t_aggregate lvl (tag_snapshot spare gs) w_init))) -> is_fresh (fst w) = true) /\
  (forall w, In w (w_log (snd (t_args_string a w_init))) -> is_fresh (fst w) = true).
Proof. exact AliasProofs.writes_fresh. Qed.
Print Assumptions C14_writes_fresh.

(* ... and so does every write of any sequence of Aggregate / String / render
   operations, on any list of tagged goroutines. *)
Theorem C14_writes_fresh_ops : forall ts os w,
  In w (w_log (snd (run_ops ts os w_init))) -> is_fresh (fst w) = true.
Proof. exact AliasProofs.writes_fresh_ops. Qed.
Print Assumptions C14_writes_fresh_ops.

(* No cell of the snapshot - within the length of its slices or in their
   spare capacity - is written by any sequence of operations: its version in
   the store is unchanged.  (Stronger than deep equality: the write of the
   pre-fix Args.String lands beyond len, where deep equality does not look.) *)
Theorem C14_snapshot_unchanged : forall spare gs os (st : store) g path i,
  apply_writes (w_log (snd (run_ops (tag_snapshot spare gs) os w_init))) st (Shared g path) i
  = st (Shared g path) i.
Proof. exact AliasProofs.snapshot_unchanged. Qed.
Print Assumptions C14_snapshot_unchanged.

(* Aggregating again after the sequence gives the same buckets. *)
Theorem C14_reaggregate_same : forall spare gs os lvl,
  let ts := tag_snapshot spare gs in
  let s' := snd (run_ops ts os w_init) in
  erase_buckets (fst (t_aggregate lvl ts s')) = erase_buckets (fst (t_aggregate lvl ts w_init)) /\
  erase_buckets (fst (t_aggregate lvl ts s')) = aggregate id_shuffle lvl gs /\
  log_fresh (snd (t_aggregate lvl ts s')).
Proof. exact AliasProofs.reaggregate_same. Qed.
Print Assumptions C14_reaggregate_same.

(* The code before the fix (v = a.Processed, then append(v, "...")) is
   refuted: a shared Processed slice with spare capacity and Elided = true gets
   a write at cell len(Processed) of the snapshot's array; the fixed code
   writes only Fresh 1, and both return the same string. *)
Theorem C14_string_uncapped_refuted :
  exists a : tArgs,
    is_fresh (t_tag (tProcessed a)) = false /\ tElided a = true /\ t_elems (tProcessed a) <> [] /\
    t_len (tProcessed a) < t_cap (tProcessed a) /\
    In (t_tag (tProcessed a), t_len (tProcessed a)) (w_log (snd (t_args_string_uncapped a w_init))) /\
    w_log (snd (t_args_string a w_init)) = [(Fresh 1, 0); (Fresh 1, 1)] /\
    fst (t_args_string_uncapped a w_init) = fst (t_args_string a w_init).
Proof. exact AliasProofs.string_uncapped_refuted. Qed.
Print Assumptions C14_string_uncapped_refuted.

(* Two threads.  A thread is a list of events (Rd cell | Wr cell value); the
   allocator of thread b hands out names of parity b (owned_by).  If each thread
   writes only arrays it owns and reads only those or the snapshot, then for
   EVERY interleaving: the snapshot cells are unchanged, each thread's cells
   hold its sequential result, and each thread reads exactly the values it
   reads when running alone - no write/write or read/write conflict. *)
Theorem C14_interleave_safe : forall V (t1 t2 : list (ev V)) l (st : vstore V),
  interleaving t1 t2 l -> Forall (ev_ok_owned true) t1 -> Forall (ev_ok_owned false) t2 ->
  let final := fst (exec2 true l st) in
  (forall p i, is_fresh p = false -> final p i = st p i) /\
  (forall p i, owned_by true p = true -> final p i = fst (exec t1 st) p i) /\
  (forall p i, owned_by false p = true -> final p i = fst (exec t2 st) p i) /\
  snd (exec2 true l st) = snd (exec t1 st) /\
  snd (exec2 false l st) = snd (exec t2 st).
Proof. exact AliasProofs.interleave_safe. Qed.
Print Assumptions C14_interleave_safe.

(* The instance: two threads running any two sequences of operations on the
   same tagged snapshot (their writes are the model's logged writes under the
   thread's global naming, in any order and with any values; their reads are
   of the snapshot or of their own arrays). *)
Theorem C14_concurrent_ops_safe : forall V ts os1 os2 (t1 t2 : list (ev V)) l (st : vstore V),
  thread_of_ops true ts os1 t1 -> thread_of_ops false ts os2 t2 -> interleaving t1 t2 l ->
  let final := fst (exec2 true l st) in
  (forall g path i, final (Shared g path) i = st (Shared g path) i) /\
  (forall p i, owned_by true p = true -> final p i = fst (exec t1 st) p i) /\
  (forall p i, owned_by false p = true -> final p i = fst (exec t2 st) p i) /\
  snd (exec2 true l st) = snd (exec t1 st) /\
  snd (exec2 false l st) = snd (exec t2 st).
Proof. exact AliasProofs.concurrent_ops_safe. Qed.
Print Assumptions C14_concurrent_ops_safe.

(* What alias_graph can report, for every snapshot: a bucket is either the
   shallow copy of goroutine g's signature (all slices are g's), or merged: no
   sharing of Stack.Calls nor of any Values, CreatedBy.Calls still g's. *)
Theorem C14_alias_graph_shape : forall spare lvl gs s bs b,
  fst (t_aggregate lvl (tag_snapshot spare gs) s) = Ok bs -> In b (t_elems bs) ->
  exists g x, nth_error gs g = Some x /\
    let k := tag_sig spare g (GSig x) in
    (tBSig b = k \/
     alias_of_bucket b =
       (None, calls_shared_with 1 (tCalls (tCreatedBy k)),
        map (fun _ => None) (t_elems (tCalls (tSStack (tBSig b)))))).
Proof. exact AliasProofs.alias_graph_shape. Qed.
Print Assumptions C14_alias_graph_shape.

(* ---- examples (vm_compute) ---- *)

(* c14_gs: goroutines 0 and 1 differ by one pointer argument and have the same
   creator; goroutine 2 is alone, has no creator, and its call 1 has no
   argument.  AnyPointer merges 0 and 1: Calls and Values are fresh,
   CreatedBy.Calls is goroutine 0's; the other bucket is goroutine 2's own
   slices (an empty slice has no backing array: None). *)
Example C14_alias_graph_merged :
  alias_graph AnyPointer c14_gs =
  Ok [ (None, Some 0, [None; None]);
       (Some 2, None, [Some (2, 0); None; Some (2, 2)]) ].
Proof. vm_compute. reflexivity. Qed.

Example C14_alias_graph_buckets :
  match aggregate id_shuffle AnyPointer c14_gs with Ok bs => map IDs bs | Panic _ => [] end
  = [[1; 2]; [3]]%Z.
Proof. vm_compute. reflexivity. Qed.

(* ExactLines: nothing merges, every bucket is its only member's slices
   (bucket order: the First one, then Signature.less) *)
Example C14_alias_graph_unmerged :
  alias_graph ExactLines c14_gs =
  Ok [ (Some 0, Some 0, [Some (0, 0); Some (0, 1)]);
       (Some 2, None, [Some (2, 0); None; Some (2, 2)]);
       (Some 1, Some 1, [Some (1, 0); Some (1, 1)]) ].
Proof. vm_compute. reflexivity. Qed.

(* two EQUAL goroutines: one bucket, no merge, the first member's slices *)
Example C14_alias_graph_equal :
  alias_graph AnyPointer [nth 0 c14_gs (c14_gor 0 false emptyStack []);
                          c14_gor 9 false c14_creator (Calls (SStack (GSig (nth 0 c14_gs (c14_gor 0 false emptyStack [])))))] =
  Ok [ (Some 0, Some 0, [Some (0, 0); Some (0, 1)]) ].
Proof. vm_compute. reflexivity. Qed.

(* the writes of Aggregate on the example: 40-odd, all Fresh; with the
   pre-fix Args.String a Shared write appears *)
Example C14_example_log :
  forallb (fun w => is_fresh (fst w))
          (w_log (snd (run_ops (tag_snapshot (fun _ _ => 3) c14_gs)
                               [OpAggregate AnyPointer; OpString 0 0; OpRender ExactLines; OpAggregate AnyValue] w_init)))
  = true.
Proof. vm_compute. reflexivity. Qed.
