// Validation of the Coq models PP.Model.HtmlDoc (content region) and PP.Model.HtmlPage
// (the whole document) against stack/html.go.
//
//	go run . gen [nrandom] [nfiles]   writes samples_common.v and samples_<k>.v (the samples as Coq terms,
//	                         the expected bytes of the WHOLE DOCUMENT and of the content region as hex
//	                         strings, two comparisons per sample)
//	go run . hex             prints "<name> <hex of the document>" per sample
//	go run . show <name>     prints the document of one sample (text)
//	go run . probe           prints what html/template makes of every byte 0..255 in each hole of the trailer
//	go run . nilsnap         shows what Aggregated.ToHTML does when Aggregated.Snapshot is nil
//
// Nothing is masked: toHTML calls time.Now().Truncate(time.Second) itself; the program reads the clock
// before and after the call and repeats the rendering until both readings fall into the same second, so the
// value is known independently of the output.  runtime.Version() and runtime.GOMAXPROCS(0) are read
// the same way toHTML reads them.
//
// The content region is everything from `<div id="content">` up to and
// including the matching `</div>`.
package main

import (
	"bytes"
	"encoding/hex"
	"fmt"
	"io"
	"log"
	"math/rand"
	"os"
	"path/filepath"
	"runtime"
	"strconv"
	"strings"
	"time"

	"html/template"

	"github.com/maruel/panicparse/v2/stack"
)

type sample struct {
	name string
	// exactly one of the two is non-nil
	buckets    []*stack.Bucket
	goroutines []*stack.Goroutine
	isG        bool
	// the other fields of the Snapshot, and the footer argument
	meta   stack.Snapshot
	footer string
	// filled by render
	now string
}

const hostile = `<b>"x"&'y'`

func region(doc string) string {
	const open = `<div id="content">`
	i := strings.Index(doc, open)
	if i < 0 {
		panic("no content div")
	}
	j := strings.Index(doc[i:], "</div>\n<h2>Metadata</h2>")
	if j < 0 {
		panic("no end of content div")
	}
	r := doc[i : i+j+len("</div>")]
	// the region must not contain another </div> (data is escaped)
	if strings.Count(r, "</div>") != 1 {
		panic("nested </div>")
	}
	return r
}

// the whole document; s.now is set to the creation time toHTML used
func render(s *sample) string {
	for {
		t0 := time.Now().Truncate(time.Second)
		var buf bytes.Buffer
		sn := s.meta // copy
		if s.isG {
			sn.Goroutines = s.goroutines
			if err := sn.ToHTML(&buf, template.HTML(s.footer)); err != nil {
				panic(err)
			}
		} else {
			a := &stack.Aggregated{Snapshot: &sn, Buckets: s.buckets}
			if err := a.ToHTML(&buf, template.HTML(s.footer)); err != nil {
				panic(err)
			}
		}
		if t1 := time.Now().Truncate(time.Second); t0.Equal(t1) {
			s.now = t0.String()
			return buf.String()
		}
	}
}

// ---------------------------------------------------------------- hand-made samples

func fn(complete, imp, dir, name string, exported, main bool) stack.Func {
	return stack.Func{Complete: complete, ImportPath: imp, DirName: dir, Name: name, IsExported: exported, IsPkgMain: main}
}

func val(v uint64) stack.Arg             { return stack.Arg{Value: v} }
func ptr(v uint64) stack.Arg             { return stack.Arg{Value: v, IsPtr: true} }
func named(n string, v uint64) stack.Arg { return stack.Arg{Name: n, Value: v, IsPtr: true} }
func agg(elided bool, vs ...stack.Arg) stack.Arg {
	return stack.Arg{IsAggregate: true, Fields: stack.Args{Values: vs, Elided: elided}}
}

func handMade() []*sample {
	mainCall := stack.Call{
		Func:          fn("main.main", "main", "main", "main", false, true),
		RemoteSrcPath: "/home/user/src/foo/main.go", Line: 12, SrcName: "main.go", DirSrc: "foo/main.go",
		LocalSrcPath: "/home/user/src/foo/main.go", RelSrcPath: "foo/main.go", ImportPath: "foo", Location: stack.GoMod,
	}
	stdCall := stack.Call{
		Func:          fn("sync.(*WaitGroup).Wait", "sync", "sync", "(*WaitGroup).Wait", true, false),
		Args:          stack.Args{Values: []stack.Arg{ptr(0xc000012345), val(3), val(10)}},
		RemoteSrcPath: "/usr/local/go/src/sync/waitgroup.go", Line: 130, SrcName: "waitgroup.go", DirSrc: "sync/waitgroup.go",
		LocalSrcPath: "/opt/go/src/sync/waitgroup.go", RelSrcPath: "sync/waitgroup.go", ImportPath: "sync", Location: stack.Stdlib,
	}
	ghCall := stack.Call{
		Func:          fn("github.com/maruel/panicparse/v2/stack.(*Snapshot).Foo", "github.com/maruel/panicparse/v2/stack", "stack", "(*Snapshot).Foo", true, false),
		Args:          stack.Args{Values: []stack.Arg{named("#1", 0xc000100000), agg(false, val(1), agg(true, val(0xff), named("#2", 5)), stack.Arg{IsOffsetTooLarge: true})}, Elided: true},
		RemoteSrcPath: "/root/go/pkg/mod/github.com/maruel/panicparse/v2@v2.3.1/stack/snapshot.go", Line: 77, SrcName: "snapshot.go", DirSrc: "stack/snapshot.go",
		LocalSrcPath: "", RelSrcPath: "github.com/maruel/panicparse/v2@v2.3.1/stack/snapshot.go", ImportPath: "github.com/maruel/panicparse/v2@v2.3.1/stack", Location: stack.GoPkg,
	}
	procCall := stack.Call{
		Func:          fn("golang.org/x/sys/unix.read", "golang.org/x/sys/unix", "unix", "read", false, false),
		Args:          stack.Args{Values: []stack.Arg{val(1), val(2)}, Processed: []string{"int(1)", hostile, "[]byte(0xc0001)"}},
		RemoteSrcPath: "/g/src/golang.org/x/sys/unix/zsyscall.go", Line: 9, SrcName: "zsyscall.go", DirSrc: "unix/zsyscall.go",
		LocalSrcPath: "/g/src/golang.org/x/sys/unix/zsyscall.go", RelSrcPath: "golang.org/x/sys/unix/zsyscall.go", ImportPath: "golang.org/x/sys/unix", Location: stack.GOPATH,
	}
	hostileCall := stack.Call{
		Func:          fn(hostile+".Complete", "imp/"+hostile, "<dir>"+hostile, "(*T"+hostile+").M'<", true, false),
		Args:          stack.Args{Values: []stack.Arg{named(hostile, 1), agg(false, named("<i>&", 2)), val(0)}, Processed: nil, Elided: false},
		RemoteSrcPath: "/remote/" + hostile + "/a b.go", Line: -3, SrcName: hostile + ".go", DirSrc: "x/" + hostile + ".go",
		LocalSrcPath: "/local/" + hostile + "\x00+/a b.go", RelSrcPath: "weird.host/" + hostile + "@v1<2>/a b.go", ImportPath: "a/vendor/x.y/" + hostile, Location: stack.LocationUnknown,
	}
	hostileGh := stack.Call{
		Func:          fn("x", "x", "x", "F\xff\xfe…+", true, false),
		Args:          stack.Args{Processed: []string{"a"}, Elided: true},
		RemoteSrcPath: "", Line: 0, SrcName: "", DirSrc: "",
		LocalSrcPath: "", RelSrcPath: "github.com/u/r\" onclick=\"x@v0.0.0-20200223170610-d5e6a3e2c0ae/f<.go", ImportPath: "", Location: stack.GoMod,
	}
	emptyCall := stack.Call{}

	var out []*sample
	// 1: no bucket at all
	out = append(out, &sample{name: "empty_buckets"})
	// 2: one bucket, 0 calls, 1 routine, nothing else
	out = append(out, &sample{name: "bucket_no_calls", buckets: []*stack.Bucket{
		{Signature: stack.Signature{State: "running"}, IDs: []int{1}},
	}})
	// 3: one bucket, 1 call, creator, locked, sleep min=max
	out = append(out, &sample{name: "bucket_one_call", buckets: []*stack.Bucket{
		{Signature: stack.Signature{State: "chan receive", SleepMin: 5, SleepMax: 5, Locked: true,
			CreatedBy: stack.Stack{Calls: []stack.Call{stdCall, mainCall}},
			Stack:     stack.Stack{Calls: []stack.Call{mainCall}}}, IDs: []int{7, 8, 9}, First: true},
	}})
	// 4: three calls, min<max, elided stack, elided + aggregate + processed args, two buckets
	out = append(out, &sample{name: "bucket_three_calls", buckets: []*stack.Bucket{
		{Signature: stack.Signature{State: "select", SleepMin: 2, SleepMax: 17,
			Stack: stack.Stack{Calls: []stack.Call{stdCall, ghCall, procCall}, Elided: true}}, IDs: []int{4, 5}},
		{Signature: stack.Signature{State: "IO wait", SleepMin: 0, SleepMax: 0,
			CreatedBy: stack.Stack{Calls: []stack.Call{ghCall}},
			Stack:     stack.Stack{Calls: []stack.Call{procCall, mainCall}}}, IDs: nil},
	}})
	// 5: hostile strings everywhere
	out = append(out, &sample{name: "bucket_hostile", buckets: []*stack.Bucket{
		{Signature: stack.Signature{State: hostile + "\x00+", SleepMin: -1, SleepMax: 3, Locked: true,
			CreatedBy: stack.Stack{Calls: []stack.Call{hostileCall}},
			Stack:     stack.Stack{Calls: []stack.Call{hostileCall, hostileGh, emptyCall}, Elided: true}}, IDs: []int{1, 2}},
	}})
	// 6: LocalSrcPath equal / different / empty, elided args without values, empty aggregate
	eq, diff, empty := mainCall, mainCall, mainCall
	diff.LocalSrcPath = "/elsewhere/main.go"
	empty.LocalSrcPath = ""
	empty.Args = stack.Args{Elided: true}
	diff.Args = stack.Args{Values: []stack.Arg{agg(false), agg(true), stack.Arg{IsAggregate: true, Fields: stack.Args{Processed: []string{"p", "q"}, Elided: true}}}}
	eq.Args = stack.Args{Values: []stack.Arg{val(9)}}
	out = append(out, &sample{name: "bucket_paths", buckets: []*stack.Bucket{
		{Signature: stack.Signature{State: "x", Stack: stack.Stack{Calls: []stack.Call{eq, diff, empty}}}, IDs: []int{3}},
	}})
	// 7: race snapshot
	out = append(out, &sample{name: "race", isG: true, goroutines: []*stack.Goroutine{
		{Signature: stack.Signature{State: "running", CreatedBy: stack.Stack{Calls: []stack.Call{mainCall, stdCall}},
			Stack: stack.Stack{Calls: []stack.Call{ghCall, mainCall}}}, ID: 37, First: true, RaceWrite: true, RaceAddr: 0xc00001a0b8},
		{Signature: stack.Signature{State: "finished", Stack: stack.Stack{Calls: []stack.Call{stdCall}}}, ID: 12, RaceWrite: false, RaceAddr: 0xabc},
	}})
	// 8: plain goroutines (no aggregation), all header variants
	out = append(out, &sample{name: "goroutines", isG: true, goroutines: []*stack.Goroutine{
		{Signature: stack.Signature{State: "sleep", SleepMin: 1, SleepMax: 2, Locked: true, Stack: stack.Stack{Calls: []stack.Call{procCall}, Elided: true}}, ID: 1},
		{Signature: stack.Signature{State: hostile, SleepMin: 4, SleepMax: 4, CreatedBy: stack.Stack{Calls: []stack.Call{hostileCall}}}, ID: -2, RaceAddr: 1},
		{Signature: stack.Signature{State: ""}, ID: 0},
	}})
	// 9: no goroutine at all
	out = append(out, &sample{name: "empty_goroutines", isG: true})
	// 10: stdlib / golang.org / vendor links
	v := procCall
	v.RelSrcPath = "foo/vendor/golang.org/x/sys@v0.31.0/unix/z.go"
	v.ImportPath = "foo/vendor/golang.org/x/sys/unix"
	v.Func.IsExported = true
	v.Func.Name = "Read"
	bad := procCall
	bad.RelSrcPath = "github.com/onlyone"
	bad.LocalSrcPath = ""
	out = append(out, &sample{name: "links", buckets: []*stack.Bucket{
		{Signature: stack.Signature{State: "syscall", Stack: stack.Stack{Calls: []stack.Call{v, bad, stdCall}}}, IDs: []int{1, 2, 3, 4, 5, 6, 7, 8, 9, 10, 11}},
	}})
	// 11, 12: the two examples stated in Properties/C17b.v
	out = append(out, &sample{name: "ex_small", buckets: []*stack.Bucket{
		{Signature: stack.Signature{State: "chan receive", SleepMin: 2, SleepMax: 3,
			Stack: stack.Stack{Calls: []stack.Call{{
				Func: fn("main.main", "main", "main", "main", false, true), Args: stack.Args{Values: []stack.Arg{val(1), ptr(0xc000010000)}},
				RemoteSrcPath: "/src/main.go", Line: 7, SrcName: "main.go", DirSrc: "src/main.go", ImportPath: "main"}}}}, IDs: []int{4, 9}},
	}})
	out = append(out, &sample{name: "ex_hostile", buckets: []*stack.Bucket{
		{Signature: stack.Signature{State: "<script>alert(1)</script>", Locked: true,
			Stack: stack.Stack{Calls: []stack.Call{{
				Func:          fn("x.F", "x", "<i>", "\"><img src=x onerror=alert(1)>", true, false),
				Args:          stack.Args{Processed: []string{"<u>"}, Elided: true},
				RemoteSrcPath: "/tmp/'\"><svg onload=1>", Line: 1, SrcName: hostile, DirSrc: "", ImportPath: "x\"><y", Location: stack.GoMod}},
				Elided: true}}, IDs: []int{1}},
	}})
	out = append(out, metaSamples(mainCall, stdCall, hostileCall)...)
	// ex_page_hostile (Properties/C17c.v: C17_example_page_hostile) renders the buckets of ex_hostile
	var exh []*stack.Bucket
	for _, s := range out {
		if s.name == "ex_hostile" {
			exh = s.buckets
		}
	}
	for _, s := range out {
		if s.name == "ex_page_hostile" {
			s.buckets = exh
		}
	}
	return out
}

// samples about the trailer: GOROOTs, GOPATHs, go modules, footer, long elided stacks
func metaSamples(mainCall, stdCall, hostileCall stack.Call) []*sample {
	var out []*sample
	one := []*stack.Bucket{{Signature: stack.Signature{State: "running", Stack: stack.Stack{Calls: []stack.Call{mainCall}}}, IDs: []int{1}}}
	add := func(name string, isG bool, m stack.Snapshot, footer string) {
		sm := &sample{name: name, isG: isG, meta: m, footer: footer}
		if isG {
			sm.goroutines = []*stack.Goroutine{{Signature: stack.Signature{State: "running", Stack: stack.Stack{Calls: []stack.Call{stdCall}}}, ID: 1, First: true}}
		} else {
			sm.buckets = one
		}
		out = append(out, sm)
	}
	// GOROOT variants
	add("meta_empty", false, stack.Snapshot{}, "")
	add("meta_goroot_remote_only", false, stack.Snapshot{RemoteGOROOT: "/usr/local/go"}, "")
	add("meta_goroot_local_only", false, stack.Snapshot{LocalGOROOT: "/opt/go"}, "")
	add("meta_goroot_same", true, stack.Snapshot{LocalGOROOT: "/opt/go", RemoteGOROOT: "/opt/go"}, "")
	add("meta_goroot_differ", true, stack.Snapshot{LocalGOROOT: "/opt/go", RemoteGOROOT: "/usr/local/go"}, "")
	add("meta_goroot_hostile", false, stack.Snapshot{LocalGOROOT: "/l/" + hostile + "\x00+", RemoteGOROOT: "/r/</li><script>alert(1)</script>"}, "")
	// GOPATHs: 0 / 1 / many, empty strings inside
	add("meta_gopath_1", false, stack.Snapshot{LocalGOPATHs: []string{"/home/u/go"}}, "")
	add("meta_gopath_3", true, stack.Snapshot{LocalGOPATHs: []string{"/home/u/go", "", "/g" + hostile}}, "")
	add("meta_gopath_empty_strings", false, stack.Snapshot{LocalGOPATHs: []string{"", ""}}, "")
	add("meta_remote_gopaths_ignored", false, stack.Snapshot{RemoteGOPATHs: map[string]string{"/r" + hostile: "/l" + hostile, "/a": "/b"}}, "")
	// modules: 0 (nil / empty map) / 1 / many; keys in every order; hostile keys and values
	add("meta_gomods_emptymap", false, stack.Snapshot{LocalGomods: map[string]string{}}, "")
	add("meta_gomods_1", false, stack.Snapshot{LocalGomods: map[string]string{"/src/foo": "example.com/foo"}}, "")
	add("meta_gomods_many", true, stack.Snapshot{LocalGomods: map[string]string{"/z": "z", "/a": "a", "": "empty key", "/a/b": "", "/Z": "upper", "/a\x00": "nul", "/a ": "space", "/\xff": "high", "/é": "utf8"}}, "")
	add("meta_gomods_hostile", false, stack.Snapshot{LocalGomods: map[string]string{
		"/m/" + hostile:                "imp/" + hostile,
		"</li></ul><script>x</script>": "'\"><img src=x onerror=alert(1)>",
		"{{.}}":                        "{{template \"Join\" .}}",
		"/m/\x00+`=\t\n":               "&amp;&#34;",
	}}, "")
	// footer
	add("meta_footer", false, stack.Snapshot{}, "<p class=\"f\">made by 'me' & co</p>")
	add("meta_footer_unbalanced", true, stack.Snapshot{LocalGOROOT: "/x"}, "</table><div>\x00+<script>{{.}}")
	// everything at once
	add("meta_all", false, stack.Snapshot{LocalGOROOT: "/opt/go", RemoteGOROOT: "/usr/local/go", LocalGOPATHs: []string{"/g1", "/g2"},
		RemoteGOPATHs: map[string]string{"/rg": "/g1"}, LocalGomods: map[string]string{"/src/b": "b", "/src/a": "a"}}, "<hr>")
	// the example of Properties/C17c.v
	add("ex_page_hostile", false, stack.Snapshot{LocalGOROOT: "/l<i>", RemoteGOROOT: "\"><script>", LocalGOPATHs: []string{"<b>", "'&"},
		RemoteGOPATHs: map[string]string{"<x>": "<y>"}, LocalGomods: map[string]string{"</ul>": "<svg onload=1>", "'a'": "\"b\""}}, "<p>footer</p>")
	// long stacks: 51, 100, 120 frames, elided
	for _, n := range []int{51, 100, 120} {
		var calls []stack.Call
		for i := 0; i < n; i++ {
			c := mainCall
			if i%7 == 3 {
				c = hostileCall
			}
			c.Line = i
			calls = append(calls, c)
		}
		out = append(out, &sample{name: fmt.Sprintf("long_%d", n), buckets: []*stack.Bucket{
			{Signature: stack.Signature{State: "select", Stack: stack.Stack{Calls: calls, Elided: true}}, IDs: []int{1, 2}}}})
		out = append(out, &sample{name: fmt.Sprintf("long_g_%d", n), isG: true, goroutines: []*stack.Goroutine{
			{Signature: stack.Signature{State: "select", Stack: stack.Stack{Calls: calls, Elided: true}}, ID: 5, RaceAddr: 0x10, RaceWrite: true}}})
	}
	return out
}

// ---------------------------------------------------------------- random samples

var pool = []string{
	"", "", "a", "main", "x.go", hostile, "<script>alert(1)</script>", "\x00", "+", "a b", "\xff\xfe", "…", "*", "%zz%2F%",
	"/vendor/", "@", "#?", "\\`", "é", "\t\n", "javascript:alert(1)", "' onmouseover='x", "&amp;", "]]>", "-->",
}
var rels = []string{
	"", "github.com/u/r/f.go", "github.com/u/r@v1.2.3/d/f.go", "github.com/u/r@v0.0.0-20200223170610-d5e6a3e2c0ae/f.go",
	"github.com/u", "golang.org/x/sys/unix/f.go", "golang.org/x/sys@v0.31.0/unix/f.go", "golang.org/y/sys/f.go",
	"gopkg.in/yaml.v2@v2.4.0/f.go", "gopkg.in/yaml.v2@nover", "a/vendor/github.com/u/r/f.go", "sync/waitgroup.go",
}

func rstr(r *rand.Rand) string {
	n := r.Intn(4)
	if r.Intn(3) == 0 {
		n = 0
	}
	s := ""
	for i := 0; i < n; i++ {
		if r.Intn(4) == 0 {
			s += "/"
		}
		s += pool[r.Intn(len(pool))]
	}
	return s
}

func rint(r *rand.Rand) int {
	switch r.Intn(6) {
	case 0:
		return 0
	case 1:
		return -r.Intn(50)
	case 2:
		return r.Intn(1 << 30)
	default:
		return r.Intn(20)
	}
}

func ru64(r *rand.Rand) uint64 {
	switch r.Intn(5) {
	case 0:
		return 0
	case 1:
		return uint64(r.Intn(12))
	case 2:
		return r.Uint64()
	default:
		return uint64(r.Intn(1 << 20))
	}
}

func rargs(r *rand.Rand, depth int) stack.Args {
	a := stack.Args{Elided: r.Intn(3) == 0}
	for n := r.Intn(4); n > 0; n-- {
		a.Values = append(a.Values, rarg(r, depth))
	}
	if r.Intn(4) == 0 {
		for n := 1 + r.Intn(3); n > 0; n-- {
			a.Processed = append(a.Processed, rstr(r))
		}
	}
	return a
}

func rarg(r *rand.Rand, depth int) stack.Arg {
	a := stack.Arg{Value: ru64(r), IsPtr: r.Intn(2) == 0, IsInaccurate: r.Intn(5) == 0, IsOffsetTooLarge: r.Intn(6) == 0}
	if r.Intn(4) == 0 {
		a.Name = rstr(r)
	}
	if depth > 0 && r.Intn(3) == 0 {
		a.IsAggregate = true
		a.Fields = rargs(r, depth-1)
	}
	return a
}

func rcall(r *rand.Rand) stack.Call {
	c := stack.Call{
		Func:          fn(rstr(r), rstr(r), rstr(r), rstr(r), r.Intn(2) == 0, r.Intn(5) == 0),
		Args:          rargs(r, 2),
		RemoteSrcPath: rstr(r), Line: rint(r), SrcName: rstr(r), DirSrc: rstr(r),
		LocalSrcPath: rstr(r), ImportPath: rstr(r), Location: stack.Location(r.Intn(5)),
	}
	if r.Intn(2) == 0 {
		c.RelSrcPath = rels[r.Intn(len(rels))]
	} else {
		c.RelSrcPath = rstr(r)
	}
	if r.Intn(3) == 0 {
		c.LocalSrcPath = c.RemoteSrcPath
	}
	if r.Intn(4) == 0 {
		c.Func.Name = "(*T" + rstr(r) + ")." + rstr(r)
	}
	// KNOWN DEVIATION of Model/Html.v (symbol): reMethodSymbol's `.+` does not match a line
	// feed, the model's does. A Func.Name never contains a line feed (it is parsed out of
	// one line of the dump), so the random names avoid it.
	c.Func.Name = strings.ReplaceAll(c.Func.Name, "\n", "\r")
	return c
}

func rstack(r *rand.Rand, max int) stack.Stack {
	s := stack.Stack{Elided: r.Intn(4) == 0}
	for n := r.Intn(max + 1); n > 0; n-- {
		s.Calls = append(s.Calls, rcall(r))
	}
	return s
}

func rsig(r *rand.Rand) stack.Signature {
	s := stack.Signature{State: rstr(r), Locked: r.Intn(3) == 0, Stack: rstack(r, 3)}
	if r.Intn(40) == 0 {
		// a stack longer than what the runtime prints in one piece
		s.Stack = stack.Stack{Elided: r.Intn(4) != 0}
		for n := 51 + r.Intn(70); n > 0; n-- {
			s.Stack.Calls = append(s.Stack.Calls, rcall(r))
		}
	}
	if r.Intn(2) == 0 {
		s.CreatedBy = rstack(r, 2)
	}
	switch r.Intn(4) {
	case 0:
		s.SleepMin, s.SleepMax = rint(r), rint(r)
	case 1:
		s.SleepMax = 1 + r.Intn(100)
		s.SleepMin = s.SleepMax
	}
	return s
}

var footers = []string{"", "", "", "<hr>", "<p>generated by 'x' & \"y\"</p>", "</table></div><script>alert(1)</script>", "plain text + \x00 é", "{{.}}"}

func rpath(r *rand.Rand) string {
	switch r.Intn(4) {
	case 0:
		return rstr(r)
	case 1:
		return "/" + rstr(r)
	default:
		return []string{"/usr/local/go", "/home/u/go", "/src/app", "/opt/go", "C:\\go"}[r.Intn(5)] + "/" + pool[r.Intn(len(pool))]
	}
}

func rmap(r *rand.Rand, n int) map[string]string {
	if n == 0 {
		if r.Intn(2) == 0 {
			return nil
		}
		return map[string]string{}
	}
	m := map[string]string{}
	for len(m) < n {
		m[rpath(r)] = rstr(r)
	}
	return m
}

func rmeta(r *rand.Rand) stack.Snapshot {
	m := stack.Snapshot{}
	switch r.Intn(5) {
	case 0:
	case 1:
		m.RemoteGOROOT = rpath(r)
	case 2:
		m.LocalGOROOT = rpath(r)
	case 3:
		m.LocalGOROOT = rpath(r)
		m.RemoteGOROOT = m.LocalGOROOT
	default:
		m.LocalGOROOT, m.RemoteGOROOT = rpath(r), rpath(r)
	}
	for n := []int{0, 1, 1, 2, 3}[r.Intn(5)]; n > 0; n-- {
		m.LocalGOPATHs = append(m.LocalGOPATHs, rpath(r))
	}
	m.RemoteGOPATHs = rmap(r, []int{0, 0, 1, 2, 3}[r.Intn(5)])
	m.LocalGomods = rmap(r, []int{0, 0, 1, 2, 3, 4, 6}[r.Intn(7)])
	return m
}

func randomSamples(n int) []*sample {
	r := rand.New(rand.NewSource(20261002))
	var out []*sample
	for k := 0; k < n; k++ {
		s := &sample{name: fmt.Sprintf("rnd%02d", k), isG: k%3 == 2}
		s.meta = rmeta(r)
		s.footer = footers[r.Intn(len(footers))]
		cnt := r.Intn(3) + 1
		for i := 0; i < cnt; i++ {
			if s.isG {
				g := &stack.Goroutine{Signature: rsig(r), ID: rint(r), First: i == 0, RaceWrite: r.Intn(2) == 0}
				if r.Intn(2) == 0 {
					g.RaceAddr = ru64(r)
				}
				s.goroutines = append(s.goroutines, g)
			} else {
				b := &stack.Bucket{Signature: rsig(r), First: i == 0}
				for m := r.Intn(4); m > 0; m-- {
					b.IDs = append(b.IDs, rint(r))
				}
				s.buckets = append(s.buckets, b)
			}
		}
		out = append(out, s)
	}
	return out
}

// ---------------------------------------------------------------- Coq term printer

func cBytes(s string) string {
	if s == "" {
		return "[]"
	}
	plain := true
	for i := 0; i < len(s); i++ {
		if s[i] < 32 || s[i] > 126 {
			plain = false
		}
	}
	if plain {
		return `(s2b "` + strings.ReplaceAll(s, `"`, `""`) + `")`
	}
	return `(hx "` + hex.EncodeToString([]byte(s)) + `")`
}
func cBool(b bool) string {
	if b {
		return "true"
	}
	return "false"
}
func cZ(i int) string         { return "(" + strconv.Itoa(i) + ")%Z" }
func cN(u uint64) string      { return strconv.FormatUint(u, 10) + "%N" }
func cList(l []string) string { return "[" + strings.Join(l, "; ") + "]" }

func cArg(a *stack.Arg) string {
	return fmt.Sprintf("(MkArg %s %s %s %s %s %s %s %s %s)", cBool(a.IsAggregate), cBytes(a.Name), cN(a.Value), cBool(a.IsPtr),
		cBool(a.IsOffsetTooLarge), cBool(a.IsInaccurate), cArgList(a.Fields.Values), cStrList(a.Fields.Processed), cBool(a.Fields.Elided))
}
func cArgList(l []stack.Arg) string {
	var o []string
	for i := range l {
		o = append(o, cArg(&l[i]))
	}
	return cList(o)
}
func cStrList(l []string) string {
	var o []string
	for _, s := range l {
		o = append(o, cBytes(s))
	}
	return cList(o)
}
func cArgs(a *stack.Args) string {
	return fmt.Sprintf("(mkArgs %s %s %s)", cArgList(a.Values), cStrList(a.Processed), cBool(a.Elided))
}
func cFunc(f *stack.Func) string {
	return fmt.Sprintf("(mkFunc %s %s %s %s %s %s)", cBytes(f.Complete), cBytes(f.ImportPath), cBytes(f.DirName), cBytes(f.Name), cBool(f.IsExported), cBool(f.IsPkgMain))
}
func cCall(c *stack.Call) string {
	return fmt.Sprintf("(mkCall %s %s %s %s %s %s %s %s %s %s)", cFunc(&c.Func), cArgs(&c.Args), cBytes(c.RemoteSrcPath), cZ(c.Line),
		cBytes(c.SrcName), cBytes(c.DirSrc), cBytes(c.LocalSrcPath), cBytes(c.RelSrcPath), cBytes(c.ImportPath), c.Location.String())
}
func cStack(s *stack.Stack) string {
	var o []string
	for i := range s.Calls {
		o = append(o, "\n      "+cCall(&s.Calls[i]))
	}
	return fmt.Sprintf("(mkStack %s %s)", cList(o), cBool(s.Elided))
}
func cSig(s *stack.Signature) string {
	return fmt.Sprintf("(mkSig %s\n    %s %s %s\n    %s %s)", cBytes(s.State), cStack(&s.CreatedBy), cZ(s.SleepMin), cZ(s.SleepMax), cStack(&s.Stack), cBool(s.Locked))
}
func cBucket(b *stack.Bucket) string {
	var ids []string
	for _, i := range b.IDs {
		ids = append(ids, cZ(i))
	}
	return fmt.Sprintf("(mkBucket %s %s %s)", cSig(&b.Signature), cList(ids), cBool(b.First))
}
func cGoroutine(g *stack.Goroutine) string {
	return fmt.Sprintf("(mkGoroutine %s %s %s %s %s)", cSig(&g.Signature), cZ(g.ID), cBool(g.First), cBool(g.RaceWrite), cN(g.RaceAddr))
}

func cKV(m map[string]string) string {
	// Go's (random) iteration order on purpose: the model has to sort
	var o []string
	for k, v := range m {
		o = append(o, "("+cBytes(k)+", "+cBytes(v)+")")
	}
	return cList(o)
}
func cMeta(m *stack.Snapshot) string {
	return fmt.Sprintf("(mkSnapMeta %s %s %s %s %s)", cBytes(m.LocalGOROOT), cStrList(m.LocalGOPATHs), cBytes(m.RemoteGOROOT), cKV(m.RemoteGOPATHs), cKV(m.LocalGomods))
}

// long strings are cut into pieces: a Coq string literal is a term as deep as it is long
func cHex(s string) string {
	const step = 2000
	var o []string
	for i := 0; i < len(s); i += step {
		o = append(o, `hx "`+hex.EncodeToString([]byte(s[i:min(len(s), i+step)]))+`"`)
	}
	if len(o) == 0 {
		return "[]"
	}
	return "List.concat [" + strings.Join(o, ";\n  ") + "]"
}

const coqCommon = `(* GENERATED by notes/htmldoc-validation/main.go gen — do not edit. *)
From PP Require Import Base.Bytes Base.BytesX Base.Num Model.Types Model.Html Model.UI Model.HtmlDoc Model.HtmlPage.

Definition hv (a : ascii) : N := let n := N_of_ascii a in if N.leb 97 n then (n - 87)%%N else (n - 48)%%N.
Fixpoint hx (s : string) : bytes :=
  match s with String a (String b r) => (hv a * 16 + hv b)%%N :: hx r | _ => [] end.

(* None when equal, otherwise the first differing offset and 40 bytes of each side from there *)
Fixpoint first_diff (i : nat) (a b : bytes) : option (nat * bytes * bytes) :=
  match a, b with
  | [], [] => None
  | x :: a', y :: b' => if N.eqb x y then first_diff (S i) a' b' else Some (i, firstn 40 a, firstn 40 b)
  | _, _ => Some (i, firstn 40 a, firstn 40 b)
  end.

Definition ver : bytes := (s2b %q).
Definition maxprocs : Z := (%d)%%Z.
`

func gen(samples []*sample, nfiles int) {
	cf, err := os.Create("samples_common.v")
	if err != nil {
		panic(err)
	}
	fmt.Fprintf(cf, coqCommon, runtime.Version(), runtime.GOMAXPROCS(0))
	cf.Close()
	old, _ := filepath.Glob("samples_[0-9]*.v")
	for _, o := range old {
		os.Remove(o)
	}
	var fs []*os.File
	for k := 0; k < nfiles; k++ {
		f, err := os.Create(fmt.Sprintf("samples_%d.v", k))
		if err != nil {
			panic(err)
		}
		defer f.Close()
		fmt.Fprintf(f, "(* GENERATED by notes/htmldoc-validation/main.go gen — do not edit. *)\nFrom PP Require Import Base.Bytes Base.BytesX Base.Num Model.Types Model.Html Model.UI Model.HtmlDoc Model.HtmlPage.\nFrom HD Require Import samples_common.\n\n")
		fs = append(fs, f)
	}
	for i, s := range samples {
		f := fs[i%nfiles]
		doc := render(s)
		reg := region(doc)
		kind, typ := "buckets", "Bucket"
		var o []string
		if s.isG {
			kind, typ = "goroutines", "Goroutine"
			for _, g := range s.goroutines {
				o = append(o, "\n  "+cGoroutine(g))
			}
		} else {
			for _, b := range s.buckets {
				o = append(o, "\n  "+cBucket(b))
			}
		}
		fmt.Fprintf(f, "Definition in_%s : list %s := %s.\n", s.name, typ, cList(o))
		fmt.Fprintf(f, "Definition meta_%s : snap_meta := %s.\n", s.name, cMeta(&s.meta))
		fmt.Fprintf(f, "Definition env_%s : page_env := mkPageEnv ver %s maxprocs %s.\n", s.name, cBytes(s.now), cBytes(s.footer))
		fmt.Fprintf(f, "Definition exp_%s : bytes := %s.\n", s.name, cHex(doc))
		fmt.Fprintf(f, "Definition expr_%s : bytes := %s.\n", s.name, cHex(reg))
		fmt.Fprintf(f, "Eval vm_compute in (\"page\"%%string, \"%s\"%%string, first_diff 0 (render_page_%s env_%s meta_%s in_%s) exp_%s).\n", s.name, kind, s.name, s.name, s.name, s.name)
		fmt.Fprintf(f, "Eval vm_compute in (\"region\"%%string, \"%s\"%%string, first_diff 0 (render_content_%s ver in_%s) expr_%s).\n\n", s.name, kind, s.name, s.name)
	}
	fmt.Fprintf(os.Stderr, "wrote samples_common.v and %d files: %d samples\n", nfiles, len(samples))
}

// what html/template does with every byte in every hole of the trailer (text nodes), in the favicon
// position (not reachable: the favicon is a constant) and in the footer
func probe() {
	cut := func(doc, a, b string) string {
		i := strings.Index(doc, a)
		if i < 0 {
			return "?"
		}
		j := strings.Index(doc[i+len(a):], b)
		if j < 0 {
			return "?"
		}
		return doc[i+len(a) : i+len(a)+j]
	}
	// exact per-byte table: one rendering per byte, all holes at once
	fmt.Println("per-byte table (only bytes that are changed in at least one hole):")
	for i := 0; i < 256; i++ {
		b := string([]byte{byte(i)})
		s1 := &sample{meta: stack.Snapshot{RemoteGOROOT: "R" + b + "R", LocalGOROOT: "L" + b + "L", LocalGOPATHs: []string{"P" + b + "P"},
			LocalGomods: map[string]string{"K" + b + "K": "V" + b + "V"}}, footer: "F" + b + "F"}
		d := render(s1)
		outs := []string{cut(d, "GOROOT (remote): R", "R</li>"), cut(d, "GOROOT (local): L", "L</li>"), cut(d, "GOPATH: P", "P</li>"),
			cut(d, "<li>K", "K: V"), cut(d, "K: V", "V</li>"), cut(d, "</table>F", "F<div class")}
		changed := false
		for _, o := range outs {
			if o != b {
				changed = true
			}
		}
		if changed {
			fmt.Printf("  0x%02x  rgoroot=%q lgoroot=%q gopath=%q modkey=%q modval=%q footer=%q\n", i, outs[0], outs[1], outs[2], outs[3], outs[4], outs[5])
		}
	}
}

func nilsnap() {
	a := &stack.Aggregated{Buckets: []*stack.Bucket{{Signature: stack.Signature{State: "running"}, IDs: []int{1}}}}
	var buf bytes.Buffer
	err := a.ToHTML(&buf, "")
	fmt.Printf("Aggregated{Snapshot: nil}.ToHTML: err=%v, %d bytes written, ends with %q\n", err, buf.Len(), buf.String()[max(0, buf.Len()-60):])
}

func main() {
	log.SetOutput(io.Discard) // html.go logs "problematic ... URL"
	mode := "hex"
	if len(os.Args) > 1 {
		mode = os.Args[1]
	}
	n, nfiles := 60, 8
	if mode == "gen" && len(os.Args) > 2 {
		n, _ = strconv.Atoi(os.Args[2])
	}
	if mode == "gen" && len(os.Args) > 3 {
		nfiles, _ = strconv.Atoi(os.Args[3])
	}
	samples := append(handMade(), randomSamples(n)...)
	switch mode {
	case "gen":
		gen(samples, nfiles)
	case "hex":
		for _, s := range samples {
			fmt.Printf("%s %s\n", s.name, hex.EncodeToString([]byte(render(s))))
		}
	case "show":
		for _, s := range samples {
			if s.name == os.Args[2] {
				fmt.Println(render(s))
			}
		}
	case "probe":
		probe()
	case "nilsnap":
		nilsnap()
	default:
		fmt.Fprintln(os.Stderr, "usage: gen [n] [nfiles] | hex | show <name> | probe | nilsnap")
		os.Exit(2)
	}
}
