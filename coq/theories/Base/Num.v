(* Base/Num.v — number parsing and printing: atou (stack/context.go:1162),
   strconv.ParseUint(s, 0, 64) (Go 1.23 strconv/atoi.go, incl. underscoreOK),
   decimal and hexadecimal printing (strconv.FormatUint, fmt %d %x %08x %08X). *)
From PP Require Import Base.Bytes.

Local Open Scope N_scope.

(* ---- printing ---- *)
Fixpoint dec_go (fuel : nat) (n : N) (acc : bytes) : bytes :=
  match fuel with
  | O => acc
  | S f => let d := 48 + n mod 10 in
           if n <? 10 then d :: acc else dec_go f (n / 10) (d :: acc)
  end.
Definition N_to_dec (n : N) : bytes := dec_go (S (N.size_nat n)) n [].
Definition Z_to_dec (z : Z) : bytes :=
  match z with
  | Zneg p => 45 :: N_to_dec (Npos p)
  | _ => N_to_dec (Z.to_N z)
  end.

Definition hex_digit (upper : bool) (d : N) : N :=
  if d <? 10 then 48 + d else (if upper then 55 else 87) + d.
Fixpoint hex_go (upper : bool) (fuel : nat) (n : N) (acc : bytes) : bytes :=
  match fuel with
  | O => acc
  | S f => let d := hex_digit upper (n mod 16) in
           if n <? 16 then d :: acc else hex_go upper f (n / 16) (d :: acc)
  end.
Definition N_to_hex (upper : bool) (n : N) : bytes := hex_go upper (S (N.size_nat n)) n [].
(* %08x / %08X: left-pad with '0' to 8 digits *)
Definition N_to_hex08 (upper : bool) (n : N) : bytes :=
  let h := N_to_hex upper n in repeat 48 (8 - List.length h) ++ h.

(* ---- atou ---- *)
Fixpoint atou_go (s : bytes) (n : N) : option N :=
  match s with
  | [] => Some n
  | ch :: s' => if is_digit ch then atou_go s' (n * 10 + (ch - 48)) else None
  end.
(* 64-bit: 0 < len(s) < 19 *)
Definition atou (s : bytes) : option N :=
  let l := List.length s in
  if Nat.ltb 0 l && Nat.ltb l 19 then atou_go s 0 else None.

(* ---- strconv.ParseUint(s, 0, 64) ---- *)
Definition lower (c : N) : N := N.lor c 32.

Definition max_uint64 : N := 18446744073709551615.

(* the digit loop; [base0] is always true here (base argument 0) *)
Fixpoint pu_loop (base : N) (s : bytes) (n : N) (underscores : bool) : option (N * bool) :=
  match s with
  | [] => Some (n, underscores)
  | c :: s' =>
      if c =? 95 then pu_loop base s' n true else
      let d := if is_digit c then Some (c - 48)
               else if (97 <=? lower c) && (lower c <=? 122) then Some (lower c - 97 + 10)
               else None in
      match d with
      | None => None
      | Some d =>
          if base <=? d then None else
          let n1 := n * base + d in
          if max_uint64 <? n1 then None else pu_loop base s' n1 underscores
      end
  end.

(* underscoreOK without the optional sign (a sign is rejected by the digit
   loop before underscoreOK is consulted) *)
Inductive uo_last := UoStart | UoDigit | UoUnder | UoOther.
Fixpoint uo_loop (hex : bool) (s : bytes) (i : uo_last) : bool :=
  match s with
  | [] => match i with UoUnder => false | _ => true end
  | c :: s' =>
      if is_digit c || (hex && (97 <=? lower c) && (lower c <=? 102)) then uo_loop hex s' UoDigit
      else if c =? 95 then
        match i with UoDigit => uo_loop hex s' UoUnder | _ => false end
      else match i with UoUnder => false | _ => uo_loop hex s' UoOther end
  end.
Definition underscore_ok (s : bytes) : bool :=
  match s with
  | c0 :: c1 :: s' =>
      if (c0 =? 48) && ((lower c1 =? 98) || (lower c1 =? 111) || (lower c1 =? 120))
      then uo_loop (lower c1 =? 120) s' UoDigit
      else uo_loop false s UoStart
  | _ => uo_loop false s UoStart
  end.

Definition parse_uint (s0 : bytes) : option N :=
  match s0 with
  | [] => None
  | c0 :: rest =>
      let '(base, s) :=
        if c0 =? 48 then
          match rest with
          | c1 :: ((_ :: _) as r2) =>
              if lower c1 =? 98 then (2, r2) else
              if lower c1 =? 111 then (8, r2) else
              if lower c1 =? 120 then (16, r2) else (8, rest)
          | _ => (8, rest)
          end
        else (10, s0) in
      match pu_loop base s 0 false with
      | None => None
      | Some (n, us) => if us && negb (underscore_ok s0) then None else Some n
      end
  end.
