(* Proofs/RoundTripNum.v — C01, numbers: what N_to_dec / N_to_hex print is
   read back by atou / ParseUint(s, 0, 64). *)
From PP Require Import Base.Bytes Base.BytesX Base.Num Spec.Printer.

Local Open Scope N_scope.

(* ------------------------------------------------------------------ *)
(* fuel: n < 2 ^ size_nat n                                            *)

Lemma pos_size_nat_bound : forall p, N.pos p < 2 ^ N.of_nat (Pos.size_nat p).
Proof.
  induction p as [p IH|p IH|]; cbn [Pos.size_nat].
  - rewrite Nat2N.inj_succ, N.pow_succ_r'. lia.
  - rewrite Nat2N.inj_succ, N.pow_succ_r'. lia.
  - reflexivity.
Qed.

Lemma size_nat_bound : forall n, n < 2 ^ N.of_nat (N.size_nat n).
Proof. intros [|p]; [reflexivity|apply pos_size_nat_bound]. Qed.

Lemma div_fuel : forall f n k, 2 <= k -> k <= n -> n < 2 ^ N.of_nat f ->
  exists f', f = S f' /\ n / k < 2 ^ N.of_nat f'.
Proof.
  intros f n k Hk Hn Hf. destruct f as [|f'].
  - cbn in Hf. lia.
  - exists f'. split; [reflexivity|].
    rewrite Nat2N.inj_succ, N.pow_succ_r' in Hf.
    apply N.div_lt_upper_bound; [lia|].
    apply N.lt_le_trans with (2 * 2 ^ N.of_nat f'); [exact Hf|].
    apply N.mul_le_mono_r. exact Hk.
Qed.

(* ------------------------------------------------------------------ *)
(* decimal                                                             *)

Lemma dec_go_S : forall f n acc,
  dec_go (S f) n acc =
  if n <? 10 then (48 + n mod 10) :: acc else dec_go f (n / 10) ((48 + n mod 10) :: acc).
Proof. reflexivity. Qed.

Lemma is_digit_48 : forall d, d < 10 -> is_digit (48 + d) = true.
Proof.
  intros d Hd. unfold is_digit. apply andb_true_iff. split; apply N.leb_le; lia.
Qed.

(* the printed digits, in front of [acc] *)
Lemma dec_go_spec : forall f n acc, n < 2 ^ N.of_nat f ->
  exists ds m,
    dec_go (S f) n acc = ds ++ acc /\ ds <> [] /\ forallb is_digit ds = true /\
    (forall k, n < 10 ^ N.of_nat (S k) -> (List.length ds <= S k)%nat) /\
    (forall a rest, atou_go (ds ++ rest) a = atou_go rest (a * m + n)).
Proof.
  induction f as [|f IH]; intros n acc Hf.
  - cbn in Hf. assert (n = 0) by lia. subst n.
    exists [48], 10. split; [reflexivity|]. split; [discriminate|]. split; [reflexivity|].
    split; [intros k _; cbn; lia|]. intros a rest. cbn [app atou_go].
    change (is_digit 48) with true. cbv iota. f_equal.
  - rewrite dec_go_S. destruct (n <? 10) eqn:Hn.
    + apply N.ltb_lt in Hn. rewrite N.mod_small by exact Hn.
      exists [48 + n], 10. split; [reflexivity|]. split; [discriminate|].
      split; [cbn [forallb]; rewrite is_digit_48 by exact Hn; reflexivity|].
      split; [intros k _; cbn; lia|]. intros a rest. cbn [app atou_go].
      rewrite is_digit_48 by exact Hn. f_equal. lia.
    + apply N.ltb_ge in Hn.
      destruct (div_fuel (S f) n 10 ltac:(lia) Hn Hf) as (f' & Ef & Hf'). injection Ef as <-.
      assert (Hm : n mod 10 < 10) by (apply N.mod_lt; lia).
      destruct (IH (n / 10) ((48 + n mod 10) :: acc) Hf') as (ds & m & E & Hne & Hd & Hlen & Hat).
      destruct f as [|f0].
      { cbn in Hf'. assert (n / 10 = 0) by lia.
        assert (n < 10) by (apply N.div_small_iff in H; lia). lia. }
      exists (ds ++ [48 + n mod 10]), (m * 10).
      split; [rewrite E, <- app_assoc; reflexivity|].
      split; [intros C; apply app_eq_nil in C; destruct C; discriminate|].
      split; [rewrite forallb_app, Hd; cbn [forallb]; rewrite is_digit_48 by exact Hm; reflexivity|].
      split.
      * intros k Hk. rewrite app_length. cbn [List.length].
        destruct k as [|k].
        { change (10 ^ N.of_nat 1) with 10 in Hk. lia. }
        assert (Hq : n / 10 < 10 ^ N.of_nat (S k)).
        { apply N.div_lt_upper_bound; [lia|].
          rewrite (Nat2N.inj_succ (S k)), N.pow_succ_r' in Hk. exact Hk. }
        specialize (Hlen k Hq). lia.
      * intros a rest. rewrite <- app_assoc, Hat. cbn [app atou_go].
        rewrite is_digit_48 by exact Hm. f_equal.
        pose proof (N.div_mod n 10 ltac:(lia)) as Hdm. remember (n / 10) as q. remember (n mod 10) as r. clear - Hdm. nia.
Qed.

Lemma N_to_dec_spec : forall n,
  exists m,
    N_to_dec n <> [] /\ forallb is_digit (N_to_dec n) = true /\
    (forall k, n < 10 ^ N.of_nat (S k) -> (List.length (N_to_dec n) <= S k)%nat) /\
    (forall a rest, atou_go (N_to_dec n ++ rest) a = atou_go rest (a * m + n)).
Proof.
  intros n. unfold N_to_dec.
  destruct (dec_go_spec (N.size_nat n) n [] (size_nat_bound n)) as (ds & m & E & Hne & Hd & Hlen & Hat).
  rewrite app_nil_r in E. rewrite E. exists m. tauto.
Qed.

Lemma N_to_dec_nonempty : forall n, N_to_dec n <> [].
Proof. intros n. destruct (N_to_dec_spec n) as (m & H & _). exact H. Qed.

Lemma N_to_dec_digits : forall n, forallb is_digit (N_to_dec n) = true.
Proof. intros n. destruct (N_to_dec_spec n) as (m & _ & H & _). exact H. Qed.

(* (a) decimal numbers below 10^18 are read back by atou *)
Theorem atou_N_to_dec : forall n, n < dec_limit -> atou (N_to_dec n) = Some n.
Proof.
  intros n Hn. destruct (N_to_dec_spec n) as (m & Hne & _ & Hlen & Hat).
  unfold atou.
  assert (Hl : (List.length (N_to_dec n) <= 18)%nat) by (apply (Hlen 17%nat); exact Hn).
  assert (Hp : (0 < List.length (N_to_dec n))%nat).
  { destruct (N_to_dec n); [congruence|cbn; lia]. }
  replace (Nat.ltb 0 (List.length (N_to_dec n))) with true by (symmetry; apply Nat.ltb_lt; exact Hp).
  replace (Nat.ltb (List.length (N_to_dec n)) 19) with true by (symmetry; apply Nat.ltb_lt; lia).
  cbn [andb]. specialize (Hat 0 []). rewrite app_nil_r in Hat. rewrite Hat. reflexivity.
Qed.

Corollary atou_N_to_dec_wf : forall n, wf_num n = true -> atou (N_to_dec n) = Some n.
Proof. intros n H. apply atou_N_to_dec. unfold wf_num in H. apply N.ltb_lt. exact H. Qed.

(* ------------------------------------------------------------------ *)
(* hexadecimal                                                         *)

Lemma hex_go_S : forall u f n acc,
  hex_go u (S f) n acc =
  if n <? 16 then hex_digit u (n mod 16) :: acc else hex_go u f (n / 16) (hex_digit u (n mod 16) :: acc).
Proof. reflexivity. Qed.

Lemma lt16_cases : forall d, d < 16 ->
  d = 0 \/ d = 1 \/ d = 2 \/ d = 3 \/ d = 4 \/ d = 5 \/ d = 6 \/ d = 7 \/ d = 8 \/ d = 9 \/
  d = 10 \/ d = 11 \/ d = 12 \/ d = 13 \/ d = 14 \/ d = 15.
Proof. intros d H. lia. Qed.

Ltac each16 H :=
  repeat (destruct H as [H|H]; [subst; reflexivity|]); subst; reflexivity.

Lemma hexd_lower : forall d, d < 16 -> is_lower_hex (hexd d) = true.
Proof. intros d H. apply lt16_cases in H. each16 H. Qed.

Lemma hexd_is_hex : forall d, d < 16 -> is_hex (hexd d) = true.
Proof. intros d H. apply lt16_cases in H. each16 H. Qed.

Lemma hexd_hexval : forall d, d < 16 -> hexval (hexd d) = d.
Proof. intros d H. apply lt16_cases in H. each16 H. Qed.

(* one step of the ParseUint digit loop on a printed hex digit *)
Lemma pu_loop_hexd : forall d s n us, d < 16 ->
  pu_loop 16 (hexd d :: s) n us =
  if max_uint64 <? n * 16 + d then None else pu_loop 16 s (n * 16 + d) us.
Proof.
  intros d s n us H. apply lt16_cases in H.
  repeat (destruct H as [H|H]; [subst; reflexivity|]). subst. reflexivity.
Qed.

Lemma hex_go_spec : forall f n acc, n < 2 ^ N.of_nat f ->
  exists ds m,
    hex_go false (S f) n acc = ds ++ acc /\ ds <> [] /\ forallb is_lower_hex ds = true /\
    (forall a rest us, a * m + n <= max_uint64 ->
       pu_loop 16 (ds ++ rest) a us = pu_loop 16 rest (a * m + n) us).
Proof.
  induction f as [|f IH]; intros n acc Hf.
  - cbn in Hf. assert (n = 0) by lia. subst n.
    exists [hexd 0], 16. split; [reflexivity|]. split; [discriminate|]. split; [reflexivity|].
    intros a rest us Ha. cbn [app]. rewrite pu_loop_hexd by lia.
    replace (max_uint64 <? a * 16 + 0) with false by (symmetry; apply N.ltb_ge; lia). reflexivity.
  - rewrite hex_go_S. fold (hexd (n mod 16)). destruct (n <? 16) eqn:Hn.
    + apply N.ltb_lt in Hn. rewrite N.mod_small by exact Hn.
      exists [hexd n], 16. split; [reflexivity|]. split; [discriminate|].
      split; [cbn [forallb]; rewrite hexd_lower by exact Hn; reflexivity|].
      intros a rest us Ha. cbn [app]. rewrite pu_loop_hexd by exact Hn.
      replace (max_uint64 <? a * 16 + n) with false by (symmetry; apply N.ltb_ge; lia). reflexivity.
    + apply N.ltb_ge in Hn.
      destruct (div_fuel (S f) n 16 ltac:(lia) Hn Hf) as (f' & Ef & Hf'). injection Ef as <-.
      assert (Hm : n mod 16 < 16) by (apply N.mod_lt; lia).
      destruct (IH (n / 16) (hexd (n mod 16) :: acc) Hf') as (ds & m & E & Hne & Hd & Hpu).
      destruct f as [|f0].
      { cbn in Hf'. assert (n / 16 = 0) by lia.
        assert (n < 16) by (apply N.div_small_iff in H; lia). lia. }
      exists (ds ++ [hexd (n mod 16)]), (m * 16).
      split; [rewrite E, <- app_assoc; reflexivity|].
      split; [intros C; apply app_eq_nil in C; destruct C; discriminate|].
      split; [rewrite forallb_app, Hd; cbn [forallb]; rewrite hexd_lower by exact Hm; reflexivity|].
      intros a rest us Ha.
      pose proof (N.div_mod n 16 ltac:(lia)) as Hdm.
      remember (n / 16) as q. remember (n mod 16) as r.
      assert (H1 : a * m + q <= max_uint64) by (clear - Ha Hdm; nia).
      assert (H2 : (a * m + q) * 16 + r = a * (m * 16) + n) by (clear - Hdm; nia).
      rewrite <- app_assoc, Hpu by exact H1. cbn [app]. rewrite pu_loop_hexd by exact Hm.
      rewrite H2.
      replace (max_uint64 <? a * (m * 16) + n) with false by (symmetry; apply N.ltb_ge; exact Ha).
      reflexivity.
Qed.

Lemma N_to_hex_spec : forall n,
  exists m,
    N_to_hex false n <> [] /\ forallb is_lower_hex (N_to_hex false n) = true /\
    (forall a rest us, a * m + n <= max_uint64 ->
       pu_loop 16 (N_to_hex false n ++ rest) a us = pu_loop 16 rest (a * m + n) us).
Proof.
  intros n. unfold N_to_hex.
  destruct (hex_go_spec (N.size_nat n) n [] (size_nat_bound n)) as (ds & m & E & Hne & Hd & Hpu).
  rewrite app_nil_r in E. rewrite E. exists m. tauto.
Qed.

Lemma N_to_hex_nonempty : forall n, N_to_hex false n <> [].
Proof. intros n. destruct (N_to_hex_spec n) as (m & H & _). exact H. Qed.

Lemma N_to_hex_lower : forall n, forallb is_lower_hex (N_to_hex false n) = true.
Proof. intros n. destruct (N_to_hex_spec n) as (m & _ & H & _). exact H. Qed.

(* (a) "0x" ++ lower-case hex of a uint64 is read back by ParseUint(s, 0, 64) *)
Theorem parse_uint_hex0x : forall v, v < 18446744073709551616 -> parse_uint (hex0x v) = Some v.
Proof.
  intros v Hv. destruct (N_to_hex_spec v) as (m & Hne & _ & Hpu).
  unfold hex0x. destruct (N_to_hex false v) as [|h t] eqn:E; [congruence|].
  change (s2b "0x" ++ h :: t) with (48 :: 120 :: h :: t).
  unfold parse_uint.
  change (48 =? 48) with true. cbv iota.
  change (lower 120 =? 98) with false. change (lower 120 =? 111) with false.
  change (lower 120 =? 120) with true. cbv iota.
  specialize (Hpu 0 [] false). rewrite app_nil_r in Hpu.
  rewrite Hpu by (unfold max_uint64; lia). cbn [pu_loop N.mul N.add andb]. reflexivity.
Qed.
