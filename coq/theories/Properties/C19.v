(* Properties/C19.v — Source-based argument augmentation renders the words of
   a -N -l traceback truthfully, never panics and never touches the values.
   Statements only. *)
From PP Require Import Base.Bytes Base.BytesX Base.Num Base.GoResult Model.Types Model.UI Model.Augment Spec.Abi.
From PP Require Import Proofs.AugmentProofs.
From Coq Require Import String.

(* two's complement: reading back a sign-converted, zero-extended word *)
Theorem C19_signed_of_zext : forall b z, (0 < b)%N ->
  (- 2 ^ (Z.of_N b - 1) <= z < 2 ^ (Z.of_N b - 1))%Z -> signed b (zext b z) = z.
Proof. exact AugmentProofs.signed_of_zext. Qed.
Print Assumptions C19_signed_of_zext.

(* whatever the element / key texts are, a parameter's type name selects the
   branch of the switch that consumes exactly the words the parameter occupies *)
Theorem C19_type_name_class : forall f32 f64 vals i p flat,
  snd (augment_one f32 f64 vals i (type_name p) flat) = skipn (List.length (encode p)) flat.
Proof. exact AugmentProofs.type_name_class. Qed.
Print Assumptions C19_type_name_class.

(* known types, matching arity: every parameter is shown with its true value *)
Theorem C19_truthful : forall f32 f64 isptr ps,
  forallb wf_param ps = true ->
  augment_call f32 f64 (map type_name ps) false (args_of_words isptr (flat_map encode ps)) =
  Ok (map (show f32 f64) ps).
Proof. exact AugmentProofs.truthful. Qed.
Print Assumptions C19_truthful.

(* a method with a pointer receiver: the receiver is the first word *)
Theorem C19_truthful_ptr_receiver : forall f32 f64 isptr T recv ps,
  word_ok recv = true -> forallb wf_param ps = true ->
  augment_call f32 f64 ((s2b "*" ++ T) :: map type_name ps) false
               (args_of_words isptr (recv :: flat_map encode ps)) =
  Ok (((s2b "*" ++ T) ++ s2b "(" ++ hex0x recv ++ s2b ")") :: map (show f32 f64) ps).
Proof. exact AugmentProofs.truthful_ptr_receiver. Qed.
Print Assumptions C19_truthful_ptr_receiver.

(* no run-time panic, for ALL inputs (any types, wrong arity, aggregates,
   too-large offsets, named pointers), given that a variadic function has at
   least one parameter (extractArgumentsType: ellipsis comes from the last
   field, so there is one) *)
Theorem C19_total : forall f32 f64 types extra a,
  (extra = true -> types <> []) -> exists r, augment_call f32 f64 types extra a = Ok r.
Proof. exact AugmentProofs.total. Qed.
Print Assumptions C19_total.

(* the excluded corner does panic in the model (types[len(types)-1], len 0) *)
Theorem C19_extra_empty_panics : forall f32 f64 a,
  args_leaves a <> [] -> augment_call f32 f64 [] true a = Panic "index out of range [-1]".
Proof. exact AugmentProofs.extra_empty_panics. Qed.
Print Assumptions C19_extra_empty_panics.

(* any arity mismatch: Ok, what was processed before is kept, and at most one
   entry per leaf word and per top-level value is added.  (Values are not
   returned at all: untouched by construction.) *)
Theorem C19_arity_mismatch_harmless : forall f32 f64 types extra a,
  (extra = true -> types <> []) ->
  exists more, augment_call f32 f64 types extra a = Ok (Processed a ++ more) /\
               List.length more <= List.length (args_leaves a) + List.length (Values a).
Proof. exact AugmentProofs.arity_mismatch_harmless. Qed.
Print Assumptions C19_arity_mismatch_harmless.

(* words beyond the declared parameters of a non-variadic function are shown raw *)
Theorem C19_extra_words_rendered_raw : forall f32 f64 isptr ps ws,
  forallb wf_param ps = true ->
  augment_call f32 f64 (map type_name ps) false (args_of_words isptr (flat_map encode ps ++ ws)) =
  Ok (map (show f32 f64) ps ++ map raw_word ws).
Proof. exact AugmentProofs.extra_words_rendered_raw. Qed.
Print Assumptions C19_extra_words_rendered_raw.

(* loop level, for arbitrary leaves (names, too-large): past the declared types, popName *)
Theorem C19_past_types_raw : forall f32 f64 flat fuel types vals i acc,
  List.length types <= i -> List.length flat <= fuel ->
  augment_loop f32 f64 fuel types false vals i flat acc = Ok (acc ++ map raw_arg flat).
Proof. exact AugmentProofs.aloop_raw. Qed.
Print Assumptions C19_past_types_raw.

Theorem C19_untyped_rendered_raw : forall f32 f64 a,
  augment_call f32 f64 [] false a = Ok (Processed a ++ map raw_arg (args_leaves a)).
Proof. exact AugmentProofs.untyped_rendered_raw. Qed.
Print Assumptions C19_untyped_rendered_raw.

(* ---- examples ---- *)
Definition ex_f (_ : N) : bytes := s2b "<float>".
Definition ex_isptr (v : N) : bool := N.leb 8388608 v.
Definition ex_call types extra ws := augment_call ex_f ex_f (map s2b types) extra (args_of_words ex_isptr ws).

(* func f(m map[int]int, a, b int): formerly the map was taken for an interface (2 words) *)
Example C19_ex_map :
  ex_call ["map[int]int"; "int"; "int"]%string false [824633802752; 7; 8]%N =
  Ok (map s2b ["map[int]int(0xc000014000)"; "7"; "8"]%string).
Proof. vm_compute. reflexivity. Qed.

Example C19_ex_int8 : ex_call ["int8"; "int16"; "int"; "uint8"]%string false [251; 65535; 18446744073709551615; 251]%N =
  Ok (map s2b ["-5"; "-1"; "-1"; "251"]%string).
Proof. vm_compute. reflexivity. Qed.

Example C19_ex_string_slice :
  ex_call ["string"; "[]byte"; "bool"; "*T"; "func"; "chan int"]%string false
          [4921345; 5; 824633802752; 3; 16; 1; 824633802760; 4921000; 824633802768]%N =
  Ok (map s2b ["string(0x4b1801, len=5)"; "[]byte(0xc000014000 len=3 cap=16)"; "true";
               "*T(0xc000014008)"; "func(0x4b16a8)"; "chan int(0xc000014010)"]%string).
Proof. vm_compute. reflexivity. Qed.

(* the same through the specification *)
Example C19_ex_spec :
  let ps := [PMap (s2b "int]int") 824633802752; PInt IWord 7; PInt I8 (-5); PString 4921345 5] in
  forallb wf_param ps = true /\
  flat_map encode ps = [824633802752; 7; 251; 4921345; 5]%N /\
  map (show ex_f ex_f) ps = map s2b ["map[int]int(0xc000014000)"; "7"; "-5"; "string(0x4b1801, len=5)"]%string.
Proof. vm_compute. repeat split; reflexivity. Qed.

(* variadic: the last type is reused; too few words: "<nil>"; interface fallback eats two words *)
Example C19_ex_variadic : ex_call ["string"; "int"]%string true [4921345; 2; 1; 2; 3]%N =
  Ok (map s2b ["string(0x4b1801, len=2)"; "1"; "2"; "3"]%string).
Proof. vm_compute. reflexivity. Qed.
Example C19_ex_short : ex_call ["int"; "[]int"]%string false [1; 824633802752]%N =
  Ok (map s2b ["1"; "[]int(0xc000014000 len=<nil> cap=<nil>)"]%string).
Proof. vm_compute. reflexivity. Qed.
Example C19_ex_iface : ex_call ["error"; "int"]%string false [4921345; 824633802752; 9]%N =
  Ok (map s2b ["error(0x4b1801)"; "9"]%string).
Proof. vm_compute. reflexivity. Qed.

(* an aggregate argument (struct printed as {..}) with a declared struct type *)
Example C19_ex_aggregate :
  augment_call ex_f ex_f [s2b "T"; s2b "int"] false
    (mkArgs [MkArg true [] 0 false false false
               [word_arg ex_isptr 1; MkArg false [] 0 false true false [] [] false] [] true;
             word_arg ex_isptr 7] [] false) =
  Ok (map s2b ["T{0x1, _, ...}"; "7"]%string).
Proof. vm_compute. reflexivity. Qed.
