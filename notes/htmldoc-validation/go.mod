module htmldoc

go 1.23.0

toolchain go1.23.5

require github.com/maruel/panicparse/v2 v2.0.0

replace github.com/maruel/panicparse/v2 => /repo
