(* driver.ml — the model side of the correspondence check.  Reads the lines
   written by harness/cmd/vh (op, id, inputs, implementation outputs), runs the
   extracted Coq model (Model) on the inputs, compares the implementation's
   observables with the model's, evaluates the extracted property predicates on
   the implementation's output, and prints one line per case:
     id <TAB> OK|FAIL <TAB> comma-separated flags <TAB> tags <TAB> detail
   flags: corr:<projection> (model and implementation differ on that
   projection), prop:<Cnn>[:<what>] (the property predicate is false on the
   implementation's output), impl:panic. *)

module M = Model

(* ---------- numbers ---------- *)
let rec pos_of_int (i : int) : M.positive =
  if i = 1 then M.XH
  else if i land 1 = 0 then M.XO (pos_of_int (i lsr 1))
  else M.XI (pos_of_int (i lsr 1))
let n_of_int (i : int) : M.n = if i = 0 then M.N0 else M.Npos (pos_of_int i)
let rec int_of_pos = function
  | M.XH -> 1 | M.XO p -> 2 * int_of_pos p | M.XI p -> 2 * int_of_pos p + 1
let int_of_n = function M.N0 -> 0 | M.Npos p -> int_of_pos p
let rec nat_of_int (i : int) : M.nat = if i <= 0 then M.O else M.S (nat_of_int (i - 1))
let rec int_of_nat = function M.O -> 0 | M.S n -> 1 + int_of_nat n

let byte_tab : M.n array = Array.init 256 n_of_int
let ten = n_of_int 10

let n_of_dec (s : string) : M.n =
  let r = ref M.N0 in
  String.iter (fun c ->
    if c < '0' || c > '9' then failwith ("bad number " ^ s);
    r := M.N.add (M.N.mul !r ten) (n_of_int (Char.code c - 48))) s;
  !r
let z_of_dec (s : string) : M.z =
  if String.length s > 0 && s.[0] = '-' then M.Z.opp (M.Z.of_N (n_of_dec (String.sub s 1 (String.length s - 1))))
  else M.Z.of_N (n_of_dec s)

let bytes_of_string (s : string) : M.bytes =
  let r = ref [] in
  for i = String.length s - 1 downto 0 do r := byte_tab.(Char.code s.[i]) :: !r done;
  !r
let string_of_bytes (b : M.bytes) : string =
  let buf = Buffer.create 64 in
  List.iter (fun n -> let i = int_of_n n in Buffer.add_char buf (Char.chr (i land 255))) b;
  Buffer.contents buf
let string_of_n (n : M.n) : string = string_of_bytes (M.n_to_dec n)
let string_of_z (z : M.z) : string = string_of_bytes (M.z_to_dec z)

let hexval c = match c with
  | '0'..'9' -> Char.code c - 48 | 'a'..'f' -> Char.code c - 87 | 'A'..'F' -> Char.code c - 55
  | _ -> failwith "bad hex"
(* "x6869" -> "hi" *)
let unhex (s : string) : string =
  if String.length s = 0 || s.[0] <> 'x' then failwith ("bad hex atom " ^ s);
  let n = (String.length s - 1) / 2 in
  String.init n (fun i -> Char.chr (hexval s.[1 + 2*i] * 16 + hexval s.[2 + 2*i]))
let hex (s : string) : string =
  let buf = Buffer.create (1 + 2 * String.length s) in
  Buffer.add_char buf 'x';
  String.iter (fun c -> Buffer.add_string buf (Printf.sprintf "%02x" (Char.code c))) s;
  Buffer.contents buf
let bytes_of_hex s = bytes_of_string (unhex s)
let hex_of_bytes b = hex (string_of_bytes b)

(* ---------- s-expressions ---------- *)
type sx = A of string | L of sx list

let parse_sx (s : string) : sx =
  let n = String.length s in
  let pos = ref 0 in
  let rec skip () = if !pos < n && s.[!pos] = ' ' then (incr pos; skip ()) in
  let rec one () =
    skip ();
    if !pos >= n then failwith "sexp: eof";
    if s.[!pos] = '(' then begin
      incr pos;
      let items = ref [] in
      let rec loop () =
        skip ();
        if !pos >= n then failwith "sexp: unterminated";
        if s.[!pos] = ')' then incr pos
        else (items := one () :: !items; loop ()) in
      loop ();
      L (List.rev !items)
    end else begin
      let st = !pos in
      while !pos < n && s.[!pos] <> ' ' && s.[!pos] <> '(' && s.[!pos] <> ')' do incr pos done;
      A (String.sub s st (!pos - st))
    end in
  one ()

let rec sx_to_string = function
  | A a -> a
  | L l -> "(" ^ String.concat " " (List.map sx_to_string l) ^ ")"

let atom = function A a -> a | L _ -> failwith "expected atom"
let bool_of = function A "1" -> true | A "0" -> false | _ -> failwith "expected bool"
let sb b = A (if b then "1" else "0")

(* ---------- conversions ---------- *)
let func_of = function
  | L [A "f"; c; ip; dn; nm; ex; mn] ->
    { M.complete = bytes_of_hex (atom c); fImportPath = bytes_of_hex (atom ip); dirName = bytes_of_hex (atom dn);
      fName = bytes_of_hex (atom nm); isExported = bool_of ex; isPkgMain = bool_of mn }
  | _ -> failwith "func"
let sx_of_func (f : M.func) =
  L [A "f"; A (hex_of_bytes f.M.complete); A (hex_of_bytes f.M.fImportPath); A (hex_of_bytes f.M.dirName);
     A (hex_of_bytes f.M.fName); sb f.M.isExported; sb f.M.isPkgMain]

let rec arg_of = function
  | L [A "a"; ag; nm; v; p; tl; ia; fs] ->
    M.mk_arg (bool_of ag) (bytes_of_hex (atom nm)) (n_of_dec (atom v)) (bool_of p) (bool_of tl) (bool_of ia) (args_of fs)
  | _ -> failwith "arg"
and args_of = function
  | L [A "args"; el; L (A "vals" :: vs); L (A "proc" :: ps)] ->
    { M.values = List.map arg_of vs; processed = List.map (fun p -> bytes_of_hex (atom p)) ps; elided = bool_of el }
  | _ -> failwith "args"
let rec sx_of_arg (a : M.arg) =
  match a with
  | M.MkArg (ag, nm, v, p, tl, ia, fv, fp, fe) ->
    L [A "a"; sb ag; A (hex_of_bytes nm); A (string_of_n v); sb p; sb tl; sb ia;
       sx_of_args { M.values = fv; processed = fp; elided = fe }]
and sx_of_args (a : M.args) =
  L [A "args"; sb a.M.elided; L (A "vals" :: List.map sx_of_arg a.M.values);
     L (A "proc" :: List.map (fun p -> A (hex_of_bytes p)) a.M.processed)]

let loc_of = function
  | "0" -> M.LocationUnknown | "1" -> M.GoMod | "2" -> M.GOPATH | "3" -> M.GoPkg | "4" -> M.Stdlib
  | s -> failwith ("location " ^ s)
let loc_to = function
  | M.LocationUnknown -> "0" | M.GoMod -> "1" | M.GOPATH -> "2" | M.GoPkg -> "3" | M.Stdlib -> "4"

let call_of = function
  | L [A "c"; f; a; rs; ln; sn; ds; ls; rl; ip; loc] ->
    { M.cFunc = func_of f; cArgs = args_of a; remoteSrcPath = bytes_of_hex (atom rs); line = z_of_dec (atom ln);
      srcName = bytes_of_hex (atom sn); dirSrc = bytes_of_hex (atom ds); localSrcPath = bytes_of_hex (atom ls);
      relSrcPath = bytes_of_hex (atom rl); cImportPath = bytes_of_hex (atom ip); cLocation = loc_of (atom loc) }
  | _ -> failwith "call"
let sx_of_call (c : M.call) =
  L [A "c"; sx_of_func c.M.cFunc; sx_of_args c.M.cArgs; A (hex_of_bytes c.M.remoteSrcPath); A (string_of_z c.M.line);
     A (hex_of_bytes c.M.srcName); A (hex_of_bytes c.M.dirSrc); A (hex_of_bytes c.M.localSrcPath);
     A (hex_of_bytes c.M.relSrcPath); A (hex_of_bytes c.M.cImportPath); A (loc_to c.M.cLocation)]

let stack_of = function
  | L (A "stack" :: el :: cs) -> { M.calls = List.map call_of cs; sElided = bool_of el }
  | _ -> failwith "stack"
let sx_of_stack (s : M.stack) = L (A "stack" :: sb s.M.sElided :: List.map sx_of_call s.M.calls)

let sig_of = function
  | L [A "sig"; st; mn; mx; lk; cb; sk] ->
    { M.state = bytes_of_hex (atom st); createdBy = stack_of cb; sleepMin = z_of_dec (atom mn);
      sleepMax = z_of_dec (atom mx); sStack = stack_of sk; locked = bool_of lk }
  | _ -> failwith "sig"
let sx_of_sig (s : M.signature) =
  L [A "sig"; A (hex_of_bytes s.M.state); A (string_of_z s.M.sleepMin); A (string_of_z s.M.sleepMax); sb s.M.locked;
     sx_of_stack s.M.createdBy; sx_of_stack s.M.sStack]

let goroutine_of = function
  | L [A "g"; id; fi; rw; ra; sg] ->
    { M.gSig = sig_of sg; iD = z_of_dec (atom id); first = bool_of fi; raceWrite = bool_of rw; raceAddr = n_of_dec (atom ra) }
  | _ -> failwith "goroutine"
let sx_of_goroutine (g : M.goroutine) =
  L [A "g"; A (string_of_z g.M.iD); sb g.M.first; sb g.M.raceWrite; A (string_of_n g.M.raceAddr); sx_of_sig g.M.gSig]
let goroutines_of = function
  | L (A "gs" :: gs) -> List.map goroutine_of gs
  | _ -> failwith "goroutines"
let sx_of_goroutines gs = L (A "gs" :: List.map sx_of_goroutine gs)

let bucket_of = function
  | L [A "b"; fi; L (A "ids" :: ids); sg] ->
    { M.bSig = sig_of sg; iDs = List.map (fun i -> z_of_dec (atom i)) ids; bFirst = bool_of fi }
  | _ -> failwith "bucket"
let sx_of_bucket (b : M.bucket) =
  L [A "b"; sb b.M.bFirst; L (A "ids" :: List.map (fun i -> A (string_of_z i)) b.M.iDs); sx_of_sig b.M.bSig]
let buckets_of = function
  | L (A "bs" :: bs) -> List.map bucket_of bs
  | _ -> failwith "buckets"
let sx_of_buckets bs = L (A "bs" :: List.map sx_of_bucket bs)

let level_of = function
  | "0" -> M.ExactFlags | "1" -> M.ExactLines | "2" -> M.AnyPointer | "3" -> M.AnyValue
  | s -> failwith ("level " ^ s)

(* ---------- result accumulation ---------- *)
type res = { mutable flags : string list; mutable tags : string list; mutable detail : string }
let fresh () = { flags = []; tags = []; detail = "" }
let flag r f = if not (List.mem f r.flags) then r.flags <- f :: r.flags
let tag r t = if not (List.mem t r.tags) then r.tags <- t :: r.tags
let starts_with s p = String.length s >= String.length p && String.sub s 0 (String.length p) = p

(* ---------- shuffles for the map-order oracle ---------- *)
let rev_shuffle (_ : M.nat) (l : M.nat list) = List.rev l
let rot_shuffle (k : M.nat) (l : M.nat list) =
  match l with [] -> [] | _ ->
    let n = List.length l in let r = (int_of_nat k) mod n in
    let rec split i acc = function
      | x :: t when i > 0 -> split (i - 1) (x :: acc) t
      | rest -> rest @ List.rev acc in
    split r [] l

(* ---------- op: aggregate ---------- *)
let ids_projection (bs : M.bucket list) : string list =
  List.sort compare (List.map (fun (b : M.bucket) ->
    String.concat "," (List.map string_of_z b.M.iDs) ^ (if b.M.bFirst then "!" else "")) bs)
let order_projection (bs : M.bucket list) : string =
  String.concat "|" (List.map (fun (b : M.bucket) -> String.concat "," (List.map string_of_z b.M.iDs)) bs)

let op_aggregate r = function
  | [lvl; gs_s; impl_s; det; immut; backref] ->
    let lvl = level_of lvl in
    let gs = goroutines_of (parse_sx gs_s) in
    tag r (Printf.sprintf "n=%d" (min 100 (List.length gs)));
    if det <> "1" then flag r "prop:C06:aggregate-nondeterministic";
    if immut <> "1" then flag r "prop:C14:snapshot-modified";
    if backref <> "1" then flag r "prop:C04:backref";
    let model = M.aggregate M.id_shuffle lvl gs in
    let model2 = M.aggregate rev_shuffle lvl gs in
    let model3 = M.aggregate rot_shuffle lvl gs in
    if model2 <> model || model3 <> model then flag r "model:oracle-dependent";
    if starts_with impl_s "PANIC" then begin
      flag r "impl:panic";
      (match model with M.Ok _ -> flag r "corr:panic" | M.Panic _ -> ())
    end else begin
      let impl = buckets_of (parse_sx impl_s) in
      tag r (Printf.sprintf "buckets=%d" (min 20 (List.length impl)));
      (match model with
       | M.Panic _ -> flag r "corr:panic"
       | M.Ok mb ->
         if ids_projection mb <> ids_projection impl then flag r "corr:ids"
         else begin
           if order_projection mb <> order_projection impl then flag r "corr:order";
           let sort_by_ids bs = List.sort (fun (a : M.bucket) (b : M.bucket) -> compare (List.map string_of_z a.M.iDs) (List.map string_of_z b.M.iDs)) bs in
           if List.map (fun (b : M.bucket) -> sx_to_string (sx_of_sig b.M.bSig)) (sort_by_ids mb)
              <> List.map (fun (b : M.bucket) -> sx_to_string (sx_of_sig b.M.bSig)) (sort_by_ids impl)
           then flag r "corr:sig"
         end;
         if List.exists (fun (b : M.bucket) -> List.length b.M.iDs > 1) mb then tag r "merged";
         if List.length mb > 1 then tag r "multi");
      if not (M.c04_ok gs impl) then flag r "prop:C04";
      if not (M.c05_ok lvl gs impl) then flag r "prop:C05";
      if not (M.c12_ok gs impl) then flag r "prop:C12";
      (* a bucket must not display the source-level rendering (Processed) of ONE member when its members differ there *)
      let all_ids = List.map (fun (g : M.goroutine) -> g.M.iD) gs in
      if List.length (List.sort_uniq compare all_ids) = List.length all_ids then
      List.iter (fun (b : M.bucket) ->
        let members = List.filter (fun (g : M.goroutine) -> List.mem g.M.iD b.M.iDs) gs in
        List.iteri (fun k (c : M.call) ->
          if c.M.cArgs.M.processed <> [] then begin
            tag r "processed";
            let margs = List.filter_map (fun (g : M.goroutine) ->
              match List.nth_opt g.M.gSig.M.sStack.M.calls k with Some mc -> Some mc.M.cArgs | None -> None) members in
            (* "differ" as Args.equal sees it (it ignores the inaccurate flag and Processed) *)
            let renderings = match margs with [] -> [] | a0 :: rest -> if List.for_all (M.args_equal a0) rest then [a0] else [a0; a0] in
            if List.length renderings > 1 then flag r "prop:C12:processed-of-one-member-kept"
          end) b.M.bSig.M.sStack.M.calls) impl;
      if not (M.c13_ok impl) then flag r "prop:C13"
    end
  | _ -> failwith "aggregate: fields"

(* ---------- op: less3 ---------- *)
(* obs: for the ordered pairs (0,1)(0,2)(1,0)(1,2)(2,0)(2,1): which comes first *)
let op_less3 r = function
  | [sigs_s; obs] ->
    let sigs = match parse_sx sigs_s with L (A "sigs" :: l) -> Array.of_list (List.map sig_of l) | _ -> failwith "sigs" in
    let pairs = [| (0,1); (0,2); (1,0); (1,2); (2,0); (2,1) |] in
    let first = Hashtbl.create 6 in
    Array.iteri (fun i (x, y) -> Hashtbl.replace first (x, y) obs.[i]) pairs;
    if String.contains obs 'P' then flag r "impl:panic";
    (* observed less(x,y): x's bucket first in both arrival orders; unknown when merged *)
    let obs_less x y =
      match Hashtbl.find first (x, y), Hashtbl.find first (y, x) with
      | 'x', 'y' -> Some true      (* x first when x arrives first, x first when y arrives first *)
      | '-', _ | _, '-' | 'P', _ | _, 'P' -> None
      | _ -> Some false in
    let known = ref true in
    for x = 0 to 2 do for y = 0 to 2 do if x <> y then begin
      match obs_less x y with
      | None -> known := false
      | Some o ->
        if o <> M.sig_less sigs.(x) sigs.(y) then flag r "corr:less";
        if o then tag r "lt"
    end done done;
    if !known then begin
      let lt x y = x <> y && obs_less x y = Some true in
      for a = 0 to 2 do for b = 0 to 2 do
        if lt a b && lt b a then flag r "prop:C13:asymmetry";
        for c = 0 to 2 do
          if lt a b && lt b c && not (lt a c) then flag r "prop:C13:transitivity";
          if a <> b && b <> c && a <> c && not (lt a b) && not (lt b a) && not (lt b c) && not (lt c b)
             && (lt a c || lt c a) then flag r "prop:C13:incomparability"
        done done done;
      tag r "known"
    end
  | _ -> failwith "less3: fields"

(* ---------- op: scan ---------- *)
let split_on c s = if s = "-" || s = "" then [] else String.split_on_char c s

let source_of content sched final : M.source =
  let sc = List.map (fun p ->
    let we = String.length p > 0 && p.[String.length p - 1] = 'e' in
    let ns = if we then String.sub p 0 (String.length p - 1) else p in
    (nat_of_int (int_of_string ns), we)) (split_on ',' sched) in
  let fin = if final = "eof" then M.EOF else
    M.Fail (n_of_int (int_of_string (String.sub final 5 (String.length final - 5)))) in
  { M.rest = bytes_of_hex content; sched = sc; final = fin }

let err_class = function
  | M.ENil -> "nil"
  | M.EIo M.EOF -> "eof"
  | M.EIo (M.Fail c) -> "fail:" ^ string_of_int (int_of_n c)
  | M.EIo M.NoProgress -> "noprogress"
  | M.EScan _ -> "scan"

(* unicode.ToUpper is not modelled: IsExported is masked for symbols whose
   last dot-separated part starts with a non-ASCII byte *)
let mask_func (f : M.func) : M.func =
  let nm = string_of_bytes f.M.fName in
  let last = match String.rindex_opt nm '.' with Some i -> String.sub nm (i + 1) (String.length nm - i - 1) | None -> nm in
  if String.length last > 0 && Char.code last.[0] >= 196 && not f.M.isPkgMain then { f with M.isExported = false } else f
let mask_call (c : M.call) = { c with M.cFunc = mask_func c.M.cFunc }
let mask_stack (s : M.stack) = { s with M.calls = List.map mask_call s.M.calls }
let mask_goroutine (g : M.goroutine) =
  { g with M.gSig = { g.M.gSig with M.createdBy = mask_stack g.M.gSig.M.createdBy; sStack = mask_stack g.M.gSig.M.sStack } }
let canon_gs gs = sx_to_string (sx_of_goroutines (List.map mask_goroutine gs))

let is_prefix p s = String.length p <= String.length s && String.sub s 0 (String.length p) = p
let is_suffix p s = let lp = String.length p and ls = String.length s in lp <= ls && String.sub s (ls - lp) lp = p

(* complete lines (through LF) of s, and the unterminated tail *)
let split_lines (s : string) : string list * string =
  let n = String.length s in
  let rec go st acc =
    match String.index_from_opt s st '\n' with
    | Some i -> go (i + 1) (String.sub s st (i + 1 - st) :: acc)
    | None -> (List.rev acc, String.sub s st (n - st)) in
  if n = 0 then ([], "") else go 0 []

let op_scan r = function
  | [content; sched; final; na; kind; expect; aux; i_snap; i_writes; i_suffix; i_unread; i_err; i_reads; oneshot] ->
    let src = source_of content sched final in
    let content_s = unhex content in
    tag r ("kind=" ^ kind);
    tag r ("err=" ^ i_err);
    if oneshot = "0" then flag r "prop:C09:delivery-dependent";
    if oneshot = "R" then flag r "prop:C06:scan-depends-on-earlier-calls";
    let impl_panic = starts_with i_snap "PANIC" in
    if impl_panic then flag r "impl:panic";
    let i_fwd = String.concat "" (List.map unhex (split_on ',' i_writes)) in
    let i_rest = unhex i_suffix ^ unhex i_unread in
    let i_gs = if impl_panic || i_snap = "nil" then None else Some (goroutines_of (parse_sx i_snap)) in
    (match i_gs with Some gs -> tag r (Printf.sprintf "gs=%d" (min 9 (List.length gs))) | None -> tag r "gs=nil");
    (* ---- model ---- *)
    (match M.scan_snapshot (na = "1") src with
     | M.Panic m -> flag r "model:panic"; if not impl_panic then flag r "corr:panic"
     | M.Ok res ->
       if impl_panic then flag r "corr:panic" else begin
         let m_snap = match res.M.snap with None -> "nil" | Some gs -> canon_gs gs in
         let i_snap_c = match i_gs with None -> "nil" | Some gs -> canon_gs gs in
         if m_snap <> i_snap_c then flag r "corr:snap";
         if string_of_bytes res.M.fwd <> i_fwd then flag r "corr:fwd";
         let m_rest = string_of_bytes res.M.suffix ^ string_of_bytes res.M.unread.M.rest in
         if m_rest <> i_rest then flag r "corr:rest";
         if string_of_bytes res.M.suffix <> unhex i_suffix then flag r "corr:suffix";
         if err_class res.M.rerr_out <> i_err then flag r "corr:err";
         (* trace: every Read with len(p) and the bytes written before it; every Write *)
         let written = ref 0 in
         let reads = ref [] and writes = ref [] in
         List.iter (function
           | M.EvRead (lp, n) -> reads := (string_of_int (int_of_nat lp) ^ ":" ^ string_of_int (int_of_nat n) ^ "@" ^ string_of_int !written) :: !reads
           | M.EvLine _ -> ()
           | M.EvWrite d -> let s = string_of_bytes d in written := !written + String.length s; writes := hex s :: !writes) res.M.trace;
         if String.concat "," (List.rev !reads) <> (if i_reads = "-" then "" else i_reads) then flag r "corr:reads";
         if String.concat "," (List.rev !writes) <> (if i_writes = "-" then "" else i_writes) then flag r "corr:writes"
       end);
    if not impl_panic then begin
      (* ---- C02: conservation, on implementation output alone ---- *)
      (* content = P ++ rest; walking the lines of P: a line is forwarded (it is the next
         piece of fwd), or it is a K1 line (a "==================" swallowed while looking,
         or "WARNING: DATA RACE" right after one: the known finding), or the withheld
         region D starts there and runs to the end of P with nothing forwarded after it. *)
      if not (is_suffix i_rest content_s) then flag r "prop:C02:rest-not-suffix"
      else begin
        let p = String.sub content_s 0 (String.length content_s - String.length i_rest) in
        let ls, tl = split_lines p in
        let ls = if tl = "" then ls else ls @ [tl] in
        let strip l = let l = if is_suffix "\n" l then String.sub l 0 (String.length l - 1) else l in
                      if is_suffix "\r" l then String.sub l 0 (String.length l - 1) else l in
        let pos = ref 0 and k1 = ref 0 and prev_sep = ref false and d_start = ref (-1) and off = ref 0 in
        let pend = ref 0 and pend_start = ref (-1) in
        let run_n = ref 0 and run_w = ref 0 in
        let nf = String.length i_fwd in
        List.iter (fun l ->
          if !d_start < 0 then begin
            let n = String.length l in
            if strip l <> "==================" then begin
              if !run_w > (!run_n + 1) / 2 then flag r "prop:C02:separator-run-withheld";
              run_n := 0; run_w := 0
            end;
            if !pos + n <= nf && String.sub i_fwd !pos n = l then
              (if strip l = "==================" then incr run_n;
               pos := !pos + n; prev_sep := false; k1 := !k1 + !pend; pend := 0; pend_start := -1)
            else if strip l = "==================" then begin
              (* K1 is ONE withheld separator (and the warning right after it): the line after a withheld separator
                 is examined afresh, so of a run of n separator lines the code as it stands withholds every other
                 one, ceil(n/2) in all (which ones cannot be told apart: the lines are identical) *)
              incr run_n; incr run_w;
              if !pend = 0 then pend_start := !off; incr pend; prev_sep := true
            end
            else if !prev_sep && strip l = "WARNING: DATA RACE" then (incr pend; prev_sep := false)
            else d_start := (if !pend > 0 then !pend_start else !off)
          end;
          off := !off + String.length l) ls;
        if !run_w > (!run_n + 1) / 2 && !run_n > 1 then flag r "prop:C02:separator-run-withheld";
        if !d_start < 0 && !pend > 0 then d_start := !pend_start;
        if !pos <> nf then flag r "prop:C02:forwarded-bytes-not-from-input-in-order"
        else begin
          if !k1 > 0 then flag r "known:K1";
          let d = if !d_start < 0 then "" else String.sub p !d_start (String.length p - !d_start) in
          if d = "" && i_gs <> None then flag r "prop:C02:snapshot-without-region";
          if d <> "" && i_gs = None then begin
            let dl, dt = split_lines d in
            if List.for_all (fun l -> strip l = "==================" || strip l = "WARNING: DATA RACE") (if dt = "" then dl else dl @ [dt])
            then flag r "known:K1" else flag r "prop:C02:bytes-lost"
          end;
          (match kind with
           | "junk" -> if i_fwd <> content_s then flag r "prop:C02:junk-not-identity"
           | "stream" ->
             (match split_on ',' aux with
              | [] -> if i_fwd <> content_s then flag r "prop:C02:junk-not-identity"
              | reg :: _ ->
                (match String.split_on_char ':' reg with
                 | [s0; e0] ->
                   let s0 = int_of_string s0 and e0 = int_of_string e0 in
                   if String.length i_fwd <> s0 then flag r "prop:C02:region-start"
                   else if String.length content_s - String.length i_rest <> e0 then flag r "prop:C02:region-end"
                 | _ -> failwith "region"))
           | "dump" | "race" ->
             (match String.split_on_char ',' aux with
              | [pre; post] ->
                if String.length i_fwd <> int_of_string pre then flag r "prop:C02:region-start";
                if String.length i_rest <> int_of_string post then flag r "prop:C02:region-end"
              | _ -> failwith "aux")
           | _ -> ())
        end
      end;
      (* ---- C01 / C08: the snapshot the printed AST denotes ---- *)
      if kind = "race-unknown" then begin
        let e = canon_gs (goroutines_of (parse_sx expect)) in
        (match i_gs with
         | None -> flag r "prop:C08:no-snapshot"
         | Some gs -> if canon_gs gs <> e then flag r "prop:C08:unknown-creator-misattributed");
        if i_err <> "scan" then flag r "prop:C08:unknown-creator-not-an-error";
        tag r "unknown-creator"
      end;
      if kind = "dump" || kind = "race" then begin
        let e = canon_gs (goroutines_of (parse_sx expect)) in
        let p = if kind = "dump" then "prop:C01" else "prop:C08" in
        (match i_gs with
         | None -> flag r (p ^ ":no-snapshot")
         | Some gs -> if canon_gs gs <> e then flag r (p ^ ":snapshot-differs"));
        if kind = "dump" && i_err <> "eof" then flag r "prop:C01:error";
        if kind = "race" && i_err <> "nil" then flag r "prop:C08:error"
      end;
      (* ---- C20 (first half): a dump of the live runtime ---- *)
      if kind = "live" then begin
        if i_err <> "eof" then flag r "prop:C20:live-dump-error";
        (match i_gs with
         | None -> flag r "prop:C20:live-no-snapshot"
         | Some gs ->
           if List.length gs <> int_of_string expect then flag r "prop:C20:goroutine-count";
           let has_frame nm (g : M.goroutine) =
             List.exists (fun (c : M.call) -> string_of_bytes c.M.cFunc.M.fName = nm) g.M.gSig.M.sStack.M.calls in
           List.iter (fun kv ->
             match String.split_on_char ':' kv with
             | [nm; cnt] ->
               let l = List.filter (has_frame nm) gs in
               if List.length l <> int_of_string cnt then flag r ("prop:C20:known-goroutines:" ^ nm)
               else List.iter (fun (g : M.goroutine) ->
                 let st = string_of_bytes g.M.gSig.M.state in
                 let want = (match nm with
                   | "parkRecv" | "deep" | "parkLocked" -> ["chan receive"]
                   | "parkSelect" -> ["select"]
                   | "parkMutex" -> ["sync.Mutex.Lock"; "semacquire"]
                   | "parkSleep" -> ["sleep"]
                   | _ -> [st]) in
                 if not (List.mem st want) then flag r ("prop:C20:known-state:" ^ nm);
                 if nm = "parkLocked" && not g.M.gSig.M.locked then flag r "prop:C20:known-locked";
                 (match g.M.gSig.M.createdBy.M.calls with
                  | c :: _ -> if string_of_bytes c.M.cFunc.M.fName <> "opLive" then flag r "prop:C20:known-creator"
                  | [] -> flag r "prop:C20:known-creator")) l
             | _ -> ()) (split_on ',' aux);
           tag r "live")
      end;
      (* ---- C11: streaming progress, on the implementation's trace alone ---- *)
      (* at every Read call: with k bytes delivered so far, every complete line within the
         first k bytes that is forwarded at all has already been written; and no Read is
         issued once the line that ends the dump has been delivered *)
      (* a run of separator lines is K1 territory (every other one is withheld, and identical lines cannot be told
         apart in the forwarded bytes): the line-level statement below is not evaluated on such inputs; the count-based
         prop:C02:separator-run-withheld covers them *)
      let has_sep_run =
        let ls, _ = split_lines content_s in
        let rec go = function
          | a :: (b :: _ as t) ->
            let st l = let l = if is_suffix "\n" l then String.sub l 0 (String.length l - 1) else l in
                       if is_suffix "\r" l then String.sub l 0 (String.length l - 1) else l in
            (st a = "==================" && st b = "==================") || go t
          | _ -> false in
        go ls in
      if has_sep_run then tag r "sep-run";
      if not (List.mem "known:K1" r.flags) && not has_sep_run && is_prefix i_fwd content_s then begin
        let nf = String.length i_fwd in
        let delivered = ref 0 in
        let end_line =
          if i_gs = None then max_int else begin
            let st = String.length content_s - String.length i_rest in
            if i_err = "nil" || i_err = "scan" then
              (match String.index_from_opt content_s (min st (String.length content_s)) '\n' with
               | Some j when unhex i_suffix <> "" && st < String.length content_s && not (is_suffix "==================\n" (String.sub content_s 0 st) && false) -> j + 1
               | _ -> max_int)
            else max_int
          end in
        List.iter (fun rd ->
          match String.split_on_char '@' rd with
          | [a; w] ->
            (match String.split_on_char ':' a with
             | [_; n] ->
               let k = !delivered in
               let c = if k <= 0 || content_s = "" then 0 else
                         (match String.rindex_from_opt content_s (min (k - 1) (String.length content_s - 1)) '\n' with
                          | Some j -> j + 1 | None -> 0) in
               if int_of_string w < min c nf then flag r "prop:C11:complete-line-withheld-at-read";
               if k >= end_line then flag r "prop:C11:read-after-dump-end";
               delivered := k + int_of_string n
             | _ -> failwith "read")
          | _ -> failwith "read") (split_on ',' i_reads)
      end
    end
  | _ -> failwith "scan: fields"

(* ---------- op: scanseq (C07) ---------- *)
let fin_of final = if final = "eof" then M.EOF else
  M.Fail (n_of_int (int_of_string (String.sub final 5 (String.length final - 5))))

let op_scanseq r = function
  | [content; final; regions; calls; rest; alone] ->
    let content_s = unhex content in
    if starts_with calls "PANIC" then begin
      flag r "impl:panic";
      (match M.scan_seq (nat_of_int 3000) (bytes_of_hex content) (fin_of final) with
       | M.Panic _ -> () | M.Ok _ -> flag r "corr:panic")
    end else begin
      let icalls = List.map (fun c -> match String.split_on_char '|' c with
        | [sn; fw; er] -> (sn, unhex fw, er) | _ -> failwith "call") (split_on ';' calls) in
      tag r (Printf.sprintf "calls=%d" (min 9 (List.length icalls)));
      if List.exists (fun (_, _, er) -> er = "STUCK") icalls then flag r "prop:C03:no-progress";
      (* model *)
      (match M.scan_seq (nat_of_int 3000) (bytes_of_hex content) (fin_of final) with
       | M.Panic _ -> flag r "model:panic"; flag r "corr:panic"
       | M.Ok (items, mrest) ->
         let mcalls = List.map (fun ((sn, fw), er) ->
           ((match sn with None -> "nil" | Some gs -> canon_gs gs), string_of_bytes fw, err_class er)) items in
         let icalls_c = List.map (fun (sn, fw, er) ->
           ((if sn = "nil" then "nil" else canon_gs (goroutines_of (parse_sx sn))), fw, er)) icalls in
         if mcalls <> icalls_c then flag r "corr:seq";
         if string_of_bytes mrest <> unhex rest then flag r "corr:seqrest");
      (* C07 oracle on the implementation's output: one snapshot per generated dump, equal to
         scanning that dump alone; everything else forwarded, in order, nothing twice *)
      if regions = "?" then tag r "mutant" else
      let regs = List.map (fun g -> match String.split_on_char ':' g with
        | [a; b] -> (int_of_string a, int_of_string b) | _ -> failwith "region") (split_on ',' regions) in
      tag r (Printf.sprintf "dumps=%d" (List.length regs));
      let snaps = List.filter (fun (sn, _, _) -> sn <> "nil") icalls in
      let alone_l = split_on ';' alone in
      if List.length snaps <> List.length regs then flag r "prop:C07:snapshot-count"
      else if List.map (fun (sn, _, _) -> sn) snaps <> alone_l then flag r "prop:C07:differs-from-dump-alone";
      let junk = Buffer.create 1024 in
      let pos = ref 0 in
      List.iter (fun (a, b) -> Buffer.add_string junk (String.sub content_s !pos (a - !pos)); pos := b) regs;
      Buffer.add_string junk (String.sub content_s !pos (String.length content_s - !pos));
      let fwd_all = String.concat "" (List.map (fun (_, fw, _) -> fw) icalls) ^ unhex rest in
      if fwd_all <> Buffer.contents junk then flag r "prop:C07:stream-positions";
      (match List.rev icalls with
       | (_, _, er) :: _ -> if er <> final then flag r "prop:C07:final-error"
       | [] -> flag r "prop:C07:no-calls")
    end
  | _ -> failwith "scanseq: fields"

(* ---------- op: cut (C10) ---------- *)
let rec erase_arg (a : M.arg) : M.arg =
  match a with
  | M.MkArg (ag, _, v, p, tl, ia, fv, fp, fe) -> M.MkArg (ag, [], v, p, tl, ia, List.map erase_arg fv, fp, fe)
let erase_call (c : M.call) = { c with M.cArgs = { c.M.cArgs with M.values = List.map erase_arg c.M.cArgs.M.values } }
let erase_stack (s : M.stack) = { s with M.calls = List.map erase_call s.M.calls }
let erase_g (g : M.goroutine) =
  { g with M.gSig = { g.M.gSig with M.createdBy = erase_stack g.M.gSig.M.createdBy; sStack = erase_stack g.M.gSig.M.sStack } }
let canon_g g = sx_to_string (sx_of_goroutine (mask_goroutine (erase_g g)))

let op_cut r = function
  | [content; cut; signal; ends; kind; f_snap; f_fwd; f_err; c_snap; c_fwd; c_suffix; c_unread; c_err] ->
    let content_s = unhex content in
    let cut = int_of_string cut in
    let cut_s = String.sub content_s 0 cut in
    tag r ("signal=" ^ signal); tag r ("kind=" ^ kind);
    if starts_with c_snap "PANIC" || starts_with f_snap "PANIC" then flag r "impl:panic" else begin
      (* model on the cut input *)
      let zeros () =
        let b = Buffer.create 64 in
        let tot = ref 0 in
        while !tot < cut + 5 do
          if Buffer.length b > 0 then Buffer.add_char b ',';
          Buffer.add_string b "0,0,9"; tot := !tot + 9
        done;
        Buffer.contents b in
      let chunks () =
        let b = Buffer.create 64 in
        let tot = ref 0 in
        while !tot < cut + 13 do
          if Buffer.length b > 0 then Buffer.add_char b ',';
          Buffer.add_string b "13e"; tot := !tot + 13
        done;
        Buffer.contents b in
      let sched, final = (match signal with
        | "chunkd" -> (chunks (), "fail:7")
        | "chunke" -> (chunks (), "eof")
        | "fail" -> (String.concat "," (List.init (cut / 16384 + 2) (fun _ -> string_of_int (String.length content_s + 1))), "fail:7")
        | "faild" -> ("-", "fail:7")
        | "zeros" -> (zeros (), "eof")
        | "failz" -> (zeros (), "fail:7")
        | _ -> ("-", "eof")) in
      (match M.scan_snapshot false (source_of (hex cut_s) sched final) with
       | M.Panic _ -> flag r "model:panic"; flag r "corr:panic"
       | M.Ok res ->
         let m_snap = match res.M.snap with None -> "nil" | Some gs -> canon_gs gs in
         let i_snap = if c_snap = "nil" then "nil" else canon_gs (goroutines_of (parse_sx c_snap)) in
         if m_snap <> i_snap then flag r "corr:snap";
         if string_of_bytes res.M.fwd <> unhex c_fwd then flag r "corr:fwd";
         if err_class res.M.rerr_out <> c_err then flag r "corr:err";
         if string_of_bytes res.M.suffix ^ string_of_bytes res.M.unread.M.rest <> unhex c_suffix ^ unhex c_unread then flag r "corr:rest");
      (* ---- C10 oracle on the implementation's output ---- *)
      let ffwd = unhex f_fwd and cfwd = unhex c_fwd in
      let fgs = if f_snap = "nil" then [] else goroutines_of (parse_sx f_snap) in
      let cgs = if c_snap = "nil" then [] else goroutines_of (parse_sx c_snap) in
      tag r (Printf.sprintf "cgs=%d" (min 9 (List.length cgs)));
      (* stopped early = the scan ended before the cut input was exhausted *)
      let consumed_all = (unhex c_suffix = "" && unhex c_unread = "") in
      (* error *)
      (* a scan error may only be reported for a complete line, or when the stream simply ended: a reader
         failure delivered with / after an unterminated fragment is reported as that failure *)
      if signal <> "eof" && signal <> "zeros" && signal <> "chunke" && c_err = "scan" && not (String.contains (unhex c_suffix) '\n') then
        flag r "prop:C10:reader-failure-replaced-by-scan-error";
      (match signal with
       | "eof" | "zeros" | "chunke" ->
         (* (a race report's closing separator ends the scan by itself, before the end of the stream is seen) *)
         let footer_end = kind = "race" && c_err = "nil" && is_suffix "==================\n" cut_s && List.length cgs = List.length fgs in
         if not (c_err = "eof" || c_err = "scan" || footer_end || (not consumed_all && c_err = f_err)) then flag r "prop:C10:error-class"
       | _ ->
         if c_err = "fail:7" then ()
         else if consumed_all && (signal = "fail" || signal = "failz")
                 (* a race report's closing separator ends the scan by itself: the reader is not asked again *)
                 && not (kind = "race" && c_err = "nil" && is_suffix "==================\n" cut_s && List.length cgs = List.length fgs)
         then flag r "prop:C10:reader-failure-not-reported"
         else if not (c_err = "nil" || c_err = "scan") then flag r "prop:C10:error-class");
      (* goroutines complete before the cut are present and identical *)
      let ends_l = List.map int_of_string (split_on ',' ends) in
      List.iteri (fun i e ->
        if e <= cut then
          (match List.nth_opt fgs i, List.nth_opt cgs i with
           | Some fg, Some cg -> if canon_g fg <> canon_g cg then flag r "prop:C10:complete-goroutine-differs"
           | Some _, None -> flag r "prop:C10:complete-goroutine-missing"
           | None, _ -> ())) ends_l;
      if List.length cgs > List.length fgs then flag r "prop:C10:goroutine-invented";
      if kind = "dump" then
        List.iteri (fun i cg ->
          if i < List.length cgs - 1 then
            (match List.nth_opt fgs i with
             | Some fg -> if canon_g fg <> canon_g cg then flag r "prop:C10:non-last-goroutine-partial"
             | None -> ())) cgs;
      (* forwarded bytes: a prefix of the uncut run's, K2 aside *)
      if not (is_prefix cfwd ffwd) then begin
        (* K2, matched narrowly: the only excess is the unterminated last fragment of the cut
           input, forwarded while no goroutine exists yet (the uncut stream consumes that line
           as a header / race separator / race warning) *)
        let t = (match String.rindex_opt cut_s '\n' with
                 | Some j -> String.sub cut_s (j + 1) (cut - j - 1) | None -> cut_s) in
        let lt = String.length t and lc = String.length cfwd in
        if t <> "" && cgs = [] && is_suffix t cfwd && is_prefix (String.sub cfwd 0 (lc - lt)) ffwd
        then flag r "known:K2"
        else flag r "prop:C10:forwarded-not-prefix"
      end
    end
  | _ -> failwith "cut: fields"

(* ---------- op: names (C15) ---------- *)
let op_names r = function
  | [content; s_off; s_on] ->
    if starts_with s_off "PANIC" || starts_with s_on "PANIC" then flag r "impl:panic"
    else if s_off = "nil" || s_on = "nil" then flag r "driver:names-no-snapshot"
    else begin
      let before = goroutines_of (parse_sx s_off) and after = goroutines_of (parse_sx s_on) in
      if not (M.no_names before) then flag r "prop:C15:named-with-option-off";
      if not (M.c15_ok before after) then flag r "prop:C15:labelling";
      (* what "classified as pointer" means is fixed by the value alone (512 KiB < v < 2^63 - 1) *)
      List.iter (fun (a : M.arg) ->
        match a with M.MkArg (_, _, v, p, tl, _, _, _, _) ->
          if not tl && p <> M.is_ptr_value v then flag r "prop:C15:pointer-classification") (M.all_scalars after);
      if not (M.no_names after) then tag r "named";
      tag r (Printf.sprintf "gs=%d" (min 9 (List.length after)));
      (match M.scan_snapshot true (source_of content "-" "eof") with
       | M.Ok { M.snap = Some gs } -> if canon_gs gs <> canon_gs after then flag r "corr:names"
       | M.Ok _ -> flag r "corr:names"
       | M.Panic _ -> flag r "corr:panic")
    end
  | _ -> failwith "names: fields"

(* ---------- op: chunk (C09 exhaustive) ---------- *)
let op_chunk r = function
  | [_content; count; same; diff] ->
    tag r "chunk"; tag r ("chunkings=" ^ count);
    if same <> "1" then (flag r "prop:C09:chunking-dependent"; r.detail <- diff)
  | _ -> failwith "chunk: fields"

(* ---------- op: pp (C16, C02 end to end) ---------- *)
(* remove CSI sequences ESC [ ... final-byte(0x40..0x7e) *)
let strip_esc (s : string) : string =
  let b = Buffer.create (String.length s) in
  let n = String.length s in
  let i = ref 0 in
  while !i < n do
    if s.[!i] = '\027' && !i + 1 < n && s.[!i + 1] = '[' then begin
      i := !i + 2;
      while !i < n && not (Char.code s.[!i] >= 0x40 && Char.code s.[!i] <= 0x7e) do incr i done;
      incr i
    end else (Buffer.add_char b s.[!i]; incr i)
  done;
  Buffer.contents b

(* the blocks of a console rendering of ONE dump: a header line (not starting with 4 spaces)
   followed by its call lines (starting with 4 spaces) *)
let blocks_of (s : string) : string list =
  let ls, tl = split_lines s in
  let ls = if tl = "" then ls else ls @ [tl] in
  let out = ref [] and cur = ref None in
  List.iter (fun l ->
    if is_prefix "    " l then (match !cur with Some c -> cur := Some (c ^ l) | None -> out := l :: !out)
    else begin
      (match !cur with Some c -> out := c :: !out | None -> ());
      cur := Some l
    end) ls;
  (match !cur with Some c -> out := c :: !out | None -> ());
  List.rev !out

let rec is_interleaving (a : string list) (b : string list) (c : string list) : bool =
  match c with
  | [] -> a = [] && b = []
  | x :: c' ->
    (match a with y :: a' when y = x && is_interleaving a' b c' -> true | _ ->
      (match b with y :: b' when y = x -> is_interleaving a b' c' | _ -> false))

let rune_count_s (s : string) = int_of_nat (M.rune_count (bytes_of_string s))

let rec op_pp r = function
  | [content; level; pf; lit; banner; palette; plain; pe; color; ce; filt; fe; mat; me; ngor; junks; det; def; imm] ->
    (* C14, hook internal/verif_hooks.go + internal/verifcmd: pp's text renderer run repeatedly on one snapshot *)
    if imm = "X" then flag r "corr:pp-internal-hook-unavailable"
    else if String.length imm >= 3 && String.sub imm 0 3 = "ok:" then (if imm <> "ok:0" then tag r "rendered-twice")
    else flag r ("prop:C14:pp-text-rendering:" ^ imm);
    op_pp r [content; level; pf; lit; banner; palette; plain; pe; color; ce; filt; fe; mat; me; ngor; junks; det; def]
  | [content; level; pf; lit; banner; palette; plain; pe; color; ce; filt; fe; mat; me; ngor; junks; det; def] ->
    if def = "H" then flag r "prop:C02:pp-html-mode-loses-pass-through-text"
    else if def <> "1" then flag r "prop:C02:pp-default-mode-differs-from-plain-with-nothing-on-disk";
    op_pp r [content; level; pf; lit; banner; palette; plain; pe; color; ce; filt; fe; mat; me; ngor; junks; det]
  | [content; level; pf; lit; banner; palette; plain; pe; color; ce; filt; fe; mat; me; ngor; junks; det] ->
    if det <> "1" then flag r "prop:C06:pp-nondeterministic";
    let lvl = level_of level in
    let pfm = if pf = "full" then M.FullPath else M.BasePath in
    let pal = List.map bytes_of_hex (String.split_on_char ',' palette) in
    let litb = bytes_of_hex lit in
    let plain_s = unhex plain and color_s = unhex color in
    tag r ("pf=" ^ pf); tag r ("level=" ^ level); if litb <> [] then tag r "filter";
    let mk p f m = { M.o_level = lvl; o_pf = pfm; o_pal = p; o_filter = f; o_match = m; o_banner = (banner = "1") } in
    let run o exp_out exp_code what =
      (match M.pp_run o (bytes_of_hex content) with
       | M.Panic _ -> flag r "model:panic"; flag r ("corr:pp:" ^ what)
       | M.Ok (out, ok) ->
         if string_of_bytes out <> exp_out then begin
           flag r ("corr:pp:" ^ what);
           let m = string_of_bytes out in
           let i = ref 0 in
           while !i < String.length m && !i < String.length exp_out && m.[!i] = exp_out.[!i] do incr i done;
           let ctx s = String.escaped (String.sub s (max 0 (!i - 30)) (min 70 (String.length s - max 0 (!i - 30)))) in
           r.detail <- Printf.sprintf "first difference at %d: model [%s] impl [%s]" !i (ctx m) (ctx exp_out)
         end
         else if (ok && exp_code <> "0") || (not ok && exp_code = "0") then flag r ("corr:pp-exit:" ^ what)) in
    run (mk [] None None) plain_s pe "plain";
    run (mk pal None None) color_s ce "color";
    (* a literal is a substring test; \001X = the regexp X$ (end of text), \002X = X\n$, \003X = ^X\n$ *)
    let pred = (match litb with
      | M.Npos M.XH :: x -> Some (fun h -> M.has_suffix h x)
      | M.Npos (M.XO M.XH) :: x -> Some (fun h -> M.has_suffix h (x @ [byte_tab.(10)]))
      | M.Npos (M.XI M.XH) :: x -> Some (fun h -> h = x @ [byte_tab.(10)])     (* \003X = ^X\n$ : the whole header *)
      | _ -> Some (fun h -> M.contains h litb)) in
    if litb <> [] then begin
      run (mk [] pred None) (unhex filt) fe "filter";
      run (mk [] None pred) (unhex mat) me "match"
    end;
    if pe <> "0" && pe <> "1" then flag r "impl:panic";
    (* ---- C02 end to end: the non-dump text survives in order around the renderings ---- *)
    if junks <> "-" && pe = "0" then begin
      let js = List.map unhex (String.split_on_char ',' junks) in
      tag r (Printf.sprintf "junks=%d" (List.length js));
      let pos = ref 0 and ok = ref true in
      List.iteri (fun i j ->
        if !ok then begin
          if i = 0 then (if is_prefix j plain_s then pos := String.length j else ok := false)
          else begin
            (* next occurrence of j at or after pos; the last one must end the output *)
            let n = String.length plain_s and lj = String.length j in
            let found = ref (-1) and p = ref !pos in
            while !found < 0 && !p + lj <= n do
              if String.sub plain_s !p lj = j then found := !p else incr p
            done;
            if !found < 0 then ok := false else pos := !found + lj
          end
        end) js;
      if not !ok then flag r "prop:C02:pp-text-lost-or-reordered"
      else (match List.rev js with
            | last :: _ -> if not (is_suffix last plain_s) then flag r "prop:C02:pp-trailing-text-misplaced"
            | [] -> ())
    end;
    (* ---- C16 oracles on the implementation's output alone ---- *)
    if strip_esc color_s <> plain_s then flag r "prop:C16:colour-changes-text";
    if ngor <> "-" then begin
      (* the input is exactly one dump: the whole output is blocks (after the optional banner) *)
      let body s = let bn = string_of_bytes M.banner in if is_prefix bn s then String.sub s (String.length bn) (String.length s - String.length bn) else s in
      let bl = blocks_of (body plain_s) in
      tag r (Printf.sprintf "blocks=%d" (min 9 (List.length bl)));
      if litb <> [] then begin
        let bf = blocks_of (body (unhex filt)) and bm = blocks_of (body (unhex mat)) in
        if not (is_interleaving bf bm bl) then flag r "prop:C16:filter-match-not-a-split";
        if bf <> [] && bm <> [] then tag r "split"
      end;
      (* every goroutine accounted for: bucket counts add up (non-race), or one block per goroutine (race) *)
      let heads = List.map (fun b -> match String.index_opt b ':' with Some i -> String.sub b 0 i | None -> "") bl in
      let is_race = is_prefix "==================" (unhex content) in
      (try
        if is_race then (if List.length bl <> int_of_string ngor then flag r "prop:C16:goroutine-missing")
        else if List.fold_left (fun a h -> a + int_of_string h) 0 heads <> int_of_string ngor then flag r "prop:C16:counts-do-not-add-up"
      with Failure _ -> flag r "prop:C16:header-shape");
      (* alignment: in the coloured output the package and file fields of all call lines have equal rune widths *)
      let cl, ctl = split_lines (body color_s) in
      let widths = List.filter_map (fun l ->
        if is_prefix "    \027" l then begin
          (* segments between escape sequences *)
          let segs = ref [] and cur = Buffer.create 32 in
          let n = String.length l and i = ref 0 in
          while !i < n do
            if l.[!i] = '\027' && !i + 1 < n && l.[!i+1] = '[' then begin
              if Buffer.length cur > 0 then (segs := Buffer.contents cur :: !segs; Buffer.clear cur);
              i := !i + 2; while !i < n && not (Char.code l.[!i] >= 0x40 && Char.code l.[!i] <= 0x7e) do incr i done; incr i
            end else (Buffer.add_char cur l.[!i]; incr i)
          done;
          (match List.rev !segs with
           | _ :: pkg :: src :: _ -> Some (rune_count_s pkg, rune_count_s src)
           | _ -> None)
        end else None) (cl @ [ctl]) in
      (match widths with
       | [] -> ()
       | w :: ws -> if List.exists (fun x -> x <> w) ws then flag r "prop:C16:columns-not-aligned" else tag r "aligned")
    end
  | _ -> failwith "pp: fields"

(* ---------- op: html (C17) ---------- *)
(* the whole document, byte for byte (Model/HtmlPage.v) *)
let html_meta_of (s : string) : M.snap_meta =
  let list_of f x = List.map f (split_on ',' x) in
  let kv x = match String.split_on_char ':' x with
    | [k; v] -> (bytes_of_hex k, bytes_of_hex v) | _ -> failwith "html: meta entry" in
  match String.split_on_char ';' s with
  | [lroot; rroot; paths; rpaths; mods] ->
    { M.localGOROOT = bytes_of_hex lroot; localGOPATHs = list_of bytes_of_hex paths; remoteGOROOT = bytes_of_hex rroot;
      remoteGOPATHs = list_of kv rpaths; localGomods = list_of kv mods }
  | _ -> failwith "html: meta"

let html_page r mode ver values err meta footer now maxprocs doc =
  if not (starts_with err "PANIC") && not (starts_with err "ERR") then begin
    let env = { M.pe_ver = bytes_of_hex ver; pe_now = bytes_of_hex now; pe_maxprocs = z_of_dec maxprocs; pe_footer = bytes_of_hex footer } in
    let mt = html_meta_of meta in
    let m = if mode = "agg" then M.render_page_buckets env mt (buckets_of (parse_sx values))
            else M.render_page_goroutines env mt (goroutines_of (parse_sx values)) in
    let ms = string_of_bytes m and is = unhex doc in
    tag r (Printf.sprintf "mods=%d" (min 5 (List.length mt.M.localGomods)));
    tag r (Printf.sprintf "gopaths=%d" (min 3 (List.length mt.M.localGOPATHs)));
    if footer <> "x" then tag r "footer";
    if String.length is > 40000 then tag r "long";
    if ms <> is then begin
      flag r "corr:html-page";
      let i = ref 0 in
      while !i < String.length ms && !i < String.length is && ms.[!i] = is.[!i] do incr i done;
      let ctx s = String.escaped (String.sub s (max 0 (!i - 30)) (min 70 (String.length s - max 0 (!i - 30)))) in
      r.detail <- Printf.sprintf "page differs at %d: model [%s] impl [%s]" !i (ctx ms) (ctx is)
    end
  end

let rec op_html r = function
  | [mode; ver; values; attrs; skel; scheme; complete; err; det; region; meta; footer; now; maxprocs; doc] ->
    op_html r [mode; ver; values; attrs; skel; scheme; complete; err; det; region];
    html_page r mode ver values err meta footer now maxprocs doc
  | [mode; ver; values; attrs; skel; scheme; complete; err; det; region] ->
    tag r ("mode=" ^ mode);
    (* the whole dynamic region, byte for byte *)
    (if region <> "-" && not (starts_with err "PANIC") && not (starts_with err "ERR") then begin
       let verb = bytes_of_hex ver in
       let m = if mode = "agg" then M.render_content_buckets verb (buckets_of (parse_sx values))
               else M.render_content_goroutines verb (goroutines_of (parse_sx values)) in
       let ms = string_of_bytes m and is = unhex region in
       if ms <> is then begin
         flag r "corr:html-region";
         let i = ref 0 in
         while !i < String.length ms && !i < String.length is && ms.[!i] = is.[!i] do incr i done;
         let ctx s = String.escaped (String.sub s (max 0 (!i - 30)) (min 70 (String.length s - max 0 (!i - 30)))) in
         r.detail <- Printf.sprintf "region differs at %d: model [%s] impl [%s]" !i (ctx ms) (ctx is)
       end
     end);
    if det <> "1" then flag r "prop:C06:html-nondeterministic";
    if starts_with err "PANIC" then flag r "impl:panic"
    else if starts_with err "ERR" then (flag r "prop:C17:render-error"; r.detail <- err)
    else begin
      if skel <> "1" then flag r "prop:C17:structure-depends-on-data";
      if scheme <> "1" then flag r "prop:C17:href-scheme";
      if complete <> "1" then flag r "prop:C17:incomplete";
      let verb = bytes_of_hex ver in
      let sigs = if mode = "agg" then List.map (fun (b : M.bucket) -> b.M.bSig) (buckets_of (parse_sx values))
                 else List.map (fun (g : M.goroutine) -> g.M.gSig) (goroutines_of (parse_sx values)) in
      let m_attrs = List.concat_map (fun s -> List.map string_of_bytes (M.sig_attrs verb s)) sigs in
      let i_attrs = List.map unhex (split_on ',' attrs) in
      tag r (Printf.sprintf "attrs=%d" (min 20 (List.length i_attrs)));
      if m_attrs <> i_attrs then begin
        flag r "corr:attrs";
        let rec first_diff i a b = match a, b with
          | x :: a', y :: b' -> if x = y then first_diff (i + 1) a' b' else Printf.sprintf "attr %d: model [%s] impl [%s]" i (String.escaped x) (String.escaped y)
          | [], [] -> "" | _ -> Printf.sprintf "length: model %d impl %d" (List.length m_attrs) (List.length i_attrs) in
        r.detail <- first_diff 0 m_attrs i_attrs
      end
    end
  | _ -> failwith "html: fields"

(* ---------- op: guess (C18) ---------- *)
let kv_list s = List.map (fun kv -> match String.split_on_char '=' kv with
  | [k; v] -> (unhex k, unhex v) | _ -> failwith "kv") (split_on ';' s)

let op_guess r = function
  | [content; lgoroot; lgopaths; fs; expect; i_snap; i_goroot; i_gopaths; i_gomods; det] ->
    if det <> "1" then flag r "prop:C06:guess-nondeterministic";
    if starts_with i_snap "PANIC" then flag r "impl:panic"
    else if i_snap = "OPTS-MODIFIED" then flag r "prop:C14:options-value-modified"
    else if i_snap = "nil" then flag r "driver:guess-no-snapshot"
    else begin
      let i_gs = goroutines_of (parse_sx i_snap) in
      let fsl = List.map (fun (k, v) -> (bytes_of_string k, bytes_of_string v)) (kv_list fs) in
      let gps = List.map bytes_of_hex (split_on ',' lgopaths) in
      tag r (Printf.sprintf "gopaths=%d" (List.length gps)); tag r (Printf.sprintf "files=%d" (min 20 (List.length fsl)));
      (* model: scan, then guess_paths on the same disk *)
      (match M.scan_snapshot false (source_of content "-" "eof") with
       | M.Ok { M.snap = Some gs } ->
         let (roots, gs') = M.guess_paths fsl (bytes_of_hex lgoroot) gps gs in
         if canon_gs gs' <> canon_gs i_gs then begin
           flag r "corr:guess-snap";
           (* first differing call, for the replay file *)
           let calls l = List.concat_map (fun (g : M.goroutine) -> g.M.gSig.M.sStack.M.calls) l in
           (try List.iter2 (fun (a : M.call) (b : M.call) ->
              if r.detail = "" && sx_to_string (sx_of_call (mask_call a)) <> sx_to_string (sx_of_call (mask_call b)) then
                r.detail <- Printf.sprintf "file %s: model (%s|%s|%s|%s) impl (%s|%s|%s|%s)" (string_of_bytes a.M.remoteSrcPath)
                  (string_of_bytes a.M.localSrcPath) (string_of_bytes a.M.relSrcPath) (string_of_bytes a.M.cImportPath) (loc_to a.M.cLocation)
                  (string_of_bytes b.M.localSrcPath) (string_of_bytes b.M.relSrcPath) (string_of_bytes b.M.cImportPath) (loc_to b.M.cLocation))
              (calls gs') (calls i_gs) with Invalid_argument _ -> ())
         end;
         let srt l = List.sort compare (List.map (fun (k, v) -> (string_of_bytes k, string_of_bytes v)) l) in
         if string_of_bytes roots.M.remote_goroot <> unhex i_goroot then flag r "corr:guess-goroot";
         if srt roots.M.remote_gopaths <> List.sort compare (kv_list i_gopaths) then flag r "corr:guess-gopaths";
         if srt roots.M.local_gomods <> List.sort compare (kv_list i_gomods) then flag r "corr:guess-gomods"
       | _ -> flag r "corr:guess-snap");
      (* ---- C18 oracle on the implementation's output, against the layout that generated the dump ---- *)
      let calls = List.concat_map (fun (g : M.goroutine) -> g.M.gSig.M.sStack.M.calls) i_gs in
      let expect, cexpect = (match String.split_on_char ';' expect with [a; b] -> (a, b) | [a] -> (a, "") | _ -> failwith "expect") in
      (* creators: one entry per goroutine ("-" = no creator, "?" = not predicted) *)
      (try List.iter2 (fun e (g : M.goroutine) ->
         match g.M.gSig.M.createdBy.M.calls, e with
         | c :: _, e when e <> "-" && e <> "?" ->
           (match String.split_on_char '|' e with
            | [cls; el; er; _] ->
              if loc_to c.M.cLocation <> cls || string_of_bytes c.M.localSrcPath <> unhex el || string_of_bytes c.M.relSrcPath <> unhex er
              then flag r "prop:C18:creator-frame"
            | _ -> ())
         | _ -> ()) (split_on ',' cexpect) i_gs with Invalid_argument _ -> ());
      (* a frame's resolution never depends on its goroutine's creator: the same file gets the same answer everywhere *)
      let all_calls = List.concat_map (fun (g : M.goroutine) -> g.M.gSig.M.sStack.M.calls @ g.M.gSig.M.createdBy.M.calls) i_gs in
      List.iter (fun (a : M.call) -> List.iter (fun (b : M.call) ->
        if a.M.remoteSrcPath = b.M.remoteSrcPath && a.M.remoteSrcPath <> [] &&
           (a.M.localSrcPath <> b.M.localSrcPath || a.M.relSrcPath <> b.M.relSrcPath)
        then flag r "prop:C18:same-file-resolved-differently") all_calls) all_calls;
      let exps = split_on ',' expect in
      if List.length exps <> List.length calls then flag r "driver:guess-expect-length"
      else List.iter2 (fun e (c : M.call) ->
        let local = string_of_bytes c.M.localSrcPath and rel = string_of_bytes c.M.relSrcPath in
        if local <> "" && not (is_suffix rel local) then flag r "prop:C18:local-does-not-end-with-rel";
        if local = "" && rel <> "" then flag r "prop:C18:rel-without-local";
        if e <> "?" then
          (match String.split_on_char '|' e with
           | [cls; el; er; ei] ->
             (* "*" = this field is not predicted by the layout *)
             if cls <> "*" && loc_to c.M.cLocation <> cls then flag r "prop:C18:location-class";
             if el <> "*" && local <> unhex el then flag r "prop:C18:local-path";
             if er <> "*" && rel <> unhex er then flag r "prop:C18:relative-path";
             if ei <> "*" && string_of_bytes c.M.cImportPath <> unhex ei then flag r "prop:C18:import-path";
             if cls <> "0" then tag r "resolved"
           | _ -> failwith "expect")) exps calls;
      (* each detected remote root is a prefix of a frame it explains *)
      let files = List.map (fun (c : M.call) -> string_of_bytes c.M.remoteSrcPath) calls in
      let explains root mids = List.exists (fun f -> List.exists (fun m -> is_prefix (root ^ m) f) mids) files in
      let gr = unhex i_goroot in
      if gr <> "" && not (explains gr ["/src/"]) then flag r "prop:C18:goroot-explains-nothing";
      List.iter (fun (k, _) -> if not (explains k ["/src/"; "/pkg/mod/"]) then flag r "prop:C18:gopath-explains-nothing") (kv_list i_gopaths);
      List.iter (fun (k, _) -> if not (explains k ["/"]) then flag r "prop:C18:gomod-explains-nothing") (kv_list i_gomods)
    end
  | _ -> failwith "guess: fields"

(* ---------- op: augment (C19) ---------- *)
let rec op_augment r = function
  | [content; fs; frames; floats; i_snap; i_plain; named] ->
    if named = "0" then flag r "prop:C19:pseudo-name-replaced-a-value";
    if named = "S" then flag r "prop:C19:rendering-the-arguments-changed-them";
    if named = "P" then flag r "impl:panic";
    op_augment r [content; fs; frames; floats; i_snap; i_plain]
  | [content; _fs; frames; floats; i_snap; i_plain] ->
    if starts_with i_snap "PANIC" then flag r "impl:panic"
    else if i_snap = "nil" || i_plain = "" then flag r "driver:augment-no-snapshot"
    else begin
      let gs = goroutines_of (parse_sx i_snap) and plain = goroutines_of (parse_sx i_plain) in
      let calls l = List.concat_map (fun (g : M.goroutine) -> g.M.gSig.M.sStack.M.calls) l in
      let ic = calls gs and pc = calls plain in
      (* float formatting oracle *)
      let tabs = String.split_on_char '|' floats in
      let tab s = List.map (fun kv -> match String.split_on_char '=' kv with
        | [k; v] -> (k, bytes_of_string (unhex v)) | _ -> failwith "float") (split_on ',' s) in
      let t32 = tab (List.nth tabs 0) and t64 = tab (List.nth tabs 1) in
      let look t v = match List.assoc_opt (string_of_n v) t with Some s -> s | None -> bytes_of_string "?float?" in
      let frs = String.split_on_char '|' frames in
      (* real tracebacks (op progs) end with frames the generator does not describe: pad with "skip" *)
      let frs = if List.length frs < List.length ic && List.exists (fun f -> f = "skip") frs
                then frs @ List.init (List.length ic - List.length frs) (fun _ -> "skip") else frs in
      (* \001 in an expectation stands for some pointer printed as 0x<hex> *)
      let rec wild_match (pat : string) (s : string) : bool =
        match String.index_opt pat '\001' with
        | None -> pat = s
        | Some i ->
          let pre = String.sub pat 0 i and rest = String.sub pat (i + 1) (String.length pat - i - 1) in
          is_prefix (pre ^ "0x") s &&
          (let j = ref (String.length pre + 2) in
           let st = !j in
           while !j < String.length s && (match s.[!j] with '0'..'9' | 'a'..'f' -> true | _ -> false) do incr j done;
           !j > st && wild_match rest (String.sub s !j (String.length s - !j))) in
      if List.length frs <> List.length ic || List.length pc <> List.length ic then flag r "driver:augment-frames"
      else begin
        let k = ref 0 in
        List.iter2 (fun fr ((c : M.call), (p : M.call)) ->
          incr k;
          (* raw values never change; nothing but Processed differs from the run without source analysis *)
          let strip (c : M.call) = { c with M.cArgs = { c.M.cArgs with M.processed = [] } } in
          if sx_to_string (sx_of_call (strip c)) <> sx_to_string (sx_of_call (strip p)) then flag r "prop:C19:frame-changed";
          if p.M.cArgs.M.processed <> [] then flag r "driver:augment-plain-processed";
          (match String.split_on_char ';' fr with
           | ["skip"] -> ()
           | [types; extra; expected] ->
             let impl_proc = List.map string_of_bytes c.M.cArgs.M.processed in
             (* model *)
             if types = "none" then (if impl_proc <> [] then flag r "corr:augment"; tag r "unaugmented")
             else begin
               let tl = List.map bytes_of_hex (split_on ',' types) in
               (match M.augment_call (look t32) (look t64) tl (extra = "1") p.M.cArgs with
                | M.Ok m -> if List.map string_of_bytes m <> impl_proc then begin
                    flag r "corr:augment";
                    if r.detail = "" then r.detail <- Printf.sprintf "frame %d: model [%s] impl [%s]" !k
                      (String.concat " | " (List.map string_of_bytes m)) (String.concat " | " impl_proc) end
                | M.Panic _ -> flag r "corr:panic")
             end;
             (* truthfulness against the values the generator chose *)
             let e = unhex expected in
             if e <> "-" then begin
               tag r "truth";
               let want = if e = "" then [] else String.split_on_char '\000' e in
               if not (List.length want = List.length impl_proc && List.for_all2 wild_match want impl_proc) then begin
                 flag r "prop:C19:not-truthful";
                 if r.detail = "" then r.detail <- Printf.sprintf "frame %d: want [%s] got [%s]" !k (String.concat " | " want) (String.concat " | " impl_proc)
               end
             end
           | _ -> failwith "frame")) frs (List.combine ic pc)
      end
    end
  | _ -> failwith "augment: fields"

(* ---------- op: handler (C20) ---------- *)
let op_handler r = function
  | [meth; maxmem; augment; similarity; i_status; complete; dlen] ->
    tag r ("status=" ^ i_status);
    (* a dump larger than the first buffer: the model's capture loop says whether it is captured whole *)
    let truncated = ref false in
    (if dlen <> "0" then begin
       tag r "big";
       let z s = z_of_dec s in
       match M.capture (z (unhex maxmem)) (z dlen) with
       | Some (_, n) ->
         if n = z dlen then (if i_status <> "200" && complete <> "H" then flag r "prop:C20:dump-fits-but-not-served")
         else (tag r "truncated"; truncated := true)
       | None -> flag r "model:capture-out-of-fuel"
     end);
    if complete = "A" then flag r "prop:C20:augment-parameter-not-honoured";
    if complete = "H" then flag r "prop:C20:handler-does-not-answer";
    (* a capture cut by maxmem may end mid-line: the scan may then fail (500) or not; otherwise it does not fail *)
    let st = M.handler (bytes_of_hex meth) (bytes_of_hex maxmem) (bytes_of_hex augment) (bytes_of_hex similarity)
               (fun _ _ -> !truncated && i_status = "500") in
    let m = string_of_int (int_of_nat (M.status_class st)) in
    if m <> i_status && complete <> "H" then (flag r "corr:handler"; r.detail <- Printf.sprintf "model %s impl %s" m i_status);
    (* C20 on the implementation alone: 405 iff not GET; valid parameters => 200 with a complete page; invalid => 4xx *)
    if complete = "0" then flag r "prop:C20:incomplete-page";
    if complete = "P" then flag r "impl:panic"
  | _ -> failwith "handler: fields"

(* ---------- op: alias (C14) ---------- *)
let op_alias r = function
  | [lvl; gs_s; ops; res; unchanged; same; capsame; graph; buckets] ->
    tag r (Printf.sprintf "ops=%d" (String.length ops));
    if starts_with res "PANIC" then flag r "impl:panic";
    if unchanged <> "1" then flag r "prop:C14:snapshot-modified";
    if same <> "1" then flag r "prop:C14:reaggregation-differs";
    if capsame <> "1" then flag r "prop:C14:slice-header-changed";
    let gs = goroutines_of (parse_sx gs_s) in
    let lvl = level_of lvl in
    (match M.alias_graph lvl gs with
     | M.Panic _ -> flag r "corr:panic"
     | M.Ok g ->
       let so = function None -> "-1" | Some n -> string_of_int (int_of_nat n) in
       let sv = function None -> "-1" | Some (a, b) -> string_of_int (int_of_nat a) ^ "." ^ string_of_int (int_of_nat b) in
       let m = String.concat "|" (List.map (fun ((a, b), c) ->
         Printf.sprintf "calls:%s;created:%s;vals:%s" (so a) (so b) (String.concat "," (List.map sv c))) g) in
       let m = if m = "" then "-" else m in
       if List.exists (fun ((a, _), _) -> a = None) g then tag r "merged-fresh";
       if m <> graph then (flag r "corr:alias-graph"; r.detail <- Printf.sprintf "model [%s] impl [%s]" m graph));
    (* re-aggregation after the operations = aggregation by the model of the untouched snapshot *)
    (match M.aggregate M.id_shuffle lvl gs with
     | M.Ok mb -> if sx_to_string (sx_of_buckets mb) <> buckets then flag r "corr:alias-buckets"
     | M.Panic _ -> flag r "corr:panic")
  | _ -> failwith "alias: fields"

(* ---------- op: pppipe (C11 end to end) ---------- *)
let op_pppipe r = function
  | [pieces; _tails; oks; out; exit] ->
    let ps = List.map unhex (String.split_on_char ',' pieces) in
    tag r (Printf.sprintf "pieces=%d" (min 9 (List.length ps)));
    List.iteri (fun i ok -> if ok <> "1" then flag r (Printf.sprintf "prop:C11:pp-withholds-after-piece-%d" i)) (String.split_on_char ',' oks);
    if exit = "hang" then flag r "prop:C03:pp-hang";
    let content = String.concat "" ps in
    let o = { M.o_level = M.AnyPointer; o_pf = M.BasePath; o_pal = []; o_filter = None; o_match = None; o_banner = false } in
    (match M.pp_run o (bytes_of_string content) with
     | M.Ok (m, ok) ->
       if string_of_bytes m <> unhex out then flag r "corr:pp:pipe"
       else if (ok && exit <> "0") || (not ok && exit = "0") then flag r "corr:pp-exit:pipe"
     | M.Panic _ -> flag r "corr:panic")
  | _ -> failwith "pppipe: fields"

(* ---------- main loop ---------- *)
(* ---------- op: step (hooked): the scanner's state machine line by line ---------- *)
let op_step r = function
  | content :: steps :: snaps ->
    let content_s = unhex content in
    let ls, tl = split_lines content_s in
    let lines = Array.of_list (if tl = "" then ls else ls @ [tl]) in
    let nl = Array.length lines in
    let buf = Buffer.create 256 in
    let m_snaps = ref [] in
    let i = ref 0 in
    let panicked = ref false in
    while !i < nl && not !panicked do
      let ss = ref M.ss0 in
      let fed = ref 0 in
      let fin = ref false in
      while !i < nl && not !fin do
        (match M.scan !ss (bytes_of_string lines.(!i)) with
         | M.Panic _ -> Buffer.add_string buf "P"; m_snaps := "PANIC" :: !m_snaps; panicked := true; fin := true
         | M.Ok ((ss', l), e) ->
           ss := ss';
           incr fed;
           if !fed > 1 then Buffer.add_char buf ';';
           let sti = int_of_nat (M.state_index ss'.M.st) in
           Buffer.add_string buf (Printf.sprintf "%d:%s:%s" sti (if l then "1" else "0") (if e = None then "0" else "1"));
           tag r (Printf.sprintf "st%d" sti);
           let handed_back = not l && sti <> 0 in
           let fin_ = e <> None || sti = 1 || handed_back in
           if not (handed_back && !fed > 1) then incr i;
           if fin_ then fin := true)
      done;
      if not !panicked then begin
        let gs = !ss.M.goroutines in
        m_snaps := ((if gs = [] then "nil" else canon_gs gs) ^ " " ^ hex (string_of_bytes !ss.M.sprefix)) :: !m_snaps;
        if !i < nl then Buffer.add_char buf '|'
      end
    done;
    let m_steps = if Buffer.length buf = 0 then "-" else Buffer.contents buf in
    if String.contains steps 'P' then flag r "impl:panic";
    if m_steps <> steps then begin
      flag r "corr:step-trace";
      let a = String.split_on_char ';' (String.concat ";" (String.split_on_char '|' m_steps))
      and b = String.split_on_char ';' (String.concat ";" (String.split_on_char '|' steps)) in
      let rec fd k x y = match x, y with
        | u :: x', v :: y' -> if u = v then fd (k + 1) x' y' else Printf.sprintf "line %d: model %s impl %s (state:consumed:error)" k u v
        | _ -> Printf.sprintf "line %d: lengths differ" k in
      r.detail <- fd 0 a b
    end else begin
      let ms = List.rev !m_snaps in
      if List.length ms <> List.length snaps then flag r "corr:step-sessions"
      else List.iter2 (fun m i_ ->
        let i_c = match String.rindex_opt i_ ' ' with
          | Some k ->
            let g = String.sub i_ 0 k and p = String.sub i_ k (String.length i_ - k) in
            (if g = "nil" || g = "PANIC" then g else canon_gs (goroutines_of (parse_sx g))) ^ p
          | None -> i_ in
        if m <> i_c then (flag r "corr:step-goroutines"; r.detail <- "model " ^ m ^ " impl " ^ i_c)) ms snaps
    end;
    tag r (Printf.sprintf "sessions=%d" (min 9 (List.length snaps)))
  | _ -> failwith "step: fields"

(* ---------- op: sigops (hooked): less / equal / similar / merge directly ---------- *)
let op_sigops r = function
  | sigs_s :: less :: eq :: sim :: unchanged :: merges ->
    let sigs = match parse_sx sigs_s with L (A "sigs" :: l) -> Array.of_list (List.map sig_of l) | _ -> failwith "sigs" in
    let n = Array.length sigs in
    if String.contains less 'P' || String.contains eq 'P' || String.contains sim 'P' || List.mem "PANIC" merges then flag r "impl:panic";
    if unchanged <> "1" then flag r "prop:C14:relation-mutated-its-arguments";
    let lt x y = less.[x * n + y] = '1' in
    for x = 0 to n - 1 do for y = 0 to n - 1 do
      if (less.[x * n + y] = '1') <> M.sig_less sigs.(x) sigs.(y) then flag r "corr:sig-less";
      if (eq.[x * n + y] = '1') <> M.sig_equal sigs.(x) sigs.(y) then flag r "corr:sig-equal";
      if lt x y then tag r "lt"
    done done;
    (* strict weak order, on the implementation's own answers *)
    for a = 0 to n - 1 do
      if lt a a then flag r "prop:C13:irreflexivity";
      for b = 0 to n - 1 do
        if lt a b && lt b a then flag r "prop:C13:asymmetry";
        for c = 0 to n - 1 do
          if lt a b && lt b c && not (lt a c) then flag r "prop:C13:transitivity";
          if not (lt a b) && not (lt b a) && not (lt b c) && not (lt c b) && (lt a c || lt c a) then flag r "prop:C13:incomparability"
        done done done;
    let lvls = [| M.ExactFlags; M.ExactLines; M.AnyPointer; M.AnyValue |] in
    let ms = ref merges in
    Array.iteri (fun li lvl ->
      for x = 0 to n - 1 do for y = 0 to n - 1 do
        let s = sim.[li * n * n + x * n + y] = '1' in
        if s <> M.sig_similar lvl sigs.(x) sigs.(y) then flag r "corr:sig-similar";
        if eq.[x * n + y] = '1' && not s then flag r "prop:C05:equal-not-similar";
        if x = y && not s then flag r "prop:C05:similar-not-reflexive";
        if s && sim.[li * n * n + y * n + x] <> '1' then flag r "prop:C05:similar-not-symmetric";
        if s then begin
          tag r "sim";
          match !ms with
          | m :: rest ->
            ms := rest;
            if m <> "PANIC" then begin
              let mi = sig_of (parse_sx m) in
              let mm = M.sig_merge sigs.(x) sigs.(y) in
              if sx_to_string (sx_of_sig mi) <> sx_to_string (sx_of_sig mm) then flag r "corr:sig-merge";
              if not (M.sig_similar lvl mi sigs.(x) && M.sig_similar lvl mi sigs.(y)) then flag r "prop:C12:merge-not-similar-to-members"
            end
          | [] -> flag r "corr:sig-merge-count"
        end
      done done) lvls
  | _ -> failwith "sigops: fields"

(* ---------- op: rlines (hooked): the line reader directly ---------- *)
let op_rlines r = function
  | [content; sched; final; i_lines; i_err] ->
    let src = source_of content sched final in
    let content_s = unhex content in
    let rec go fuel rd src acc =
      if fuel = 0 then Error "fuel" else
      match M.read_line rd src with
      | M.Panic _ -> Error "panic"
      | M.Ok ((((d, e), rd'), src'), _) ->
        let acc = if d = [] then acc else string_of_bytes d :: acc in
        (match e with
         | None -> go (fuel - 1) rd' src' acc
         | Some err -> Ok (List.rev acc, err)) in
    let il = List.map unhex (split_on ',' i_lines) in
    if i_err = "PANIC" then flag r "impl:panic";
    (match go (String.length content_s + 200) M.reader0 src [] with
     | Error _ -> flag r "model:panic"
     | Ok (ml, err) ->
       if ml <> il then flag r "corr:rlines";
       if err_class (M.EIo err) <> i_err then flag r "corr:rlines-err");
    let cat = String.concat "" il in
    if not (is_prefix cat content_s) then flag r "prop:C09:lines-not-a-prefix-of-the-content"
    else begin
      if i_err = "eof" && cat <> content_s then flag r "prop:C09:bytes-lost-before-eof";
      let ls, tl = split_lines cat in
      let want = if tl = "" then ls else ls @ [tl] in
      if want <> il then flag r "prop:C09:line-boundaries-depend-on-delivery"
    end;
    tag r (Printf.sprintf "lines=%d" (min 9 (List.length il)));
    tag r ("err=" ^ i_err)
  | _ -> failwith "rlines: fields"


(* ---------- op: ast (hooked, C19): getFuncAST + extractArgumentsType on parsed files ---------- *)
let rec texpr_of = function
  | A "f" -> M.TFunc | A "t" -> M.TInterface | A "o" -> M.TOther
  | L [A "i"; A h] -> M.TIdent (bytes_of_hex h)
  | L [A "s"; A h] -> M.TSelector (bytes_of_hex h)
  | L [A "p"; x] -> M.TStar (texpr_of x)
  | L [A "a"; l; e] -> M.TArray ((match l with A "-" -> None | x -> Some (texpr_of x)), texpr_of e)
  | L [A "e"; e] -> M.TEllipsis (match e with A "-" -> None | x -> Some (texpr_of x))
  | L [A "m"; k; v] -> M.TMap (texpr_of k, texpr_of v)
  | L [A "c"; v] -> M.TChan (texpr_of v)
  | L [A "l"; A h] -> M.TBasicLit (bytes_of_hex h)
  | L [A "x"; x] -> M.TIndex (texpr_of x)
  | _ -> failwith "ast: texpr"
let ast_fields_of = function
  | L l -> List.map (function L [A n; t] -> { M.f_names = nat_of_int (int_of_string n); f_type = texpr_of t }
                            | _ -> failwith "ast: field") l
  | _ -> failwith "ast: fields"
let rec node_of = function
  | A p -> M.Node (n_of_int (int_of_string p), M.KOther, [])
  | L (A p :: L [A "fd"; A nm; recv; params] :: ch) ->
    M.Node (n_of_int (int_of_string p),
            M.KFuncDecl { M.fd_name = bytes_of_hex nm;
                          fd_recv = (match recv with A "-" -> None | x -> Some (ast_fields_of x));
                          fd_params = ast_fields_of params },
            List.map node_of ch)
  | L (A p :: ch) -> M.Node (n_of_int (int_of_string p), M.KOther, List.map node_of ch)
  | _ -> failwith "ast: node"

let op_ast r = function
  | [src; lines; expect; feat; names; tree; results] ->
    let contains_sub s sub =
      let n = String.length s and m = String.length sub in
      let rec go i = i + m <= n && (String.sub s i m = sub || go (i + 1)) in go 0 in
    let src_s = unhex src in
    let ls = Array.of_list (List.map int_of_string (String.split_on_char ',' lines)) in
    let ex = Array.of_list (String.split_on_char ',' expect) in
    let ns = Array.of_list (List.map (String.split_on_char '|') (String.split_on_char ',' names)) in
    let rs = Array.of_list (List.map (String.split_on_char '|') (String.split_on_char ';' results)) in
    List.iter (tag r) (String.split_on_char ',' feat);
    if Array.length ex <> Array.length ls || Array.length rs <> Array.length ls || Array.length ns <> Array.length ls then failwith "ast: lengths";
    Array.iteri (fun i n -> if List.length n <> List.length rs.(i) then failwith "ast: names/results") ns;
    let pairs = Array.fold_left (fun a n -> a + List.length n) 0 ns in
    if Array.exists (List.exists (fun x -> x = "PANIC")) rs then flag r "impl:panic";
    if tree = "-" then begin
      (* loadFile fails: nothing is parsed, every frame of the file stays unaugmented *)
      tag r "parse-error";
      Array.iter (List.iter (fun x -> if x <> "E:parse" && x <> "PANIC" then flag r "corr:ast-select")) rs
    end else begin
      let root = node_of (parse_sx tree) in
      let offs = M.line_offsets (bytes_of_string src_s) in
      (* the hypothesis of C19_select_*: validated on every parsed file *)
      if M.wf_file root then tag r "wf" else flag r "corr:ast-wf";
      let decls = match root with M.Node (_, _, cs) ->
        List.filter_map (function M.Node (p, M.KFuncDecl d, _) -> Some (int_of_n p, d) | _ -> None) cs in
      List.iter (fun (_, d) ->
        tag r "funcdecl";
        match d.M.fd_recv with
        | Some [{ M.f_type = M.TStar _ }] -> tag r "recv:pointer"
        | Some [_] -> tag r "recv:value"
        | Some _ -> tag r "recv:not-one-field"
        | None -> ()) decls;
      (* independent of the model: byte offset of the first byte of every line, largest Pos of the tree *)
      let line_start =
        let acc = ref [0; 0] in
        String.iteri (fun i c -> if c = '\n' then acc := (i + 1) :: !acc) src_s;
        Array.of_list (List.rev !acc) in
      let rec max_pos (M.Node (p, _, ch)) = List.fold_left (fun a c -> max a (max_pos c)) (int_of_n p) ch in
      let maxp = max_pos root in
      (* what a traceback name says: strip "[...]", split at the last dot *)
      let strip_tp s =
        let b = Buffer.create (String.length s) in
        let i = ref 0 and n = String.length s in
        while !i < n do
          if !i + 5 <= n && String.sub s !i 5 = "[...]" then i := !i + 5
          else (Buffer.add_char b s.[!i]; incr i)
        done;
        Buffer.contents b in
      let split_name f =
        let f = strip_tp f in
        match String.rindex_opt f '.' with
        | Some i -> (String.sub f 0 i, String.sub f (i + 1) (String.length f - i - 1))
        | None -> ("", f) in
      (* the receiver a declaration is printed with: None = plain function, Some None = no compilable receiver *)
      let recv_text (d : M.funcdecl) : string option option =
        match d.M.fd_recv with
        | None -> None
        | Some [fl] ->
          let ptr, t = (match fl.M.f_type with M.TStar x -> (true, x) | t -> (false, t)) in
          let t = (match t with M.TIndex x -> x | t -> t) in
          (match t with
           | M.TIdent nm -> let b = string_of_bytes nm in Some (Some (if ptr then "(*" ^ b ^ ")" else b))
           | _ -> Some None)
        | Some _ -> Some None in
      (* "F:pos:name:types:ell" -> "F:pos:name" *)
      let sel s = if starts_with s "F:" then (match String.split_on_char ':' s with a :: b :: c :: _ -> a ^ ":" ^ b ^ ":" ^ c | _ -> s) else s in
      Array.iteri (fun i l ->
        let e = ex.(i) in
        let cls = if e = "-" then '-' else e.[0] in
        List.iter2 (fun kn ir ->
          let kind = kn.[0] and fn = unhex (String.sub kn 1 (String.length kn - 1)) in
          (match kind with
           | 'e' -> tag r "name:enclosing"; if contains_sub fn "[...]" then tag r "name:generic";
             if contains_sub fn "(*" then tag r "name:ptr-method" else if String.contains fn '.' then tag r "name:value-method"
           | 'l' -> tag r "name:closure" | 'p' -> tag r "name:prev" | 'n' -> tag r "name:next"
           | 'z' -> tag r "name:none" | _ -> tag r "name:hostile");
          (* ---- model ---- *)
          let ms = match M.source_types offs root (nat_of_int l) (bytes_of_string fn) with
            | M.Panic _ -> "PANIC"
            | M.Ok M.SrcErr -> "E:overline"
            | M.Ok M.SrcNone -> "N"
            | M.Ok (M.SrcTypes (p, nm, ts, ell)) ->
              Printf.sprintf "F:%s:%s:%s:%s" (string_of_n p) (hex_of_bytes nm)
                (if ts = [] then "-" else String.concat "," (List.map hex_of_bytes ts)) (if ell then "1" else "0") in
          if ms <> ir then begin
            flag r (if sel ms <> sel ir then "corr:ast-select" else "corr:ast-types");
            if r.detail = "" then r.detail <- Printf.sprintf "line %d name %S: model %s impl %s" l fn ms ir
          end;
          (match ms with
           | "PANIC" -> tag r "panic" | "E:overline" -> tag r "err" | "N" -> tag r "none"
           | _ ->
             tag r "found";
             if String.length ms > 2 && String.sub ms (String.length ms - 2) 2 = ":1" then tag r "variadic";
             if contains_sub ms (String.sub (hex "<unknown>") 1 18) then tag r "unknown-type");
          (* ---- oracles on the implementation alone ---- *)
          if starts_with ir "F:" then begin
            (* whatever the line: the declaration used must be the one the frame names *)
            let pos, dname = (match String.split_on_char ':' ir with _ :: p :: n :: _ -> (int_of_string p, unhex n) | _ -> failwith "ast: result") in
            let qrecv, qname = split_name fn in
            let ok = match List.assoc_opt pos decls with
              | None -> false
              | Some d ->
                string_of_bytes d.M.fd_name = dname && dname = qname &&
                (match recv_text d with
                 | None -> qrecv = ""
                 | Some (Some t) -> qrecv = t
                 | Some None -> false) in
            if not ok then begin
              flag r "prop:C19:wrong-function";
              if r.detail = "" then r.detail <- Printf.sprintf "line %d: frame %S rendered with %s" l fn (sel ir)
            end else tag r (Printf.sprintf "match-ok:%c" cls)
          end else if ir = "N" && (kind = 'e' || kind = 'l') then tag r (Printf.sprintf "unaugmented:%c" cls);
          (* the repair must not cost legitimate augmentation: a line after the func keyword line, up to the closing
             brace, outside function literals, queried with the traceback name of its declaration, finds it -- unless
             no node of the file starts at or after the line (the closing lines of the last declaration) *)
          if cls = 'b' && kind = 'e' then begin
            let want = "F:" ^ String.sub e 1 (String.length e - 1) in
            let beyond = l < Array.length line_start && maxp < line_start.(l) in
            if beyond then tag r "last-decl-closing-lines"
            else if sel ir <> want then begin
              flag r "prop:C19:enclosing-not-augmented";
              if r.detail = "" then r.detail <- Printf.sprintf "line %d: frame %S wants %s got %s" l fn want (sel ir)
            end
          end;
          ()) ns.(i) rs.(i)) ls
    end;
    r.detail <- Printf.sprintf "pairs=%d%s" pairs (if r.detail = "" then "" else "; " ^ r.detail)
  | _ -> failwith "ast: fields"

(* ---------- op: regex ---------- *)
(* regex id name input | FindSubmatchIndex.  Three-way check: Go's regexp =
   the interpreter of Spec/Regex.v on the generated definition (corr:regex:<name>),
   and Go's regexp = the hand-written matcher of the model (corr:matcher:<name>). *)
let regex_table : (string * M.regex) list = List.map (fun (k, re) -> (string_of_bytes k, re)) M.re_all
let op_regex r = function
  | [name; inhex; ires] ->
    let ws = unhex inhex in
    let w = bytes_of_string ws in
    let re = (match List.assoc_opt name regex_table with Some re -> re | None -> failwith ("regex: unknown expression " ^ name)) in
    tag r name;
    tag r (if ires = "-" then "nomatch" else "match");
    (* the interpreter *)
    let mres = match M.re_find re w with
      | None -> "-"
      | Some l -> String.concat "," (List.map (function
          | None -> "-1,-1"
          | Some (b, e) -> Printf.sprintf "%d,%d" (int_of_nat b) (int_of_nat e)) l) in
    if mres <> ires then begin
      flag r ("corr:regex:" ^ name);
      r.detail <- Printf.sprintf "interpreter %s impl %s" mres ires
    end;
    (* the hand-written matcher: same match / no match, same captured strings *)
    let impl : string list option =
      if ires = "-" then None else begin
        let a = Array.of_list (List.map int_of_string (String.split_on_char ',' ires)) in
        let g i = if 2 * i + 1 >= Array.length a || a.(2*i) < 0 then "" else String.sub ws a.(2*i) (a.(2*i+1) - a.(2*i)) in
        Some (match name with
          | "reRoutineHeader" -> [g 1; g 2; g 3]
          | "reMinutes" | "reCreated" | "reModule" | "reVersion" -> [g 1]
          | "reUnavail" -> []
          | "reFile" | "reFunc" | "reRaceGoroutine" | "reMethodSymbol" -> [g 1; g 2]
          | "reRaceOperationHeader" -> [(if g 1 = "Write" then "1" else "0"); g 2; g 3]   (* bytes.Equal(match[1], writeCap) *)
          | "reRacePreviousOperationHeader" -> [(if g 1 = "write" then "1" else "0"); g 2; g 3]
          | _ -> failwith "regex: projection")
      end in
    let sb = string_of_bytes in
    let model : string list option = match name with
      | "reRoutineHeader" -> Option.map (fun ((a, b), c) -> [sb a; sb b; sb c]) (M.match_routine_header w)
      | "reMinutes" -> Option.map (fun a -> [sb a]) (M.match_minutes w)
      | "reUnavail" -> if M.match_unavail w then Some [] else None
      | "reFile" -> Option.map (fun (a, b) -> [sb a; sb b]) (M.match_file w)
      | "reCreated" -> Option.map (fun a -> [sb a]) (M.match_created w)
      | "reFunc" -> Option.map (fun (a, b) -> [sb a; sb b]) (M.match_func w)
      | "reRaceOperationHeader" -> Option.map (fun ((x, a), b) -> [(if x then "1" else "0"); sb a; sb b]) (M.match_race_op w)
      | "reRacePreviousOperationHeader" -> Option.map (fun ((x, a), b) -> [(if x then "1" else "0"); sb a; sb b]) (M.match_race_prev w)
      | "reRaceGoroutine" -> Option.map (fun (a, b) -> [sb a; sb b]) (M.match_race_goroutine w)
      | "reModule" -> Option.map (fun a -> [sb a]) (M.find_module w)
      | "reVersion" -> Option.map (fun a -> [sb a]) (M.find_version w)
      | "reMethodSymbol" -> Option.map (fun (a, b) -> [sb a; sb b]) (M.match_method_symbol w)
      | _ -> failwith "regex: matcher" in
    (* the three line expressions with a "." are characterised on LF-free texts only
       (C00_file, C00_created, C00_func; the scanner strips the end of line first:
       C00_scan_texts_no_lf); the nine others are compared on every input *)
    let in_domain = match name with
      | "reFile" | "reCreated" | "reFunc" -> not (String.contains ws '\n')
      | _ -> true in
    if not in_domain then tag r "matcher-unchecked:lf"
    else if model <> impl then begin
      flag r ("corr:matcher:" ^ name);
      let show = function None -> "-" | Some l -> String.concat "," (List.map hex l) in
      r.detail <- (if r.detail = "" then "" else r.detail ^ "; ") ^ Printf.sprintf "matcher %s impl %s" (show model) (show impl)
    end
  | _ -> failwith "regex: fields"

let () =
  let ops : (string, res -> string list -> unit) Hashtbl.t = Hashtbl.create 16 in
  Hashtbl.replace ops "aggregate" op_aggregate;
  Hashtbl.replace ops "less3" op_less3;
  Hashtbl.replace ops "step" op_step;
  Hashtbl.replace ops "sigops" op_sigops;
  Hashtbl.replace ops "rlines" op_rlines;
  Hashtbl.replace ops "ast" op_ast;
  Hashtbl.replace ops "regex" op_regex;
  Hashtbl.replace ops "scan" op_scan;
  Hashtbl.replace ops "scanseq" op_scanseq;
  Hashtbl.replace ops "cut" op_cut;
  Hashtbl.replace ops "names" op_names;
  Hashtbl.replace ops "pp" op_pp;
  Hashtbl.replace ops "html" op_html;
  Hashtbl.replace ops "guess" op_guess;
  Hashtbl.replace ops "augment" op_augment;
  Hashtbl.replace ops "alias" op_alias;
  Hashtbl.replace ops "pppipe" op_pppipe;
  Hashtbl.replace ops "handler" op_handler;
  Hashtbl.replace ops "chunk" op_chunk;
  (try
    while true do
      let line = input_line stdin in
      match String.split_on_char '\t' line with
      | op :: id :: fields ->
        let r = fresh () in
        (try
          (match Hashtbl.find_opt ops op with
           | Some f -> f r fields
           | None -> flag r ("driver:unknown-op:" ^ op))
        with
        | Failure m -> flag r "driver:error"; r.detail <- m
        | Not_found -> flag r "driver:error"; r.detail <- "Not_found"
        | Stack_overflow -> flag r "driver:error"; r.detail <- "stack overflow"
        | e -> flag r "driver:error"; r.detail <- Printexc.to_string e);
        Printf.printf "%s\t%s\t%s\t%s\t%s\n" id (if r.flags = [] then "OK" else "FAIL")
          (String.concat "," (List.rev r.flags)) (String.concat "," (List.rev r.tags)) r.detail
      | _ -> ()
    done
  with End_of_file -> ())
