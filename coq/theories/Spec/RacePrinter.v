(* Spec/RacePrinter.v — vocabulary of C08 (race report parse fidelity).

   A Gallina AST of race-detector reports, a PRINTER for it and the snapshot
   each AST denotes, computed WITHOUT any parser code.  The printer mirrors
   the independent Go printer of the harness (harness/cmd/vh/gendump.go:
   dRaceOp, dRaceCreation, dRace, printRaceFrames, printRace, expRace), which
   follows tsan's Go report printer (PrintReport / PrintMop / PrintThread /
   PrintStack): separator, warning, one section per memory operation
   (header, two-space function lines, six-space file lines, a blank line),
   one [Goroutine N (running|finished) created at:] section per goroutine
   that has one (separated by blank lines), and the closing separator
   directly after the last file line.  Every line ends with LF.

   The frame AST, the symbol / argument printers and the expected Call of a
   frame (expFunc, expArgs, expCall) are those of Spec/Printer.v (C01); race
   frames never carry registers: [pf_regs] is ignored by this printer.

   Definitions only, plus the computable well-formedness predicate that the
   fidelity theorem needs, and an Example that a realistic report satisfies
   it.  Nothing here mentions a matcher, func_init, parse_args or scan. *)
From PP Require Import Base.Bytes Base.BytesX Base.Num Model.Types Spec.Printer.

Local Open Scope N_scope.

(* ------------------------------------------------------------------ *)
(* 1. the AST                                                          *)
(* ------------------------------------------------------------------ *)

(* dRaceOp *)
Record p_race_op := mkPRaceOp {
  ro_write : bool;
  ro_addr : N;
  ro_gid : N;
  ro_frames : list p_frame }.

(* dRaceCreation *)
Record p_race_creation := mkPRaceCreation {
  rc_gid : N;
  rc_running : bool;
  rc_frames : list p_frame }.

(* dRace *)
Record p_race := mkPRace {
  pr_ops : list p_race_op;
  pr_creations : list p_race_creation }.

(* ------------------------------------------------------------------ *)
(* 2. the printer (printRace)                                          *)
(* ------------------------------------------------------------------ *)

(* %012x: lower-case hex, left-padded with '0' to 12 digits *)
Definition N_to_hex012 (n : N) : bytes :=
  let h := N_to_hex false n in repeat 48 (12 - List.length h) ++ h.

(* Read / Write for the operation of index 0, Previous read /
   Previous write for the others *)
Definition race_kind (first write : bool) : bytes :=
  if first then (if write then s2b "Write" else s2b "Read")
  else (if write then s2b "Previous write" else s2b "Previous read").

(* the header line of an operation section, without the end of line *)
Definition print_op_header (first write : bool) (addr gid : N) : bytes :=
  race_kind first write ++ s2b " at 0x" ++ N_to_hex012 addr ++
  s2b " by goroutine " ++ N_to_dec gid ++ s2b ":".

Definition race_state_text (running : bool) : bytes :=
  if running then s2b "running" else s2b "finished".

(* the header line of a creation section, without the end of line *)
Definition print_creation_header (gid : N) (running : bool) : bytes :=
  s2b "Goroutine " ++ N_to_dec gid ++ s2b " (" ++ race_state_text running ++ s2b ") created at:".

(* printRaceFrames: the two physical lines of a frame; registers are never
   printed *)
Definition race_func_line (f : p_frame) : bytes :=
  s2b "  " ++ print_func_line (pf_sym f) (pf_args f) (pf_elided f).
Definition race_file_line (f : p_frame) : bytes :=
  print_file_line (FISpaces 6) (pf_file f) (pf_line f) (pf_off f) None.

Definition race_frame_lines (f : p_frame) : list bytes := [race_func_line f; race_file_line f].
Definition race_frames_lines (fs : list p_frame) : list bytes := flat_map race_frame_lines fs.

(* the lines (without LF) of one operation section, the blank line included *)
Definition race_op_lines (first : bool) (op : p_race_op) : list bytes :=
  [print_op_header first (ro_write op) (ro_addr op) (ro_gid op)] ++
  race_frames_lines (ro_frames op) ++ [[]].

Definition race_ops_lines (ops : list p_race_op) : list bytes :=
  match ops with
  | [] => []
  | op :: ops' => race_op_lines true op ++ flat_map (race_op_lines false) ops'
  end.

(* one creation section, without the separating blank line *)
Definition race_creation_lines (c : p_race_creation) : list bytes :=
  [print_creation_header (rc_gid c) (rc_running c)] ++ race_frames_lines (rc_frames c).

(* a blank line between two creation sections, none after the last *)
Fixpoint race_creations_lines (cs : list p_race_creation) : list bytes :=
  match cs with
  | [] => []
  | [c] => race_creation_lines c
  | c :: cs' => race_creation_lines c ++ [[]] ++ race_creations_lines cs'
  end.

Definition race_separator : bytes := s2b "==================".
Definition race_warning : bytes := s2b "WARNING: DATA RACE".

(* all the lines of a report, without their LF *)
Definition race_lines (r : p_race) : list bytes :=
  [race_separator; race_warning] ++ race_ops_lines (pr_ops r) ++
  race_creations_lines (pr_creations r) ++ [race_separator].

(* the text of a list of lines: each one followed by LF *)
Definition add_lf (l : bytes) : bytes := l ++ [LF].
Definition text_of (lines : list bytes) : bytes := List.concat (map add_lf lines).

(* printRace *)
Definition print_race (r : p_race) : bytes := text_of (race_lines r).

(* ------------------------------------------------------------------ *)
(* 3. the snapshot a report denotes (expRace)                          *)
(* ------------------------------------------------------------------ *)

(* the inner loop of expRace over the creations: the State of the last
   creation section with the same id, the calls of all of them appended *)
Fixpoint race_creation_of (gid : N) (cs : list p_race_creation) (state : bytes) (calls : list Call)
  : bytes * list Call :=
  match cs with
  | [] => (state, calls)
  | c :: cs' =>
      if rc_gid c =? gid
      then race_creation_of gid cs' (race_state_text (rc_running c)) (calls ++ map call_of_frame (rc_frames c))
      else race_creation_of gid cs' state calls
  end.

Definition race_goroutine_of (cs : list p_race_creation) (first : bool) (op : p_race_op) : Goroutine :=
  let '(state, created) := race_creation_of (ro_gid op) cs [] [] in
  mkGoroutine (mkSig state (mkStack created false) 0 0 (mkStack (map call_of_frame (ro_frames op)) false) false)
              (Z.of_N (ro_gid op)) first (ro_write op) (ro_addr op).

(* expRace: First = (index = 0) *)
Definition race_snapshot_of (r : p_race) : list Goroutine :=
  match pr_ops r with
  | [] => []
  | op :: ops' =>
      race_goroutine_of (pr_creations r) true op :: map (race_goroutine_of (pr_creations r) false) ops'
  end.

(* ------------------------------------------------------------------ *)
(* 4. well-formedness: exactly what the fidelity theorem assumes       *)
(* ------------------------------------------------------------------ *)

Fixpoint distinct_N (l : list N) : bool :=
  match l with
  | [] => true
  | x :: l' => negb (existsb (N.eqb x) l') && distinct_N l'
  end.

(* race file lines are indented with six spaces *)
Definition wf_race_frames (fs : list p_frame) : bool :=
  (match fs with [] => false | _ => true end) && forallb (wf_frame (FISpaces 6)) fs.

Definition wf_race_op (op : p_race_op) : bool :=
  wf_num (ro_gid op) && (ro_addr op <? 18446744073709551616) && wf_race_frames (ro_frames op).

Definition wf_race_creation (ops : list p_race_op) (c : p_race_creation) : bool :=
  existsb (fun op => ro_gid op =? rc_gid c) ops && wf_race_frames (rc_frames c).

(* - at least one operation (the generator has >= 2) with ids < 10^18,
     pairwise distinct, addresses < 2^64, stacks of >= 1 well-formed frame;
   - at least one creation section: with none the closing separator comes
     right after the blank line of the last operation, where the scanner
     only accepts an operation or creation header (see Properties/C08.v,
     C08_no_creation_section);
   - every creation section names the goroutine of some operation (hence
     its id is < 10^18) and has a stack of >= 1 well-formed frame.
   The sections may come in any order and for any non-empty subset of the
   goroutines.  The generator prints at most one section per goroutine; this
   is NOT required here: on repeated sections expRace and the scanner agree
   (the State of the last one, the calls of all of them appended). *)
Definition wf_race (r : p_race) : bool :=
  (match pr_ops r with [] => false | _ => true end) &&
  forallb wf_race_op (pr_ops r) &&
  distinct_N (map ro_gid (pr_ops r)) &&
  (match pr_creations r with [] => false | _ => true end) &&
  forallb (wf_race_creation (pr_ops r)) (pr_creations r).

(* ------------------------------------------------------------------ *)
(* 5. a realistic report is well-formed                                *)
(* ------------------------------------------------------------------ *)

Definition ex_race : p_race :=
  mkPRace
    [ mkPRaceOp true 824633827584 7
        [ mkPFrame (SPkg (s2b "gopkg.in/yaml.v2") (s2b "(*decoder).unmarshal"))
            [PVal 824633819136 false; PAgg [PVal 1 false; PAgg [PVal 2 true; PTooLarge] true] false; PVal 0 false] true
            (s2b "/gopath/pkg/mod/gopkg.in/yaml.v2@v2.4.0/decode.go") 312 (Some 27) None;
          mkPFrame (SPkg (s2b "main") (s2b "main.func1")) [] false
            (s2b "/home/u/src/proj/main.go") 14 (Some 591) None ];
      mkPRaceOp false 824633827584 12
        [ mkPFrame (SPkg (s2b "net/http") (s2b "(*persistConn).readLoop")) [PVal 824635318272 false] false
            (s2b "/usr/local/go/src/net/http/transport.go") 2210 (Some 3350) None ];
      mkPRaceOp true 1 3
        [ mkPFrame (SBare (s2b "runtime.goexit")) [PAgg [] false] false
            (s2b "/usr/local/go/src/runtime/asm_amd64.s") 1650 None None ] ]
    [ mkPRaceCreation 3 false
        [ mkPFrame (SPkg (s2b "example.com/a b/c++lib") (s2b "Start.func1")) [] false
            (s2b "_test/_testmain.go") 48 (Some 1) None ];
      mkPRaceCreation 7 true
        [ mkPFrame (SPkg (s2b "main") (s2b "main")) [] false
            (s2b "/home/u/src/proj/main.go") 9 (Some 100) None;
          mkPFrame (SPkg (s2b "runtime") (s2b "main")) [] false
            (s2b "/usr/local/go/src/runtime/proc.go") 250 (Some 519) None ] ].

Example ex_race_wf : wf_race ex_race = true.
Proof. vm_compute. reflexivity. Qed.
