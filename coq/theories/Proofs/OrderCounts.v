(* Proofs/OrderCounts.v — C13, the count contract (audit item 9).

   Stack.less (stack/stack.go:569) walks s.Calls once, incrementing
   lLoc[c.Location] and, when c.Func.IsPkgMain, lMain (same for r), and then
   compares, in this order and each time with "MORE is less (= first)":
       lMain ; lLoc[1] = GoMod ; lLoc[2] = GOPATH ; lLoc[3] = GoPkg ;
       lLoc[4] = Stdlib ; lLoc[0] = LocationUnknown
   (the loop "for i := 1; i < lastLocation" then LocationUnknown "last").
   NOTE Stdlib is compared like the others: with equal main / GoMod / GOPATH /
   GoPkg counts the stack with MORE standard-library frames comes first, and
   with these equal too the one with more frames of unknown location.  Only
   when the six counts are equal are the frames compared.

   [tally] is that loop, [counts] the vector in comparison order, [lex_more]
   "strictly more at the first difference".  Theorems: Stack.less on the
   counts IS the lexicographic comparison of the vectors (counts_cmp_lex);
   in the output of the stable sort (any input with at most one First bucket,
   in particular Aggregate's), for non-First buckets, a before b implies NOT
   lex_more (counts b) (counts a), and lex_more (counts a) (counts b) implies
   a before b. *)
From PP Require Import Base.Bytes Base.GoResult Model.Types Model.Stack Model.Bucket Spec.BucketSpec Spec.Wf.
From PP Require Import Proofs.Order.
From Coq Require Import Permutation Sorted Lia List.
Import ListNotations.

(* ------------------------------------------------------------------ *)
(* 1. the counters, as the Go loop computes them                        *)

Record tally := mkTally { t_main : nat; t_loc : Location -> nat }.
Definition tally0 : tally := mkTally 0 (fun _ => 0).
Definition tally_step (t : tally) (c : Call) : tally :=
  mkTally (if IsPkgMain (CFunc c) then S (t_main t) else t_main t)
          (fun l => if loc_eqb l (CLocation c) then S (t_loc t l) else t_loc t l).
Definition tally_of (s : Stack) : tally := fold_left tally_step (Calls s) tally0.

Definition main_count (s : Stack) : nat := t_main (tally_of s).
Definition loc_count (l : Location) (s : Stack) : nat := t_loc (tally_of s) l.

(* the vector, in the order of the comparisons *)
Definition counts (s : Stack) : list nat :=
  [main_count s; loc_count GoMod s; loc_count GOPATH s; loc_count GoPkg s;
   loc_count Stdlib s; loc_count LocationUnknown s].

Definition bcounts (b : Bucket) : list nat := counts (SStack (BSig b)).

Lemma loc_eqb_sym a b : loc_eqb a b = loc_eqb b a.
Proof. unfold loc_eqb. apply PeanoNat.Nat.eqb_sym. Qed.

Lemma tally_fold l : forall t,
  t_main (fold_left tally_step l t) = t_main t + count_main l /\
  forall loc, t_loc (fold_left tally_step l t) loc = t_loc t loc + count_loc loc l.
Proof.
  induction l as [|c l IH]; intros t; cbn [fold_left].
  - split; [unfold count_main; cbn; lia|]. intros loc. unfold count_loc. cbn. lia.
  - destruct (IH (tally_step t c)) as [I1 I2]. split.
    + rewrite I1, count_main_cons. cbn [tally_step t_main]. destruct (IsPkgMain (CFunc c)); lia.
    + intros loc. rewrite I2, count_loc_cons. cbn [tally_step t_loc].
      rewrite (loc_eqb_sym loc). destruct (loc_eqb (CLocation c) loc); lia.
Qed.

(* they are the counters of the model of Stack.less *)
Lemma main_count_eq s : main_count s = count_main (Calls s).
Proof. unfold main_count, tally_of. destruct (tally_fold (Calls s) tally0) as [H _]. rewrite H. reflexivity. Qed.

Lemma loc_count_eq loc s : loc_count loc s = count_loc loc (Calls s).
Proof. unfold loc_count, tally_of. destruct (tally_fold (Calls s) tally0) as [_ H]. rewrite H. reflexivity. Qed.

(* every frame is counted in exactly one location counter *)
Lemma loc_counts_total s :
  List.length (Calls s) =
  loc_count GoMod s + loc_count GOPATH s + loc_count GoPkg s + loc_count Stdlib s + loc_count LocationUnknown s.
Proof. rewrite !loc_count_eq, (length_counts (Calls s)). lia. Qed.

Lemma main_count_le s : main_count s <= List.length (Calls s).
Proof.
  rewrite main_count_eq. induction (Calls s) as [|c l IH]; [apply le_n|].
  rewrite count_main_cons. cbn [List.length]. destruct (IsPkgMain (CFunc c)); lia.
Qed.

(* ------------------------------------------------------------------ *)
(* 2. lexicographic "more first"                                        *)

(* v has strictly more than w at the first position where they differ *)
Fixpoint lex_more (v w : list nat) : Prop :=
  match v, w with
  | x :: v', y :: w' => y < x \/ (x = y /\ lex_more v' w')
  | _, _ => False
  end.

Fixpoint lex_moreb (v w : list nat) : bool :=
  match v, w with
  | x :: v', y :: w' => Nat.ltb y x || (Nat.eqb x y && lex_moreb v' w')
  | _, _ => false
  end.

Lemma lex_moreb_spec : forall v w, lex_moreb v w = true <-> lex_more v w.
Proof.
  induction v as [|x v IH]; intros w; destruct w as [|y w]; cbn [lex_moreb lex_more];
    try (split; [discriminate|contradiction]).
  rewrite Bool.orb_true_iff, Bool.andb_true_iff, PeanoNat.Nat.ltb_lt, PeanoNat.Nat.eqb_eq, IH. reflexivity.
Qed.

(* the comparison of the code: "if l > r return true; if l < r return false", in sequence *)
Fixpoint lex_cmp_desc (v w : list nat) : comparison :=
  match v, w with
  | x :: v', y :: w' => lexc (cmp_desc x y) (lex_cmp_desc v' w')
  | _, _ => Eq
  end.

Lemma counts_cmp_lex s r : counts_cmp (Calls s) (Calls r) = lex_cmp_desc (counts s) (counts r).
Proof.
  unfold counts_cmp, counts. cbn [lex_cmp_desc]. rewrite !main_count_eq, !loc_count_eq.
  destruct (cmp_desc (count_loc LocationUnknown (Calls s)) (count_loc LocationUnknown (Calls r))); reflexivity.
Qed.

Lemma lex_cmp_lt : forall v w, List.length v = List.length w -> (lex_cmp_desc v w = Lt <-> lex_more v w).
Proof.
  induction v as [|x v IH]; intros w Hl; destruct w as [|y w]; try discriminate Hl; cbn [lex_cmp_desc lex_more].
  - split; [discriminate|contradiction].
  - injection Hl as Hl. specialize (IH w Hl). unfold cmp_desc.
    destruct (PeanoNat.Nat.compare_spec y x) as [E|E|E]; cbn [lexc].
    + rewrite IH. split; [intros H; right; split; [now symmetry|exact H]|].
      intros [F|[_ H]]; [lia|exact H].
    + split; [intros _; now left|reflexivity].
    + split; [discriminate|]. intros [F|[F _]]; lia.
Qed.

Lemma lex_cmp_eq : forall v w, List.length v = List.length w -> (lex_cmp_desc v w = Eq <-> v = w).
Proof.
  induction v as [|x v IH]; intros w Hl; destruct w as [|y w]; try discriminate Hl; cbn [lex_cmp_desc].
  - split; reflexivity.
  - injection Hl as Hl. specialize (IH w Hl). unfold cmp_desc.
    destruct (PeanoNat.Nat.compare_spec y x) as [E|E|E]; cbn [lexc].
    + rewrite IH. subst y. split; [intros ->; reflexivity|intros H; now injection H].
    + split; [discriminate|]. intros H. injection H as H _. lia.
    + split; [discriminate|]. intros H. injection H as H _. lia.
Qed.

Lemma lex_cmp_gt : forall v w, List.length v = List.length w -> (lex_cmp_desc v w = Gt <-> lex_more w v).
Proof.
  induction v as [|x v IH]; intros w Hl; destruct w as [|y w]; try discriminate Hl; cbn [lex_cmp_desc lex_more].
  - split; [discriminate|contradiction].
  - injection Hl as Hl. specialize (IH w Hl). unfold cmp_desc.
    destruct (PeanoNat.Nat.compare_spec y x) as [E|E|E]; cbn [lexc].
    + rewrite IH. split; [intros H; right; split; [exact E|exact H]|].
      intros [F|[_ H]]; [lia|exact H].
    + split; [discriminate|]. intros [F|[F _]]; lia.
    + split; [intros _; now left|reflexivity].
Qed.

Lemma lex_more_irrefl : forall v, ~ lex_more v v.
Proof. induction v as [|x v IH]; cbn [lex_more]; [tauto|]. intros [F|[_ F]]; [lia|now apply IH]. Qed.

Lemma lex_more_asym : forall v w, lex_more v w -> ~ lex_more w v.
Proof.
  induction v as [|x v IH]; intros w; destruct w as [|y w]; cbn [lex_more]; try tauto.
  intros [H|[E H]] [F|[E' F]]; try lia. now apply (IH w).
Qed.

Lemma counts_length s : List.length (counts s) = 6.
Proof. reflexivity. Qed.

(* Stack.less, exactly: the counts decide lexicographically, more first; the
   frames are looked at only when the six counts are equal *)
Theorem stack_less_counts s r :
  stack_less s r = true <->
  lex_more (counts s) (counts r) \/ (counts s = counts r /\ frames_cmp (Calls s) (Calls r) = Lt).
Proof.
  unfold stack_less, stack_cmp. rewrite counts_cmp_lex.
  pose proof (lex_cmp_lt (counts s) (counts r) eq_refl) as HL.
  pose proof (lex_cmp_eq (counts s) (counts r) eq_refl) as HE.
  pose proof (lex_cmp_gt (counts s) (counts r) eq_refl) as HG.
  destruct (lex_cmp_desc (counts s) (counts r)) eqn:E; cbn [lexc].
  - destruct HE as [HE _]. specialize (HE eq_refl). split.
    + intros H. right. split; [exact HE|]. destruct (frames_cmp (Calls s) (Calls r)); try discriminate H. reflexivity.
    + intros [F|[_ ->]]; [|reflexivity]. rewrite HE in F. now apply lex_more_irrefl in F.
  - split; [intros _; left; now apply HL|reflexivity].
  - split; [discriminate|]. destruct HG as [HG _]. specialize (HG eq_refl).
    intros [F|[F _]]; [now apply lex_more_asym in F|]. rewrite F in HG. now apply lex_more_irrefl in HG.
Qed.

(* ------------------------------------------------------------------ *)
(* 3. what bucket_before says about the counts of non-First buckets      *)

Lemma before_false_counts a b :
  BFirst a = false -> BFirst b = false -> bucket_before b a = false ->
  ~ lex_more (bcounts b) (bcounts a).
Proof.
  intros Fa Fb H Hm. unfold bucket_before in H. rewrite Fa, Fb in H. cbn [orb] in H.
  assert (Hl : stack_less (SStack (BSig b)) (SStack (BSig a)) = true).
  { apply stack_less_counts. now left. }
  unfold sig_less in H. rewrite Hl in H. discriminate H.
Qed.

Lemma more_counts_before a b :
  BFirst a = false -> BFirst b = false -> lex_more (bcounts a) (bcounts b) -> bucket_before a b = true.
Proof.
  intros Fa Fb Hm. unfold bucket_before. rewrite Fa, Fb. cbn [orb].
  assert (Hl : stack_less (SStack (BSig a)) (SStack (BSig b)) = true).
  { apply stack_less_counts. now left. }
  unfold sig_less. rewrite Hl. reflexivity.
Qed.

(* the explicit nested form of ~ lex_more (counts b) (counts a) *)
Definition counts_ge (a b : Stack) : Prop :=
  main_count b <= main_count a /\
  (main_count a = main_count b ->
   loc_count GoMod b <= loc_count GoMod a /\
   (loc_count GoMod a = loc_count GoMod b ->
    loc_count GOPATH b <= loc_count GOPATH a /\
    (loc_count GOPATH a = loc_count GOPATH b ->
     loc_count GoPkg b <= loc_count GoPkg a /\
     (loc_count GoPkg a = loc_count GoPkg b ->
      loc_count Stdlib b <= loc_count Stdlib a /\
      (loc_count Stdlib a = loc_count Stdlib b ->
       loc_count LocationUnknown b <= loc_count LocationUnknown a))))).

Lemma not_lex_more_ge a b : ~ lex_more (counts b) (counts a) <-> counts_ge a b.
Proof.
  unfold counts, counts_ge. cbn [lex_more].
  generalize (main_count a) (main_count b) (loc_count GoMod a) (loc_count GoMod b)
             (loc_count GOPATH a) (loc_count GOPATH b) (loc_count GoPkg a) (loc_count GoPkg b)
             (loc_count Stdlib a) (loc_count Stdlib b) (loc_count LocationUnknown a) (loc_count LocationUnknown b).
  intros m1 m2 g1 g2 p1 p2 k1 k2 s1 s2 u1 u2. split.
  - intros H.
    split; [lia|]. intros ->. split; [lia|]. intros ->. split; [lia|]. intros ->.
    split; [lia|]. intros ->. split; [lia|]. intros ->. lia.
  - intros (H1 & H2) F.
    destruct F as [F|[E F]]; [lia|]. destruct (H2 (eq_sym E)) as (H3 & H4).
    destruct F as [F|[E2 F]]; [lia|]. destruct (H4 (eq_sym E2)) as (H5 & H6).
    destruct F as [F|[E3 F]]; [lia|]. destruct (H6 (eq_sym E3)) as (H7 & H8).
    destruct F as [F|[E4 F]]; [lia|]. destruct (H8 (eq_sym E4)) as (H9 & H10).
    destruct F as [F|[E5 F]]; [lia|]. specialize (H10 (eq_sym E5)).
    destruct F as [F|[_ []]]. lia.
Qed.

(* ------------------------------------------------------------------ *)
(* 4. the sorted output                                                 *)

Lemma stdlib_unknown0 l :
  forallb (fun c => loc_eqb (CLocation c) Stdlib && negb (IsPkgMain (CFunc c))) l = true ->
  count_loc LocationUnknown l = 0.
Proof.
  induction l as [|c l IH]; intros Hs; [reflexivity|].
  cbn [forallb] in Hs. apply Bool.andb_true_iff in Hs as [Hc1 Hl]. apply Bool.andb_true_iff in Hc1 as [Hloc _].
  rewrite count_loc_cons, (IH Hl). destruct (CLocation c); try discriminate Hloc. reflexivity.
Qed.

(* stdlib-only last, from the counts *)
Lemma stdlib_only_counts b : all_stdlib_no_main b = true ->
  bcounts b = [0; 0; 0; 0; List.length (Calls (SStack (BSig b))); 0].
Proof.
  intros Hs. unfold all_stdlib_no_main in Hs. destruct (stdlib_counts _ Hs) as (E1 & E2 & E3 & E4).
  pose proof (loc_counts_total (SStack (BSig b))) as Ht.
  assert (Eu : loc_count LocationUnknown (SStack (BSig b)) = 0).
  { rewrite loc_count_eq. now apply stdlib_unknown0. }
  unfold bcounts, counts. rewrite main_count_eq, !loc_count_eq in *. rewrite E1, E2, E3, E4 in *.
  rewrite Eu in *. repeat f_equal. lia.
Qed.

Lemma user_code_counts a : has_user_code a = true ->
  0 < main_count (SStack (BSig a)) + loc_count GoMod (SStack (BSig a)) +
      loc_count GOPATH (SStack (BSig a)) + loc_count GoPkg (SStack (BSig a)).
Proof. intros Hu. rewrite main_count_eq, !loc_count_eq. now apply user_counts. Qed.


Section Sorted.
  Variable bs : list Bucket.
  Hypothesis Hc : count_bfirst bs <= 1.
  Let out := sort_stable bucket_before bs.

  Lemma out_no_inv i j a b :
    i < j -> nth_error out i = Some a -> nth_error out j = Some b -> bucket_before b a = false.
  Proof. destruct (sorted_ok bs Hc) as (_ & H & _). apply H. Qed.

  (* a before b, both not First: b does not have more, lexicographically *)
  Theorem counts_order i j a b :
    i < j -> nth_error out i = Some a -> nth_error out j = Some b ->
    BFirst a = false -> BFirst b = false ->
    ~ lex_more (bcounts b) (bcounts a) /\ counts_ge (SStack (BSig a)) (SStack (BSig b)).
  Proof.
    intros Hij Hi Hj Fa Fb.
    assert (H : ~ lex_more (bcounts b) (bcounts a)).
    { apply before_false_counts; [exact Fa|exact Fb|]. apply (out_no_inv i j a b Hij Hi Hj). }
    split; [exact H|]. now apply not_lex_more_ge.
  Qed.

  (* conversely: strictly more (lexicographically) => strictly before *)
  Theorem more_counts_first i j a b :
    nth_error out i = Some a -> nth_error out j = Some b ->
    BFirst a = false -> BFirst b = false ->
    lex_more (bcounts a) (bcounts b) -> i < j.
  Proof.
    intros Hi Hj Fa Fb Hm.
    destruct (PeanoNat.Nat.lt_trichotomy i j) as [H|[H|H]]; [exact H| |].
    - subst j. rewrite Hi in Hj. injection Hj as <-. now apply lex_more_irrefl in Hm.
    - exfalso. pose proof (out_no_inv j i b a H Hj Hi) as Hn.
      rewrite (more_counts_before a b Fa Fb Hm) in Hn. discriminate Hn.
  Qed.

  Corollary more_main_first i j a b :
    nth_error out i = Some a -> nth_error out j = Some b ->
    BFirst a = false -> BFirst b = false ->
    main_count (SStack (BSig b)) < main_count (SStack (BSig a)) -> i < j.
  Proof.
    intros Hi Hj Fa Fb Hm. apply (more_counts_first i j a b Hi Hj Fa Fb).
    unfold bcounts, counts. cbn [lex_more]. now left.
  Qed.

  Theorem stdlib_only_last i j a b :
    nth_error out i = Some a -> nth_error out j = Some b ->
    BFirst a = false -> BFirst b = false ->
    has_user_code a = true -> all_stdlib_no_main b = true -> i < j.
  Proof.
    intros Hi Hj Fa Fb Hu Hs. apply (more_counts_first i j a b Hi Hj Fa Fb).
    rewrite (stdlib_only_counts b Hs). apply user_code_counts in Hu.
    unfold bcounts, counts. cbn [lex_more].
    destruct (main_count (SStack (BSig a))) as [|m]; [|left; lia]. right. split; [reflexivity|].
    destruct (loc_count GoMod (SStack (BSig a))) as [|g]; [|left; lia]. right. split; [reflexivity|].
    destruct (loc_count GOPATH (SStack (BSig a))) as [|p]; [|left; lia]. right. split; [reflexivity|].
    destruct (loc_count GoPkg (SStack (BSig a))) as [|k]; [|left; lia]. cbn in Hu. lia.
  Qed.
End Sorted.

(* ------------------------------------------------------------------ *)
(* 5. Aggregate                                                         *)

Lemma aggregate_is_sort shuffle lvl gs bs :
  count_first gs <= 1 -> aggregate shuffle lvl gs = Ok bs ->
  exists bs0, count_bfirst bs0 <= 1 /\ bs = sort_stable bucket_before bs0.
Proof.
  intros Hc. unfold aggregate.
  destruct (agg_loop shuffle lvl [] 0 gs) as [st|msg] eqn:El; cbn [bind]; [|intros H; discriminate H].
  intros H. injection H as <-.
  apply agg_loop_ecount in El. change (ecount []) with 0 in El.
  exists (map bucket_of_entry st). split; [rewrite count_bfirst_entries; lia|reflexivity].
Qed.

Theorem aggregate_counts_order shuffle lvl gs bs :
  count_first gs <= 1 -> aggregate shuffle lvl gs = Ok bs ->
  forall i j a b, nth_error bs i = Some a -> nth_error bs j = Some b ->
    BFirst a = false -> BFirst b = false ->
    (i < j -> ~ lex_more (bcounts b) (bcounts a) /\ counts_ge (SStack (BSig a)) (SStack (BSig b))) /\
    (lex_more (bcounts a) (bcounts b) -> i < j) /\
    (main_count (SStack (BSig b)) < main_count (SStack (BSig a)) -> i < j) /\
    (has_user_code a = true -> all_stdlib_no_main b = true -> i < j).
Proof.
  intros Hc H i j a b Hi Hj Fa Fb.
  destruct (aggregate_is_sort _ _ _ _ Hc H) as (bs0 & Hc0 & ->).
  split; [|split; [|split]].
  - intros Hij. apply (counts_order bs0 Hc0 i j a b Hij Hi Hj Fa Fb).
  - apply (more_counts_first bs0 Hc0 i j a b Hi Hj Fa Fb).
  - apply (more_main_first bs0 Hc0 i j a b Hi Hj Fa Fb).
  - apply (stdlib_only_last bs0 Hc0 i j a b Hi Hj Fa Fb).
Qed.
