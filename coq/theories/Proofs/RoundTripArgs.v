(* Proofs/RoundTripArgs.v — C01, argument lists: what Spec.Printer.print_args
   prints is read back by Model.ParseArgs.parse_args as the Args value the
   AST denotes (args_of), for uint64 values and aggregates nested at most 5
   deep.  Also: every Arg that parse_args produces (at any nesting level) has
   IsPtr = is_ptr_value Value.

   Architecture of the round trip:
     1. the printed text is  join (map print_tok toks) ", "  for a non-empty
        list of tokens  '{'^o item '}'^c  (toks_of);
     2. no token contains a comma, hence split gives the tokens back;
     3. trim_curly on a printed token returns (o, item text, c);
     4. pa_piece on a printed token = o opens, the item action, c closes;
        the concatenated actions of all tokens are a flat event list that no
        longer depends on how the braces are attached to tokens (evs_arg);
     5. running the events of an argument tree on the frame stack appends
        arg_of of the tree to the top frame (induction on the tree, with the
        depth accounting of pa_open). *)
From PP Require Import Base.Bytes Base.BytesX Base.Num Model.Types Model.ParseArgs Spec.Printer.
From PP Require Import Proofs.RoundTripNum.

(* ------------------------------------------------------------------ *)
(* 0. small list facts                                                 *)

Definition sep : bytes := [44%N; 32%N].

Lemma sep_eq : s2b ", " = sep.
Proof. reflexivity. Qed.

(* the separator-prefixed concatenation: join (x :: l) = x ++ jtail l *)
Definition jtail (l : list bytes) : bytes := List.concat (map (fun x => sep ++ x) l).

Lemma jtail_cons : forall x l, jtail (x :: l) = sep ++ x ++ jtail l.
Proof. intros x l. unfold jtail. cbn [map List.concat]. rewrite <- app_assoc. reflexivity. Qed.

Lemma jtail_app : forall l1 l2, jtail (l1 ++ l2) = jtail l1 ++ jtail l2.
Proof. intros l1 l2. unfold jtail. rewrite map_app, concat_app. reflexivity. Qed.

Lemma join_cons2 : forall x y l, join (x :: y :: l) sep = x ++ sep ++ join (y :: l) sep.
Proof. reflexivity. Qed.

Lemma join_jtail : forall l x, join (x :: l) sep = x ++ jtail l.
Proof.
  induction l as [|y l IH]; intros x.
  - cbn [join]. unfold jtail. cbn [map List.concat]. rewrite app_nil_r. reflexivity.
  - rewrite join_cons2, IH, jtail_cons. reflexivity.
Qed.

Lemma jtail_join : forall l, l <> [] -> jtail l = sep ++ join l sep.
Proof.
  intros [|x l] H; [contradiction|]. rewrite jtail_cons, join_jtail. reflexivity.
Qed.

Lemma jtail_join_eq : forall l1 l2, jtail l1 = jtail l2 -> join l1 sep = join l2 sep.
Proof.
  intros [|x l1] [|y l2] H.
  - reflexivity.
  - rewrite jtail_cons in H. discriminate H.
  - rewrite jtail_cons in H. discriminate H.
  - rewrite !jtail_cons in H. apply app_inv_head in H. rewrite !join_jtail. exact H.
Qed.

Lemma rev_repeat : forall (A : Type) (x : A) n, rev (repeat x n) = repeat x n.
Proof.
  intros A x n. induction n as [|n IH]; [reflexivity|].
  cbn [repeat rev]. rewrite IH. symmetry. apply repeat_cons.
Qed.

Lemma repeat_S_end : forall (A : Type) (x : A) n, repeat x (S n) = repeat x n ++ [x].
Proof. intros A x n. cbn [repeat]. apply repeat_cons. Qed.

Lemma skipn_repeat_app : forall (A : Type) (x : A) n r, skipn n (repeat x n ++ r) = r.
Proof. intros A x n r. induction n as [|n IH]; [reflexivity|]. cbn [repeat app skipn]. exact IH. Qed.

Lemma count_while_repeat : forall p x n r, p x = true ->
  count_while p (repeat x n ++ r) = n + count_while p r.
Proof.
  intros p x n r Hp. induction n as [|n IH]; [reflexivity|].
  cbn [repeat app count_while]. rewrite Hp, IH. reflexivity.
Qed.

Lemma firstn_app_exact : forall (A : Type) (l r : list A), firstn (List.length l) (l ++ r) = l.
Proof.
  intros A l r. induction l as [|x l IH]; [reflexivity|].
  cbn [List.length app firstn]. rewrite IH. reflexivity.
Qed.

Lemma skipn_app_exact : forall (A : Type) (l r : list A), skipn (List.length l) (l ++ r) = r.
Proof. intros A l r. induction l as [|x l IH]; [reflexivity|]. exact IH. Qed.

Lemma forallb_impl : forall (A : Type) (p q : A -> bool) l,
  (forall x, p x = true -> q x = true) -> forallb p l = true -> forallb q l = true.
Proof.
  intros A p q l Hpq. induction l as [|x l IH]; intros H; [reflexivity|].
  cbn [forallb] in *. apply andb_true_iff in H as [H1 H2].
  rewrite (Hpq x H1), (IH H2). reflexivity.
Qed.

Lemma forallb_repeat : forall (A : Type) (p : A -> bool) x n, p x = true -> forallb p (repeat x n) = true.
Proof. intros A p x n Hp. induction n as [|n IH]; [reflexivity|]. cbn [repeat forallb]. rewrite Hp, IH. reflexivity. Qed.

Lemma nonempty_last : forall (A : Type) (p : A -> bool) (l : list A),
  l <> [] -> forallb p l = true -> exists l' x, l = l' ++ [x] /\ p x = true.
Proof.
  intros A p l Hne Hp. destruct (exists_last Hne) as (l' & x & E). subst l.
  exists l', x. split; [reflexivity|].
  rewrite forallb_app in Hp. apply andb_true_iff in Hp as [_ Hp]. cbn [forallb] in Hp.
  apply andb_true_iff in Hp as [Hp _]. exact Hp.
Qed.

(* ------------------------------------------------------------------ *)
(* 1. split (join l ", ") ", " = l for comma-free pieces               *)

Definition nocomma (t : bytes) : Prop := forallb (fun c => negb (N.eqb c 44)) t = true.

Lemma split_go_tok : forall t cur fuel rest, nocomma t ->
  split_go (List.length t + fuel) (t ++ rest) sep cur = split_go fuel rest sep (rev t ++ cur).
Proof.
  induction t as [|x t IH]; intros cur fuel rest Hnc; [reflexivity|].
  unfold nocomma in Hnc. cbn [forallb] in Hnc. apply andb_true_iff in Hnc as [Hx Ht].
  apply negb_true_iff in Hx.
  cbn [List.length Nat.add app split_go].
  replace (has_prefix (x :: t ++ rest) sep) with false
    by (unfold sep; cbn [has_prefix]; rewrite Hx; reflexivity).
  rewrite (IH (x :: cur) fuel rest Ht). cbn [rev]. rewrite <- app_assoc. reflexivity.
Qed.

Lemma split_go_nil : forall fuel cur, split_go fuel [] sep cur = [rev cur].
Proof. intros [|fuel] cur; reflexivity. Qed.

Lemma split_go_sep : forall fuel rest cur,
  split_go (S fuel) (sep ++ rest) sep cur = rev cur :: split_go fuel rest sep [].
Proof. intros fuel rest cur. unfold sep. destruct rest; reflexivity. Qed.

Lemma split_go_join : forall l x cur fuel,
  Forall nocomma (x :: l) -> List.length (join (x :: l) sep) <= fuel ->
  split_go fuel (join (x :: l) sep) sep cur = (rev cur ++ x) :: l.
Proof.
  induction l as [|y l IH]; intros x cur fuel Hnc Hfuel.
  - cbn [join] in *. inversion Hnc as [|x0 l0 Hx _]; subst.
    replace fuel with (List.length x + (fuel - List.length x)) by lia.
    pose proof (split_go_tok x cur (fuel - List.length x) [] Hx) as E.
    rewrite app_nil_r in E. rewrite E, split_go_nil.
    rewrite rev_app_distr, rev_involutive. reflexivity.
  - inversion Hnc as [|x0 l0 Hx Hrest]; subst.
    rewrite join_cons2 in *. rewrite !app_length in Hfuel. cbn [sep List.length] in Hfuel.
    replace fuel with (List.length x + S (fuel - List.length x - 1)) by lia.
    rewrite (split_go_tok x cur _ _ Hx), split_go_sep.
    rewrite (IH y [] _ Hrest) by lia.
    rewrite rev_app_distr, rev_involutive. reflexivity.
Qed.

Lemma split_join : forall l, l <> [] -> Forall nocomma l -> split (join l sep) (s2b ", ") = l.
Proof.
  intros [|x l] Hne Hnc; [contradiction|]. rewrite sep_eq. unfold split.
  rewrite (split_go_join l x [] _ Hnc) by lia. reflexivity.
Qed.
