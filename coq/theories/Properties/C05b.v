(* Properties/C05b.v — C04, C05 and C12 over goroutine POSITIONS: the bucket
   theorems for EVERY snapshot, repeated ids included.  Statements only.

   Properties/C05.v (C05_buckets_are_classes, C05_order_independent) and
   Properties/C12.v (C12_truthful) are stated with [c05_ok] / [c12_ok], which
   identify a goroutine by its ID and are "true" on any snapshot in which an id
   occurs twice; the First clause of [c04_ok] has the same escape.  Here a
   goroutine is identified by its position (0,1,2,...) in the snapshot.
   [aggregate_pos] (Proofs/AggPos.v) is [aggregate] with, for every bucket, the
   ghost list of the positions of its members; C04b_erasure says that it
   computes exactly what [aggregate] computes. *)
From PP Require Import Base.Bytes Base.GoResult Model.Types Model.Stack Model.Bucket.
From PP Require Import Spec.BucketSpec Spec.Wf Spec.BucketSpecPos.
From PP Require Import Proofs.AggPos.
From Coq Require Import Permutation FinFun.

(* ---------------- erasure ---------------- *)
(* For every oracle, level and snapshot: forgetting the positions gives the
   GoResult of the model (same panic, or the same buckets in the same order). *)
Theorem C04b_erasure :
  forall shuffle lvl gs, forget_all (aggregate_pos shuffle lvl gs) = aggregate shuffle lvl gs.
Proof. exact AggPos.aggregate_pos_erasure. Qed.
Print Assumptions C04b_erasure.

(* ---------------- C04 ---------------- *)
(* For EVERY snapshot, level and oracle (no assumption on it): no panic; the
   positioned buckets erase to the model's result and satisfy c04_pos_ok. *)
Theorem C04b_partition_pos :
  forall shuffle lvl gs, exists pbs,
    aggregate_pos shuffle lvl gs = Ok pbs /\ aggregate shuffle lvl gs = Ok (map forget pbs) /\
    c04_pos_ok gs pbs = true.
Proof. exact AggPos.partition_pos_ok. Qed.
Print Assumptions C04b_partition_pos.

(* The same in the statement's own words: the member-position lists partition
   0..n-1; none is empty; each is in dump order; a bucket's IDs field is the
   sorted list of the ids found at its positions (duplicates kept); it is
   First iff a goroutine at one of its positions is. *)
Theorem C04b_partition_pos_explicit :
  forall shuffle lvl gs pbs, aggregate_pos shuffle lvl gs = Ok pbs ->
  Permutation (flat_map positions pbs) (seq 0 (List.length gs)) /\
  forall pb, In pb pbs ->
    positions pb <> [] /\ asc_from 0 (positions pb) = true /\
    IDs (forget pb) = sortZ (map ID (members_at gs (positions pb))) /\
    BFirst (forget pb) = existsb First (members_at gs (positions pb)).
Proof. exact AggPos.partition_pos. Qed.
Print Assumptions C04b_partition_pos_explicit.

(* the executable predicate says exactly that *)
Theorem C04b_pos_ok_iff :
  forall gs pbs, c04_pos_ok gs pbs = true <->
  (Permutation (flat_map positions pbs) (seq 0 (List.length gs)) /\
   forall pb, In pb pbs ->
     positions pb <> [] /\ asc_from 0 (positions pb) = true /\
     IDs (forget pb) = sortZ (map ID (members_at gs (positions pb))) /\
     BFirst (forget pb) = existsb First (members_at gs (positions pb))).
Proof. exact AggPos.c04_pos_ok_iff. Qed.
Print Assumptions C04b_pos_ok_iff.

(* ---------------- C05 ---------------- *)
(* Same hypotheses as C05_buckets_are_classes (oracle = a permutation,
   well-formed snapshot), no hypothesis on the ids. *)
Theorem C05b_classes_pos :
  forall shuffle lvl gs pbs,
  (forall k l, Permutation (shuffle k l) l) -> wf_goroutines gs = true ->
  aggregate_pos shuffle lvl gs = Ok pbs -> c05_pos_ok lvl gs pbs = true.
Proof. exact AggPos.classes_pos_ok. Qed.
Print Assumptions C05b_classes_pos.

(* two positions share a bucket iff the goroutines they hold have the same
   canonical key at that level *)
Theorem C05b_classes_pos_explicit :
  forall shuffle lvl gs pbs,
  (forall k l, Permutation (shuffle k l) l) -> wf_goroutines gs = true ->
  aggregate_pos shuffle lvl gs = Ok pbs ->
  forall p1 p2 g1 g2, nth_error gs p1 = Some g1 -> nth_error gs p2 = Some g2 ->
    ((exists pb, In pb pbs /\ In p1 (positions pb) /\ In p2 (positions pb)) <->
     canon_sig lvl (GSig g1) = canon_sig lvl (GSig g2)).
Proof. exact AggPos.classes_pos. Qed.
Print Assumptions C05b_classes_pos_explicit.

(* Order independence.  gs' is any re-ordering of gs: f sends a position of
   gs' to a position of gs holding the same goroutine.  Positions j1, j2 of
   gs' share a bucket iff f j1, f j2 share one in gs - whatever the oracles. *)
Theorem C05b_order_independent_pos :
  forall sh1 sh2 lvl gs gs' pbs pbs' (f : nat -> nat),
  (forall k l, Permutation (sh1 k l) l) -> (forall k l, Permutation (sh2 k l) l) ->
  wf_goroutines gs = true ->
  (forall j, j < List.length gs' -> nth_error gs' j = nth_error gs (f j)) ->
  aggregate_pos sh1 lvl gs = Ok pbs -> aggregate_pos sh2 lvl gs' = Ok pbs' ->
  forall j1 j2, j1 < List.length gs' -> j2 < List.length gs' ->
    ((exists pb, In pb pbs' /\ In j1 (positions pb) /\ In j2 (positions pb)) <->
     (exists pb, In pb pbs /\ In (f j1) (positions pb) /\ In (f j2) (positions pb))).
Proof. exact AggPos.order_independent_pos. Qed.
Print Assumptions C05b_order_independent_pos.

(* every permutation of the snapshot has such an f (a bijection of 0..n-1):
   permuting the snapshot permutes the positions accordingly *)
Theorem C05b_order_independent_perm :
  forall sh1 sh2 lvl gs gs' pbs pbs',
  (forall k l, Permutation (sh1 k l) l) -> (forall k l, Permutation (sh2 k l) l) ->
  wf_goroutines gs = true -> Permutation gs gs' ->
  aggregate_pos sh1 lvl gs = Ok pbs -> aggregate_pos sh2 lvl gs' = Ok pbs' ->
  exists f : nat -> nat,
    Injective f /\ bFun (List.length gs) f /\ (forall j, nth_error gs' j = nth_error gs (f j)) /\
    forall j1 j2, j1 < List.length gs' -> j2 < List.length gs' ->
      same_bucket_pos pbs' j1 j2 = same_bucket_pos pbs (f j1) (f j2).
Proof. exact AggPos.order_independent_perm. Qed.
Print Assumptions C05b_order_independent_perm.

(* The positional C04 + C05 leave no freedom: any two positioned bucket lists
   that satisfy them for a snapshot and a level have the same position lists
   (so does, in particular, any list compared with the model's). *)
Theorem C05b_pins_partition :
  forall lvl gs pbs pbs',
  c04_pos_ok gs pbs = true -> c05_pos_ok lvl gs pbs = true ->
  c04_pos_ok gs pbs' = true -> c05_pos_ok lvl gs pbs' = true ->
  forall ps, In ps (map positions pbs) <-> In ps (map positions pbs').
Proof. exact AggPos.pos_spec_unique_ok. Qed.
Print Assumptions C05b_pins_partition.

(* ---------------- C12 ---------------- *)
(* For every snapshot, level and oracle: every bucket's signature satisfies
   the c12 relation (c12_sig: the body of c12_bucket) with respect to the
   goroutines AT ITS POSITIONS. *)
Theorem C12b_truthful_pos :
  forall shuffle lvl gs pbs, aggregate_pos shuffle lvl gs = Ok pbs -> c12_pos_ok gs pbs = true.
Proof. exact AggPos.truthful_pos_ok. Qed.
Print Assumptions C12b_truthful_pos.

Theorem C12b_truthful_pos_explicit :
  forall shuffle lvl gs pbs, aggregate_pos shuffle lvl gs = Ok pbs ->
  forall pb, In pb pbs -> c12_sig (BSig (forget pb)) (map GSig (members_at gs (positions pb))) = true.
Proof. exact AggPos.truthful_pos. Qed.
Print Assumptions C12b_truthful_pos_explicit.

(* c12_sig is the relation of Spec/BucketSpec.v *)
Theorem C12b_sig_is_c12_bucket :
  forall gs b, c12_bucket gs b = c12_sig (BSig b) (map GSig (members gs b)).
Proof. exact AggPos.c12_bucket_sig. Qed.
Print Assumptions C12b_sig_is_c12_bucket.

(* ---------------- nothing was lost ---------------- *)
(* The id-based predicates follow from the positional ones, for ANY positioned
   bucket list (c05_ok, c12_ok: trivially when an id is repeated, through
   "members by id = members by position" when ids are distinct). *)
Theorem C05b_pos_ok_implies_ok :
  forall lvl gs pbs,
  c04_pos_ok gs pbs = true ->
  c04_ok gs (map forget pbs) = true /\
  (c05_pos_ok lvl gs pbs = true -> c05_ok lvl gs (map forget pbs) = true) /\
  (c12_pos_ok gs pbs = true -> c12_ok gs (map forget pbs) = true).
Proof. exact AggPos.pos_ok_implies_ok. Qed.
Print Assumptions C05b_pos_ok_implies_ok.

(* with distinct ids, the members of Spec/BucketSpec.v are the members by position *)
Theorem C05b_members_by_id_are_members_by_position :
  forall gs b ps,
  NoDup (map ID gs) -> asc_from 0 ps = true -> IDs b = sortZ (map ID (members_at gs ps)) ->
  members gs b = members_at gs ps.
Proof. exact AggPos.members_of_positions. Qed.
Print Assumptions C05b_members_by_id_are_members_by_position.

(* C04_partition, C05_buckets_are_classes, C05_order_independent and
   C12_truthful, word for word, obtained from the positional theorems and the
   erasure theorem only *)
Corollary C04_partition_from_pos :
  forall shuffle lvl gs, exists bs, aggregate shuffle lvl gs = Ok bs /\ c04_ok gs bs = true.
Proof. exact AggPos.partition_ok_again. Qed.
Print Assumptions C04_partition_from_pos.

Corollary C05_buckets_are_classes_from_pos :
  forall shuffle lvl gs bs,
  (forall k l, Permutation (shuffle k l) l) ->
  wf_goroutines gs = true ->
  aggregate shuffle lvl gs = Ok bs -> c05_ok lvl gs bs = true.
Proof. exact AggPos.buckets_are_classes_again. Qed.
Print Assumptions C05_buckets_are_classes_from_pos.

Corollary C05_order_independent_from_pos :
  forall sh1 sh2 lvl gs gs' bs bs',
  (forall k l, Permutation (sh1 k l) l) -> (forall k l, Permutation (sh2 k l) l) ->
  wf_goroutines gs = true -> NoDup (map ID gs) -> Permutation gs gs' ->
  aggregate sh1 lvl gs = Ok bs -> aggregate sh2 lvl gs' = Ok bs' ->
  forall g1 g2, In g1 gs -> In g2 gs ->
    opt_nat_eqb (bucket_index bs (ID g1)) (bucket_index bs (ID g2)) =
    opt_nat_eqb (bucket_index bs' (ID g1)) (bucket_index bs' (ID g2)).
Proof. exact AggPos.order_independent_again. Qed.
Print Assumptions C05_order_independent_from_pos.

Corollary C12_truthful_from_pos :
  forall shuffle lvl gs bs, aggregate shuffle lvl gs = Ok bs -> c12_ok gs bs = true.
Proof. exact AggPos.truthful_again. Qed.
Print Assumptions C12_truthful_from_pos.

(* ---------------- why ids are not enough ---------------- *)
(* A well-formed snapshot of three goroutines whose positions 0 and 1 hold two
   DIFFERENT goroutines (not similar at any level) with the same id 7.
   - "wrong" = one bucket holding all three.  It passes c04_ok, c05_ok and
     c12_ok (indeed c05_ok and c12_ok hold of ANY bucket list here), and
     fails c05_pos_ok and c12_pos_ok.
   - the model's answer has the partition {1} {0,2} and passes the three
     positional predicates (which pin that partition: C05b_pins_partition). *)
Theorem C05b_ids_not_enough_refuted : exists gs wrong pbs g0 g1,
  nth_error gs 0 = Some g0 /\ nth_error gs 1 = Some g1 /\ ID g0 = ID g1 /\
  canon_sig_eqb AnyValue (GSig g0) (GSig g1) = false /\
  wf_goroutines gs = true /\
  c04_ok gs (map forget wrong) = true /\ c05_ok AnyPointer gs (map forget wrong) = true /\
  c12_ok gs (map forget wrong) = true /\
  c04_pos_ok gs wrong = true /\ c05_pos_ok AnyPointer gs wrong = false /\ c12_pos_ok gs wrong = false /\
  aggregate_pos id_shuffle AnyPointer gs = Ok pbs /\ map positions pbs = [[1]; [0; 2]] /\
  c04_pos_ok gs pbs = true /\ c05_pos_ok AnyPointer gs pbs = true /\ c12_pos_ok gs pbs = true /\
  (forall lvl bs, c05_ok lvl gs bs = true /\ c12_ok gs bs = true).
Proof. exact AggPos.ids_not_enough_refuted. Qed.
Print Assumptions C05b_ids_not_enough_refuted.

(* ---------------- the hypotheses are satisfiable ---------------- *)
(* five goroutines, the id 7 three times (twice the same goroutine, once a
   different one), an oracle that is not the identity *)
Example C05b_example : exists gs pbs,
  wf_goroutines gs = true /\ List.length gs = 5 /\ nodupZ (map ID gs) = false /\
  aggregate_pos rev_shuffle AnyPointer gs = Ok pbs /\
  map positions pbs = [[1; 4]; [0; 2; 3]] /\ map (fun pb => IDs (forget pb)) pbs = [[7; 9]; [3; 7; 7]]%Z /\
  c04_pos_ok gs pbs = true /\ c05_pos_ok AnyPointer gs pbs = true /\ c12_pos_ok gs pbs = true.
Proof. exact AggPos.example_pos. Qed.

Example C05b_example_oracle : forall k l, Permutation (rev_shuffle k l) l.
Proof. exact AggPos.rev_shuffle_perm. Qed.

(* the same snapshot reversed, another oracle: position j corresponds to 4-j *)
Example C05b_example_order : exists gs gs' pbs pbs',
  Permutation gs gs' /\ gs' = rev gs /\ wf_goroutines gs = true /\
  aggregate_pos id_shuffle AnyPointer gs = Ok pbs /\ aggregate_pos rev_shuffle AnyPointer gs' = Ok pbs' /\
  map positions pbs = [[1; 4]; [0; 2; 3]] /\ map positions pbs' = [[0; 3]; [1; 2; 4]] /\
  forallb (fun j1 => forallb (fun j2 =>
     Bool.eqb (same_bucket_pos pbs' j1 j2) (same_bucket_pos pbs (4 - j1) (4 - j2))) (seq 0 5)) (seq 0 5) = true.
Proof. exact AggPos.example_order. Qed.
