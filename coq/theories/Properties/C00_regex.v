(* Properties/C00_regex.v — the hand-written matchers of the model compute
   exactly what Go's regular expressions compute.

   The model of the scanner (Model/Lines.v, Model/Paths.v, Model/Html.v)
   replaces each of the twelve regexp.MustCompile of stack/context.go and
   stack/html.go by a hand-written matcher.  Here each matcher is proved equal,
   FOR ALL INPUTS, to a generic regular-expression semantics applied to a
   mechanical translation of the Go pattern:

     Spec/Regex.v       the abstract syntax of the RE2 subset used, and a
                        backtracking matcher with leftmost-first priorities and
                        capture groups ([re_find] = regexp.FindSubmatchIndex,
                        [re_submatch] = regexp.FindSubmatch).  ~100 lines, no proof.
     Spec/RegexDefs.v   GENERATED from the Go sources by scripts/gen_regex.py
                        (`--check` fails when a pattern changes).
     op `regex`         harness/cmd/vh/op_regex.go + ocaml/driver.ml: on every
                        case Go's regexp package = the extracted [re_find] on
                        the generated definition = the hand-written matcher.

   Statements only; proofs in Proofs/RegexProofs.v.  No fuel hypothesis is
   left: [re_find] supplies S (length of the text) itself.

   Vocabulary:
     grp n l            match[n] of the Go code: the n-th captured string, [] when
                        the group did not participate (Spec/Regex.v)
     no_lf t            ~ In LF t.  "." excludes LF and the matchers of Model/Lines.v
                        do not test for it: the three expressions with a "." are
                        characterised on LF-free texts, which is all the scanner
                        gives them (C00_scan_texts_no_lf); the nine others on every text.
     one_line l         no_lf (removelast l): at most one LF, the last byte. *)
From PP Require Import Base.Bytes Base.BytesX Base.GoResult Model.Types Model.Lines Model.Paths Model.Html
  Model.FuncInit Model.Scan Proofs.ScanInv Spec.ReaderSpec Proofs.RegexProofs.
From PP Require Import Spec.Regex Spec.RegexDefs.

(* ---- 1. stack/context.go, the line grammar ---- *)

(* reRoutineHeader: FindSubmatch, match[1..3] *)
Theorem C00_routine_header : forall line,
  match_routine_header line =
  option_map (fun l => (grp 1 l, grp 2 l, grp 3 l)) (re_submatch re_routine_header line).
Proof. exact RegexProofs.routine_header_correct. Qed.
Print Assumptions C00_routine_header.

(* reMinutes: FindSubmatch, match2[1] *)
Theorem C00_minutes : forall item,
  match_minutes item = option_map (grp 1) (re_submatch re_minutes item).
Proof. exact RegexProofs.minutes_correct. Qed.
Print Assumptions C00_minutes.

(* reUnavail: Match.  The expression has no "$": text may follow the sentence,
   in Go and in the model alike (no deviation). *)
Theorem C00_unavail : forall line,
  match_unavail line = match re_submatch re_unavail line with Some _ => true | None => false end.
Proof. exact RegexProofs.unavail_correct. Qed.
Print Assumptions C00_unavail.

(* reFile: FindSubmatch, match[1], match[2].  The hardest one: ` +` and `.+` both
   backtrack (match_file_spaces, match_file_ext_go), three alternatives for the
   file, optional tails tried empty first. *)
Theorem C00_file : forall line, no_lf line ->
  match_file line = option_map (fun l => (grp 1 l, grp 2 l)) (re_submatch re_file line).
Proof. exact RegexProofs.file_correct. Qed.
Print Assumptions C00_file.

(* reCreated: FindSubmatch, match[1] *)
Theorem C00_created : forall line, no_lf line ->
  match_created line = option_map (grp 1) (re_submatch re_created line).
Proof. exact RegexProofs.created_correct. Qed.
Print Assumptions C00_created.

(* reFunc: FindSubmatch, match[1], match[2] *)
Theorem C00_func : forall line, no_lf line ->
  match_func line = option_map (fun l => (grp 1 l, grp 2 l)) (re_submatch re_func line).
Proof. exact RegexProofs.func_correct. Qed.
Print Assumptions C00_func.

(* reRaceOperationHeader: bytes.Equal(match[1], "Write"), match[2], match[3] *)
Theorem C00_race_op : forall line,
  match_race_op line =
  option_map (fun l => (beq (grp 1 l) (s2b "Write"), grp 2 l, grp 3 l))
             (re_submatch re_race_operation_header line).
Proof. exact RegexProofs.race_op_correct. Qed.
Print Assumptions C00_race_op.

(* reRacePreviousOperationHeader: bytes.Equal(match[1], "write"), match[2], match[3] *)
Theorem C00_race_prev : forall line,
  match_race_prev line =
  option_map (fun l => (beq (grp 1 l) (s2b "write"), grp 2 l, grp 3 l))
             (re_submatch re_race_previous_operation_header line).
Proof. exact RegexProofs.race_prev_correct. Qed.
Print Assumptions C00_race_prev.

(* reRaceGoroutine: match[1], match[2] *)
Theorem C00_race_goroutine : forall line,
  match_race_goroutine line =
  option_map (fun l => (grp 1 l, grp 2 l)) (re_submatch re_race_goroutine line).
Proof. exact RegexProofs.race_goroutine_correct. Qed.
Print Assumptions C00_race_goroutine.

(* reModule, (?m) and unanchored: FindSubmatch on a whole go.mod, match[1] *)
Theorem C00_module : forall content,
  find_module content = option_map (grp 1) (re_submatch re_module content).
Proof. exact RegexProofs.module_correct. Qed.
Print Assumptions C00_module.

(* ---- 2. stack/html.go ---- *)

(* reMethodSymbol: MatchString then ReplaceAllString(s, "$1$2"); every input,
   LF included (the model tests for it) *)
Theorem C00_method_symbol : forall s,
  match_method_symbol s = option_map (fun l => (grp 1 l, grp 2 l)) (re_submatch re_method_symbol s).
Proof. exact RegexProofs.method_symbol_correct. Qed.
Print Assumptions C00_method_symbol.

Theorem C00_symbol : forall f : Func,
  symbol f =
  query_escape (match re_submatch re_method_symbol (FName f) with
                | Some l => grp 1 l ++ grp 2 l
                | None => FName f
                end).
Proof. exact RegexProofs.symbol_correct. Qed.
Print Assumptions C00_symbol.

(* reVersion, unanchored: the leftmost pseudo-version, its commit (group 1) *)
Theorem C00_version : forall tag,
  find_version tag = option_map (grp 1) (re_submatch re_version tag).
Proof. exact RegexProofs.version_correct. Qed.
Print Assumptions C00_version.

(* ---- 3. the domain of the three theorems with a hypothesis ---- *)

(* Every text [scan] gives to a line matcher is LF-free when the raw line has at
   most a final LF: [t] is the argument of scan_body (scan = scan_tr, scan_pre,
   scan_body: ScanInv.scan_unfold), trim_left_space t what the race-report
   states pass to parse_func, and the items are what header_items passes to
   match_minutes. *)
Theorem C00_scan_texts_no_lf : forall s line t0 s' t,
  one_line line -> scan_tr s line = Some t0 -> scan_pre s t0 = (s', Some t) ->
  no_lf t /\ no_lf (trim_left_space t) /\
  (forall ind ds text it, match_routine_header t = Some (ind, ds, text) ->
                          In it (split text (s2b ", ")) -> no_lf it).
Proof. exact RegexProofs.scan_texts_no_lf. Qed.
Print Assumptions C00_scan_texts_no_lf.

Theorem C00_scan_unfold : forall s line,
  scan s line =
  match scan_tr s line with
  | None => ret s false None
  | Some trimmed0 =>
      match scan_pre s trimmed0 with
      | (s', None) => ret s' false (Some ErrIndent)
      | (_, Some trimmed) => scan_body s trimmed
      end
  end.
Proof. exact ScanInv.scan_unfold. Qed.
Print Assumptions C00_scan_unfold.

(* The lines the reader produces are first_line (drop_lines n B) (C09_lines,
   Properties/C09.v, any stall-free schedule), and such a line has at most a
   final LF. *)
Theorem C00_reader_lines_one_line : forall b, one_line (first_line b).
Proof. exact RegexProofs.first_line_one_line. Qed.
Print Assumptions C00_reader_lines_one_line.

(* ---- 4. examples (vm_compute on the interpreter) ---- *)

Example C00_example_find :
  re_find re_minutes (s2b "12 minutes") = Some [Some (0, 10); Some (0, 2)] /\
  re_find re_minutes (s2b "12 minutes ") = None /\
  re_find re_func (s2b "main.(*T).f(0x1, {0x2})") = Some [Some (0, 23); Some (0, 11); Some (12, 22)] /\
  re_find re_version (s2b "x@v0.0.0-2020-d5e6zz v1.2.3-4-ff") = Some [Some (2, 18); Some (14, 18)] /\
  re_find re_routine_header (s2b "goroutine 7 gp=0x1 m=2 mp=0x3 [select, 3 minutes]:") =
    Some [Some (0, 50); Some (0, 0); Some (10, 11); Some (31, 48)].
Proof. vm_compute. repeat split. Qed.

(* reFile: the greedy .+ takes the LAST extension followed by a well-formed tail;
   ` +` gives spaces back to the file name when nothing else matches *)
Example C00_example_file :
  re_submatch re_file (9%N :: s2b "/a.go:1/b.c:12 +0x1f") =
    Some [Some (9%N :: s2b "/a.go:1/b.c:12 +0x1f"); Some (s2b "/a.go:1/b.c"); Some (s2b "12")] /\
  option_map (grp 1) (re_submatch re_file (s2b "    ??:0")) = Some (s2b "??") /\
  option_map (grp 1) (re_submatch re_file (s2b "    ??.go:0")) = Some (s2b "??.go") /\
  option_map (grp 1) (re_submatch re_file (s2b "    .go:0")) = Some (s2b " .go") /\
  match_file (s2b "    .go:0") = Some (s2b " .go", s2b "0") /\
  re_submatch re_file (9%N :: s2b "a.go:1 fp=0x1") = None.
Proof. vm_compute. repeat split. Qed.

(* reModule: \s+ spans line breaks and gives whitespace back; the capture of
   "module \n \n" is the space of the second line (the finding fixed in
   Model/Paths.v module_capture; found by the op `regex`) *)
Example C00_example_module :
  re_find re_module (s2b "// x" ++ [10%N] ++ s2b "module a/b" ++ [13; 10]%N) = Some [Some (5, 16); Some (12, 15)] /\
  re_find re_module (s2b "module " ++ [10%N; 32%N; 10%N]) = Some [Some (0, 9); Some (8, 9)] /\
  find_module (s2b "module " ++ [10%N; 32%N; 10%N]) = Some [32%N] /\
  find_module (s2b "module " ++ [12%N; 10%N]) = Some [12%N] /\
  find_module (s2b "module" ++ [10%N]) = None.
Proof. vm_compute. repeat split. Qed.

(* a dot does not match LF: outside no_lf the regexps reject what the line
   matchers would accept (the scanner never gives them such a text) *)
Example C00_example_lf :
  re_find re_created (s2b "created by a" ++ [10%N]) = None /\
  match_created (s2b "created by a" ++ [10%N]) = Some (s2b "a" ++ [10%N]).
Proof. vm_compute. repeat split. Qed.
