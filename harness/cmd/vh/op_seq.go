// op scanseq (C07): the documented resume protocol over a stream with several
// dumps; op cut (C10): every kind of cut of one input.
package main

import (
	"bytes"
	"fmt"
	"io"
	"math/rand"
	"strings"

	"github.com/maruel/panicparse/v2/stack"
)

type seqCall struct {
	snap string
	fwd  []byte
	err  string
}

// runSeq iterates ScanSnapshot exactly as stack/example_test.go Example_stream
// does (MultiReader(suffix, rest)), continuing after scan errors and stopping
// at EOF, at a reader failure, or after maxCalls.
func runSeq(content []byte, final string, maxCalls int) (calls []seqCall, rest []byte, panicked string) {
	defer func() {
		if e := recover(); e != nil {
			panicked = "PANIC:" + strings.ReplaceAll(fmt.Sprint(e), "\t", " ")
		}
	}()
	base := &scriptedReader{rest: append([]byte{}, content...), final: finalOf(final), w: &recWriter{}}
	var r io.Reader = base
	remain := len(content)
	for i := 0; i < maxCalls; i++ {
		w := &recWriter{}
		base.w = w
		s, suffix, err := stack.ScanSnapshot(r, w, scanOpts(false))
		c := seqCall{snap: "nil", err: errClass(err, nil)}
		if s != nil {
			c.snap = sexpGoroutines(s.Goroutines)
		}
		for _, x := range w.writes {
			c.fwd = append(c.fwd, x...)
		}
		calls = append(calls, c)
		if c.err == "eof" || strings.HasPrefix(c.err, "fail") || c.err == "noprogress" {
			rest = suffix
			return
		}
		if now := len(suffix) + len(base.rest); now >= remain {
			// a call that returned no error must have consumed something: the documented loop would spin
			calls = append(calls, seqCall{snap: "nil", err: "STUCK"})
			rest = suffix
			return
		} else {
			remain = now
		}
		r = io.MultiReader(bytes.NewReader(suffix), r)
	}
	return
}

func fmtSeq(calls []seqCall) string {
	var p []string
	for _, c := range calls {
		p = append(p, c.snap+"|"+hexs(c.fwd)+"|"+c.err)
	}
	if len(p) == 0 {
		return "-"
	}
	return strings.Join(p, ";")
}

// emitSeq: scanseq id content final regions | calls rest alone
// alone = the snapshot of scanning each region by itself, ";"-separated
func emitSeq(id string, content []byte, final, regions string) {
	calls, rest, pan := runSeq(content, final, 2000)
	var alone []string
	if regions != "-" && regions != "?" {
		for _, reg := range strings.Split(regions, ",") {
			var s, e int
			fmt.Sscanf(reg, "%d:%d", &s, &e)
			o := runScan(content[s:e], nil, "eof", false)
			alone = append(alone, o.snap)
		}
	}
	al := strings.Join(alone, ";")
	if al == "" {
		al = "-"
	}
	res := fmtSeq(calls)
	if pan != "" {
		res = pan
	}
	emit("scanseq", id, hexs(content), final, regions, res, hexs(rest), al)
}

func opScanSeq(r *rand.Rand, n int, tier string) {
	g := dgen{r}
	for i := 0; i < n; i++ {
		if i%3 == 2 {
			// malformed streams under the resume protocol: only crashes, hangs and the model are checked
			base := genJunk(r, 2, false, false) + printDump(g.dump(1+r.Intn(3), 4), g.variant(), true) + genJunk(r, 2, false, false) + printRace(g.race())
			emitSeq(fmt.Sprintf("seq-%d", i), []byte(mutate(r, mutate(r, base))), genFinal(r), "?")
			continue
		}
		var b strings.Builder
		var regions []string
		lastJunkLen := 0
		k := 1 + r.Intn(4)
		b.WriteString(genJunk(r, r.Intn(4), true, false))
		prevRace := false
		for j := 0; j < k; j++ {
			st := b.Len()
			isRace := r.Intn(3) == 0
			if j > 0 && (isRace != prevRace || (isRace && prevRace)) && r.Intn(2) == 0 {
				// no junk between a goroutine dump and a race report (either order), or between two race
				// reports: the dump must end at the separator line, which starts the next region
				// (two goroutine dumps in a row would legitimately be one dump)
				cur := b.String()
				cut := len(cur) - lastJunkLen
				b.Reset()
				b.WriteString(cur[:cut])
				st = b.Len()
			}
			if isRace {
				d := g.race()
				for len(d.Creations) == 0 {
					d = g.race()
				}
				b.WriteString(printRace(d))
			} else {
				v := g.variant()
				v.Indent, v.BlankIndents = "", false
				b.WriteString(printDump(g.dump(1+r.Intn(3), 5), v, true))
			}
			prevRace = isRace
			regions = append(regions, fmt.Sprintf("%d:%d", st, b.Len()))
			// at least one separating junk line, so that the next dump is not a continuation
			jk := genJunk(r, 1+r.Intn(4), true, false)
			lastJunkLen = len(jk)
			b.WriteString(jk)
		}
		if r.Intn(3) == 0 {
			b.WriteString("unterminated tail")
		}
		emitSeq(fmt.Sprintf("seq-%d", i), []byte(b.String()), genFinal(r), strings.Join(regions, ","))
	}
}

// ---- cut ----

// emitCut: cut id content cut signal ends | full-snap full-fwd full-err cut-snap cut-fwd cut-suffix cut-unread cut-err
// signal: eof | fail (error after the data) | faild (error together with the last data)
// ends: per goroutine of the uncut result, the offset at which all its text is complete
func emitCut(id string, content []byte, cut int, signal string, ends string, kind string) {
	full := runScan(content, nil, "eof", false)
	final := "eof"
	var sched []schedStep
	switch signal {
	case "fail":
		final = "fail:7"
		// (one step per buffer-full, and one more: the failure must come on a Read of its own, after the last data)
		for j := 0; j < cut/16384+2; j++ {
			sched = append(sched, schedStep{len(content) + 1, false})
		}
	case "faild":
		final = "fail:7"
	case "zeros": // plain end of stream after a delivery with many zero-length reads (never 100 in a row)
		for tot := 0; tot < cut+5; tot += 9 {
			sched = append(sched, schedStep{0, false}, schedStep{0, false}, schedStep{9, false})
		}
	case "chunkd", "chunke": // 13-byte pieces (lines straddle the reads), the last one delivered together with the failure / EOF
		if signal == "chunkd" {
			final = "fail:7"
		}
		for tot := 0; tot < cut+13; tot += 13 {
			sched = append(sched, schedStep{13, true})
		}
	case "failz": // the same, ending with a reader failure
		final = "fail:7"
		for tot := 0; tot < cut+5; tot += 9 {
			sched = append(sched, schedStep{0, false}, schedStep{0, false}, schedStep{9, false})
		}
	}
	c := runScan(content[:cut], sched, final, false)
	// the same cut input with path guessing on (nothing exists on disk): it must not crash either
	if !strings.HasPrefix(c.snap, "PANIC") && guessCrashes(content[:cut]) {
		c.snap = "PANIC:with GuessPaths"
	}
	emit("cut", id, hexs(content), fmt.Sprint(cut), signal, ends, kind,
		full.snap, hexs(full.fwd), full.err, c.snap, hexs(c.fwd), hexs(c.suffix), hexs(c.unread), c.err)
}

func init() {
	replayers["scanseq"] = func(id string, in []string) { emitSeq(id, unhexs(in[0]), in[1], in[2]) }
	replayers["cut"] = func(id string, in []string) {
		var cut int
		fmt.Sscan(in[1], &cut)
		emitCut(id, unhexs(in[0]), cut, in[2], in[3], in[4])
	}
}

// goroutineEnds computes, for a dump printed with variant v, the offset after
// the last line of each goroutine (blank separator excluded).
func dumpEnds(pre string, gs []dGoroutine, v dVariant) (string, []int) {
	var b strings.Builder
	b.WriteString(pre)
	var ends []int
	for i := range gs {
		if i != 0 {
			if v.BlankIndents {
				b.WriteString(v.Indent)
			}
			b.WriteString(v.eol())
		}
		for _, l := range gs[i].lines(v) {
			b.WriteString(v.Indent + l + v.eol())
		}
		ends = append(ends, b.Len())
	}
	if v.BlankIndents {
		b.WriteString(v.Indent)
	}
	b.WriteString(v.eol())
	return b.String(), ends
}

// raceEnds: per operation goroutine, the offset after which both its operation
// section and its creation section (if any) are complete.
func raceEnds(pre string, d dRace) (string, []int) {
	txt := pre + printRace(d)
	// recompute section ends by re-printing progressively
	opEnd := make([]int, len(d.Ops))
	for i := range d.Ops {
		part := dRace{Ops: d.Ops[:i+1]}
		s := printRace(part)
		// printRace(part) = header + ops (each followed by a blank line) + footer
		opEnd[i] = len(pre) + len(s) - len("==================\n") - 1 // before the blank line
	}
	ends := append([]int{}, opEnd...)
	for ci := range d.Creations {
		part := dRace{Ops: d.Ops, Creations: d.Creations[:ci+1]}
		s := printRace(part)
		e := len(pre) + len(s) - len("==================\n")
		for i := range d.Ops {
			if d.Ops[i].GID == d.Creations[ci].GID && e > ends[i] {
				ends[i] = e
			}
		}
	}
	return txt, ends
}

func guessCrashes(content []byte) (crashed bool) {
	defer func() {
		if recover() != nil {
			crashed = true
		}
	}()
	opts := &stack.Opts{GuessPaths: true, LocalGOROOT: "/nonexistent/goroot", LocalGOPATHs: []string{"/nonexistent/gopath"}}
	rd := &scriptedReader{rest: append([]byte{}, content...), final: finalOf("eof"), w: &recWriter{}}
	_, _, _ = stack.ScanSnapshot(rd, rd.w, opts)
	return false
}

func opCut(r *rand.Rand, n int, tier string) {
	g := dgen{r}
	// n = number of base inputs; every byte offset x 3 signals of each (quick: sampled offsets)
	for i := 0; i < n; i++ {
		pre := genJunk(r, r.Intn(3), true, false)
		longLine := i%4 == 3
		if longLine {
			// a junk line longer than the read buffer first: cuts at whole multiples of the buffer size inside it
			pre = variedText(r, 20000+r.Intn(20000)) + "\n" + pre
		}
		var txt, kind string
		var ends []int
		if r.Intn(3) == 0 {
			d := g.race()
			for len(d.Creations) == 0 {
				d = g.race()
			}
			txt, ends = raceEnds(pre, d)
			kind = "race"
		} else {
			v := g.variant()
			txt, ends = dumpEnds(pre, g.dump(1+r.Intn(3), 3), v)
			kind = "dump"
		}
		txt += genJunk(r, r.Intn(3), true, false)
		var es []string
		for _, e := range ends {
			es = append(es, fmt.Sprint(e))
		}
		content := []byte(txt)
		step := 1
		if tier != "thorough" && len(content) > 150 {
			step = len(content)/150 + 1
		}
		if tier == "thorough" && len(content) > 400 {
			// every offset of short inputs; ~400 offsets of longer ones, each under all seven signals
			step = len(content)/400 + 1
		}
		off := r.Intn(step)
		if longLine {
			for _, cut := range []int{16383, 16384, 16385, 32767, 32768, 32769} {
				if cut <= len(content) {
					sg := []string{"eof", "fail", "faild", "chunkd", "chunke"}[r.Intn(5)]
					emitCut(fmt.Sprintf("cut-%d-%d-%s", i, cut, sg), content, cut, sg, strings.Join(es, ","), kind)
					if cut%16384 == 0 && sg != "fail" {
						// the end of the stream / the failure reported by a Read of its own, after exactly k buffers of one line
						emitCut(fmt.Sprintf("cut-%d-%d-%s", i, cut, "fail"), content, cut, "fail", strings.Join(es, ","), kind)
					}
				}
			}
		}
		for cut := off; cut <= len(content); cut += step {
			sig := []string{"eof", "fail", "faild", "zeros", "failz", "chunkd", "chunke"}[r.Intn(7)]
			if tier == "thorough" {
				for _, sg := range []string{"eof", "fail", "faild", "zeros", "failz", "chunkd", "chunke"} {
					emitCut(fmt.Sprintf("cut-%d-%d-%s", i, cut, sg), content, cut, sg, strings.Join(es, ","), kind)
				}
				continue
			}
			emitCut(fmt.Sprintf("cut-%d-%d-%s", i, cut, sig), content, cut, sig, strings.Join(es, ","), kind)
		}
	}
}
