(* Spec/Regex.v — a generic semantics for the regular expressions of
   panicparse (stack/context.go, stack/html.go): an abstract syntax for the part
   of RE2 that the twelve expressions use and a backtracking matcher with the
   leftmost-first (Perl / Go regexp) priorities and capture groups.
   Definitions only; THIS FILE IS THE SPECIFICATION A HUMAN AUDITS.

   Matching is byte-wise.  Go's regexp works on runes (UTF-8, every invalid byte
   read as U+FFFD of width 1).  Every literal and every class bound of the
   twelve expressions is ASCII, so a class / dot / negated class either accepts
   all the bytes of a non-ASCII rune or is an ASCII-only class that rejects its
   first byte, and every position where an expression can stop is next to an
   ASCII literal, an anchor or the end of the expression: byte-level and
   rune-level matching coincide.  The correspondence op `regex` checks exactly
   that against regexp.FindSubmatchIndex, on non-ASCII and invalid UTF-8 too. *)
From PP Require Import Base.Bytes.

Inductive regex :=
| Empty                                   (* matches the empty string *)
| Lit (c : byte)                          (* that byte *)
| Any                                     (* .      any byte except LF *)
| Class (neg : bool) (rs : list (N * N))  (* [a-bc-d] / [^a-bc-d], inclusive ranges *)
| Seq (a b : regex)
| Alt (a b : regex)                       (* a|b    a has priority *)
| Star (a : regex)                        (* a*     greedy *)
| Plus (a : regex)                        (* a+     greedy *)
| Opt (a : regex)                         (* a?     greedy *)
| Group (n : nat) (a : regex)             (* (a)    capturing, n >= 1 (0 = the whole match) *)
| Bol | Eol                               (* ^ $    start / end of the text *)
| MBol | MEol.                            (* ^ $ under (?m): also after / before LF *)

(* derived forms used by the generated definitions (Spec/RegexDefs.v) *)
Definition digit : regex := Class false [(48, 57)]%N.                       (* \d = [0-9] *)
Definition space : regex := Class false [(9, 10); (12, 13); (32, 32)]%N.    (* \s = [\t\n\f\r ] *)
Fixpoint seqs (l : list regex) : regex :=
  match l with [] => Empty | [a] => a | a :: l' => Seq a (seqs l') end.
Fixpoint alts (l : list regex) : regex :=
  match l with [] => Empty | [a] => a | a :: l' => Alt a (alts l') end.
Definition lit (s : string) : regex := seqs (map Lit (s2b s)).
Arguments lit s%string_scope.

Definition in_class (rs : list (N * N)) (x : byte) : bool :=
  existsb (fun r => N.leb (fst r) x && N.leb x (snd r)) rs.

(* A position in the text: offset, the byte before it, the bytes after it. *)
Record state := mkst { idx : N; prev : option byte; rest : bytes }.
(* capture registers: start and end offset per group; None = did not participate *)
Definition caps := list (option (N * N)).
(* what remains to be matched after the current sub-expression *)
Definition cont := state -> caps -> option caps.

(* consume one byte satisfying p *)
Definition step (p : byte -> bool) (k : cont) : cont := fun st c =>
  match rest st with
  | x :: s => if p x then k (mkst (N.succ (idx st)) (Some x) s) c else None
  | [] => None
  end.

Definition set_cap (n : nat) (v : N * N) (c : caps) : caps := upd_nth n (fun _ => Some v) c.

(* greedy iteration: one more [body] then the loop again, else leave.  An
   iteration that consumed nothing is cut off (RE2 does not loop on an empty
   match; no loop body of the twelve expressions can match the empty string,
   gen_regex.py refuses such a pattern).  Every iteration consumes a byte, so
   fuel > length of the text is never exhausted. *)
Fixpoint loop (body : cont -> cont) (fuel : nat) (k : cont) : cont := fun st c =>
  match fuel with
  | O => k st c
  | S fuel' =>
      match body (fun st' c' => if N.eqb (idx st') (idx st) then None else loop body fuel' k st' c') st c with
      | Some r => Some r
      | None => k st c
      end
  end.

(* [m r fuel k st c]: match r at st, then k; the first success in priority order *)
Fixpoint m (r : regex) (fuel : nat) (k : cont) : cont :=
  match r with
  | Empty => k
  | Lit x => step (N.eqb x) k
  | Any => step (fun y => negb (N.eqb y LF)) k
  | Class neg rs => step (fun y => xorb neg (in_class rs y)) k
  | Seq a b => m a fuel (m b fuel k)
  | Alt a b => fun st c => match m a fuel k st c with Some r => Some r | None => m b fuel k st c end
  | Star a => loop (m a fuel) fuel k
  | Plus a => m a fuel (loop (m a fuel) fuel k)
  | Opt a => fun st c => match m a fuel k st c with Some r => Some r | None => k st c end
  | Group n a => fun st c => m a fuel (fun st' c' => k st' (set_cap n (idx st, idx st') c')) st c
  | Bol => fun st c => match prev st with None => k st c | Some _ => None end
  | Eol => fun st c => match rest st with [] => k st c | _ :: _ => None end
  | MBol => fun st c => match prev st with None => k st c | Some x => if N.eqb x LF then k st c else None end
  | MEol => fun st c => match rest st with [] => k st c | x :: _ => if N.eqb x LF then k st c else None end
  end.

Fixpoint ngroups (r : regex) : nat :=
  match r with
  | Seq a b | Alt a b => Nat.max (ngroups a) (ngroups b)
  | Star a | Plus a | Opt a => ngroups a
  | Group n a => Nat.max n (ngroups a)
  | _ => 0
  end.

(* leftmost: the first start offset 0, 1, 2, ... at which r matches *)
Fixpoint search (r : regex) (fuel : nat) (c0 : caps) (i : N) (pv : option byte) (s : bytes) : option caps :=
  match m r fuel (fun _ c => Some c) (mkst i pv s) c0 with
  | Some c => Some c
  | None => match s with [] => None | x :: s' => search r fuel c0 (N.succ i) (Some x) s' end
  end.

Definition re_find_N (r : regex) (w : bytes) : option caps :=
  search (Group 0 r) (S (List.length w)) (repeat None (S (ngroups r))) 0%N None w.

(* regexp.FindSubmatchIndex: (start, end) of the match and of every group *)
Definition re_find (r : regex) (w : bytes) : option (list (option (nat * nat))) :=
  option_map (map (option_map (fun be => (N.to_nat (fst be), N.to_nat (snd be))))) (re_find_N r w).

(* regexp.FindSubmatch: the captured byte strings (None = Go's nil slice) *)
Definition slice (w : bytes) (be : nat * nat) : bytes := firstn (snd be - fst be) (skipn (fst be) w).
Definition re_submatch (r : regex) (w : bytes) : option (list (option bytes)) :=
  option_map (map (option_map (slice w))) (re_find r w).

(* match[n] of the Go code: the n-th captured string, empty when it did not participate *)
Definition grp (n : nat) (l : list (option bytes)) : bytes :=
  match nth_error l n with Some (Some b) => b | _ => [] end.
