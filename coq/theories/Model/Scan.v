(* Model/Scan.v — scanningState.scan, stack/context.go:472: the line-based
   state machine, one case per Go case, same order of tests.  Dereferences of
   [cur] and the index expressions are partial (GoResult). *)
From PP Require Import Base.Bytes Base.BytesX Base.Num Base.GoResult Model.Types Model.Lines Model.FuncInit Model.ParseArgs.
From Coq Require Import String.

Inductive state :=
| looking | done | betweenRoutine | gotRoutineHeader | gotFunc | gotCreated
| gotFileFunc | gotFileCreated | gotUnavail | gotRaceHeader1 | gotRaceHeader2
| gotRaceOperationHeader | gotRaceOperationFunc | gotRaceOperationFile | betweenRaceOperations
| gotRaceGoroutineHeader | gotRaceGoroutineFunc | gotRaceGoroutineFile | betweenRaceGoroutines.

Definition state_index (s : state) : nat :=
  match s with
  | looking => 0 | done => 1 | betweenRoutine => 2 | gotRoutineHeader => 3 | gotFunc => 4 | gotCreated => 5
  | gotFileFunc => 6 | gotFileCreated => 7 | gotUnavail => 8 | gotRaceHeader1 => 9 | gotRaceHeader2 => 10
  | gotRaceOperationHeader => 11 | gotRaceOperationFunc => 12 | gotRaceOperationFile => 13
  | betweenRaceOperations => 14 | gotRaceGoroutineHeader => 15 | gotRaceGoroutineFunc => 16
  | gotRaceGoroutineFile => 17 | betweenRaceGoroutines => 18
  end.
Definition state_eqb (a b : state) : bool := Nat.eqb (state_index a) (state_index b).

Record sstate := mkSS {
  goroutines : list Goroutine;   (* nil iff [] : the code only ever makes it non-nil by appending *)
  st : state;
  sprefix : bytes;
  gindex : nat }.

Definition ss0 : sstate := mkSS [] looking [] 0.

Definition result := GoResult (sstate * bool * option scan_err).

Definition ret (s : sstate) (l : bool) (e : option scan_err) : result := Ok (s, l, e).
Definition with_state (s : sstate) (x : state) : sstate := mkSS (goroutines s) x (sprefix s) (gindex s).
Definition with_gs (s : sstate) (gs : list Goroutine) : sstate := mkSS gs (st s) (sprefix s) (gindex s).

(* stack updates on a goroutine *)
Definition add_call (g : Goroutine) (c : Call) : Goroutine :=
  set_stack g (mkStack (Calls (SStack (GSig g)) ++ [c]) (SElided (SStack (GSig g)))).
Definition set_calls (g : Goroutine) (cs : list Call) : Goroutine :=
  set_stack g (mkStack cs (SElided (SStack (GSig g)))).
Definition set_elided_stack (g : Goroutine) : Goroutine :=
  set_stack g (mkStack (Calls (SStack (GSig g))) true).
Definition set_created_calls (g : Goroutine) (cs : list Call) : Goroutine :=
  set_created g (mkStack cs (SElided (CreatedBy (GSig g)))).

(* cur := s.Goroutines[len-1]; nil when empty: any use is a nil dereference *)
Definition with_cur (s : sstate) (k : Goroutine -> result) : result :=
  match last_opt (goroutines s) with
  | Some g => k g
  | None => Panic "nil pointer dereference (cur)"
  end.
Definition set_cur (s : sstate) (g : Goroutine) : sstate := with_gs s (upd_last (fun _ => g) (goroutines s)).

(* the header line: builds the new goroutine *)
Fixpoint header_items (items : list bytes) (sleep : N) (locked : bool) : N * bool :=
  match items with
  | [] => (sleep, locked)
  | it :: items' =>
      if beq it (s2b "locked to thread") then header_items items' sleep true
      else match match_minutes it with
           | Some ds => header_items items' (match atou ds with Some n => n | None => 0%N end) locked
           | None => header_items items' sleep locked
           end
  end.

Definition try_header (s : sstate) (trimmed : bytes) : option sstate :=
  match match_routine_header trimmed with
  | None => None
  | Some (ind, ds, text) =>
      match atou ds with
      | None => None
      | Some id =>
          let items := split text (s2b ", ") in
          let '(sleep, locked) := header_items (tl items) 0%N false in
          let g := mkGoroutine (mkSig (hd [] items) emptyStack (Z.of_N sleep) (Z.of_N sleep) emptyStack locked)
                               (Z.of_N id)
                               (match goroutines s with [] => true | _ => false end) false 0%N in
          Some (mkSS (goroutines s ++ [g]) gotRoutineHeader (sprefix s ++ ind) (gindex s))
      end
  end.

(* "found, err := parseFunc(&c, line); if found { append; state = next; return err == nil, err }" *)
Definition func_step (s : sstate) (line : bytes) (next : state)
           (upd : Call -> sstate -> GoResult sstate) (notfound : result) : result :=
  pf <- parse_func line ;;
  match pf with
  | Some (c, e) =>
      s' <- upd c s ;;
      ret (with_state s' next) (match e with None => true | Some _ => false end) e
  | None => notfound
  end.

Definition add_call_cur (c : Call) (s : sstate) : GoResult sstate :=
  match last_opt (goroutines s) with
  | Some g => Ok (set_cur s (add_call g c))
  | None => Panic "nil pointer dereference (cur)"
  end.

(* "parseFile(&calls[len(calls)-1], line)" *)
Definition file_step (s : sstate) (line : bytes) (calls : list Call) (store : list Call -> sstate)
           (next : state) (what : nat) : result :=
  match last_opt calls with
  | None => Panic "index out of range [-1]"
  | Some c =>
      match parse_file c line with
      | Some (_, Some e) => ret s false (Some e)
      | None => ret s false (Some (ErrExpected what))
      | Some (c', None) => ret (with_state (store (upd_last (fun _ => c') calls)) next) true None
      end
  end.

(* reCreated handling shared by gotFileFunc and gotUnavail *)
Definition created_step (s : sstate) (g : Goroutine) (sym : bytes) (do_init : bool) : result :=
  fi <- func_init sym ;;
  match fi with
  | None => ret (set_cur s (set_created_calls g [])) false (Some ErrBadFunc)
  | Some f =>
      let c0 := mkCall f emptyArgs [] 0 [] [] [] [] [] LocationUnknown in
      let c := if do_init then call_init c0 [] 0 else c0 in
      ret (with_state (set_cur s (set_created_calls g [c])) gotCreated) true None
  end.

Definition race_goroutine_step (s : sstate) (trimmed : bytes) : result :=
  match match_race_goroutine trimmed with
  | Some (ds, stt) =>
      match atou ds with
      | None => ret s false (Some (ErrRace 1))
      | Some id =>
          let fix find (i : nat) (l : list Goroutine) : option nat :=
            match l with
            | [] => None
            | g :: l' => if Z.eqb (ID g) (Z.of_N id) then Some i else find (S i) l'
            end in
          match find 0 (goroutines s) with
          | Some i =>
              ret (mkSS (upd_nth i (fun g => set_state g stt) (goroutines s)) gotRaceGoroutineHeader (sprefix s) i) true None
          | None => ret s false (Some (ErrRace 2))
          end
      end
  | None => ret s false (Some (ErrExpected 10))
  end.

Definition race_goroutine_func_step (s : sstate) (trimmed : bytes) : result :=
  func_step s (trim_left_space trimmed) gotRaceGoroutineFunc
    (fun c s =>
       match nth_error (goroutines s) (gindex s) with
       | None => Panic "index out of range (goroutineIndex)"
       | Some g => Ok (with_gs s (upd_nth (gindex s)
                                   (fun g => set_created_calls g (Calls (CreatedBy (GSig g)) ++ [c])) (goroutines s)))
       end)
    (ret s false (Some (ErrExpected 11))).

Definition race_op_header (s : sstate) (m : option (bool * bytes * bytes)) (first : bool) (trimmed : bytes) : option result :=
  match m with
  | None => None
  | Some (w, addr, ds) =>
      Some (match parse_uint addr with
            | None => ret s false (Some (ErrRace 3))
            | Some a =>
                match atou ds with
                | None => ret s false (Some (ErrRace 1))
                | Some id =>
                    if first && (match goroutines s with [] => false | _ => true end)
                    then Panic "internal failure; expected s.Goroutines to be nil"
                    else
                      let g := mkGoroutine emptySig (Z.of_N id) first w a in
                      let gs := goroutines s ++ [g] in
                      ret (mkSS gs gotRaceOperationHeader (sprefix s) (List.length gs - 1)) true None
                end
            end)
  end.

Definition scan (s : sstate) (line : bytes) : result :=
  (* EOL trimming *)
  let tr : option bytes :=
    match strip_suffix [CR; LF] line with
    | Some t => Some t
    | None =>
        match strip_suffix [LF] line with
        | Some t => Some t
        | None => if state_eqb (st s) looking || state_eqb (st s) done then None else Some line
        end
    end in
  match tr with
  | None => ret s false None
  | Some trimmed0 =>
    (* indentation prefix *)
    let pre : sstate * option bytes :=
      match trimmed0, sprefix s with
      | _ :: _, _ :: _ =>
          match strip_prefix (sprefix s) trimmed0 with
          | Some t => (s, Some t)
          | None => (mkSS (goroutines s) done [] (gindex s), None)
          end
      | _, _ => (s, Some trimmed0)
      end in
    match pre with
    | (s', None) => ret s' false (Some ErrIndent)
    | (_, Some trimmed) =>
      let header_or_end (s : sstate) : result :=
        match try_header s trimmed with
        | Some s' => ret s' true None
        | None =>
            if state_eqb (st s) looking && beq trimmed race_header_footer
            then ret (with_state s gotRaceHeader1) true None
            else ret (if state_eqb (st s) looking then s else with_state s done) false None
        end in
      let empty := match trimmed with [] => true | _ => false end in
      match st s with
      | done => ret s false None
      | looking | betweenRoutine => header_or_end s

      | gotRoutineHeader =>
          with_cur s (fun cur =>
          if match_unavail trimmed then
            ret (with_state (set_cur s (set_calls cur
                   [mkCall emptyFunc emptyArgs (s2b "<unavailable>") 0 [] [] [] [] [] LocationUnknown])) gotUnavail) true None
          else func_step s trimmed gotFunc add_call_cur (ret s false (Some (ErrExpected 1))))

      | gotFunc =>
          with_cur s (fun cur =>
          file_step s trimmed (Calls (SStack (GSig cur))) (fun cs => set_cur s (set_calls cur cs)) gotFileFunc 2)

      | gotCreated =>
          with_cur s (fun cur =>
          (* &cur.CreatedBy.Calls[0] *)
          match Calls (CreatedBy (GSig cur)) with
          | [] => Panic "index out of range [0]"
          | c :: rest =>
              match parse_file c trimmed with
              | Some (_, Some e) => ret s false (Some e)
              | None => ret s false (Some (ErrExpected 3))
              | Some (c', None) => ret (with_state (set_cur s (set_created_calls cur (c' :: rest))) gotFileCreated) true None
              end
          end)

      | gotFileFunc =>
          with_cur s (fun cur =>
          match match_created trimmed with
          | Some sym => created_step s cur sym true
          | None =>
              if is_frames_elided trimmed then ret (set_cur s (set_elided_stack cur)) true None
              else func_step s trimmed gotFunc add_call_cur
                     (if empty then ret (with_state s betweenRoutine) true None
                      else ret (with_state s done) false None)
          end)

      | gotFileCreated =>
          if empty then ret (with_state s betweenRoutine) true None else ret (with_state s done) false None

      | gotUnavail =>
          if empty then ret (with_state s betweenRoutine) true None else
          with_cur s (fun cur =>
          match match_created trimmed with
          | Some sym => created_step s cur sym false
          | None => ret s false (Some (ErrExpected 4))
          end)

      | gotRaceHeader1 =>
          if beq trimmed race_header then ret (with_state s gotRaceHeader2) true None
          else ret (mkSS (goroutines s) looking [] (gindex s)) false None

      | gotRaceHeader2 =>
          match race_op_header s (match_race_op trimmed) true trimmed with
          | Some r => r
          | None => ret s false (Some (ErrExpected 5))
          end

      | gotRaceOperationHeader =>
          func_step s (trim_left_space trimmed) gotRaceOperationFunc add_call_cur (ret s false (Some (ErrExpected 6)))

      | gotRaceOperationFunc =>
          with_cur s (fun cur =>
          file_step s trimmed (Calls (SStack (GSig cur))) (fun cs => set_cur s (set_calls cur cs)) gotRaceOperationFile 7)

      | gotRaceOperationFile =>
          if empty then ret (with_state s betweenRaceOperations) true None
          else func_step s (trim_left_space trimmed) gotRaceOperationFunc add_call_cur (ret s false (Some (ErrExpected 8)))

      | betweenRaceOperations =>
          match race_op_header s (match_race_prev trimmed) false trimmed with
          | Some r => r
          | None => race_goroutine_step s trimmed
          end

      | betweenRaceGoroutines => race_goroutine_step s trimmed

      | gotRaceGoroutineFunc =>
          match nth_error (goroutines s) (gindex s) with
          | None => Panic "index out of range (goroutineIndex)"
          | Some g =>
              file_step s trimmed (Calls (CreatedBy (GSig g)))
                (fun cs => with_gs s (upd_nth (gindex s) (fun g => set_created_calls g cs) (goroutines s)))
                gotRaceGoroutineFile 9
          end

      | gotRaceGoroutineFile =>
          if empty then ret (with_state s betweenRaceGoroutines) true None
          else if beq trimmed race_header_footer then ret (with_state s done) true None
          else race_goroutine_func_step s trimmed

      | gotRaceGoroutineHeader => race_goroutine_func_step s trimmed
      end
    end
  end.
