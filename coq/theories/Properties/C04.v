(* Properties/C04.v — Aggregation is a partition that conserves goroutines.  Statements only. *)
From PP Require Import Base.Bytes Base.GoResult Model.Types Model.Stack Model.Bucket Spec.BucketSpec Spec.Wf.
From PP Require Import Proofs.Aggregate.
From Coq Require Import Permutation.

(* For EVERY snapshot (well-formed or not), level and map-iteration oracle
   (no assumption on it at all): Aggregate does not panic and its buckets
   satisfy c04_ok: none empty, ids ascending, the multiset of bucket ids is the
   multiset of goroutine ids, and - ids being distinct - a bucket is First iff
   it holds a First goroutine. *)
Theorem C04_partition :
  forall shuffle lvl gs, exists bs, aggregate shuffle lvl gs = Ok bs /\ c04_ok gs bs = true.
Proof. exact Aggregate.partition_ok. Qed.
Print Assumptions C04_partition.

(* The same, unfolded into the statement's own words. *)
Theorem C04_partition_explicit :
  forall shuffle lvl gs bs, aggregate shuffle lvl gs = Ok bs ->
  (forall b, In b bs -> IDs b <> [] /\ sortedZ (IDs b) = true) /\
  Permutation (flat_map IDs bs) (map ID gs) /\
  (NoDup (map ID gs) ->
     NoDup (flat_map IDs bs) /\
     (forall b, In b bs -> BFirst b = existsb First (members gs b)) /\
     (count_first gs = 1 -> count_bfirst bs = 1)).
Proof. exact Aggregate.partition_explicit. Qed.
Print Assumptions C04_partition_explicit.

(* "the displayed counts always add up to the number of goroutines dumped" *)
Theorem C04_counts_add_up :
  forall shuffle lvl gs bs, aggregate shuffle lvl gs = Ok bs ->
  fold_right Nat.add 0 (map (fun b => List.length (IDs b)) bs) = List.length gs.
Proof. exact Aggregate.counts_add_up. Qed.
Print Assumptions C04_counts_add_up.

Example C04_example : exists gs bs, List.length gs = 3 /\ NoDup (map ID gs) /\
  aggregate id_shuffle AnyPointer gs = Ok bs /\ List.length bs = 2 /\ c04_ok gs bs = true.
Proof. exact Aggregate.example_partition. Qed.
