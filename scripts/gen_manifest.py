#!/usr/bin/env python3
"""Regenerates MANIFEST.json from the table below (claimed checks) + props.py."""
import json, os, sys
sys.path.insert(0, os.path.dirname(os.path.abspath(__file__)))
from props import PROPS

NOTE = ('Trusted: Coq 8.16.1 kernel (no axioms: every property theorem is "Closed under the global context"); the hand-written Gallina model, tied to /repo by the '
        'correspondence check run on every invocation (extracted with ExtrOcamlBasic only, OCaml driver, Go harness on the public API plus read-only accessors in stack/verif_hooks.go, build tag verif); Go library functions are modelled (the regular expressions of the line grammar through a generic interpreter, Spec/Regex.v, on definitions generated from the Go sources and compared with regexp.FindSubmatchIndex on every run; the hand-written matchers are PROVED equal to it, C00_regex), '
        'not verified (DESIGN.md section 5).')

CLAIMS = {
 'C04': ('proof', 'C04_partition / C04_partition_explicit / C04_counts_add_up: for EVERY snapshot, level and map-iteration oracle the model of Aggregate returns buckets that partition the goroutines '
         '(no empty bucket, sorted ids, multiset of ids conserved, First flag = OR of members); correspondence: model vs Snapshot.Aggregate on generated snapshots, and the extracted predicate c04_ok evaluated on the implementation output', 'section 6 C04',
         'Coq theorem over all snapshots/oracles + differential correspondence of the extracted model with the Go implementation'),
 'C05': ('proof', 'C05_similar_iff_canon (similar = equality of an independently written canonical key, for all signatures, hence an equivalence), C05_refines, C05_key_class, C05_buckets_are_classes and '
         'C05_order_independent (for every permutation oracle and well-formed snapshot two goroutines share a bucket iff their keys are equal; independent of arrival order), C05_sleep_irrelevant; correspondence on co-membership', 'section 6 C05',
         'Coq refinement proof (greedy bucketing = group by canonical key) + correspondence'),
 'C12': ('proof', 'C12_truthful: for every snapshot, level and oracle each bucket signature satisfies c12_bucket (state, creator frames, per-frame function/file/line common to all members; an argument equal in all members is shown unchanged, any other is "*"; '
         'sleep range = exact min/max; locked iff some member is), C12_unstarred_is_common; correspondence on the full merged signature', 'section 6 C12',
         'Coq invariant proof over the merge sequence + correspondence'),
 'C13': ('proof', 'C13_stack_less_swo / C13_sig_less_swo (Stack.less and Signature.less are strict weak orders on all inputs), C13_bucket_before_swo, C13_sorted (+ First leads, stdlib-only buckets last), C13_sorted_unique (any stable sort gives this list), '
         'C13_aggregate_order, C13_less_never_panics; correspondence: Signature.less called directly (hook) and observed through bucket order on triples, with the four order laws checked on the answers of the implementation; bucket order of aggregated snapshots', 'section 6 C13',
         'Coq order-theory proof (less = lexicographic comparison of an explicit key) + correspondence'),
 'C15': ('proof', 'C15_labelling / C15_laws: for every snapshot without names nameArguments produces a labelling satisfying the independently written c15_ok (same value <=> same name, every recurring pointer named, #1..#k dense, ascending, '
         'first-goroutine pointers first, non-pointers never named, no other field changed), C15_consistent; correspondence on dumps scanned with NameArguments on/off', 'section 6 C15',
         'Coq proof against an executable specification + correspondence'),
 'C02': ('proof', 'C02_partition / C02_conservation (every handled line is forwarded, consumed or the rejected one; forwarded bytes are lines of the input in order; handled ++ suffix ++ unread = input, for EVERY schedule), '
         'C02_no_dump_identity, C02_dump_contiguous (outside the dump only the two race-header lines can be withheld: the known finding K1, C02_K1_refuted); correspondence on forwarded bytes / remainder incl. the real pp binary (pp end to end is modelled and compared in the mode -rebase=false, i.e. without path guessing and source analysis, which C18/C19 cover at library level; a default-mode run in an environment where no source exists must give the same output); '
         'K1 is reported as KNOWN-FINDING', 'section 6 C02', 'Coq proof over the scan loop (ghost-instrumented run relation) + correspondence + conservation oracle on the implementation output'),
 'C03': ('proof', 'C03_func_init_total, C03_parse_func_total, C03_scan_total (state invariant Inv preserved by every line, no Go panic modelled as GoResult), C03_scan_snapshot_total (for EVERY source: any schedule, zero reads, any terminal error; fuel never exhausted), '
         'C03_work_bounded; aggregation never panics by C04_partition; correspondence under recover() on grammar-aware mutants, resumed scanning, pp, aggregate, ToHTML. Partial: CPU time is not modelled, only iteration counts', 'section 6 C03',
         'Coq totality proof (explicit panic monad + invariant) + mutation-based differential testing under recover()'),
 'C09': ('proof', 'C09_read_line_total (every schedule), C09_read_line_spec / C09_lines (lines depend on the content only), C09_scan_independent (snapshot, forwarded bytes, error, suffix ++ unread independent of any two stall-free schedules), C09_noprogress, C09_buffer_bounded; '
         'correspondence predicts the exact Read sizes under scripted readers; all 2^(n-1) chunkings of short inputs. Aliasing of returned slices with the buffer is not expressible in the functional model: covered by correspondence only', 'section 6 C09',
         'Coq simulation proof between two delivery schedules + correspondence on exact Read traces'),
 'C11': ('proof', 'C11_lines_before_read (at every Read the number of lines handed to the scanner equals the number of complete lines delivered), C11_write_follows_line, C11_prompt_return (no Read after the line that ends the dump), for every schedule; '
         'correspondence on (len(p), n, bytes written) at every Read. Partial: OS pipes and the Go scheduler are not modelled (end-to-end half exercised through pp only)', 'section 6 C11',
         'Coq trace invariant + correspondence on event traces'),
 'C16': ('proof', '29 theorems: C16_blocks(+filtered), C16_block_shape, C16_header_fields, C16_aligned (rune offsets of the file and function columns equal on every call line), C16_colour_erasure (strip_csi (coloured) = uncoloured for any palette of CSI strings), '
         'C16_filter_match_split (filter-out and match-only outputs partition the unfiltered blocks), C16_complete; correspondence byte for byte with the real pp binary', 'section 6 C16',
         'Coq proofs over the token-level renderer model + byte-exact correspondence with the pp binary'),
 'C17': ('proof', '25 theorems: C17_text_safe / C17_text_chunks / C17_text_amp (escaped text never contains < > " \' NUL and every & starts one of the six entities), C17_attr_safe / C17_attr_no_danger / C17_href_safe (a normalised URL contains no quote, space, angle bracket, '
         'backquote, backslash or control byte, for ALL byte strings), C17_url_scheme + C17_normalize_prefix + C17_href_scheme (every link starts with one of five fixed scheme+host prefixes whatever the dump contains), C17_class_safe, C17_src_url_path_confined, C17_attrs_total; '
         'correspondence: every href/class of the content region equals the model value; oracle: tokenised structure equals that of a benign twin. C17b/C17c: a BYTE-EXACT model of the whole document (Model/HtmlDoc.v, Model/HtmlPage.v; template literals in Model/HtmlTpl.v generated from stack/goroutines.tpl and checked current on every run): C17_page_holes_escaped, C17_page_literals_from_template, C17_page_skeleton_shape_only, C17_page_complete, C17_page_deterministic, C17_page_links; the whole document is compared byte for byte on every case. Partial: the HTML tokenizer is not modelled (tokenised differential oracle), formerly hole by hole, not as a whole-document theorem', 'section 6 C17',
         'Coq proofs about the hand-built trusted values and the escapers + tokenised differential oracle (hostile snapshot vs benign twin)'),
 'C01': ('proof', 'C01_fidelity: for every well-formed variant and dump (wf_dump: the boolean side conditions real runtime output meets) and every stall-free delivery schedule, scanning the text written by the printer model (Spec/Printer.v, '
         'following runtime/traceback.go and objabi.PathToPrefix) yields exactly snapshot_of d, forwards nothing, hands back nothing, EOF; with the line-level round trips (header, func, file, created-by, arguments up to depth 5, symbols with escapes), '
         'C01_isptr_value_only, C01_first_unique; correspondence three-way: implementation = model = the snapshot the AST denotes, on dumps printed by an independent Go printer', 'section 6 C01',
         'Coq round-trip proof parser(printer(d)) = d against a printer specification + three-way differential check'),
 'C07': ('proof', 'C07_scan_is_fold (ScanSnapshot = a fold of scan over the lines, for every stall-free schedule), C07_ends_at_first_non_continuing, C07_progress(_strong), C07_seq_total / C07_seq_fuel_enough (the documented resume loop terminates), '
         'C07_seq_conservation (no stream position scanned twice or skipped), C07_dump_alone_equals_in_stream and C07_resume (k dumps separated by junk: exactly one snapshot per dump, equal to scanning it alone; all other bytes forwarded in order), C07_start_anywhere; '
         'correspondence on the resume protocol with MultiReader(suffix, rest). C07c: C07_refines (for every state and line the control of scan - next state, consumed / forwarded / dump ends / error - equals the reference line-kind automaton Spec/RefGrammar.ref_step, a table with one arm per state), '
         'C07_refines_trace, C07_start_lines / C07_forward_lines / C07_end_lines / C07_invalidating_lines (the table read off as theorems); op step drives scanningState.scan line by line (hook) against the model', 'section 6 C07',
         'Coq proof of the resume protocol over the fold characterisation + differential check of the iterated scan'),
 'C08': ('proof', 'C08_fidelity: for every well-formed race report (>= 1 creation section), arbitrary text before and after, any stall-free schedule and terminal error: the snapshot is race_snapshot_of r, the text before is forwarded, the text after handed back, error nil, final state done; '
         'C08_unknown_creator(_report) (a creation section for a goroutine of no operation is an error and changes nothing), header matcher round trips; C08_no_creation_section documents that a report without any creation section ends with an error (outside the statement)', 'section 6 C08',
         'Coq round-trip proof against a model of the tsan Go report printer + differential check'),
 'C10': ('proof', 'C10_total, C10_lines_prefix, C10_scan_step_frame / C10_prefix_goroutines (a cut changes at most the goroutine being read), C10_error (a reader failure is never replaced by a scan error; exact rule), C10_fwd_prefix (forwarded bytes of the cut stream are a prefix, '
         'except the unterminated fragment while looking: known finding K2, C10_K2_refuted), C10_all_cuts (every cut of one stream, by computation); C10b: the states in which the LAST goroutine can no longer change (closed_state) and C10b_prefix_all_goroutines (then all goroutines of the cut run, the last included, are those of the uncut run); in the open states only the last one may differ (C10b_open_refuted); correspondence at sampled/all byte offsets x 7 failure signals incl. chunked delivery', 'section 6 C10',
         'Coq prefix-monotonicity proof over the fold characterisation + per-offset differential check'),
 'C14': ('proof', 'tagged ownership model (Model/Alias.v): C14_erasure (the tagged Aggregate is the functional one plus bookkeeping, for any spare capacity), C14_writes_fresh(_ops) (every write of Aggregate / Args.String / any operation sequence targets a freshly allocated array), '
         'C14_snapshot_unchanged, C14_reaggregate_same, C14_string_uncapped_refuted (the pre-fix Args.String wrote shared spare capacity), C14_interleave_safe / C14_concurrent_ops_safe (threads writing only their own fresh cells: every interleaving leaves the shared cells untouched and gives each thread its sequential result); '
         'correspondence: alias graph observed with unsafe.SliceData = predicted; the text renderer of the pp command (internal/main.go processInner, reached through the tagged hook internal/verif_hooks.go + internal/verifcmd) is run repeatedly on every snapshot of generated streams with every header in turn as -f and -m expression and the snapshot compared with a fresh parse. Partial: the Go memory model and real scheduling are not modelled (race detector run in the thorough tier only); nested Fields slices are not tagged', 'section 6 C14',
         'Coq proof over a provenance-tagged model of slices + alias-graph correspondence + immutability oracle'),
 'C18': ('proof', '37 theorems: C18_update_shape (exact case analysis of updateLocations for arbitrary root tables), C18_local_ends_with_rel, C18_remote_root_prefix, C18_class_table, C18_testmain_stays_stdlib, C18_longest_root_wins, C18_update_deterministic, C18_roots_backed / C18_roots_detected_from_disk '
         '(every detected root is backed by a file of the disk oracle), C18_guess_preserves, C18_find_module_*; correspondence on materialised layouts; oracle = the generating layout. A genuine defect found by the oracle (nested module never discovered) was fixed in /repo (02e5c66). '
         'C18b: COMPLETENESS of guess_paths for an arbitrary disk oracle under explicit per-file unambiguity hypotheses: C18_complete_goroot / _gopath / _gopkg / _gomod (innermost module wins) / _main, C18_unresolved_unknown, with nine refuted examples showing each hypothesis is needed. '
         'Partial: ambiguous layouts (one relative path under two roots, a second remote GOROOT, go.mod inside GOROOT/GOPATH) are outside the statement; the disk is an oracle (no symlinks, no "..")', 'section 6 C18',
         'Coq structural theorems for every disk + layout-generating differential oracle'),
 'C06': ('proof', 'C06_aggregate_oracle_independent (for well-formed snapshots the WHOLE result of Aggregate - buckets in order with merged signatures and id lists - is the same for any two permutation oracles, i.e. for every outcome of Go\'s randomised map iteration), '
         'C06_step/agg_loop_oracle_independent, C06_nonwf_refuted (hand-built ill-formed snapshots CAN depend on the oracle), C06_render_snapshot_functional, C06_pipeline_functional, and C06b_scan_snapshot_wf / C06b_pipeline_oracle_independent (scanner output IS well-formed, so scan-then-aggregate is oracle independent unconditionally), '
         'with C18_update_deterministic / C18_get_files_canonical for path guessing; everything else is a Gallina function (no hidden state). Repeated-run correspondence: aggregate 8x, guess 7x, pp 3 processes, ToHTML 4x. '
         'Partial: absence of hidden package-level state in the Go code is only exercised (repeated runs in one process), not proved', 'section 6 C06',
         'Coq oracle-independence proof + repeated-execution differential check'),
 'C19': ('proof', 'Spec/Abi.v (word encoding per parameter kind) + C19_truthful (decode o encode = show for every parameter list over the supported kinds and all in-range values), C19_truthful_ptr_receiver, C19_signed_of_zext, C19_total (never panics, fuel suffices; the one Panic corner extra=true with no parameter is unreachable), '
         'C19_arity_mismatch_harmless, C19_extra_words_rendered_raw; correspondence on synthetic tracebacks over generated source trees (incl. two packages sharing function names, closing-brace lines, missing / unparsable / shifted sources) and on REAL tracebacks of generated programs compiled with the installed toolchain. '
         'C19b (Model/Source.v): getFuncAST, matchFuncDecl and extractArgumentsType over the tree ast.Inspect shows: C19_source_total, C19_select_spec, C19_selected_matches_frame, C19_wrong_name_unaugmented, C19_one_line_func_unaugmented, C19_types_shape, C19_types_compose; op ast (hook) on generated and standard-library files. '
         'Partial: go/parser itself is abstracted to the tree it produces (built by the harness with go/parser); the toolchain encoding is validated by the compiled programs, not proved', 'section 6 C19',
         'Coq decode-encode proof against an ABI specification + compiled-program differential check'),
 'C20': ('proof', 'C20_handler_table (exact decision table of SnapshotHandler as iffs), C20_2xx_only_if_valid, C20_invalid_is_4xx, C20_valid_get_ok, C20_atoi_* (strconv.Atoi), C20_capture (the grow-and-retry loop terminates for every int, never exceeds max(maxmem, 1 MiB), captures the dump whole iff it fits); '
         'C20b: handler_page = validation -> capture -> scan -> guess/augment -> aggregate -> page with a CONCRETE scan_fails: C20b_refines_table, C20b_valid_complete (a valid GET on a runtime-printed dump that fits answers 200 with a page whose bucket counts add up to the goroutines of the dump: composes C01, C04, C17c), C20b_truncated, C20b_status_precedence (invalid similarity + failing snapshot = 500); the parse half is C01_fidelity applied to the printer model; correspondence: status class under httptest over parameter combinations, big-process capture cases, live runtime.Stack dumps under churn (header count, known goroutines). '
         'Partial: scheduler states, handler concurrency and runtime.Stack stopping the world are exercised (race-detector driver with concurrent requests), not modelled', 'section 6 C20',
         'Coq decision-table proof + live-process differential checks'),
}

def main():
    here = os.path.dirname(os.path.dirname(os.path.abspath(__file__)))
    extra = json.load(open(os.path.join(here, 'scripts', 'claims_extra.json'))) if os.path.exists(os.path.join(here, 'scripts', 'claims_extra.json')) else {}
    claims = dict(CLAIMS)
    for k, v in extra.items():
        claims[k] = tuple(v)
    allp = ['C%02d' % i for i in range(1, 21)]
    checks = []
    for pid in allp:
        if pid not in claims or pid not in PROPS:
            continue
        cat, text, ref, tech = claims[pid]
        checks.append({
            'property_id': pid,
            'quick_cmd': 'python3 scripts/check.py %s quick' % pid,
            'thorough_cmd': 'python3 scripts/check.py %s thorough' % pid,
            'evidence_file': 'evidence/%s.json' % pid,
            'replay_cmd_template': 'python3 scripts/check.py --replay {path}',
            'engine': 'coq-model',
            'level_claimed': {'category': cat, 'text': text, 'design_ref': 'DESIGN.md ' + ref},
            'level_note': NOTE,
            'technique': tech,
        })
    claimed = [c['property_id'] for c in checks]
    m = {
        'version': 1,
        'setup_cmd': 'sh scripts/setup.sh',
        'hooks': {'guard': 'verif', 'enable': 'go build -tags verif compiles /repo/stack/verif_hooks.go (read-only accessors: VerifStepper over scanningState.scan, VerifLess/Equal/Similar/Merge, VerifReadLines, VerifFuncTypes, VerifRegexps) and /repo/internal/verif_hooks.go + /repo/internal/verifcmd (VerifRenderText: the text renderer of the pp command on one snapshot; a command that renders every snapshot of a stream repeatedly and compares it with a fresh parse, used by op pp for C14); the harness falls back to a public-API-only build when the file no longer compiles and reports the hooked ops (step, sigops, rlines, ast, regex) as unchecked; when internal/verifcmd no longer builds op pp reports corr:pp-internal-hook-unavailable for C14',
                  'baseline_off_cmd': 'cd /repo && GOFLAGS=-mod=mod go test -vet=off -count=1 ./...', 'source_commits': ['dee5a37', '27ca8ce', 'd3d3f1d', 'f60f6c1'], 'add_only': True},
        'engines': [
            {'name': 'coq-model', 'path': 'coq/', 'serves_properties': claimed, 'kind_free_text': 'hand-written Gallina model + theorems (Coq 8.16.1), property files under coq/theories/Properties'},
            {'name': 'correspondence', 'path': 'scripts/check.py', 'serves_properties': claimed,
             'kind_free_text': 'extracted model (OCaml, ocaml/driver.ml) vs implementation (Go harness harness/cmd/vh) on generated cases; implementation oracles for the search'},
        ],
        'checks': checks,
        'notes': 'see DESIGN.md; known findings in known-findings.txt',
        'not_applicable': [{'property_id': p, 'reason': 'check not registered yet at this commit (work in progress; will be claimed)'} for p in allp if p not in claimed],
    }
    json.dump(m, open(os.path.join(here, 'MANIFEST.json'), 'w'), indent=1)
    print('claimed:', claimed)

if __name__ == '__main__':
    main()
