(* Proofs/GrammarProofs.v — the control behaviour of [scan] (next state,
   consumed / rejected flag, error or not) is exactly the reference automaton
   [Spec.RefGrammar.ref_step] over line kinds, for every state and every line. *)
From PP Require Import Base.Bytes Base.BytesX Base.Num Base.GoResult Model.Types Model.Lines Model.FuncInit Model.ParseArgs Model.Scan.
From PP Require Import Proofs.ScanInv Spec.RefGrammar.
From Coq Require Import String.

(* ------------------------------------------------------------------ *)
(* the control projection of a scan result                             *)
(* ------------------------------------------------------------------ *)

Definition control (r : sstate * bool * option scan_err) : state * verdict :=
  let '(s', l, e) := r in
  (st s',
   match e with
   | Some _ => Fail
   | None => if l then Consume else if state_eqb (st s') looking then Forward else EndHere
   end).

Ltac kred :=
  cbn [line_kinds k_indent_ok k_header k_func k_func_lt k_file k_created k_blank k_elided
       k_unavail k_separator k_warning k_op k_prev k_racegor].

(* ------------------------------------------------------------------ *)
(* the two preliminary stages                                          *)
(* ------------------------------------------------------------------ *)

Lemma scan_tr_trim_eol : forall s line, scan_tr s line = trim_eol (in_dump (st s)) line.
Proof.
  intros s line. unfold scan_tr, trim_eol.
  destruct (strip_suffix [CR; LF] line) as [t|]; [reflexivity|].
  destruct (strip_suffix [LF] line) as [t|]; [reflexivity|].
  destruct (st s); reflexivity.
Qed.

Lemma scan_pre_strip_indent : forall s t0,
  scan_pre s t0 =
  match strip_indent (sprefix s) t0 with
  | Some t => (s, Some t)
  | None => (mkSS (goroutines s) done [] (gindex s), None)
  end.
Proof.
  intros s t0. unfold scan_pre, strip_indent.
  destruct t0 as [|x t0]; [reflexivity|].
  destruct (sprefix s) as [|y p]; reflexivity.
Qed.

(* ------------------------------------------------------------------ *)
(* the helpers of scan, at the level of control                        *)
(* ------------------------------------------------------------------ *)

Lemma try_header_kind : forall s t,
  match try_header s t with
  | Some s' => header_kind t = true /\ st s' = gotRoutineHeader
  | None => header_kind t = false
  end.
Proof.
  intros s t. unfold try_header, header_kind.
  destruct (match_routine_header t) as [[[ind ds] text]|]; [|reflexivity].
  destruct (atou ds) as [id|]; [|reflexivity].
  destruct (header_items _ _ _) as [sleep locked].
  split; reflexivity.
Qed.

Lemma func_step_on_func : forall s line next upd nf r other,
  func_step s line next upd nf = Ok r ->
  (nf = Ok r -> control r = other) ->
  control r = on_func (func_kind line) next other.
Proof.
  intros s line next upd nf r other H Hnf.
  unfold func_step, parse_func in H. unfold func_kind, valid_symbol.
  destruct (match_func line) as [[sym args]|].
  - destruct (func_init sym) as [[f|]|m]; unfold bind at 2 in H.
    + destruct (parse_args args) as [a|pe]; unfold bind at 1 in H;
        (destruct (upd _ s) as [s1|m]; [|discriminate H]);
        unfold bind, ret in H; injection H as <-; reflexivity.
    + unfold bind at 1 in H.
      destruct (upd _ s) as [s1|m]; [|discriminate H].
      unfold bind, ret in H. injection H as <-. reflexivity.
    + discriminate H.
  - unfold bind in H. unfold on_func. apply Hnf. exact H.
Qed.

Lemma parse_file_kind : forall c t,
  match parse_file c t with
  | Some (_, Some _) => file_kind t = FileBadNumber
  | Some (_, None) => file_kind t = FileOk
  | None => file_kind t = FileNo
  end.
Proof.
  intros c t. unfold parse_file, file_kind.
  destruct (match_file t) as [[file ds]|]; [|reflexivity].
  destruct (atou ds); reflexivity.
Qed.

Lemma file_step_on_file : forall s line calls store next what r,
  file_step s line calls store next what = Ok r ->
  control r = on_file (file_kind line) (st s) next.
Proof.
  intros s line calls store next what r H. unfold file_step in H.
  destruct (last_opt calls) as [c|]; [|discriminate H].
  pose proof (parse_file_kind c line) as Hk.
  destruct (parse_file c line) as [[c' [e|]]|]; rewrite Hk;
    unfold ret in H; injection H as <-; reflexivity.
Qed.

Lemma created_step_control : forall s g sym b r,
  created_step s g sym b = Ok r ->
  control r = if valid_symbol sym then (gotCreated, Consume) else (st s, Fail).
Proof.
  intros s g sym b r H. unfold created_step in H. unfold valid_symbol.
  destruct (func_init sym) as [[f|]|m]; unfold bind, ret in H.
  - injection H as <-. reflexivity.
  - injection H as <-. reflexivity.
  - discriminate H.
Qed.

Lemma race_op_header_none : forall s m first t,
  race_op_header s m first t = None -> op_kind m = OpNo.
Proof.
  intros s m first t H. unfold race_op_header in H.
  destruct m as [[[w addr] ds]|]; [discriminate H|reflexivity].
Qed.

Lemma race_op_header_control : forall s m first t r,
  race_op_header s m first t = Some (Ok r) ->
  op_kind m <> OpNo /\
  control r = match op_kind m with
              | OpOk => (gotRaceOperationHeader, Consume)
              | _ => (st s, Fail)
              end.
Proof.
  intros s m first t r H. unfold race_op_header in H.
  destruct m as [[[w addr] ds]|]; [|discriminate H].
  unfold op_kind.
  injection H as H.
  destruct (parse_uint addr) as [a|].
  - destruct (atou ds) as [id|].
    + destruct (first && _); [discriminate H|].
      unfold ret in H. injection H as <-. split; [discriminate|reflexivity].
    + unfold ret in H. injection H as <-. split; [discriminate|reflexivity].
  - unfold ret in H. injection H as <-. split; [discriminate|reflexivity].
Qed.

Lemma find_id_existsb : forall id l i,
  match find_id id i l with
  | Some _ => existsb (fun z => Z.eqb z (Z.of_N id)) (List.map ID l) = true
  | None => existsb (fun z => Z.eqb z (Z.of_N id)) (List.map ID l) = false
  end.
Proof.
  intros id l. induction l as [|g l IH]; intros i; [reflexivity|].
  cbn [find_id List.map existsb].
  destruct (Z.eqb (ID g) (Z.of_N id)); [reflexivity|].
  cbn [orb]. apply IH.
Qed.

Lemma race_goroutine_step_control : forall s t r,
  race_goroutine_step s t = Ok r ->
  control r = on_racegor (racegor_kind (List.map ID (goroutines s)) t) (st s).
Proof.
  intros s t r H. rewrite race_goroutine_step_unfold in H. unfold racegor_kind.
  destruct (match_race_goroutine t) as [[ds stt]|].
  - destruct (atou ds) as [id|].
    + pose proof (find_id_existsb id (goroutines s) 0) as Hf.
      destruct (find_id id 0 (goroutines s)) as [i|]; rewrite Hf;
        unfold ret in H; injection H as <-; reflexivity.
    + unfold ret in H. injection H as <-. reflexivity.
  - unfold ret in H. injection H as <-. reflexivity.
Qed.

Lemma race_goroutine_func_step_control : forall s t r,
  race_goroutine_func_step s t = Ok r ->
  control r = on_func (func_kind (trim_left_space t)) gotRaceGoroutineFunc (st s, Fail).
Proof.
  intros s t r H. unfold race_goroutine_func_step in H.
  apply (func_step_on_func _ _ _ _ _ _ _ H).
  intros Hnf. unfold ret in Hnf. injection Hnf as <-. reflexivity.
Qed.

(* ------------------------------------------------------------------ *)
(* the state machine proper                                            *)
(* ------------------------------------------------------------------ *)

Ltac ret_inj H := unfold ret in H; injection H as <-.
Ltac cur_in H := unfold with_cur in H; destruct (last_opt (goroutines _)) as [cur|]; [|discriminate H].

Lemma scan_body_control : forall s t r,
  scan_body s t = Ok r ->
  control r = ref_step (st s) (line_kinds (List.map ID (goroutines s)) t).
Proof.
  intros s t r H. unfold ref_step. kred. cbv beta iota delta [negb].
  unfold scan_body in H.
  destruct (st s) eqn:Hst.
  - (* looking *)
    unfold header_or_end in H. pose proof (try_header_kind s t) as Hk.
    destruct (try_header s t) as [s1|].
    + destruct Hk as [Hk Hs1]. rewrite Hk. ret_inj H. unfold control. rewrite Hs1. reflexivity.
    + rewrite Hk. rewrite Hst in H.
      change (state_eqb looking looking) with true in H. cbv beta iota delta [andb] in H.
      destruct (beq t race_header_footer).
      * ret_inj H. reflexivity.
      * ret_inj H. unfold control. rewrite Hst. reflexivity.
  - (* done *) ret_inj H. unfold control. rewrite Hst. reflexivity.
  - (* betweenRoutine *)
    unfold header_or_end in H. pose proof (try_header_kind s t) as Hk.
    destruct (try_header s t) as [s1|].
    + destruct Hk as [Hk Hs1]. rewrite Hk. ret_inj H. unfold control. rewrite Hs1. reflexivity.
    + rewrite Hk. rewrite Hst in H.
      change (state_eqb betweenRoutine looking) with false in H. cbv beta iota delta [andb] in H.
      ret_inj H. reflexivity.
  - (* gotRoutineHeader *)
    cur_in H. destruct (match_unavail t).
    + ret_inj H. reflexivity.
    + apply (func_step_on_func _ _ _ _ _ _ _ H).
      intros Hnf. ret_inj Hnf. unfold control. rewrite Hst. reflexivity.
  - (* gotFunc *)
    cur_in H. rewrite (file_step_on_file _ _ _ _ _ _ _ H). rewrite Hst. reflexivity.
  - (* gotCreated *)
    cur_in H. destruct (Calls (CreatedBy (GSig cur))) as [|c rest]; [discriminate H|].
    pose proof (parse_file_kind c t) as Hk.
    destruct (parse_file c t) as [[c' [e|]]|]; rewrite Hk; ret_inj H;
      unfold control; try rewrite Hst; reflexivity.
  - (* gotFileFunc *)
    cur_in H. unfold created_kind.
    destruct (match_created t) as [sym|].
    + rewrite (created_step_control _ _ _ _ _ H). rewrite Hst.
      destruct (valid_symbol sym); reflexivity.
    + destruct (is_frames_elided t).
      * ret_inj H. unfold control. change (st (set_cur s ?g)) with (st s). rewrite Hst. reflexivity.
      * apply (func_step_on_func _ _ _ _ _ _ _ H).
        intros Hnf. destruct t; ret_inj Hnf; reflexivity.
  - (* gotFileCreated *)
    destruct t; ret_inj H; reflexivity.
  - (* gotUnavail *)
    destruct t as [|x t'].
    + ret_inj H. reflexivity.
    + cur_in H. unfold created_kind.
      destruct (match_created (x :: t')) as [sym|].
      * rewrite (created_step_control _ _ _ _ _ H). rewrite Hst.
        destruct (valid_symbol sym); reflexivity.
      * ret_inj H. unfold control. rewrite Hst. reflexivity.
  - (* gotRaceHeader1 *)
    destruct (beq t race_header); ret_inj H; reflexivity.
  - (* gotRaceHeader2 *)
    destruct (race_op_header s (match_race_op t) true t) as [[r0|m]|] eqn:Hr.
    + injection H as ->.
      destruct (race_op_header_control _ _ _ _ _ Hr) as (Hne & Hc). rewrite Hc, Hst.
      destruct (op_kind (match_race_op t)); reflexivity.
    + discriminate H.
    + rewrite (race_op_header_none _ _ _ _ Hr). ret_inj H. unfold control. rewrite Hst. reflexivity.
  - (* gotRaceOperationHeader *)
    apply (func_step_on_func _ _ _ _ _ _ _ H).
    intros Hnf. ret_inj Hnf. unfold control. rewrite Hst. reflexivity.
  - (* gotRaceOperationFunc *)
    cur_in H. rewrite (file_step_on_file _ _ _ _ _ _ _ H). rewrite Hst. reflexivity.
  - (* gotRaceOperationFile *)
    destruct t as [|x t'].
    + ret_inj H. reflexivity.
    + apply (func_step_on_func _ _ _ _ _ _ _ H).
      intros Hnf. ret_inj Hnf. unfold control. rewrite Hst. reflexivity.
  - (* betweenRaceOperations *)
    destruct (race_op_header s (match_race_prev t) false t) as [[r0|m]|] eqn:Hr.
    + injection H as ->.
      destruct (race_op_header_control _ _ _ _ _ Hr) as (Hne & Hc). rewrite Hc, Hst.
      destruct (op_kind (match_race_prev t)); [contradiction|reflexivity|reflexivity|reflexivity].
    + discriminate H.
    + rewrite (race_op_header_none _ _ _ _ Hr).
      rewrite (race_goroutine_step_control _ _ _ H). rewrite Hst. reflexivity.
  - (* gotRaceGoroutineHeader *)
    rewrite (race_goroutine_func_step_control _ _ _ H). rewrite Hst. reflexivity.
  - (* gotRaceGoroutineFunc *)
    destruct (nth_error (goroutines s) (gindex s)) as [g|]; [|discriminate H].
    rewrite (file_step_on_file _ _ _ _ _ _ _ H). rewrite Hst. reflexivity.
  - (* gotRaceGoroutineFile *)
    destruct t as [|x t'].
    + ret_inj H. reflexivity.
    + destruct (beq (x :: t') race_header_footer).
      * ret_inj H. reflexivity.
      * rewrite (race_goroutine_func_step_control _ _ _ H). rewrite Hst. reflexivity.
  - (* betweenRaceGoroutines *)
    rewrite (race_goroutine_step_control _ _ _ H). rewrite Hst. reflexivity.
Qed.

(* ------------------------------------------------------------------ *)
(* main theorems                                                       *)
(* ------------------------------------------------------------------ *)

(* the kinds of [line] as seen from scanner state [s]: the state contributes
   only "inside a dump or not", the indentation prefix and the ids seen so far *)
Definition kinds_at (s : sstate) (line : bytes) : option kinds :=
  kinds_of (in_dump (st s)) (sprefix s) (List.map ID (goroutines s)) line.

Theorem C07_refines : forall s line s' l e k,
  scan s line = Ok (s', l, e) ->
  kinds_at s line = Some k ->
  control (s', l, e) = ref_step (st s) k.
Proof.
  intros s line s' l e k H Hk.
  rewrite scan_unfold, scan_tr_trim_eol in H. unfold kinds_at, kinds_of in Hk.
  destruct (trim_eol (in_dump (st s)) line) as [t0|]; [|discriminate Hk].
  rewrite scan_pre_strip_indent in H.
  destruct (strip_indent (sprefix s) t0) as [t|]; injection Hk as <-.
  - apply scan_body_control. exact H.
  - unfold ret in H. injection H as <- <- <-. reflexivity.
Qed.

(* the only line that is not examined: an unterminated last line outside a dump *)
Theorem C07_unexamined : forall s line,
  kinds_at s line = None ->
  scan s line = Ok (s, false, None) /\ in_dump (st s) = false /\
  strip_suffix [LF] line = None.
Proof.
  intros s line Hk.
  rewrite scan_unfold, scan_tr_trim_eol. unfold kinds_at, kinds_of in Hk.
  destruct (trim_eol (in_dump (st s)) line) as [t0|] eqn:Ht.
  - destruct (strip_indent (sprefix s) t0); discriminate Hk.
  - split; [reflexivity|]. unfold trim_eol in Ht.
    destruct (strip_suffix [CR; LF] line); [discriminate Ht|].
    destruct (strip_suffix [LF] line); [discriminate Ht|].
    destruct (in_dump (st s)); [discriminate Ht|]. split; reflexivity.
Qed.

(* with the invariant, scan always answers, and the answer is the automaton's *)
Theorem C07_refines_total : forall s line, Inv s ->
  exists s' l e,
    scan s line = Ok (s', l, e) /\ Inv s' /\
    match kinds_at s line with
    | Some k => control (s', l, e) = ref_step (st s) k
    | None => (s', l, e) = (s, false, None)
    end.
Proof.
  intros s line HI. destruct (scan_total s line HI) as (s' & l & e & H & HI').
  exists s', l, e. split; [exact H|]. split; [exact HI'|].
  destruct (kinds_at s line) as [k|] eqn:Hk.
  - apply (C07_refines _ _ _ _ _ _ H Hk).
  - destruct (C07_unexamined _ _ Hk) as (H0 & _). rewrite H0 in H. injection H as <- <- <-. reflexivity.
Qed.

Lemma control_inv : forall s' l e x v,
  control (s', l, e) = (x, v) ->
  st s' = x /\
  match v with
  | Fail => e <> None
  | Consume => l = true /\ e = None
  | Forward => l = false /\ e = None /\ x = looking
  | EndHere => l = false /\ e = None /\ x <> looking
  end.
Proof.
  intros s' l e x v H. unfold control in H. injection H as Hx Hv. split; [exact Hx|].
  rewrite Hx in Hv.
  destruct e as [e|].
  - subst v. discriminate.
  - destruct l.
    + subst v. split; reflexivity.
    + destruct x; cbn in Hv; subst v; repeat split; discriminate.
Qed.

(* next state, flag and error, read off the automaton *)
Theorem C07_verdict_flags : forall s line s' l e k, Inv s ->
  scan s line = Ok (s', l, e) ->
  kinds_at s line = Some k ->
  st s' = fst (ref_step (st s) k) /\
  (l = true <-> snd (ref_step (st s) k) = Consume) /\
  (e <> None <-> snd (ref_step (st s) k) = Fail).
Proof.
  intros s line s' l e k HI H Hk.
  pose proof (C07_refines _ _ _ _ _ _ H Hk) as Hc.
  assert (Hle : e <> None -> l = false).
  { destruct e as [e0|]; [|congruence]. intros _. apply (scan_err_flag _ _ _ _ _ HI H). }
  destruct (ref_step (st s) k) as [x v]. cbn [fst snd].
  destruct (control_inv _ _ _ _ _ Hc) as (Hx & Hv). split; [exact Hx|].
  destruct v.
  - destruct Hv as (-> & ->). split; split; congruence.
  - destruct Hv as (-> & -> & _). split; split; congruence.
  - destruct Hv as (-> & -> & _). split; split; congruence.
  - split; split; try congruence.
    all: try (intros Hl; rewrite (Hle Hv) in Hl; discriminate Hl); try (intros _; exact Hv).
Qed.

(* ------------------------------------------------------------------ *)
(* readable enumerations, derived from the table                        *)
(* ------------------------------------------------------------------ *)

Ltac destruct_matches :=
  repeat match goal with
         | |- context [match ?x with _ => _ end] => is_var x; destruct x
         end.

Ltac table k :=
  destruct k as [ind hdr fn fnl fl cr bl el un sep wr op pv rg];
  unfold ref_step, on_func, on_file, on_racegor; kred; cbv beta iota delta [negb].

(* which lines START something, from looking *)
Theorem C07_start_lines : forall k st', k_indent_ok k = true ->
  (ref_step looking k = (st', Consume) <->
   (k_header k = true /\ st' = gotRoutineHeader) \/
   (k_header k = false /\ k_separator k = true /\ st' = gotRaceHeader1)).
Proof.
  intros k st' Hind. table k. cbn in Hind. subst ind.
  destruct hdr, sep; split; intros H;
    try (injection H as <-); intuition (try congruence; try discriminate).
Qed.

(* ... and everything else is passed through *)
Theorem C07_forward_lines : forall st k st',
  ref_step st k = (st', Forward) <->
  st' = looking /\ k_indent_ok k = true /\
  ((st = looking /\ k_header k = false /\ k_separator k = false) \/
   (st = gotRaceHeader1 /\ k_warning k = false)).
Proof.
  intros st k st'. table k.
  destruct st; destruct_matches; split; intros H;
    try discriminate H; try (injection H as <-);
    intuition (try congruence; try discriminate).
Qed.

(* which lines END a dump without error *)
Definition ends_dump (st : state) (k : kinds) : Prop :=
  match st with
  | done => True
  | betweenRoutine => k_header k = false
  | gotFileFunc => k_created k = CNo /\ k_elided k = false /\ k_func k = FNo /\ k_blank k = false
  | gotFileCreated => k_blank k = false
  | _ => False
  end.

Theorem C07_end_lines : forall st k st',
  ref_step st k = (st', EndHere) <->
  st' = done /\ k_indent_ok k = true /\ ends_dump st k.
Proof.
  intros st k st'. unfold ends_dump. table k.
  destruct st; destruct_matches; split; intros H;
    try discriminate H; try (injection H as <-);
    intuition (try congruence; try discriminate).
Qed.

(* which lines INVALIDATE a dump (scan error) *)
Definition invalidates (st : state) (k : kinds) : Prop :=
  k_indent_ok k = false \/
  match st with
  | gotRoutineHeader => k_unavail k = false /\ k_func k <> FOk
  | gotFunc | gotCreated | gotRaceOperationFunc | gotRaceGoroutineFunc => k_file k <> FileOk
  | gotFileFunc =>
      k_created k = CBadSymbol \/ (k_created k = CNo /\ k_elided k = false /\ k_func k = FErr)
  | gotUnavail => k_blank k = false /\ k_created k <> COk
  | gotRaceHeader2 => k_op k <> OpOk
  | gotRaceOperationHeader | gotRaceGoroutineHeader => k_func_lt k <> FOk
  | gotRaceOperationFile => k_blank k = false /\ k_func_lt k <> FOk
  | betweenRaceOperations =>
      k_prev k = OpBadAddr \/ k_prev k = OpBadId \/ (k_prev k = OpNo /\ k_racegor k <> RgKnown)
  | betweenRaceGoroutines => k_racegor k <> RgKnown
  | gotRaceGoroutineFile => k_blank k = false /\ k_separator k = false /\ k_func_lt k <> FOk
  | looking | betweenRoutine | gotFileCreated | gotRaceHeader1 | done => False
  end.

Theorem C07_invalidating_lines : forall st k,
  snd (ref_step st k) = Fail <-> invalidates st k.
Proof.
  intros st k. unfold invalidates. table k.
  destruct st; destruct_matches; cbn [snd]; split; intros H;
    try discriminate H; try reflexivity;
    intuition (try congruence; try discriminate).
Qed.

(* where a rejected line leaves the automaton: an indentation error ends the
   dump; a function line with a bad symbol or bad arguments is recorded and
   the automaton moves on as if it had been accepted; otherwise nothing moves *)
Theorem C07_fail_state : forall st k st',
  ref_step st k = (st', Fail) ->
  (k_indent_ok k = false /\ st' = done) \/
  (k_indent_ok k = true /\ st' = st) \/
  (k_indent_ok k = true /\ k_func k = FErr /\ st' = gotFunc /\
     (st = gotRoutineHeader \/ st = gotFileFunc)) \/
  (k_indent_ok k = true /\ k_func_lt k = FErr /\
     ((st' = gotRaceOperationFunc /\ (st = gotRaceOperationHeader \/ st = gotRaceOperationFile)) \/
      (st' = gotRaceGoroutineFunc /\ (st = gotRaceGoroutineHeader \/ st = gotRaceGoroutineFile)))).
Proof.
  intros st k st'. table k.
  destruct st; destruct_matches; intros H;
    try discriminate H; injection H as <-;
    intuition (try congruence; try discriminate).
Qed.

(* a blank line is nothing else *)
Lemma line_kinds_blank : forall ids,
  line_kinds ids [] = mkKinds true false FNo FNo FileNo CNo true false false false false OpNo OpNo RgNo.
Proof. intros ids. reflexivity. Qed.

(* ------------------------------------------------------------------ *)
(* the enumerations, at the level of scan                              *)
(* ------------------------------------------------------------------ *)

(* from looking, the only lines that are accepted are a goroutine header and
   the race separator; every other line is forwarded, the state stays put *)
Theorem C07_start_lines_scan : forall s line s' l e k, Inv s -> st s = looking ->
  scan s line = Ok (s', l, e) ->
  kinds_at s line = Some k ->
  e = None /\
  ((l = true /\ k_header k = true /\ st s' = gotRoutineHeader) \/
   (l = true /\ k_header k = false /\ k_separator k = true /\ st s' = gotRaceHeader1) \/
   (l = false /\ k_header k = false /\ k_separator k = false /\ st s' = looking)).
Proof.
  intros s line s' l e k HI Hst H Hk.
  pose proof (C07_refines _ _ _ _ _ _ H Hk) as Hc. rewrite Hst in Hc.
  assert (Hind : k_indent_ok k = true).
  { destruct (Inv_looking s HI Hst) as (_ & Hp).
    unfold kinds_at, kinds_of in Hk. rewrite Hp in Hk.
    destruct (trim_eol (in_dump (st s)) line) as [t0|]; [|discriminate Hk].
    assert (Hs : strip_indent [] t0 = Some t0) by (destruct t0; reflexivity).
    rewrite Hs in Hk. injection Hk as <-. reflexivity. }
  revert Hc Hind. table k. intros Hc ->.
  destruct hdr; [|destruct sep];
    destruct (control_inv _ _ _ _ _ Hc) as (Hx & Hv).
  - destruct Hv as (-> & ->). split; [reflexivity|]. left. repeat split. exact Hx.
  - destruct Hv as (-> & ->). split; [reflexivity|]. right. left. repeat split. exact Hx.
  - destruct Hv as (-> & -> & _). split; [reflexivity|]. right. right. repeat split. exact Hx.
Qed.

(* the lines that end a dump without error *)
Theorem C07_end_lines_scan : forall s line k, Inv s ->
  kinds_at s line = Some k ->
  ((exists s', scan s line = Ok (s', false, None) /\ st s' = done) <->
   k_indent_ok k = true /\ ends_dump (st s) k).
Proof.
  intros s line k HI Hk. split.
  - intros (s' & H & Hd).
    pose proof (C07_refines _ _ _ _ _ _ H Hk) as Hc.
    unfold control in Hc. rewrite Hd in Hc. cbn in Hc. symmetry in Hc.
    apply C07_end_lines in Hc. destruct Hc as (_ & H1 & H2). split; assumption.
  - intros (H1 & H2).
    destruct (scan_total s line HI) as (s' & l & e & H & _).
    pose proof (C07_refines _ _ _ _ _ _ H Hk) as Hc.
    assert (Hr : ref_step (st s) k = (done, EndHere)).
    { apply C07_end_lines. split; [reflexivity|]. split; assumption. }
    rewrite Hr in Hc. destruct (control_inv _ _ _ _ _ Hc) as (Hx & -> & -> & _).
    exists s'. split; assumption.
Qed.

(* the lines that invalidate a dump *)
Theorem C07_invalidating_lines_scan : forall s line s' l e k, Inv s ->
  scan s line = Ok (s', l, e) ->
  kinds_at s line = Some k ->
  (e <> None <-> invalidates (st s) k).
Proof.
  intros s line s' l e k HI H Hk.
  destruct (C07_verdict_flags _ _ _ _ _ _ HI H Hk) as (_ & _ & He).
  rewrite He. apply C07_invalidating_lines.
Qed.

Theorem C07_error_never_consumes : forall s line s' l e k, Inv s ->
  scan s line = Ok (s', l, e) ->
  kinds_at s line = Some k ->
  snd (ref_step (st s) k) = Fail -> l = false /\ e <> None.
Proof.
  intros s line s' l e k HI H Hk Hf.
  destruct (C07_verdict_flags _ _ _ _ _ _ HI H Hk) as (_ & Hl & He).
  split; [|apply He; exact Hf].
  destruct l; [|reflexivity]. destruct Hl as (Hl & _). rewrite (Hl eq_refl) in Hf. discriminate Hf.
Qed.

(* ------------------------------------------------------------------ *)
(* one statement for every line, and whole runs                        *)
(* ------------------------------------------------------------------ *)

Theorem C07_refines_line : forall s line s' l e,
  scan s line = Ok (s', l, e) ->
  control (s', l, e) = ref_line (st s) (kinds_at s line).
Proof.
  intros s line s' l e H. destruct (kinds_at s line) as [k|] eqn:Hk.
  - apply (C07_refines _ _ _ _ _ _ H Hk).
  - destruct (C07_unexamined _ _ Hk) as (H0 & Hd & _).
    rewrite H0 in H. injection H as <- <- <-.
    unfold control, ref_line. destruct (st s); try discriminate Hd; reflexivity.
Qed.

(* the control trace of scan over a list of lines *)
Fixpoint scan_trace (s : sstate) (lines : list bytes) : list (state * verdict) :=
  match lines with
  | [] => []
  | ln :: rest =>
      match scan s ln with
      | Ok (s', l, e) => control (s', l, e) :: scan_trace s' rest
      | Panic _ => []
      end
  end.

(* the automaton run along the scanner: the scanner supplies only the data the
   automaton does not track (indentation prefix, ids seen); the control state
   [a] is the automaton's own and is never resynchronised *)
Fixpoint ref_trace_along (s : sstate) (a : state) (lines : list bytes) : list (state * verdict) :=
  match lines with
  | [] => []
  | ln :: rest =>
      let r := ref_line a (kinds_of (in_dump a) (sprefix s) (List.map ID (goroutines s)) ln) in
      match scan s ln with
      | Ok (s', _, _) => r :: ref_trace_along s' (fst r) rest
      | Panic _ => []
      end
  end.

Theorem C07_refines_trace : forall lines s, Inv s ->
  scan_trace s lines = ref_trace_along s (st s) lines /\
  List.length (scan_trace s lines) = List.length lines.
Proof.
  induction lines as [|ln rest IH]; intros s HI; [split; reflexivity|].
  cbn [scan_trace ref_trace_along].
  destruct (scan_total s ln HI) as (s' & l & e & H & HI'). rewrite H.
  pose proof (C07_refines_line _ _ _ _ _ H) as Hc. unfold kinds_at in Hc. rewrite <- Hc.
  destruct (IH s' HI') as (IH1 & IH2).
  split.
  - f_equal. rewrite IH1. reflexivity.
  - cbn [List.length]. rewrite IH2. reflexivity.
Qed.
