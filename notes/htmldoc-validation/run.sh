#!/bin/sh
# usage: ./run.sh [number of random samples, default 60]
# Regenerates samples.v from main.go, evaluates the Coq model on every sample and
# compares it with the bytes produced by Go (comparison done inside Coq by first_diff).
set -e
export GOFLAGS=-mod=mod GOPROXY=off GOSUMDB=off GOTOOLCHAIN=local
cd /tmp/htmldoc
go build -o htmldoc .
./htmldoc gen "${1:-60}"
cd /verif/coq
# needs theories/Model/HtmlDoc.vo (coqc -Q theories PP theories/Model/HtmlDoc.v)
coqc -Q theories PP -Q /tmp/htmldoc HD /tmp/htmldoc/samples.v > /tmp/htmldoc/coq_out.txt 2>&1 || { tail -20 /tmp/htmldoc/coq_out.txt; exit 1; }
total=$(grep -c '^Eval vm_compute' /tmp/htmldoc/samples.v)
equal=$(grep -c 'string, None)' /tmp/htmldoc/coq_out.txt || true)
echo "samples: $total   equal: $equal"
if [ "$total" != "$equal" ]; then
  python3 /tmp/htmldoc/diff.py
  exit 1
fi
